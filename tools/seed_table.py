#!/usr/bin/env python3
"""Regenerate the seeded-changes table of DESIGN.md (§12) from /verif/seeded/*/meta.json."""
import glob
import json
import os
import re

VERIF = os.path.dirname(os.path.dirname(os.path.abspath(__file__)))


def first_line(readme):
    for l in readme.splitlines():
        l = l.strip().lstrip("#").strip()
        if l and not l.lower().startswith("mutant"):
            return l
    return ""


def main():
    rows = []
    for d in sorted(glob.glob(os.path.join(VERIF, "seeded", "*"))):
        mp = os.path.join(d, "meta.json")
        if not os.path.exists(mp):
            continue
        m = json.load(open(mp))
        patch = open(os.path.join(d, "patch.diff"), errors="replace").read()
        files = sorted(set(re.findall(r"^\+\+\+ b/(\S+)", patch, re.M)))
        hunk = re.search(r"^@@ [^@]*@@ ?(.*)$", patch, re.M)
        where = (hunk.group(1).strip()[:60] if hunk else "").replace("|", "/")
        res = []
        for r in m.get("ran", []):
            if r["caught"]:
                res.append("%s: caught%s" % (r["check"], "" if r["with_concrete_input"] else " (no-failing-input-found)"))
            else:
                res.append("%s: MISSED" % r["check"])
        needs = (m.get("needs_to_manifest") or "").replace("\n", " ").replace("|", "/")
        needs = re.sub(r"\s+", " ", needs)[:200]
        rows.append("| %s | %s | `%s` %s | %s | %s |" % (m["name"], m["breaks_property"], ", ".join(files), where, needs, "; ".join(res)))
    table = ["| seed | breaks | site | needs, to manifest | checks run (quick tier) |", "|---|---|---|---|---|"] + rows
    text = "\n".join(table)
    p = os.path.join(VERIF, "DESIGN.md")
    s = open(p).read()
    begin, end = "<!-- SEED-TABLE-BEGIN -->", "<!-- SEED-TABLE-END -->"
    if begin in s:
        s = s[:s.index(begin) + len(begin)] + "\n" + text + "\n" + s[s.index(end):]
        open(p, "w").write(s)
    print(text)


if __name__ == "__main__":
    main()
