#!/bin/bash
# tools/try_seed.sh <patch.diff> <property-id>... : apply a seeded change to a scratch copy of
# /repo, run the given checks against it (NEVER_REPO), print their VIOLATION lines and exit
# codes, remove the scratch copy.  (While other work uses /repo; the final confirmation applies
# the patch to /repo itself: git -C /repo apply … ; bin/check … ; git -C /repo checkout -- .)
set -uo pipefail
PATCH="$(readlink -f "$1")"; shift
VERIF="$(cd "$(dirname "$0")/.." && pwd)"
SCR="$(mktemp -d /var/tmp/nvseed.XXXXXX)"
trap 'rm -rf "$SCR"' EXIT
(cd /repo && tar --exclude=./_build --exclude=./.git -cf - .) | tar -xf - -C "$SCR"
(cd "$SCR" && git init -q . && { git apply --whitespace=nowarn "$PATCH" 2>/dev/null || patch -p1 --fuzz=3 --no-backup-if-mismatch < "$PATCH" >/dev/null; }) || { echo "PATCH DOES NOT APPLY"; exit 2; }
# a private copy of the framework: a run against a changed tree regenerates coq/Gen/*.v, rebuilds
# dependent .vo files and writes evidence/<id>.json — none of that may touch /verif, where other runs
# against /repo may be in progress.  Only the build cache (keyed by tree hash) is shared.
VCOPY="$SCR.verif"; mkdir -p "$VCOPY"
trap 'rm -rf "$SCR" "$VCOPY"' EXIT
rsync -a --exclude .git --exclude out --exclude .cache --exclude seeded "$VERIF/" "$VCOPY/"
ln -s "$VERIF/.cache" "$VCOPY/.cache"
cd "$VCOPY"
for id in "$@"; do
  start=$(date +%s)
  out="$(NEVER_REPO="$SCR" VERIF_TIER=${VERIF_TIER:-quick} timeout 1500 bin/check "$id" --tier ${VERIF_TIER:-quick} 2>&1)"; rc=$?
  mkdir -p "$VERIF/out/seedruns" && cp -r "$VCOPY/out/$id" "$VERIF/out/seedruns/$(basename "$PATCH" .diff)-$id-$$" 2>/dev/null || true
  echo "== $id rc=$rc wall=$(( $(date +%s) - start ))s"
  echo "$out" | grep -E "^(VIOLATION|KNOWN-FINDING|NOTE)" | cut -c1-400
done
