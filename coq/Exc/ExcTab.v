(* Model of the exception table (definitions only, executable).

   Mirrors back/exctab.c: exctab_between, exctab_search, exception_tab_new,
   exception_tab_insert, exception_tab_search.

   The table memory is the list of its entries (block_addr, handler_addr), *including* the
   sentinel (UINT_MAX, UINT_MAX) that exception_tab_new / exception_tab_insert keep at index
   `count`.  Addresses are `unsigned int` (compared as unsigned: plain Z comparison on values
   in [0, 2^32)); `from`, `to`, `middle` are `int`; `(to - from) / 2` is C division (Z.quot). *)
From Coq Require Import ZArith List Bool.
Import ListNotations.
Local Open Scope Z_scope.

Definition entry := (Z * Z)%type.
Definition UINT_MAX : Z := 4294967295.
Definition sentinel : entry := (UINT_MAX, UINT_MAX).

Definition ent (tab : list entry) (i : Z) : entry := nth (Z.to_nat i) tab sentinel.
Definition blk (tab : list entry) (i : Z) : Z := fst (ent tab i).
Definition hnd (tab : list entry) (i : Z) : Z := snd (ent tab i).

(* int exctab_between(first, second, except_ip) *)
Definition exctab_between (first second : entry) (ip : Z) : Z :=
  if ip <? fst first then -1
  else if fst second <=? ip then 1
  else 0.

Inductive found :=
| Found (i : Z)        (* pointer tab + i returned *)
| NotFound             (* NULL returned *)
| OutOfFuel.           (* model artefact; excluded by ExcTabProofs.search_fuel *)

(* while (from <= to) { middle = from + (to - from) / 2; cmp = between(tab+middle, tab+middle+1, ip);
     if (cmp < 0) to = middle - 1; else if (cmp > 0) from = middle + 1; else { found; break; } } *)
Fixpoint search_loop (fuel : nat) (tab : list entry) (from to ip : Z) : found :=
  match fuel with
  | O => if from <=? to then OutOfFuel else NotFound
  | S k =>
      if from <=? to then
        let middle := from + Z.quot (to - from) 2 in
        let cmp := exctab_between (ent tab middle) (ent tab (middle + 1)) ip in
        if cmp <? 0 then search_loop k tab from (middle - 1) ip
        else if 0 <? cmp then search_loop k tab (middle + 1) to ip
        else Found middle
      else NotFound
  end.

(* exctab_entry * exctab_search(tab, tab_len, except_ip); tab = None is the NULL pointer *)
Definition exctab_search (tab : option (list entry)) (tab_len ip : Z) : found :=
  match tab with
  | None => NotFound
  | Some t =>
      if tab_len =? 0 then NotFound
      else search_loop (Z.to_nat tab_len) t 0 (tab_len - 1) ip
  end.

(* the exctab object: count + memory (size/realloc is not modelled: the memory is a list) *)
Record exctab := { et_count : Z; et_tab : list entry }.

Definition exception_tab_new : exctab := {| et_count := 0; et_tab := [sentinel] |}.

(* tab[count] = (block, handler); tab[count+1] = sentinel; count++ *)
Definition exception_tab_insert (t : exctab) (block handler : Z) : exctab :=
  {| et_count := et_count t + 1;
     et_tab := firstn (Z.to_nat (et_count t)) (et_tab t) ++ [(block, handler); sentinel] |}.

(* unsigned int exception_tab_search(value, except_ip): handler address; None = the C
   function would fail `assert(res != NULL)` *)
Definition exception_tab_search (t : exctab) (ip : Z) : option Z :=
  match exctab_search (Some (et_tab t)) (et_count t) ip with
  | Found i => Some (hnd (et_tab t) i)
  | _ => None
  end.

(* building a table from a list of (block, handler) pairs, as the emitter does *)
Definition exctab_of_list (l : list entry) : exctab :=
  fold_left (fun t e => exception_tab_insert t (fst e) (snd e)) l exception_tab_new.
