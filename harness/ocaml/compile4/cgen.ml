(* cgen — random generator of programs of the compiled core fragment (Src/Compile.v: in_F1 …):
   one function `main` with int parameters (some declared `var`), body = a block of let / var /
   expression items over int and bool expressions.  Well-typed for front/typecheck.c including
   the const/var discipline (`var x = e` needs e not CONST, `x = e` needs x VAR), and in normal
   form for front/constred.c (no operator with only literal operands), so that the real emitter
   and the model `compile_func` are comparable instruction by instruction.

   level 1: straight-line (F1).   level 2 adds loops, && ||, print.   level 3 adds calls.   level 5 adds
   catch clauses.
   level 4 (this copy, engine compile4 = Src/Compile4.v + VM/ValueVM4.v): level 5 + nested functions and
   closures — runs of adjacent function items, function expressions, captured parameters / let / var
   (assigned through the capture: counters shared between closures) / nested functions at any depth,
   function values bound, passed to higher-order functions, returned by makers and called after the
   definer returned, callee expressions that are calls or conditionals, nested functions that call
   themselves (also in tail position) or each other, catch clauses in nested functions.  All bound names
   are fresh (no shadowing), the right-hand side of an assignment is int_shaped, the name of a named
   nested function is not used inside functions nested in it (Src/Compile4.v prog_in_F4).  Every function
   value has a cost bound by its type (fbound) so that generated programs terminate quickly. *)
open Compilemodel
open Conv

type k = KC | KV | KT

type vi = { n : int; t : ty; var : bool; ctr : bool; cost : int }

(* a callable top-level function: name, which parameters are `var`, for the recursion templates the
   largest first argument a caller may pass, estimated cost of one call *)
type finfo = { fn : int; fvars : bool list; measure : int option; cost : int; fty : ty }

type st = { rng : Rng.t; mutable next : int; level : int; mutable fuelv : int;
            mutable funs : finfo list;      (* functions the code under construction may call *)
            mutable acc : int;              (* estimated cost of the body under construction *)
            mutable mult : int;             (* loop nesting multiplier *)
            mutable limit : int;            (* cost limit of the body under construction *)
            mutable clf : int }             (* closures still to be created (level 4) *)

(* level 7 = level 4 + one-dimensional int arrays *)
let l4 st = st.level = 4 || st.level >= 7      (* level 8 = level 7 + records *)

let ei k = EInt (z_of_int k)
let ev v = EVar (n_of_int v.n)

let fresh st = let k = st.next in st.next <- k + 1; k

let is_lit = function EInt _ | EBool _ -> true | _ -> false

let small_int st =
  match Rng.int st.rng 10 with
  | 0 -> 0 | 1 -> 1 | 2 -> -1 | 3 -> Rng.range st.rng 2 9
  | 4 -> Rng.range st.rng (-100) 100
  | 5 -> Rng.pick st.rng [2147483647; -2147483648; 2147483646; -2147483647; 65536; 46341; 32768]
  | _ -> Rng.range st.rng (-20) 20

let bind env x t var = { n = x; t; var; ctr = false; cost = 0 } :: List.filter (fun v -> v.n <> x) env

(* loop counters are not values: they are read only as operands of arithmetic / comparisons (so that
   no alias of the counter's cell exists and the loops terminate) *)
let vars_of env t = List.filter (fun v -> v.t = t && not v.ctr) env
let ctrs_of env = List.filter (fun v -> v.ctr) env

(* kind of an expression for the const/var discipline *)
let rec kind env e =
  match e with
  | EVar x -> (match List.find_opt (fun v -> v.n = int_of_n x) env with
      | Some v -> if v.var then KV else KC | None -> KC)
  | EBlock items -> kind_items env items
  | EAssign (_, r) -> kind env r
  | EIndex (a, _) -> kind env a
  | EField (a, _, _) -> kind env a
  | EWhile _ | EDoWhile _ | EPrint _ | ECall _ -> KC
  | _ -> KT
and kind_items env = function
  | [] -> KT
  | [IExpr e] -> kind env e
  | (ILet (x, _)) :: t -> kind_items ({ n = int_of_n x; t = TInt; var = false; ctr = false; cost = 0 } :: env) t
  | (IVar (x, _)) :: t -> kind_items ({ n = int_of_n x; t = TInt; var = true; ctr = false; cost = 0 } :: env) t
  | _ :: t -> kind_items env t


(* level 4: the right-hand side of an assignment is int_shaped (Src/Compile4.v) *)
let shape st e =
  if not (l4 st) || int_shaped e then e
  else match e with
    | EVar _ | ECall _ | ECond _ | EBlock _ | EIndex _ | EField _ -> EBin (Add, e, EInt Z0)
    | _ -> e

let shape_bool st e =
  if not (l4 st) || int_shaped e then e else ENot (ENot e)

(* level 8: the right operand of == / != is int_shaped (fragment of compile_program_correct_F8) *)
let eqne = function Eq0 | Ne -> true | _ -> false
(* levels 7, 8: assigned names are bound by var x = <int_shaped> (fragment of compile_program_correct_F7 / F8) *)
let shape7 st bt e = if st.level >= 7 then (if bt = TBool then shape_bool st e else shape st e) else e
(* an array element / record field: int_shaped, or (a quarter) an int var in scope, whose cell is then shared *)
let gen_elem st (env : vi list) (mk : unit -> expr) : expr =
  let vs = List.filter (fun (v : vi) -> v.t = TInt && v.var && not v.ctr) env in
  if vs <> [] && Rng.pct st.rng 25 then ev (Rng.pick st.rng vs) else mk ()
let shape8 st op e = if st.level >= 8 && eqne op then shape st e else e
let shape_bool8 st e = if st.level >= 8 then shape_bool st e else e

let is_fun_ty = function TFun _ -> true | _ -> false

(* order of a function type; a value of function type t costs at most fbound t per application *)
let rec ford t =
  match t with
  | TFun (args, r) ->
    List.fold_left (fun m a -> if is_fun_ty a then max m (1 + ford a) else m)
      (if is_fun_ty r then 1 + ford r else 0) args
  | _ -> 0
let fbound t = match ford t with 0 -> 12 | 1 -> 170 | _ -> 2400

let t_ii = TFun ([TInt], TInt)
let t_iii = TFun ([TInt; TInt], TInt)
let t_hof = TFun ([t_ii; TInt], TInt)
let t_mk = TFun ([TInt], t_ii)
let t_mk2 = TFun ([t_ii], t_ii)
let t_u = TFun ([], TInt)

let arrs_of (env : vi list) = List.filter (fun (v : vi) -> v.t = TArr TInt) env

(* an index of array v: mostly a literal in bounds, sometimes 0/1 computed, rarely out of bounds *)
let gen_index st (v : vi) (env : vi list) : expr =
  let n = v.cost in
  let vs = vars_of env TInt in
  match Rng.int st.rng 20 with
  | 0 -> ei n
  | 1 -> ei (-1)
  | 2 | 3 | 4 when vs <> [] -> EBin (BAnd, ev (Rng.pick st.rng vs), ei (if n >= 2 then 1 else 0))
  | _ -> ei (Rng.int st.rng n)

let inb_index st (v : vi) = ei (Rng.int st.rng v.cost)

(* level 8: two record types with int fields; a variable bound to a record has cost = number of fields,
   bound to nil: cost = - number of fields *)
let rec_types = [ (1, 2); (2, 3) ]
let recs_of (env : vi list) = List.filter (fun (v : vi) -> match v.t with TRec _ -> true | _ -> false) env
let rec_id (v : vi) = match v.t with TRec r -> r | _ -> assert false
let gen_field st (v : vi) : expr =
  let nf = abs v.cost in EField (ev v, rec_id v, nat_of_int (Rng.int st.rng nf))

let rec gen_int st env d : expr =
  let vs = vars_of env TInt in
  let leaf () =
    if vs <> [] && Rng.pct st.rng 60 then ev (Rng.pick st.rng vs) else ei (small_int st) in
  if d <= 0 then leaf ()
  else
    let sub () = gen_int st env (d - 1) in
    let nonlit () = let e = sub () in if is_lit e then ev (Rng.pick st.rng vs) else e in
    let pair () =
      let a = sub () in let b = sub () in
      if is_lit a && is_lit b then (if Rng.bool st.rng then (ev (Rng.pick st.rng vs), b) else (a, ev (Rng.pick st.rng vs)))
      else (a, b) in
    Rng.weighted st.rng [
      18, (fun () -> leaf ());
      30, (fun () -> let a, b = pair () in EBin (Rng.pick st.rng [Add; Sub; Mul; Add; Sub], a, b));
      (if ctrs_of env <> [] then 10 else 0), (fun () ->
          EBin (Rng.pick st.rng [Add; Sub; Mul; BXor], ev (Rng.pick st.rng (ctrs_of env)), sub ()));
      10, (fun () ->
          let a = sub () in
          let b = if Rng.pct st.rng 12 then (if Rng.bool st.rng then ei 0 else EBin (Sub, ev (Rng.pick st.rng vs), ev (Rng.pick st.rng vs)))
            else if Rng.pct st.rng 50 then ei (Rng.pick st.rng [1; 2; 3; -1; 7; -2; 10]) else sub () in
          let a = if is_lit a && is_lit b then ev (Rng.pick st.rng vs) else a in
          EBin (Rng.pick st.rng [Div; Mod], a, b));
      8, (fun () -> let a, b = pair () in EBin (Rng.pick st.rng [BAnd; BOr; BXor], a, b));
      5, (fun () -> EBin (Rng.pick st.rng [Shl; Shr], nonlit (), ei (Rng.int st.rng 32)));
      6, (fun () -> ENeg (nonlit ()));
      9, (fun () -> ECond (gen_bool st env (d - 1), sub (), sub ()));
      4, (fun () -> ECond (gen_bool st env (d - 1), EBlock (gen_block st env TInt (d - 1) (Rng.int st.rng 3)),
                           EBlock (gen_block st env TInt (d - 1) (Rng.int st.rng 2))));
      5, (fun () -> EBlock (gen_block st env TInt (d - 1) (1 + Rng.int st.rng 2)));
      (if List.exists (fun v -> v.var) vs then 6 else 0), (fun () ->
          let v = Rng.pick st.rng (List.filter (fun v -> v.var) vs) in EAssign (ev v, shape st (sub ())));
      (if st.level >= 2 then 4 else 0), (fun () -> EPrint (sub ()));
      (if st.level >= 7 && arrs_of env <> [] then 22 else 0), (fun () ->
          let v = Rng.pick st.rng (arrs_of env) in EIndex (ev v, gen_index st v env));
      (if st.level >= 7 && List.exists (fun v -> v.var) (arrs_of env) then 7 else 0), (fun () ->
          let v = Rng.pick st.rng (List.filter (fun v -> v.var) (arrs_of env)) in
          EAssign (EIndex (ev v, inb_index st v), shape st (sub ())));
      (if st.level >= 8 && recs_of env <> [] then 18 else 0), (fun () -> gen_field st (Rng.pick st.rng (recs_of env)));
      (if st.level >= 8 && List.exists (fun (v : vi) -> v.var && v.cost > 0) (recs_of env) then 6 else 0), (fun () ->
          let v = Rng.pick st.rng (List.filter (fun (v : vi) -> v.var && v.cost > 0) (recs_of env)) in
          EAssign (gen_field st v, shape st (sub ())));
      (if st.level >= 2 && d >= 2 && st.fuelv > 0 then 5 else 0), (fun () -> gen_loop st env (d - 1));
      (if callable st <> [] then 16 else 0), (fun () -> gen_call st env (d - 1));
      (if l4 st && fcands st env TInt <> [] then 24 else 0), (fun () -> gen_fcall st env (d - 1) TInt);
      (if l4 st && st.clf > 0 then 9 else 0), (fun () -> EBlock (gen_funblock st env (d - 1) TInt));
      (if l4 st && st.clf > 0 then 3 else 0), (fun () -> gen_lamcall st env (d - 1) TInt);
    ] ()

(* a call of a function defined so far: arguments are int expressions (sometimes printing, which
   shows the evaluation order), a `var` parameter gets a var name or a non-CONST expression, the
   measure of a recursion template a bounded non-negative number *)
and callable st = List.filter (fun f -> st.acc + st.mult * f.cost <= st.limit
                                        && (match f.fty with TFun (a, TInt) -> List.for_all (fun t -> t = TInt) a | _ -> false)) st.funs

and gen_call st env d : expr =
  let f = Rng.pick st.rng (callable st) in
  st.acc <- st.acc + st.mult * f.cost;
  let vs = vars_of env TInt in
  let arg i isvar =
    match f.measure, i with
    | Some m, 0 ->
      if Rng.pct st.rng 60 then ei (Rng.range st.rng 0 m)
      else EBin (Mod, (if vs <> [] then ev (Rng.pick st.rng vs) else ei 7), ei (max 1 (min m 50)))
    | _ ->
      if isvar then begin
        let vv = List.filter (fun v -> v.var) vs in
        if vv <> [] && Rng.pct st.rng 70 then ev (Rng.pick st.rng vv)
        else (let e = gen_int st env d in if kind env e = KC then EBin (Add, e, ei 0) else e)
      end
      else if st.level >= 2 && Rng.pct st.rng 15 then EPrint (gen_int st env d)
      else gen_int st env d in
  (* arguments are generated last to first, the order they are evaluated in *)
  let n = List.length f.fvars in
  let args = Array.make n (ei 0) in
  for i = n - 1 downto 0 do args.(i) <- arg i (List.nth f.fvars i) done;
  ECall (EVar (n_of_int f.fn), Array.to_list args)


(* ---- level 4: closures ---------------------------------------------------------------------- *)

(* callees of result type r: names in scope and top-level functions (without a measure and without
   var parameters), with the cost of one application *)
and fcands st env r =
  let ok c = st.acc + st.mult * c <= st.limit in
  List.filter_map (fun v -> match v.t with
      | TFun (a, r') when r' = r && not v.ctr && ok (fbound v.t) -> Some (EVar (n_of_int v.n), a, fbound v.t)
      | TFun (a, TFun (b, r')) when r' = r && not v.ctr && ok (fbound v.t + fbound (TFun (b, r'))) && false -> None
      | _ -> None) env
  @ List.filter_map (fun f -> match f.fty, f.measure with
      | TFun (a, r'), None when r' = r && ok f.cost && not (List.exists (fun b -> b) f.fvars)
                                && not (List.for_all (fun t -> t = TInt) a && r = TInt) ->
        Some (EVar (n_of_int f.fn), a, f.cost)
      | _ -> None) st.funs

and gen_args st env d targs =
  let n = List.length targs in
  let args = Array.make n (ei 0) in
  for i = n - 1 downto 0 do
    args.(i) <- (match List.nth targs i with
        | TInt -> if Rng.pct st.rng 12 then EPrint (gen_int st env d) else gen_int st env d
        | TBool -> gen_boolv st env d
        | t -> gen_fun_value st env d t)
  done;
  Array.to_list args

and gen_fcall st env d r : expr =
  let (callee, targs, cost) = Rng.pick st.rng (fcands st env r) in
  st.acc <- st.acc + st.mult * cost;
  (* sometimes the callee is a conditional between two names of the same type *)
  let callee =
    match callee with
    | EVar x when Rng.pct st.rng 8 ->
      let same = List.filter (fun (_, a, c) -> a = targs && c <= cost) (fcands st env r) in
      (match same with
       | (c2, _, _) :: _ when c2 <> callee -> ECond (gen_bool st env 0, callee, c2)
       | _ -> callee)
    | _ -> callee in
  ECall (callee, gen_args st env d targs)

(* a function definition of type t = TFun (targs, tret) in scope env (everything in env is captured) *)
and gen_fdef st env d t name : fdef =
  match t with
  | TFun (targs, tret) ->
    let params = List.map (fun ty -> (fresh st, ty)) targs in
    let penv = List.rev_map (fun (x, ty) -> { n = x; t = ty; var = false; ctr = false; cost = 0 }) params in
    let s_acc = st.acc and s_lim = st.limit and s_mult = st.mult and s_fuel = st.fuelv in
    st.acc <- 1; st.mult <- 1; st.limit <- fbound t; st.fuelv <- (if Rng.pct st.rng 15 then 1 else 0);
    st.clf <- st.clf - 1;
    let env' = penv @ env in
    let cenv = env' in
    (* an int name is always in scope *)
    let z0, env' =
      if vars_of env' TInt <> [] then ([], env')
      else (let z = fresh st in ([ILet (n_of_int z, ei (Rng.range st.rng 1 9))], { n = z; t = TInt; var = false; ctr = false; cost = 0 } :: env')) in
    let body = z0 @ gen_block st env' tret (min d 2) (Rng.int st.rng 3) in
    let catches =
      if tret = TInt && vars_of cenv TInt <> [] && Rng.pct st.rng 22 then begin
        let sf = st.fuelv in
        st.fuelv <- 0;
        let cb () = gen_block st cenv TInt 1 (Rng.range st.rng 0 1) in
        let r = if Rng.bool st.rng then ([(ExDivision, cb ())], None)
          else if Rng.bool st.rng then ([], Some (cb ()))
          else ([(Rng.pick st.rng [ExIndexOob; ExDivision], cb ())], Some (cb ())) in
        st.fuelv <- sf; r
      end else ([], None) in
    st.acc <- s_acc; st.limit <- s_lim; st.mult <- s_mult; st.fuelv <- s_fuel;
    FDef (n_of_int name, List.map (fun (x, ty) -> ((n_of_int x, false), ty)) params, tret, body,
          fst catches, snd catches)
  | _ -> failwith "gen_fdef"

(* an expression of function type t *)
and gen_fun_value st env d t : expr =
  let vars = List.filter (fun v -> v.t = t && not v.ctr) env in
  let tops = List.filter (fun f -> f.fty = t && f.measure = None && f.cost <= fbound t
                                   && not (List.exists (fun b -> b) f.fvars)) st.funs in
  let makers = match t with
    | TFun _ -> List.filter_map (fun v -> match v.t with
        | TFun (a, r) when r = t && not v.ctr && st.acc + st.mult * fbound v.t <= st.limit -> Some (EVar (n_of_int v.n), a, fbound v.t)
        | _ -> None) env
      @ List.filter_map (fun f -> match f.fty, f.measure with
          | TFun (a, r), None when r = t && st.acc + st.mult * f.cost <= st.limit
                                  && not (List.exists (fun b -> b) f.fvars) -> Some (EVar (n_of_int f.fn), a, f.cost)
          | _ -> None) st.funs
    | _ -> [] in
  Rng.weighted st.rng [
    (if vars <> [] then 40 else 0), (fun () -> ev (Rng.pick st.rng vars));
    (if tops <> [] then 25 else 0), (fun () -> EVar (n_of_int (Rng.pick st.rng tops).fn));
    (if makers <> [] then 25 else 0), (fun () ->
        let (c, a, cost) = Rng.pick st.rng makers in
        st.acc <- st.acc + st.mult * cost;
        ECall (c, gen_args st env d a));
    (if st.clf > 0 || (vars = [] && tops = []) then 30 else 1), (fun () -> ELambda (gen_fdef st env d t (fresh st)));
    (if st.clf > 0 then 12 else 0), (fun () ->
        let g = fresh st in
        let fd = gen_fdef st env d t g in
        EBlock [IFunc fd; IExpr (EVar (n_of_int g))]);
  ] ()

and gen_lamcall st env d r : expr =
  let t = Rng.pick st.rng [TFun ([TInt], r); TFun ([TInt; TInt], r); TFun ([], r)] in
  let fd = gen_fdef st env d t (fresh st) in
  st.acc <- st.acc + st.mult * fbound t;
  (match t with TFun (a, _) -> ECall (ELambda fd, gen_args st env d a) | _ -> assert false)

(* a block: [state], a run of adjacent nested functions, items using them, a final value of type r.
   Function i of the run may CALL the functions before it; recursion comes from the templates
   (a nested function calling itself — COPYGLOB, also in tail position — and a mutually recursive
   pair — the later sibling is captured before its slot is filled) *)
and gen_funblock st env d r : item list =
  let pre =
    if Rng.pct st.rng 70 then begin
      let x = fresh st in
      let e = gen_int st env (min d 1) in
      let isvar = kind env e <> KC && Rng.pct st.rng 80 in
      [((if isvar then IVar (n_of_int x, shape7 st TInt e) else ILet (n_of_int x, e)), { n = x; t = TInt; var = isvar; ctr = false; cost = 0 })]
    end else [] in
  let env0 = List.map snd pre @ env in
  let run, env1, post =
    Rng.weighted st.rng [
      60, (fun () ->
          let k = Rng.weighted st.rng [50, 1; 35, 2; 15, 3] in
          let rec go i env acc =
            if i >= k then (List.rev acc, env)
            else begin
              let t = Rng.weighted st.rng [45, t_ii; 20, t_iii; 10, t_u; 10, t_hof; 10, t_mk; 5, t_mk2] in
              let g = fresh st in
              let fd = gen_fdef st env d t g in
              go (i + 1) ({ n = g; t; var = false; ctr = false; cost = 0 } :: env) (IFunc fd :: acc)
            end in
          let items, env' = go 0 env0 [] in
          (items, env', []));
      20, (fun () -> gen_nested_rec st env0);
      20, (fun () -> gen_mutual st env0);
    ] () in
  List.map fst pre @ run @ post @ gen_block st env1 r d (Rng.range st.rng 0 3)

(* func f(n, a) { (n <= 0) ? base : comb(f(n - 1, a')) } over captured names; sometimes the self call is
   in tail position; used at once with a small first argument, not a value *)
and gen_nested_rec st env =
  let f = fresh st and n = fresh st and a = fresh st in
  let nv = { n; t = TInt; var = false; ctr = true; cost = 0 } in
  let av = { n = a; t = TInt; var = false; ctr = false; cost = 0 } in
  let s_acc = st.acc and s_lim = st.limit and s_mult = st.mult and s_fuel = st.fuelv and s_clf = st.clf in
  st.acc <- 1; st.mult <- 1; st.limit <- 14; st.fuelv <- 0; st.clf <- 0;
  let env' = nv :: av :: env in
  let small () = gen_int st env' 1 in
  let cond = EBin (Le, EVar (n_of_int n), ei 0) in
  let tailp = Rng.pct st.rng 45 in
  (* sometimes the recursion goes through a helper h nested in f that mentions f: a named function or a
     function expression bound to a let; the closure maker captures f by COPYGLOB; ID_FUNC_ADDR f *)
  let viah = if tailp then 0 else (match Rng.int st.rng 5 with 0 -> 1 | 1 -> 2 | _ -> 0) in
  let h = if viah > 0 then fresh st else 0 in
  let m = if viah > 0 then fresh st else 0 in
  let k = if viah = 2 then fresh st else 0 in
  let helper () =
    let second = if Rng.bool st.rng then EVar (n_of_int a) else EBin (Add, EVar (n_of_int a), EVar (n_of_int m)) in
    let call = ECall (EVar (n_of_int f), [EBin (Sub, EVar (n_of_int m), ei 1); second]) in
    let hbody = if Rng.bool st.rng then call else EBin (Add, call, EVar (n_of_int n)) in
    FDef (n_of_int h, [((n_of_int m, false), TInt)], TInt, [IExpr hbody], [], None) in
  let pre_items =
    match viah with
    | 1 -> [IFunc (helper ())]
    | 2 -> [ILet (n_of_int k, ELambda (helper ()))]
    | _ -> [] in
  let self () =
    match viah with
    | 1 -> ECall (EVar (n_of_int h), [EVar (n_of_int n)])
    | 2 -> ECall (EVar (n_of_int k), [EVar (n_of_int n)])
    | _ -> ECall (EVar (n_of_int f), [EBin (Sub, EVar (n_of_int n), ei 1); small ()]) in
  let step =
    if tailp then
      (match Rng.int st.rng 3 with
       | 0 -> self ()
       | 1 -> EBlock [IExpr (EPrint (EVar (n_of_int a))); IExpr (self ())]
       | _ -> let t = fresh st in
         EBlock [ILet (n_of_int t, small ());
                 IExpr (ECall (EVar (n_of_int f), [EBin (Sub, EVar (n_of_int n), ei 1); EBin (Add, EVar (n_of_int t), EVar (n_of_int a))]))])
    else
      (match Rng.int st.rng 3 with
       | 0 -> EBin (Rng.pick st.rng [Add; Sub; BXor], EVar (n_of_int n), self ())
       | 1 -> EBin (Add, self (), small ())
       | _ -> EBin (Rng.pick st.rng [Div; Mod], small (), EBin (Add, self (), ei (Rng.range st.rng 0 2)))) in
  let base = small () in
  let body = pre_items @ [IExpr (ECond (cond, base, step))] in
  let cost = (if viah > 0 then 16 else 8) * st.acc in
  let catches = if (not tailp) && Rng.pct st.rng 30 then ([(ExDivision, [IExpr (gen_int st (av :: env) 1)])], None) else ([], None) in
  st.acc <- s_acc; st.limit <- s_lim; st.mult <- s_mult; st.fuelv <- s_fuel; st.clf <- s_clf - 1;
  let fd = FDef (n_of_int f, [((n_of_int n, false), TInt); ((n_of_int a, false), TInt)], TInt, body, fst catches, snd catches) in
  let r = fresh st in
  st.acc <- st.acc + st.mult * cost;
  let use = ILet (n_of_int r, ECall (EVar (n_of_int f), [ei (Rng.range st.rng 0 6); gen_int st env 1])) in
  ([IFunc fd], { n = r; t = TInt; var = false; ctr = false; cost = 0 } :: env, [use])

(* func ev(n) { n <= 0 ? b1 : od(n - 1) op x }; func od(n) { n <= 0 ? b2 : ev(n - 1) op y } *)
and gen_mutual st env =
  let e = fresh st and o = fresh st in
  let s_acc = st.acc and s_lim = st.limit and s_mult = st.mult and s_fuel = st.fuelv and s_clf = st.clf in
  st.acc <- 1; st.mult <- 1; st.limit <- 12; st.fuelv <- 0; st.clf <- 0;
  let mk self other =
    let n = fresh st in
    let nv = { n; t = TInt; var = false; ctr = true; cost = 0 } in
    let env' = nv :: env in
    let call = ECall (EVar (n_of_int other), [EBin (Sub, EVar (n_of_int n), ei 1)]) in
    let step = if Rng.bool st.rng then call else EBin (Rng.pick st.rng [Add; Sub; Mul], call, gen_int st env' 1) in
    FDef (n_of_int self, [((n_of_int n, false), TInt)], TInt,
          [IExpr (ECond (EBin (Le, EVar (n_of_int n), ei 0), gen_int st env' 1, step))], [], None) in
  let fe = mk e o in
  let fo = mk o e in
  let cost = 8 * st.acc in
  st.acc <- s_acc; st.limit <- s_lim; st.mult <- s_mult; st.fuelv <- s_fuel; st.clf <- s_clf - 2;
  st.acc <- st.acc + st.mult * cost;
  let r = fresh st in
  let use = ILet (n_of_int r, ECall (EVar (n_of_int (if Rng.bool st.rng then e else o)), [ei (Rng.range st.rng 0 6)])) in
  ([IFunc fe; IFunc fo], { n = r; t = TInt; var = false; ctr = false; cost = 0 } :: env, [use])

(* never a literal at the top (conditions and operands of ! must not be foldable) *)
and gen_bool st env d : expr =
  let vi = vars_of env TInt in
  let vb = vars_of env TBool in
  let cmp () =
    let a = gen_int st env (d - 1) in let b = gen_int st env (d - 1) in
    let a = if is_lit a && is_lit b then ev (Rng.pick st.rng vi) else a in
    let op = Rng.pick st.rng [Lt0; Le; Gt0; Ge; Eq0; Ne] in EBin (op, a, shape8 st op b) in
  if d <= 0 then (if vb <> [] && Rng.bool st.rng then ev (Rng.pick st.rng vb) else cmp ())
  else
    Rng.weighted st.rng [
      40, (fun () -> cmp ());
      (if ctrs_of env <> [] then 8 else 0), (fun () ->
          let b = gen_int st env (d - 1) in let a = ev (Rng.pick st.rng (ctrs_of env)) in
          let op = Rng.pick st.rng [Lt0; Le; Gt0; Ge; Eq0; Ne] in EBin (op, a, shape8 st op b));
      (if vb <> [] then 15 else 0), (fun () -> ev (Rng.pick st.rng vb));
      10, (fun () -> ENot (gen_bool st env (d - 1)));
      6, (fun () ->
          let a = gen_bool st env (d - 1) in
          let b = if Rng.pct st.rng 30 then EBool (Rng.bool st.rng) else gen_bool st env (d - 1) in
          if Rng.bool st.rng then EBin (Rng.pick st.rng [Eq0; Ne], a, shape_bool8 st b) else EBin (Rng.pick st.rng [Eq0; Ne], b, shape_bool8 st a));
      6, (fun () -> ECond (gen_bool st env (d - 1), gen_boolv st env (d - 1), gen_boolv st env (d - 1)));
      (if List.exists (fun v -> v.var) vb then 5 else 0), (fun () ->
          let v = Rng.pick st.rng (List.filter (fun v -> v.var) vb) in EAssign (ev v, shape_bool st (gen_boolv st env (d - 1))));
      3, (fun () -> EBlock (gen_block st env TBool (d - 1) (1 + Rng.int st.rng 2)));
      (if st.level >= 2 then 14 else 0), (fun () ->
          let a = gen_bool st env (d - 1) in
          let b = gen_bool st env (d - 1) in
          EBin (Rng.pick st.rng [And; Or], a, b));
    ] ()

(* a bool value, possibly a literal *)
and gen_boolv st env d = if Rng.pct st.rng 25 then EBool (Rng.bool st.rng) else gen_bool st env d

and gen_ty st env d t = match t with TBool -> gen_boolv st env d | TFun _ -> gen_fun_value st env d t | _ -> gen_int st env d

(* n items followed by a final expression of type t; names bound in this block are fresh, or
   (sometimes) shadow a name of an enclosing block *)
and gen_block st env t d n : item list =
  let outer = List.map (fun v -> v.n) env in
  let rec go env bound i =
    if i >= n then [IExpr (gen_ty st env d t)]
    else
      let bt = if Rng.pct st.rng 20 then TBool else TInt in
      (* shadowing keeps the type of the hidden name, so that an int name always stays in scope *)
      let name () =
        let cands = List.filter (fun x -> not (List.mem x bound)
                                          && List.exists (fun v -> v.n = x && v.t = bt && not v.ctr) env) outer in
        if not (l4 st) && cands <> [] && Rng.pct st.rng 12 then Rng.pick st.rng cands else fresh st in
      Rng.weighted st.rng [
        30, (fun () ->
            let e = gen_ty st env d bt in
            let x = name () in
            ILet (n_of_int x, e) :: go (bind env x bt false) (x :: bound) (i + 1));
        35, (fun () ->
            let e = gen_ty st env d bt in
            let x = name () in
            if kind env e = KC then ILet (n_of_int x, e) :: go (bind env x bt false) (x :: bound) (i + 1)
            else IVar (n_of_int x, shape7 st bt e) :: go (bind env x bt true) (x :: bound) (i + 1));
        25, (fun () ->
            let vs = List.filter (fun v -> v.var && (v.t = TInt || v.t = TBool)) env in
            let e =
              if vs <> [] && Rng.pct st.rng 75 then
                let v = Rng.pick st.rng vs in EAssign (ev v, (if v.t = TBool then shape_bool st else shape st) (gen_ty st env d v.t))
              else gen_ty st env d (if Rng.pct st.rng 20 then TBool else TInt) in
            IExpr e :: go env bound (i + 1));
        (if st.level >= 2 then 8 else 0), (fun () -> IExpr (EPrint (gen_int st env d)) :: go env bound (i + 1));
        (if st.level >= 7 then 16 else 0), (fun () ->
            let n = Rng.range st.rng 1 4 in
            let es = List.init n (fun _ -> gen_elem st env (fun () -> shape st (gen_int st env (min d 1)))) in
            let x = fresh st in
            let isvar = Rng.pct st.rng 70 in
            let it = if isvar then IVar (n_of_int x, EArrLit (es, TInt)) else ILet (n_of_int x, EArrLit (es, TInt)) in
            it :: go ({ n = x; t = TArr TInt; var = isvar; ctr = false; cost = n } :: env) (x :: bound) (i + 1));
        (if st.level >= 8 then 14 else 0), (fun () ->
            let (r, nf) = Rng.pick st.rng rec_types in
            let x = fresh st in
            let isvar = Rng.pct st.rng 70 in
            let isnil = Rng.pct st.rng 8 in
            let e = if isnil then ERecNil (n_of_int r)
              else ERecNew (n_of_int r, List.init nf (fun _ -> gen_elem st env (fun () -> shape st (gen_int st env (min d 1))))) in
            let it = if isvar then IVar (n_of_int x, e) else ILet (n_of_int x, e) in
            it :: go ({ n = x; t = TRec (n_of_int r); var = isvar; ctr = false; cost = (if isnil then - nf else nf) } :: env) (x :: bound) (i + 1));
        (if st.level >= 8 && List.exists (fun (v : vi) -> v.var && v.cost > 0) (recs_of env) then 8 else 0), (fun () ->
            let v = Rng.pick st.rng (List.filter (fun (v : vi) -> v.var && v.cost > 0) (recs_of env)) in
            IExpr (EAssign (gen_field st v, shape st (gen_int st env d))) :: go env bound (i + 1));
        (if st.level >= 7 && List.exists (fun v -> v.var) (arrs_of env) then 10 else 0), (fun () ->
            let v = Rng.pick st.rng (List.filter (fun v -> v.var) (arrs_of env)) in
            IExpr (EAssign (EIndex (ev v, gen_index st v env), shape st (gen_int st env d))) :: go env bound (i + 1));
        (if l4 st && (st.clf > 0 || List.exists (fun v -> is_fun_ty v.t) env) then 12 else 0), (fun () ->
            let ft = Rng.weighted st.rng [50, t_ii; 20, t_iii; 10, t_u; 10, t_mk; 10, t_hof] in
            let e = gen_fun_value st env d ft in
            let x = fresh st in
            ILet (n_of_int x, e) :: go ({ n = x; t = ft; var = false; ctr = false; cost = 0 } :: env) (x :: bound) (i + 1));
        (if st.level >= 2 && st.fuelv > 0 then 10 else 0), (fun () -> IExpr (gen_loop st env d) :: go env bound (i + 1));
      ] () in
  go env [] 0

(* counted loops (level 2): the counter is a fresh var that only the loop template assigns; the
   loop sits in a block that declares the counter *)
and gen_loop st env d : expr =
  st.fuelv <- st.fuelv - 1;
  let saved_mult = st.mult in
  st.mult <- st.mult * 5;
  let r = gen_loop' st env d in
  st.mult <- saved_mult; r

and gen_loop' st env d : expr =
  let i = fresh st in
  let iv = { n = i; t = TInt; var = false; ctr = true; cost = 0 } in       (* not assignable by the body *)
  let bound = Rng.range st.rng 0 4 in
  let env' = iv :: env in
  let body_items () = gen_block st env' TInt (d - 1) (Rng.int st.rng 3) in
  let incr = EAssign (EVar (n_of_int i), EBin (Add, EVar (n_of_int i), ei 1)) in
  let cond = EBin (Lt0, EVar (n_of_int i), ei bound) in
  let loop =
    match Rng.int st.rng 3 with
    | 0 -> EWhile (cond, EBlock (body_items () @ [IExpr incr]))
    | 1 -> EDoWhile (EBlock (body_items () @ [IExpr incr]), cond)
    | _ -> EFor (EAssign (EVar (n_of_int i), ei 0), cond, incr, EBlock (body_items ())) in
  EBlock [IVar (n_of_int i, ei 0); IExpr loop]

let mk_fdef ?(catches = ([], None)) name params body =
  FDef (n_of_int name, List.map (fun (x, v) -> ((n_of_int x, v), TInt)) params, TInt, body,
        fst catches, snd catches)

let env_of params = List.rev_map (fun (x, v) -> { n = x; t = TInt; var = v; ctr = false; cost = 0 }) params

(* level 5: catch clauses.  A clause sees the parameters only; most clauses name division_by_zero
   (the only fault of the fragment), some another exception (never matches: the next clause / the
   caller gets the fault), some clause bodies fault themselves *)
let gen_catches st params : (exn * item list) list * item list option =
  if st.level < 4 || not (Rng.pct st.rng (if l4 st then 30 else 55)) then ([], None)
  else begin
    let env = env_of params in
    let saved = st.fuelv in
    st.fuelv <- 0;
    let body () = gen_block st env TInt (Rng.range st.rng 1 2) (Rng.range st.rng 0 2) in
    let nnamed = Rng.range st.rng 0 2 in
    let named = List.init nnamed (fun _ ->
        let ex = Rng.weighted st.rng (if st.level >= 7 then [45, ExDivision; 30, ExIndexOob; 20, ExNil; 5, ExArrSize]
                                      else [70, ExDivision; 10, ExIndexOob; 10, ExNil; 10, ExArrSize]) in
        (ex, body ())) in
    let call = if nnamed = 0 || Rng.pct st.rng 40 then Some (body ()) else None in
    st.fuelv <- saved;
    (named, call)
  end

let gen_main st : fdef * int =
  let np = Rng.range st.rng 1 3 in
  let params = List.init np (fun _ -> let x = fresh st in (x, (let v = Rng.pct st.rng 40 in v && st.level < 7))) in
  let env = env_of params in
  let d = Rng.range st.rng 1 4 in
  st.acc <- 0; st.mult <- 1; st.limit <- 4000;
  let body = gen_block st env TInt d (Rng.range st.rng 0 5) in
  let catches = gen_catches st params in
  (mk_fdef ~catches 0 params body, np)

(* ---- level 3: helper functions ------------------------------------------------------------- *)

(* a plain function: any body over its parameters, calling functions defined before it *)
let gen_plain st name : fdef * finfo =
  let np = Rng.range st.rng 1 3 in
  let params = List.init np (fun _ -> let x = fresh st in (x, (let v = Rng.pct st.rng 25 in v && st.level < 7))) in
  st.acc <- 1; st.mult <- 1; st.limit <- 150; st.fuelv <- (if Rng.pct st.rng 30 then 1 else 0);
  let body = gen_block st (env_of params) TInt (Rng.range st.rng 1 3) (Rng.range st.rng 0 3) in
  let catches = gen_catches st params in
  (mk_fdef ~catches name params body, { fn = name; fvars = List.map snd params; measure = None; cost = st.acc; fty = TFun (List.map (fun _ -> TInt) params, TInt) })

(* f(n, ..) { (n <= 0) ? base : comb(n, f(n - 1, ..)) }: the self call is NOT in tail position *)
let gen_rec st name : fdef * finfo =
  let n = fresh st in
  let extra = List.init (Rng.range st.rng 1 2) (fun _ -> (fresh st, false)) in
  let params = (n, false) :: extra in
  let env = { n; t = TInt; var = false; ctr = true; cost = 0 } :: env_of extra in
  st.acc <- 1; st.mult <- 1; st.limit <- 25; st.fuelv <- 0;
  let small () = gen_int st env 1 in
  let self () =
    ECall (EVar (n_of_int name),
           EBin (Sub, EVar (n_of_int n), ei 1) :: List.rev (List.rev_map (fun _ -> small ()) extra)) in
  let base = small () in
  let comb =
    match Rng.int st.rng 5 with
    | 0 -> EBin (Rng.pick st.rng [Add; Sub; Mul; BXor], EVar (n_of_int n), self ())
    | 1 -> EBin (Rng.pick st.rng [Add; Sub], self (), small ())
    | 2 -> let t = fresh st in
      EBlock [ILet (n_of_int t, self ()); IExpr (EBin (Add, EVar (n_of_int t), small ()))]
    | 3 -> EBin (Add, self (), (if st.level >= 2 then EPrint (EVar (n_of_int n)) else small ()))
    | _ -> EBin (Rng.pick st.rng [Div; Mod], small (), EBin (Add, self (), ei (Rng.range st.rng 0 2))) in
  let cond = EBin (Le, EVar (n_of_int n), ei 0) in
  let last = if Rng.bool st.rng then ECond (cond, base, comb)
    else ECond (cond, EBlock [IExpr base], EBlock [IExpr comb]) in
  let pre = if Rng.pct st.rng 25 then [ILet (n_of_int (fresh st), small ())] else [] in
  let m = Rng.pick st.rng [3; 10; 40; 120; 300] in
  let catches = if Rng.pct st.rng 50 then gen_catches st extra else ([], None) in
  (mk_fdef ~catches name params (pre @ [IExpr last]),
   { fn = name; fvars = List.map snd params; measure = Some m; cost = (m + 1) * st.acc; fty = TFun (List.map (fun _ -> TInt) params, TInt) })

(* f(n, acc, ..) { …; (n <= 0) ? acc' : f(n - 1, acc'', ..) }: the self call is in tail position
   (through ?: branches / if-else blocks and the last item of blocks): front/tailrec.c turns it
   into a jump *)
let gen_tail st name : fdef * finfo =
  let n = fresh st in
  let extra = List.init (Rng.range st.rng 1 2) (fun _ -> (fresh st, false)) in
  let params = (n, false) :: extra in
  let env = { n; t = TInt; var = false; ctr = true; cost = 0 } :: env_of extra in
  st.acc <- 1; st.mult <- 1; st.limit <- 25; st.fuelv <- 0;
  let small () = gen_int st env 1 in
  let self () =
    ECall (EVar (n_of_int name),
           EBin (Sub, EVar (n_of_int n), ei 1) :: List.rev (List.rev_map (fun _ -> small ()) extra)) in
  let cond = EBin (Le, EVar (n_of_int n), ei 0) in
  let base = small () in
  let step =
    match Rng.int st.rng 4 with
    | 0 -> self ()
    | 1 -> let t = fresh st in
      let env' = bind env t TInt false in
      let a = gen_int st env' 1 in
      EBlock [ILet (n_of_int t, small ());
              IExpr (ECall (EVar (n_of_int name),
                            EBin (Sub, EVar (n_of_int n), ei 1) :: a :: List.map (fun _ -> small ()) (List.tl extra)))]
    | 2 -> ECond (gen_bool st env 1, self (), self ())
    | _ -> EBlock [IExpr (if st.level >= 2 then EPrint (EVar (n_of_int n)) else small ()); IExpr (self ())] in
  let last = if Rng.bool st.rng then ECond (cond, base, step)
    else ECond (cond, EBlock [IExpr base], (match step with EBlock _ -> step | _ -> EBlock [IExpr step])) in
  let pre = if Rng.pct st.rng 30 then [ILet (n_of_int (fresh st), small ())] else [] in
  let m = Rng.pick st.rng [3; 10; 40; 120; 300] in
  (mk_fdef name params (pre @ [IExpr last]),
   { fn = name; fvars = List.map snd params; measure = Some m; cost = (m + 1) * st.acc; fty = TFun (List.map (fun _ -> TInt) params, TInt) })


(* level 4: a top-level function of a function type (a maker, a higher-order function, …) *)
let gen_plain4 st name : fdef * finfo =
  let t = Rng.weighted st.rng [20, t_ii; 10, t_iii; 25, t_hof; 25, t_mk; 15, t_mk2; 5, t_u] in
  st.acc <- 1; st.mult <- 1; st.limit <- fbound t; st.fuelv <- 0;
  let fd = gen_fdef st [] 2 t name in
  let np = match t with TFun (a, _) -> List.length a | _ -> 0 in
  (fd, { fn = name; fvars = List.init np (fun _ -> false); measure = None; cost = fbound t; fty = t })

(* the program: 1..3 helper functions in front of main (Never's top-level functions are mutually
   visible; the generator calls only functions defined before, plus the templates' self calls) *)
let gen_program st : program * int =
  st.funs <- [];
  let fds =
    if st.level < 3 then []
    else begin
      let nf = Rng.range st.rng 1 3 in
      List.init nf (fun j ->
          let name = fresh st in
          st.clf <- (if l4 st then 2 else 0);
          let fd, fi =
            if l4 st && Rng.pct st.rng 55 then gen_plain4 st name
            else if j = 0 && Rng.pct st.rng 60 then gen_plain st name
            else Rng.weighted st.rng [35, (fun () -> gen_plain st name); 35, (fun () -> gen_rec st name);
                                      30, (fun () -> gen_tail st name)] () in
          st.funs <- fi :: st.funs;
          fd)
    end in
  st.fuelv <- 3;
  st.clf <- (if l4 st then Rng.range st.rng 2 7 else 0);
  let mainfd, np = gen_main st in
  ({ p_recs = (if st.level >= 8 then List.map (fun (r, nf) -> (n_of_int r, List.init nf (fun _ -> TInt))) rec_types else []);
     p_funcs = fds @ [mainfd]; p_main = n_of_int 0 }, np)
