(* Soundness of the certificate checker Verifier/Verify.v against the shape machine
   Verifier/Shape.v: an accepted module never reaches a Crash, along every observation
   sequence, and every reached state carries its certified depth.  DESIGN.md §5 C07.

   Proof: the frame-chain invariant of Verifier/VerifyInv.v holds initially and is preserved
   by every step that answers Next; a state satisfying it never answers Crash.

   No axioms. *)
From Coq Require Import List Arith Bool Lia.
From NV Require Import Gen.Opcodes Verifier.Shape Verifier.Effect Verifier.Verify Verifier.VerifyInv.
Import ListNotations.

Ltac band2 H A B := apply andb_true_iff in H; destruct H as [A B].
Ltac band3 H A B C := apply andb_true_iff in H; let T := fresh in destruct H as [T C]; band2 T A B.
Ltac band4 H A B C D := apply andb_true_iff in H; let T := fresh in destruct H as [T D]; band3 T A B C.
Ltac band5 H A B C D E := apply andb_true_iff in H; let T := fresh in destruct H as [T E]; band4 T A B C D.
Ltac band6 H A B C D E G := apply andb_true_iff in H; let T := fresh in destruct H as [T G]; band5 T A B C D E.

Lemma avail_le d os : avail d os <= d.
Proof. destruct os; cbn; lia. Qed.

Lemma find_meta_in : forall l g m, find_meta l g = Some m -> In m l /\ m_addr m = g.
Proof.
  induction l as [|a l IH]; cbn; intros g m H; [discriminate|].
  destruct (m_addr a =? g) eqn:E.
  - inversion H; subst. split; [now left|now apply Nat.eqb_eq].
  - destruct (IH _ _ H). split; [now right|auto].
Qed.

Lemma unwind_hdr s fr k p0 f0 a c :
  5 <= fr -> hdr (stk s) (fr - 5) p0 f0 a c ->
  unwind s fr k = k a (firstn (fr - 5) (stk s) ++ [SVal]) p0 f0 c.
Proof.
  intros H5 (H1 & H2 & H3 & H4 & H6). unfold unwind.
  destruct (fr <? 5) eqn:E; [apply Nat.ltb_lt in E; lia|].
  replace (fr - 4) with (S (fr - 5)) by lia.
  replace (fr - 3) with (S (S (fr - 5))) by lia.
  replace (fr - 2) with (S (S (S (fr - 5)))) by lia.
  replace (fr - 1) with (S (S (S (S (fr - 5))))) by lia.
  rewrite H1, H2, H3, H4, H6. reflexivity.
Qed.

Section Sound.
Variable prog : list rinstr.
Variable exct : list (nat * nat).
Variable metas : list fmeta.
Variable entry : nat.
Variable certs : list acert.
Hypothesis CHK : check_all prog exct metas entry certs = true.

Local Notation cert := (Verify.cert certs).
Local Notation code := (Verify.code prog).
Local Notation np := (Verify.np metas).
Local Notation base := (Verify.base metas).
Local Notation is_ffi := (Verify.is_ffi metas).
Local Notation is_entry := (Verify.is_entry metas).
Local Notation handler := (Verify.handler exct).
Local Notation handler_ok := (Verify.handler_ok exct certs).
Local Notation check_norm := (Verify.check_norm prog exct metas entry certs).
Local Notation check_exc := (Verify.check_exc exct metas certs).
Local Notation cert_at := (VerifyInv.cert_at certs).
Local Notation frame_ok := (VerifyInv.frame_ok exct metas certs).
Local Notation stepm := (Shape.step code handler np is_entry entry).

(* ------------------------------------------------------------------ what check_all gives *)

Lemma chk_parts :
  cert 0 = CNorm 0 0 [] /\ forallb (check_meta prog metas certs) metas = true /\
  length certs = length prog /\
  forallb (check_at prog exct metas entry certs) (seq 0 (length prog)) = true.
Proof.
  pose proof CHK as H. unfold check_all in H.
  apply andb_true_iff in H. destruct H as [H H7].
  apply andb_true_iff in H. destruct H as [H H6].
  apply andb_true_iff in H. destruct H as [H H5].
  apply andb_true_iff in H. destruct H as [H H4].
  apply andb_true_iff in H. destruct H as [H H3].
  apply andb_true_iff in H. destruct H as [H1 H2].
  split; [|split; [|split]]; auto.
  - destruct (cert 0) as [|f d os|f]; try discriminate.
    destruct f; try discriminate. destruct d; try discriminate. destruct os; try discriminate.
    reflexivity.
  - now apply Nat.eqb_eq.
Qed.

Lemma cert0 : cert 0 = CNorm 0 0 [].
Proof. apply chk_parts. Qed.

Lemma entry_facts g : is_entry g = true -> 1 <= g /\ cert g = CNorm g (np g - base g) [].
Proof.
  intros H. unfold Verify.is_entry in H. destruct (find_meta metas g) as [m|] eqn:E; [|discriminate].
  destruct (find_meta_in _ _ _ E) as [Hin Ha].
  destruct chk_parts as (_ & Hm & _). rewrite forallb_forall in Hm. specialize (Hm m Hin).
  unfold check_meta in Hm. rewrite Ha in Hm.
  apply andb_true_iff in Hm. destruct Hm as [Hm _]. band2 Hm H1 H2. apply Nat.leb_le in H1.
  split; auto. unfold entry_cert_ok in H2. destruct (cert g) as [|g' d os|g']; try discriminate.
  band3 H2 A B C. apply Nat.eqb_eq in A, B. destruct os; [|discriminate]. subst. reflexivity.
Qed.

Lemma not_entry_0 : is_entry 0 = false.
Proof. destruct (is_entry 0) eqn:E; auto. apply entry_facts in E. lia. Qed.

Lemma base_0 : base 0 = 0.
Proof.
  pose proof not_entry_0 as H. unfold Verify.is_entry in H.
  unfold Verify.base, Verify.is_ffi, Verify.np. destruct (find_meta metas 0); [discriminate|reflexivity].
Qed.

Lemma cert_checked a : cert a <> CNone -> check_at prog exct metas entry certs a = true.
Proof.
  intros H. destruct chk_parts as (_ & _ & Hl & Hall).
  rewrite forallb_forall in Hall. apply Hall. apply in_seq.
  destruct (Nat.lt_ge_cases a (length certs)) as [Hlt|Hge]; [lia|].
  exfalso. apply H. unfold Verify.cert. now apply nth_overflow.
Qed.

Lemma cert_norm_code a f d os :
  cert a = CNorm f d os -> exists i, code a = Some i /\ check_norm a f d os i = true.
Proof.
  intros H. assert (Hc : cert a <> CNone) by congruence. apply cert_checked in Hc.
  unfold check_at in Hc. rewrite H in Hc. destruct (code a) as [i|]; [eauto|discriminate].
Qed.

Lemma cert_exc_code a f :
  cert a = CExc f -> exists i, code a = Some i /\ check_exc a f i = true.
Proof.
  intros H. assert (Hc : cert a <> CNone) by congruence. apply cert_checked in Hc.
  unfold check_at in Hc. rewrite H in Hc. destruct (code a) as [i|]; [eauto|discriminate].
Qed.

Lemma handler_ok_lt a f :
  handler_ok a f = true -> exists h, handler a = Some h /\ a < h /\ cert h = CExc f.
Proof.
  unfold Verify.handler_ok. destruct (handler a) as [h|]; [|discriminate].
  intros H. band2 H H1 H2. apply Nat.ltb_lt in H1.
  unfold exc_ok in H2. destruct (cert h) as [|f' d' os'|f'] eqn:Ec; try discriminate.
  apply Nat.eqb_eq in H2. subst f'. eauto.
Qed.

Lemma handler_ok_le_inv a f :
  handler_ok_le exct certs a f = true -> exists h, handler a = Some h /\ a <= h /\ cert h = CExc f.
Proof.
  unfold Verify.handler_ok_le. destruct (handler a) as [h|]; [|discriminate].
  intros H. band2 H H1 H2. apply Nat.leb_le in H1.
  unfold exc_ok in H2. destruct (cert h) as [|f' d' os'|f'] eqn:Ec; try discriminate.
  apply Nat.eqb_eq in H2. subst f'. eauto.
Qed.

Lemma handler_ok_inv a f :
  handler_ok a f = true -> exists h, handler a = Some h /\ cert h = CExc f.
Proof. intros H. destruct (handler_ok_lt _ _ H) as (h & H1 & _ & H2). eauto. Qed.

(* ------------------------------------------------------------------ the invariant on states *)

Definition Inv (s : st) : Prop :=
  exists d os cs, cert_at (ip s) (cur s) d os /\ frame_ok (stk s) (P s) (F s) (cur s) d os cs.

Definition good (o : outcome) : Prop :=
  match o with Next s' => Inv s' | Crash _ => False | _ => True end.

Lemma Inv_intro ipv l Pc Fc f d os cs :
  cert_at ipv f d os -> frame_ok l Pc Fc f d os cs ->
  Inv {| ip := ipv; stk := l; P := Pc; F := Fc; cur := f |}.
Proof. intros H1 H2. exists d, os, cs. cbn. auto. Qed.

Lemma Inv_init : Inv init.
Proof.
  exists 0, [], []. cbn [init ip stk P F cur]. split; [left; exact cert0|].
  unfold VerifyInv.frame_ok. split; [|split; [|split; [|split; [|split; [|split]]]]].
  - reflexivity.
  - rewrite base_0. reflexivity.
  - reflexivity.
  - exact I.
  - intros i _ H. cbn in H. lia.
  - rewrite not_entry_0. discriminate.
  - auto.
Qed.

Lemma frame_F_nil l Pc Fc f d cs : frame_ok l Pc Fc f d [] cs -> Fc = Pc.
Proof. intros (_ & _ & Ho & _). exact Ho. Qed.

Lemma frame_len l Pc Fc f d os cs : frame_ok l Pc Fc f d os cs -> length l = Pc + base f + d.
Proof. intros (_ & H & _). exact H. Qed.

Lemma frame_push l Pc Fc f d os cs x :
  frame_ok l Pc Fc f d os cs -> allval x -> frame_ok (l ++ x) Pc Fc f (d + length x) os cs.
Proof.
  intros HF Hx. pose proof (frame_F_le _ _ _ _ _ _ _ _ _ _ HF) as HFle.
  pose proof (frame_len _ _ _ _ _ _ _ HF) as Hlen.
  pose proof (frame_repl _ _ _ _ _ _ _ _ _ _ (length l) x (d + length x) HF) as H.
  rewrite firstn_all in H. apply H; auto; lia.
Qed.

(* ------------------------------------------------------------------ faults *)

Lemma fault_ok s pops ip' len' d os cs :
  frame_ok (stk s) (P s) (F s) (cur s) d os cs -> pops <= avail d os ->
  (exists h, handler (ip s) = Some h /\ cert h = CExc (cur s)) ->
  good (fault handler s pops ip' len').
Proof.
  intros HF Hp Hh. unfold fault. destruct Hh as (h & Eh & Ec). rewrite Eh.
  destruct ((h =? ip') && (length (stk s) - pops <=? len') && (len' <=? length (stk s))) eqn:E; [|exact I].
  band3 E E1 E2 E3. apply Nat.leb_le in E2, E3.
  pose proof (frame_F_le _ _ _ _ _ _ _ _ _ _ HF) as HFle.
  pose proof (frame_len _ _ _ _ _ _ _ HF) as Hlen.
  pose proof (avail_le d os) as Hav.
  unfold good, setip.
  apply Inv_intro with (d := len' - (P s + base (cur s))) (os := os) (cs := cs).
  - right. exact Ec.
  - eapply frame_trunc; eauto; lia.
Qed.

(* ------------------------------------------------------------------ one lemma per instruction *)

Lemma step_AOp s ip' len' d os cs reads pops pushes :
  frame_ok (stk s) (P s) (F s) (cur s) d os cs ->
  code (ip s) = Some (AOp reads pops pushes) ->
  pops <= avail d os -> forallb (read_chk metas (cur s) d os) reads = true ->
  cert_at (S (ip s)) (cur s) (d - pops + pushes) os ->
  (exists h, handler (ip s) = Some h /\ cert h = CExc (cur s)) ->
  good (stepm s ip' len').
Proof.
  intros HF Hi Hp Hr Hs Hh. unfold step. cbv zeta. rewrite Hi.
  assert (R : forallb (read_ok (stk s) (P s)) reads = true).
  { apply forallb_forall. intros k Hk. rewrite forallb_forall in Hr. eapply read_ok_chk; eauto. }
  rewrite R. cbn [negb].
  pose proof (frame_F_le _ _ _ _ _ _ _ _ _ _ HF) as HFle.
  pose proof (frame_len _ _ _ _ _ _ _ HF) as Hlen.
  pose proof (avail_le d os) as Hav.
  destruct (length (stk s) - F s <? pops) eqn:E1; [apply Nat.ltb_lt in E1; lia|].
  destruct (ip' =? S (ip s)) eqn:E2; [|eapply fault_ok; eauto].
  destruct (len' =? length (stk s) - pops + pushes) eqn:E3; [|exact I].
  unfold good, setip. apply Inv_intro with (d := d - pops + pushes) (os := os) (cs := cs); auto.
  eapply frame_repl; eauto using allval_repeat; try lia. rewrite repeat_length. lia.
Qed.

Lemma step_AJump s ip' len' d os cs t :
  frame_ok (stk s) (P s) (F s) (cur s) d os cs ->
  code (ip s) = Some (AJump t) -> cert_at t (cur s) d os ->
  good (stepm s ip' len').
Proof.
  intros HF Hi Hs. unfold step. cbv zeta. rewrite Hi.
  destruct ((ip' =? t) && (len' =? length (stk s))) eqn:E; [|exact I].
  unfold good, setip. eapply Inv_intro; eauto.
Qed.

Lemma step_AJumpz s ip' len' d os cs t :
  frame_ok (stk s) (P s) (F s) (cur s) d os cs ->
  code (ip s) = Some (AJumpz t) -> 1 <= avail d os ->
  cert_at t (cur s) (d - 1) os -> cert_at (S (ip s)) (cur s) (d - 1) os ->
  good (stepm s ip' len').
Proof.
  intros HF Hi Ha Ht Hs. unfold step. cbv zeta. rewrite Hi.
  pose proof (frame_F_le _ _ _ _ _ _ _ _ _ _ HF) as HFle.
  pose proof (frame_len _ _ _ _ _ _ _ HF) as Hlen.
  pose proof (avail_le d os) as Hav.
  destruct (length (stk s) - F s <? 1) eqn:E1; [apply Nat.ltb_lt in E1; lia|].
  rewrite (top_val _ _ _ _ _ _ _ _ _ _ HF Ha). cbn [negb].
  destruct (((ip' =? t) || (ip' =? S (ip s))) && (len' =? length (stk s) - 1)) eqn:E; [|exact I].
  band2 E E2 E3. unfold good, setip.
  apply Inv_intro with (d := d - 1) (os := os) (cs := cs).
  - apply orb_true_iff in E2. destruct E2 as [E2|E2]; apply Nat.eqb_eq in E2; subst ip'; auto.
  - eapply frame_trunc; eauto; lia.
Qed.

Lemma step_AMark s ip' len' d os cs r :
  frame_ok (stk s) (P s) (F s) (cur s) d os cs ->
  code (ip s) = Some (AMark r) ->
  cert_at (S (ip s)) (cur s) (d + 5) (d :: os) -> cert r = CNorm (cur s) (S d) os ->
  1 <= r -> handler_ok (r - 1) (cur s) = true ->
  good (stepm s ip' len').
Proof.
  intros HF Hi Hs Hr H1 Hk. unfold step. cbv zeta. rewrite Hi.
  destruct ((ip' =? S (ip s)) && (len' =? length (stk s) + 5)) eqn:E; [|exact I].
  unfold good. apply Inv_intro with (d := d + 5) (os := d :: os) (cs := cs); auto.
  apply frame_mark; auto.
Qed.

Lemma step_ACall s ip' len' d os cs :
  frame_ok (stk s) (P s) (F s) (cur s) d os cs ->
  code (ip s) = Some ACall -> 1 <= avail d os -> handler_ok (ip s) (cur s) = true ->
  (os = [] -> is_entry (cur s) = true) ->
  good (stepm s ip' len').
Proof.
  intros HF Hi Ha Hh Hos. unfold step. cbv zeta. rewrite Hi.
  pose proof (frame_F_le _ _ _ _ _ _ _ _ _ _ HF) as HFle.
  destruct (length (stk s) - F s <? 1) eqn:E1; [apply Nat.ltb_lt in E1; lia|].
  rewrite (top_val _ _ _ _ _ _ _ _ _ _ HF Ha). cbn [negb].
  destruct (is_entry ip' && (len' =? length (stk s) - 1)) eqn:E;
    [|eapply fault_ok; eauto using handler_ok_inv].
  band2 E E2 E3.
  destruct (length (stk s) - 1 - F s =? np ip') eqn:E4; [|exact I]. apply Nat.eqb_eq in E4.
  destruct (entry_facts _ E2) as [Hg1 Hg]. unfold good.
  destruct os as [|o os'].
  - apply Inv_intro with (d := np ip' - base ip') (os := []) (cs := cs); [left; exact Hg|].
    eapply frame_call_tail; eauto. lia.
  - destruct (frame_call_open _ _ _ _ _ _ _ _ _ _ _ ip' HF Ha E4 ltac:(lia)) as (c & Hc).
    apply Inv_intro with (d := np ip' - base ip') (os := []) (cs := c :: cs); [left; exact Hg|exact Hc].
Qed.

Lemma step_ARet s ip' len' cs ffi :
  frame_ok (stk s) (P s) (F s) (cur s) 1 [] cs ->
  code (ip s) = Some (ARet ffi) -> ffi = is_ffi (cur s) -> is_entry (cur s) = true ->
  good (stepm s ip' len').
Proof.
  intros HF Hi Hffi He. unfold step. cbv zeta. rewrite Hi.
  pose proof (frame_F_nil _ _ _ _ _ _ HF) as HFP.
  pose proof (frame_len _ _ _ _ _ _ _ HF) as Hlen.
  rewrite HFP, Nat.eqb_refl. cbn [negb].
  assert (E1 : (length (stk s) =? P s + (if ffi then 0 else np (cur s)) + 1) = true).
  { apply Nat.eqb_eq. rewrite Hlen. unfold Verify.base. rewrite <- Hffi. reflexivity. }
  rewrite E1. cbn [negb].
  rewrite (top_val _ _ _ _ _ _ _ _ _ _ HF) by (cbn; lia). cbn [negb].
  destruct HF as (_ & _ & _ & Hch & _ & Hne & _).
  destruct cs as [|c cs']; [exfalso; now apply Hne|].
  pose proof (chain_ret _ _ _ _ _ _ _ Hch ltac:(lia)) as HF'.
  cbn [VerifyInv.chain] in Hch. destruct Hch as (H5 & Hh & _ & _ & _ & Hc & _).
  rewrite (unwind_hdr _ _ _ _ _ _ _ H5 Hh).
  destruct ((ip' =? cr c) && (len' =? length (firstn (P s - 5) (stk s) ++ [SVal]))) eqn:E; [|exact I].
  unfold good. apply Inv_intro with (d := cd c) (os := cos c) (cs := cs'); [left; exact Hc|exact HF'].
Qed.

Lemma step_ARethrow s ip' len' d os cs :
  frame_ok (stk s) (P s) (F s) (cur s) d os cs ->
  code (ip s) = Some ARethrow -> is_entry (cur s) = true ->
  good (stepm s ip' len').
Proof.
  intros HF Hi He. unfold step. cbv zeta. rewrite Hi.
  pose proof (frame_len _ _ _ _ _ _ _ HF) as Hlen.
  destruct os as [|o os'].
  - pose proof (frame_F_nil _ _ _ _ _ _ HF) as HFP. rewrite HFP.
    destruct HF as (_ & _ & _ & Hch & _ & Hne & _).
    destruct cs as [|c cs']; [exfalso; now apply Hne|].
    pose proof (chain_ret _ _ _ _ _ _ _ Hch ltac:(lia)) as HF'.
    cbn [VerifyInv.chain] in Hch. destruct Hch as (H5 & Hh & _ & _ & _ & _ & Hk & _).
    rewrite (unwind_hdr _ _ _ _ _ _ _ H5 Hh).
    destruct (handler_ok_inv _ _ Hk) as (h & Eh & Ec). rewrite Eh.
    destruct ((1 <=? cr c) && (ip' =? h) && (len' =? length (firstn (P s - 5) (stk s) ++ [SVal]))) eqn:E;
      [|exact I].
    unfold good. apply Inv_intro with (d := cd c) (os := cos c) (cs := cs'); [right; exact Ec|exact HF'].
  - destruct (frame_pop_open _ _ _ _ _ _ _ _ _ _ _ HF) as (Fp & r & H5 & Hh & H1 & Hk & HF').
    rewrite (unwind_hdr _ _ _ _ _ _ _ H5 Hh).
    destruct (handler_ok_inv _ _ Hk) as (h & Eh & Ec). rewrite Eh.
    destruct ((1 <=? r) && (ip' =? h) && (len' =? length (firstn (F s - 5) (stk s) ++ [SVal]))) eqn:E;
      [|exact I].
    unfold good. apply Inv_intro with (d := S o) (os := os') (cs := cs); [right; exact Ec|exact HF'].
Qed.

Lemma step_AClear s ip' len' d os cs n :
  frame_ok (stk s) (P s) (F s) (cur s) d os cs ->
  code (ip s) = Some (AClear n) -> n = np (cur s) -> is_ffi (cur s) = false ->
  cert_at (S (ip s)) (cur s) 0 [] ->
  good (stepm s ip' len').
Proof.
  intros HF Hi Hn Hffi Hs. unfold step. cbv zeta. rewrite Hi.
  pose proof (frame_len _ _ _ _ _ _ _ HF) as Hlen.
  assert (Hb : base (cur s) = n) by (unfold Verify.base; rewrite Hffi; auto).
  destruct (length (stk s) <? P s + n) eqn:E1; [apply Nat.ltb_lt in E1; lia|].
  destruct ((ip' =? S (ip s)) && (len' =? P s + n)) eqn:E; [|exact I].
  unfold good. apply Inv_intro with (d := 0) (os := []) (cs := cs); auto.
  rewrite <- Hb. eapply frame_clear; eauto.
Qed.

Lemma step_ASlide s ip' len' d os cs q m :
  frame_ok (stk s) (P s) (F s) (cur s) d os cs ->
  code (ip s) = Some (ASlide q m) ->
  (q = 0 -> cert_at (S (ip s)) (cur s) d os) ->
  (q <> 0 -> q <= d /\
             match os with [] => q + m <= d + base (cur s) | _ => q + m <= avail d os end /\
             cert_at (S (ip s)) (cur s) (d - q) os) ->
  good (stepm s ip' len').
Proof.
  intros HF Hi H0 Hq. unfold step. cbv zeta. rewrite Hi.
  destruct (q =? 0) eqn:Eq.
  - apply Nat.eqb_eq in Eq. specialize (H0 Eq).
    destruct ((ip' =? S (ip s)) && (len' =? length (stk s))) eqn:E; [|exact I].
    unfold good, setip. eapply Inv_intro; eauto.
  - apply Nat.eqb_neq in Eq. destruct (Hq Eq) as (Hqd & Hqm & Hs).
    pose proof (frame_F_le _ _ _ _ _ _ _ _ _ _ HF) as HFle.
    pose proof (frame_len _ _ _ _ _ _ _ HF) as Hlen.
    pose proof (frame_P_le_F _ _ _ _ _ _ _ _ _ _ HF) as HPF.
    pose proof (vals_aboveF _ _ _ _ _ _ _ _ _ _ HF) as Htop.
    assert (Hroom : F s + q + m <= length (stk s)).
    { destruct os as [|o os']; [|lia]. pose proof (frame_F_nil _ _ _ _ _ _ HF). lia. }
    destruct (length (stk s) - F s <? q + m) eqn:E1; [apply Nat.ltb_lt in E1; lia|].
    assert (R : forallb (read_ok (stk s) (P s)) (seq 0 m) = true).
    { apply forallb_forall. intros k Hk. apply in_seq in Hk. unfold read_ok.
      apply andb_true_iff. split; [apply Nat.ltb_lt; lia|]. rewrite Htop by lia. reflexivity. }
    rewrite R. cbn [negb].
    destruct ((ip' =? S (ip s)) && (len' =? length (stk s) - q)) eqn:E; [|exact I].
    unfold good, setip. apply Inv_intro with (d := d - q) (os := os) (cs := cs); auto.
    eapply frame_repl; eauto; try lia.
    + intros j Hj. rewrite skipn_length in Hj. rewrite nth_skipn. apply Htop; lia.
    + rewrite skipn_length. lia.
Qed.

Lemma step_AMkFunc s ip' len' d os cs g :
  frame_ok (stk s) (P s) (F s) (cur s) d os cs ->
  code (ip s) = Some (AMkFunc g) -> 1 <= avail d os -> is_entry g = true ->
  cert_at (S (ip s)) (cur s) d os ->
  good (stepm s ip' len').
Proof.
  intros HF Hi Ha Hg Hs. unfold step. cbv zeta. rewrite Hi.
  pose proof (frame_F_le _ _ _ _ _ _ _ _ _ _ HF) as HFle.
  destruct (length (stk s) - F s <? 1) eqn:E1; [apply Nat.ltb_lt in E1; lia|].
  rewrite (top_val _ _ _ _ _ _ _ _ _ _ HF Ha). cbn [negb]. rewrite Hg. cbn [negb].
  destruct ((ip' =? S (ip s)) && (len' =? length (stk s))) eqn:E; [|exact I].
  unfold good, setip. eapply Inv_intro; eauto.
Qed.

Lemma step_APushParam s ip' len' d os cs :
  frame_ok (stk s) (P s) (F s) (cur s) d os cs ->
  code (ip s) = Some APushParam -> cert_at (S (ip s)) (cur s) (d + np entry) os ->
  good (stepm s ip' len').
Proof.
  intros HF Hi Hs. unfold step. cbv zeta. rewrite Hi.
  destruct ((ip' =? S (ip s)) && (len' =? length (stk s) + np entry)) eqn:E; [|exact I].
  unfold good, setip. apply Inv_intro with (d := d + np entry) (os := os) (cs := cs); auto.
  pose proof (frame_push _ _ _ _ _ _ _ (repeat SVal (np entry)) HF (allval_repeat _)) as H.
  rewrite repeat_length in H. exact H.
Qed.

Lemma step_AFfi s ip' len' cs r :
  frame_ok (stk s) (P s) (F s) (cur s) (np (cur s)) [] cs ->
  code (ip s) = Some (AFfi r) -> is_ffi (cur s) = true ->
  cert r = CNorm (cur s) 1 [] -> handler_ok (ip s) (cur s) = true ->
  good (stepm s ip' len').
Proof.
  intros HF Hi Hffi Hr Hh. unfold step. cbv zeta. rewrite Hi.
  pose proof (frame_F_nil _ _ _ _ _ _ HF) as HFP.
  pose proof (frame_len _ _ _ _ _ _ _ HF) as Hlen.
  assert (Hb : base (cur s) = 0) by (unfold Verify.base; rewrite Hffi; auto).
  rewrite HFP at 1. rewrite Nat.eqb_refl. cbn [negb].
  assert (E1 : (length (stk s) =? P s + np (cur s)) = true) by (apply Nat.eqb_eq; lia).
  rewrite E1. cbn [negb].
  destruct ((ip' =? r) && (len' =? P s + 1)) eqn:E.
  - unfold good, setip. apply Inv_intro with (d := 1) (os := []) (cs := cs); [left; exact Hr|].
    eapply frame_repl; eauto using allval_one; cbn; lia.
  - eapply fault_ok; eauto using handler_ok_inv.
Qed.

(* ------------------------------------------------------------------ dispatch on the certificate *)

Lemma step_norm s ip' len' d os cs i :
  frame_ok (stk s) (P s) (F s) (cur s) d os cs ->
  code (ip s) = Some i -> check_norm (ip s) (cur s) d os i = true ->
  good (stepm s ip' len').
Proof.
  intros HF Hi HC. unfold Verify.check_norm in HC. apply andb_true_iff in HC. destruct HC as [_ HC].
  destruct i.
  - (* AOp *) band4 HC H1 H2 H3 H4. apply Nat.leb_le in H1.
    eapply step_AOp; eauto using succ_ok_at, handler_ok_inv.
  - (* AJump *) eapply step_AJump; eauto using succ_ok_at.
  - (* AJumpz *) band3 HC H1 H2 H3. apply Nat.leb_le in H1.
    eapply step_AJumpz; eauto using succ_ok_at.
  - (* AMark *) band4 HC H1 H2 H3 H4. apply Nat.leb_le in H3.
    destruct (cert ret) as [|f' d' os'|f'] eqn:Ec; try discriminate.
    band3 H2 A B C. apply Nat.eqb_eq in A, B. apply list_eqb_eq in C. subst f' d' os'.
    rewrite Nat.add_1_r in Ec.
    eapply step_AMark; eauto using succ_ok_at.
  - (* ACall *) apply andb_true_iff in HC. destruct HC as [HC _]. band3 HC H1 H2 H3. apply Nat.leb_le in H1.
    eapply step_ACall; eauto. intros ->. band2 H3 A B. exact B.
  - (* ARet *) band4 HC H1 H2 H3 H4. destruct os; [|discriminate]. apply Nat.eqb_eq in H2. subst d.
    apply eqb_prop in H3. eapply step_ARet; eauto.
  - (* ARethrow *) discriminate.
  - (* AClear *) discriminate.
  - (* ASlide *) eapply step_ASlide; eauto.
    + intros ->. cbn in HC. now apply succ_ok_at.
    + intros Hq. apply Nat.eqb_neq in Hq. rewrite Hq in HC. band3 HC H1 H2 H3. apply Nat.leb_le in H1.
      split; [auto|]. split; [|now apply succ_ok_at].
      destruct os; now apply Nat.leb_le in H2.
  - (* AMkFunc *) band4 HC H1 H2 H3 H4. apply Nat.leb_le in H1.
    eapply step_AMkFunc; eauto using succ_ok_at.
  - (* APushParam *) band2 HC H1 H2. eapply step_APushParam; eauto using succ_ok_at.
  - (* AFfi *) band6 HC H1 H2 H3 H4 H5 H6. apply Nat.eqb_eq in H1, H3. subst d.
    destruct os; [|discriminate].
    destruct (cert retaddr) as [|f' d' os'|f'] eqn:Ec; try discriminate.
    destruct d' as [|[|d']]; try discriminate. destruct os'; try discriminate.
    apply Nat.eqb_eq in H5. subst f'.
    eapply step_AFfi; eauto.
  - (* AHalt *) unfold step. cbv zeta. rewrite Hi. exact I.
  - (* AUnhandled *) unfold step. cbv zeta. rewrite Hi. exact I.
  - (* ABad *) discriminate.
Qed.

Lemma step_exc s ip' len' d os cs i :
  frame_ok (stk s) (P s) (F s) (cur s) d os cs ->
  code (ip s) = Some i -> cert (ip s) = CExc (cur s) -> check_exc (ip s) (cur s) i = true ->
  good (stepm s ip' len').
Proof.
  intros HF Hi Hce HC. unfold Verify.check_exc in HC.
  destruct i; try discriminate.
  - (* AOp [] 0 0 *)
    destruct reads; [|discriminate]. destruct pops; [|discriminate]. destruct pushes; [|discriminate].
    band2 HC H1 H2. unfold exc_ok in H1.
    destruct (cert (S (ip s))) as [|f' d' os'|f'] eqn:Ec; try discriminate.
    apply Nat.eqb_eq in H1. subst f'.
    destruct (handler_ok_le_inv _ _ H2) as (h & Eh & _ & Ech).
    eapply step_AOp; eauto; [lia|right; exact Ec].
  - (* ARethrow *) eapply step_ARethrow; eauto.
  - (* AClear *) band5 HC H1 H2 H3 H4 H5. apply Nat.eqb_eq in H1. apply negb_true_iff in H2.
    eapply step_AClear; eauto using succ_ok_at.
  - (* AUnhandled *) unfold step. cbv zeta. rewrite Hi. exact I.
Qed.

Theorem step_ok s ip' len' : Inv s -> good (stepm s ip' len').
Proof.
  intros (d & os & cs & [Hc|Hc] & HF).
  - destruct (cert_norm_code _ _ _ _ Hc) as (i & Hi & HC). eapply step_norm; eauto.
  - destruct (cert_exc_code _ _ Hc) as (i & Hi & HC). eapply step_exc; eauto.
Qed.

Theorem run_good : forall obs s, Inv s -> good (run code handler np is_entry entry s obs).
Proof.
  induction obs as [|[ip' len'] rest IH]; intros s HI; cbn [run]; [exact HI|].
  pose proof (step_ok s ip' len' HI) as G.
  destruct (stepm s ip' len') as [s'| | |c|]; cbn [good] in G |- *; auto.
Qed.

End Sound.

Theorem verify_sound :
  forall prog exct metas entry certs,
    check_all prog exct metas entry certs = true ->
    forall obs c,
      run (code prog) (handler exct) (np metas) (is_entry metas) entry init obs <> Crash c.
Proof.
  intros prog exct metas entry certs CHK obs c E.
  pose proof (run_good prog exct metas entry certs CHK obs init (Inv_init prog exct metas entry certs CHK)) as G.
  rewrite E in G. exact G.
Qed.

Theorem verify_depth :
  forall prog exct metas entry certs,
    check_all prog exct metas entry certs = true ->
    forall obs s,
      run (code prog) (handler exct) (np metas) (is_entry metas) entry init obs = Next s ->
      match cert certs (ip s) with
      | CNorm f d os => cur s = f /\ length (stk s) = P s + base metas f + d
      | CExc f => cur s = f /\ P s + base metas f <= length (stk s)
      | CNone => False
      end.
Proof.
  intros prog exct metas entry certs CHK obs s E.
  pose proof (run_good prog exct metas entry certs CHK obs init (Inv_init prog exct metas entry certs CHK)) as G.
  rewrite E in G. destruct G as (d & os & cs & Hc & HF).
  destruct HF as (_ & Hlen & _).
  destruct Hc as [Hc|Hc]; rewrite Hc; split; auto; lia.
Qed.
