(* cgen — random generator of programs of the compiled core fragment (Src/Compile.v: in_F1 …):
   one function `main` with int parameters (some declared `var`), body = a block of let / var /
   expression items over int and bool expressions.  Well-typed for front/typecheck.c including
   the const/var discipline (`var x = e` needs e not CONST, `x = e` needs x VAR), and in normal
   form for front/constred.c (no operator with only literal operands), so that the real emitter
   and the model `compile_func` are comparable instruction by instruction.

   level 1: straight-line (F1).   level 2 adds loops, && ||, print.   level 3 adds calls. *)
open Compilemodel
open Conv

type k = KC | KV | KT

type vi = { n : int; t : ty; var : bool; ctr : bool }

type st = { rng : Rng.t; mutable next : int; level : int; mutable fuelv : int }

let ei k = EInt (z_of_int k)
let ev v = EVar (n_of_int v.n)

let fresh st = let k = st.next in st.next <- k + 1; k

let is_lit = function EInt _ | EBool _ -> true | _ -> false

let small_int st =
  match Rng.int st.rng 10 with
  | 0 -> 0 | 1 -> 1 | 2 -> -1 | 3 -> Rng.range st.rng 2 9
  | 4 -> Rng.range st.rng (-100) 100
  | 5 -> Rng.pick st.rng [2147483647; -2147483648; 2147483646; -2147483647; 65536; 46341; 32768]
  | _ -> Rng.range st.rng (-20) 20

let bind env x t var = { n = x; t; var; ctr = false } :: List.filter (fun v -> v.n <> x) env

(* loop counters are not values: they are read only as operands of arithmetic / comparisons (so that
   no alias of the counter's cell exists and the loops terminate) *)
let vars_of env t = List.filter (fun v -> v.t = t && not v.ctr) env
let ctrs_of env = List.filter (fun v -> v.ctr) env

(* kind of an expression for the const/var discipline *)
let rec kind env e =
  match e with
  | EVar x -> (match List.find_opt (fun v -> v.n = int_of_n x) env with
      | Some v -> if v.var then KV else KC | None -> KC)
  | EBlock items -> kind_items env items
  | EAssign (_, r) -> kind env r
  | EWhile _ | EDoWhile _ | EPrint _ -> KC
  | _ -> KT
and kind_items env = function
  | [] -> KT
  | [IExpr e] -> kind env e
  | (ILet (x, _)) :: t -> kind_items ({ n = int_of_n x; t = TInt; var = false; ctr = false } :: env) t
  | (IVar (x, _)) :: t -> kind_items ({ n = int_of_n x; t = TInt; var = true; ctr = false } :: env) t
  | _ :: t -> kind_items env t

let rec gen_int st env d : expr =
  let vs = vars_of env TInt in
  let leaf () =
    if vs <> [] && Rng.pct st.rng 60 then ev (Rng.pick st.rng vs) else ei (small_int st) in
  if d <= 0 then leaf ()
  else
    let sub () = gen_int st env (d - 1) in
    let nonlit () = let e = sub () in if is_lit e then ev (Rng.pick st.rng vs) else e in
    let pair () =
      let a = sub () in let b = sub () in
      if is_lit a && is_lit b then (if Rng.bool st.rng then (ev (Rng.pick st.rng vs), b) else (a, ev (Rng.pick st.rng vs)))
      else (a, b) in
    Rng.weighted st.rng [
      18, (fun () -> leaf ());
      30, (fun () -> let a, b = pair () in EBin (Rng.pick st.rng [Add; Sub; Mul; Add; Sub], a, b));
      (if ctrs_of env <> [] then 10 else 0), (fun () ->
          EBin (Rng.pick st.rng [Add; Sub; Mul; BXor], ev (Rng.pick st.rng (ctrs_of env)), sub ()));
      10, (fun () ->
          let a = sub () in
          let b = if Rng.pct st.rng 12 then (if Rng.bool st.rng then ei 0 else EBin (Sub, ev (Rng.pick st.rng vs), ev (Rng.pick st.rng vs)))
            else if Rng.pct st.rng 50 then ei (Rng.pick st.rng [1; 2; 3; -1; 7; -2; 10]) else sub () in
          let a = if is_lit a && is_lit b then ev (Rng.pick st.rng vs) else a in
          EBin (Rng.pick st.rng [Div; Mod], a, b));
      8, (fun () -> let a, b = pair () in EBin (Rng.pick st.rng [BAnd; BOr; BXor], a, b));
      5, (fun () -> EBin (Rng.pick st.rng [Shl; Shr], nonlit (), ei (Rng.int st.rng 32)));
      6, (fun () -> ENeg (nonlit ()));
      9, (fun () -> ECond (gen_bool st env (d - 1), sub (), sub ()));
      4, (fun () -> ECond (gen_bool st env (d - 1), EBlock (gen_block st env TInt (d - 1) (Rng.int st.rng 3)),
                           EBlock (gen_block st env TInt (d - 1) (Rng.int st.rng 2))));
      5, (fun () -> EBlock (gen_block st env TInt (d - 1) (1 + Rng.int st.rng 2)));
      (if List.exists (fun v -> v.var) vs then 6 else 0), (fun () ->
          let v = Rng.pick st.rng (List.filter (fun v -> v.var) vs) in EAssign (ev v, sub ()));
      (if st.level >= 2 then 4 else 0), (fun () -> EPrint (sub ()));
      (if st.level >= 2 && d >= 2 && st.fuelv > 0 then 5 else 0), (fun () -> gen_loop st env (d - 1));
    ] ()

(* never a literal at the top (conditions and operands of ! must not be foldable) *)
and gen_bool st env d : expr =
  let vi = vars_of env TInt in
  let vb = vars_of env TBool in
  let cmp () =
    let a = gen_int st env (d - 1) in let b = gen_int st env (d - 1) in
    let a = if is_lit a && is_lit b then ev (Rng.pick st.rng vi) else a in
    EBin (Rng.pick st.rng [Lt0; Le; Gt0; Ge; Eq0; Ne], a, b) in
  if d <= 0 then (if vb <> [] && Rng.bool st.rng then ev (Rng.pick st.rng vb) else cmp ())
  else
    Rng.weighted st.rng [
      40, (fun () -> cmp ());
      (if ctrs_of env <> [] then 8 else 0), (fun () ->
          EBin (Rng.pick st.rng [Lt0; Le; Gt0; Ge; Eq0; Ne], ev (Rng.pick st.rng (ctrs_of env)), gen_int st env (d - 1)));
      (if vb <> [] then 15 else 0), (fun () -> ev (Rng.pick st.rng vb));
      10, (fun () -> ENot (gen_bool st env (d - 1)));
      6, (fun () ->
          let a = gen_bool st env (d - 1) in
          let b = if Rng.pct st.rng 30 then EBool (Rng.bool st.rng) else gen_bool st env (d - 1) in
          if Rng.bool st.rng then EBin (Rng.pick st.rng [Eq0; Ne], a, b) else EBin (Rng.pick st.rng [Eq0; Ne], b, a));
      6, (fun () -> ECond (gen_bool st env (d - 1), gen_boolv st env (d - 1), gen_boolv st env (d - 1)));
      (if List.exists (fun v -> v.var) vb then 5 else 0), (fun () ->
          let v = Rng.pick st.rng (List.filter (fun v -> v.var) vb) in EAssign (ev v, gen_boolv st env (d - 1)));
      3, (fun () -> EBlock (gen_block st env TBool (d - 1) (1 + Rng.int st.rng 2)));
      (if st.level >= 2 then 14 else 0), (fun () ->
          let a = gen_bool st env (d - 1) in
          let b = gen_bool st env (d - 1) in
          EBin (Rng.pick st.rng [And; Or], a, b));
    ] ()

(* a bool value, possibly a literal *)
and gen_boolv st env d = if Rng.pct st.rng 25 then EBool (Rng.bool st.rng) else gen_bool st env d

and gen_ty st env d t = match t with TBool -> gen_boolv st env d | _ -> gen_int st env d

(* n items followed by a final expression of type t; names bound in this block are fresh, or
   (sometimes) shadow a name of an enclosing block *)
and gen_block st env t d n : item list =
  let outer = List.map (fun v -> v.n) env in
  let rec go env bound i =
    if i >= n then [IExpr (gen_ty st env d t)]
    else
      let bt = if Rng.pct st.rng 20 then TBool else TInt in
      (* shadowing keeps the type of the hidden name, so that an int name always stays in scope *)
      let name () =
        let cands = List.filter (fun x -> not (List.mem x bound)
                                          && List.exists (fun v -> v.n = x && v.t = bt && not v.ctr) env) outer in
        if cands <> [] && Rng.pct st.rng 12 then Rng.pick st.rng cands else fresh st in
      Rng.weighted st.rng [
        30, (fun () ->
            let e = gen_ty st env d bt in
            let x = name () in
            ILet (n_of_int x, e) :: go (bind env x bt false) (x :: bound) (i + 1));
        35, (fun () ->
            let e = gen_ty st env d bt in
            let x = name () in
            if kind env e = KC then ILet (n_of_int x, e) :: go (bind env x bt false) (x :: bound) (i + 1)
            else IVar (n_of_int x, e) :: go (bind env x bt true) (x :: bound) (i + 1));
        25, (fun () ->
            let vs = List.filter (fun v -> v.var) env in
            let e =
              if vs <> [] && Rng.pct st.rng 75 then
                let v = Rng.pick st.rng vs in EAssign (ev v, gen_ty st env d v.t)
              else gen_ty st env d (if Rng.pct st.rng 20 then TBool else TInt) in
            IExpr e :: go env bound (i + 1));
        (if st.level >= 2 then 8 else 0), (fun () -> IExpr (EPrint (gen_int st env d)) :: go env bound (i + 1));
        (if st.level >= 2 && st.fuelv > 0 then 10 else 0), (fun () -> IExpr (gen_loop st env d) :: go env bound (i + 1));
      ] () in
  go env [] 0

(* counted loops (level 2): the counter is a fresh var that only the loop template assigns; the
   loop sits in a block that declares the counter *)
and gen_loop st env d : expr =
  st.fuelv <- st.fuelv - 1;
  let i = fresh st in
  let iv = { n = i; t = TInt; var = false; ctr = true } in       (* not assignable by the body *)
  let bound = Rng.range st.rng 0 4 in
  let env' = iv :: env in
  let body_items () = gen_block st env' TInt (d - 1) (Rng.int st.rng 3) in
  let incr = EAssign (EVar (n_of_int i), EBin (Add, EVar (n_of_int i), ei 1)) in
  let cond = EBin (Lt0, EVar (n_of_int i), ei bound) in
  let loop =
    match Rng.int st.rng 3 with
    | 0 -> EWhile (cond, EBlock (body_items () @ [IExpr incr]))
    | 1 -> EDoWhile (EBlock (body_items () @ [IExpr incr]), cond)
    | _ -> EFor (EAssign (EVar (n_of_int i), ei 0), cond, incr, EBlock (body_items ())) in
  EBlock [IVar (n_of_int i, ei 0); IExpr loop]

let gen_main st : fdef * int =
  let np = Rng.range st.rng 1 3 in
  let params = List.init np (fun _ -> let x = fresh st in (x, Rng.pct st.rng 40)) in
  let env = List.rev_map (fun (x, v) -> { n = x; t = TInt; var = v; ctr = false }) params in
  let d = Rng.range st.rng 1 4 in
  let body = gen_block st env TInt d (Rng.range st.rng 0 5) in
  (FDef (n_of_int 0, List.map (fun (x, v) -> ((n_of_int x, v), TInt)) params, TInt, body, [], None), np)
