#!/usr/bin/env python3
"""Assemble /verif/MANIFEST.json from the table below (kept valid at all times)."""
import json
import os
import subprocess

VERIF = os.path.dirname(os.path.dirname(os.path.abspath(__file__)))

TB = ("Coq 8.16.1 kernel (+vm_compute); no axioms of our own (Print Assumptions per theorem in the evidence); "
      "extraction with ExtrOcamlBasic only; unverified glue: python/OCaml/C drivers; the C code is modelled, "
      "tied by regeneration/correspondence on the cases run")

ENGINES = [
    {"name": "E1 gc", "path": "coq/GC coq/Mem/GcDelete*.v harness/gc harness/ocaml/gc harness/vm/gcsched.c harness/c04 checks/parts/gcschedule.py checks/parts/boundedlive.py",
     "serves_properties": ["C09", "C04", "C16", "C14", "C01"],
     "kind_free_text": "Coq model of back/gc.c (GCModel.v) with proofs over all operation histories, reachable-preservation and schedule transparency; op-history correspondence with the real gc.c (gcdrive.c); forced collection schedules + heap audit on the real VM (hook H2); bounded-live metamorphic family"},
    {"name": "E2 api", "path": "coq/VM/Api*.v coq/VM/ApiGlobal*.v harness/api harness/ocaml/api",
     "serves_properties": ["C15"],
     "kind_free_text": "Coq model of the embedding-API bookkeeping around a VM run and of the process-global state (FP status word, scanner string buffer, working directory) over all histories; API-history interpreter (apidrive.c) with fresh-process replay oracles; policies measured on the tree"},
    {"name": "E3 arith/index", "path": "coq/Arith coq/Index coq/Exc/ExcTab*.v coq/Gen/ConvTables.v coq/Gen/OpSelect.v gen harness/arith harness/index harness/ocaml/arith harness/ocaml/index harness/common/nevrun.c",
     "serves_properties": ["C10", "C11", "C12", "C03"],
     "kind_free_text": "Coq models of the arithmetic handlers, conversion matrices, constred.c, enumred.c, enumerator index assignment, array/range/slice/string indexing and the exception-table search; typing/opcode tables regenerated from the tree's compiler on every run; direct-call and probe-program correspondence"},
    {"name": "E4 verifier", "path": "coq/Verifier coq/VM/StackBound*.v coq/Exc/BuiltinFlags.v coq/Src/Tailrec.v coq/Gen/Opcodes.v harness/vm harness/ocaml/verifier harness/ocaml/stackbound harness/ocaml/tailrec harness/c03 harness/c13 harness/c14 lib/vmcheck.py",
     "serves_properties": ["C07", "C03", "C13", "C14", "C09", "C01"],
     "kind_free_text": "stack-shape machine + proved certificate checker (all static paths), unwinding, root-slot, tail-call and write-plan theorems; extracted checker on every compiled module, lock-step of the machine on real register traces incl. gc_stack tags (hooks H1, H3); opcode numbering regenerated from back/bytecode.h"},
    {"name": "E5 source", "path": "coq/Src coq/VM/ValueVM.v coq/VM/ValueVM3.v coq/VM/ValueVM4.v harness/ocaml/eval harness/ocaml/tc harness/ocaml/compile harness/ocaml/compile3 harness/ocaml/compile4 checks/parts/evaldiff.py checks/parts/compiletie.py",
     "serves_properties": ["C02", "C08", "C06", "C01", "C03", "C13"],
     "kind_free_text": "reference evaluator, model typechecker, type safety, compile-correctness for the fragments F1-F3, F5 (catch clauses) and, partially, F4 (closures) on value-level VM models; type-directed program generator, differential real compiler+VM vs evaluator, code-equality tie of the compiler model with front/emit.c"},
    {"name": "E6 front/mem", "path": "coq/Front coq/Mem coq/Gen/FrontConsts.v harness/front harness/mem harness/ocaml/front harness/ocaml/mem",
     "serves_properties": ["C05", "C16"],
     "kind_free_text": "proved logic slices (print_msg buffer arithmetic over regenerated constants, use stack, outcome classifier, allocation-trace monitor, gc_delete); malformed-input search under ASan/UBSan and malloc-event traces from a --wrap shim judged by the extracted monitor"},
    {"name": "E7 ffi/hash", "path": "coq/FFI coq/Hash harness/ffi harness/hash harness/ocaml/ffi harness/ocaml/hash checks/parts/hashtab.py",
     "serves_properties": ["C17", "C07", "C15"],
     "kind_free_text": "Coq model of the record layout / marshalling / descriptor / ffi_fail decision logic of back/vmffi.c and refinement proofs for the open-addressing tables (dlcache, strtab, functab); gcc layout comparison, generated C callees, call sequences, table-operation correspondence"},
]

CHECKS = {
    "C01": dict(
        engine="E4 verifier + E1 gc + E5 source",
        technique="Coq theorems: frame discipline on all paths of verified code (restated from C07), collector and allocator safety (from C09), type safety of the reference evaluator w.r.t. the model typechecker (preservation + progress with a store typing); crash oracle: every accepted corpus/generated program under ASan+UBSan+asserts across heap/stack configurations, ill-typed acceptance matrix",
        text="proof (partial by nature): Properties_C01.v — verified_code_no_stack_crash, collection_keeps_reachable, allocation_safe; Properties_C01b.v — core_type_safety, core_type_safety_typed, core_type_safety_tc, eval_type_safe(_nonnil), eval_items_type_safe, handlers_type_safe about coq/Src/Eval.v (one side condition left: no let/var initialiser is the literal nil — the program that witnesses it crashes the real VM and is a known finding). That the C handlers do at the byte level what the models say is observed, never presented as proof: every program of /repo/sample, corpus/programs and the other engines' corpora x 4 (quick) / 9 (thorough) heap/stack configurations + a seeded one, fresh generated programs, every ordered pair of 17 type shapes through assignment and argument passing (any accepted pair is executed), C12's probe programs, all on the ASan/UBSan asserts-on build",
        ref="DESIGN.md §5 C01",
        note=TB + "; byte-level memory safety of the C handlers is observed (ASan/UBSan/asserts), not proved: no C semantics (VST/CompCert) in this sandbox; the check has no model run of its own, its tie is the crash oracle"),
    "C02": dict(
        engine="E5 source",
        technique="Coq reference evaluator (Src/Eval.v) with machine-checked theorems for every language rule the property names (operand / argument order, short-circuit, binding shares cells, assignment copies payloads, for-in loops, fuel independence) + compiler-correctness theorems for the fragments F1-F3, F5 (catch clauses) and F4 (closures, partial) on value-level VM models; differential: real compiler+VM vs the extracted evaluator on type-directed generated programs; instruction-by-instruction tie of the compiler model with front/emit.c",
        text="proof (partial): Properties_C02.v (33 theorems over all expressions, environments and stores of the evaluator: eval_fuel_mono ... run_program_deterministic_in_fuel, binop_left_to_right, call_args_right_to_left, eval_args_rtl, and/or_short_circuits, binding_never_copies, assign_copies_payload, fresh_cell_for_arith, and the for-in rules of Src/EvalForIn.v: forin_range_bounds_once, forin_range_values, forin_range_iteration(_down), forin_done_value, forin_body_raises, forin_arr_iterable_once); Properties_C02b.v (8, all proved in full: compile_expr_correct, compile_func_correct_F, compile_program_correct_F1/_F2 on VM/ValueVM.v; compile_expr_correct_frames, compile_program_correct_F3 — whole module image, calls of top-level functions, recursion, self tail calls — and compile_program_correct_F5 — catch clauses — on VM/ValueVM3.v); Properties_C02c.v (15): compile_program_correct_F4 on VM/ValueVM4.v / Src/Compile4.v — whole programs with nested functions and closures (sibling runs, captured cells at any depth, function values bound, passed, stored, returned and called, by-value copies of function objects, tail self calls, catch clauses), PARTIAL: for the fragment prog_in_P 5 p || prog_in_P 6 p and the side conditions stated in that file (level 5 = compile_program_correct_F4_partial: any assignment, no copies; level 6: copies, assignment only to int vars; the levels are not merged — Example exbad shows the merged statement is false of the untyped evaluator) — plus closure_run, sibling_run, the machine-side C08 facts and the simulation cases; Properties_C02d.v (4): compile_program_correct_F7 — level 6 plus one-dimensional int arrays (literals, bounds-checked index reads, element assignment, index_out_of_bounds through the exception table), no side condition beyond the fragment predicate prog_in_P 7. Properties_C02e.v (4): compile_program_correct_F8 — level 7 plus records with int fields (construction, nil record, field reads with nil_pointer through the exception table, field assignment); prog_in_P 8 requires an int-shaped right operand of ==/!= (the untyped evaluator compares nil references where OP_EQ_INT is stuck). Tied, not proved: the compiler models equal front/emit.c's code (level 2: region of main; levels 3, 5, 4, 7, 8: whole code array, exception table, entry and function addresses) and the value-level VMs equal the real VM (result, prints, exception, peak sp, instruction count) on generated fragment programs. Outside the proved fragments (for-in, arrays, records, non-int data) the evaluator is a model validated by the differential run (3400 quick / 54000 thorough programs over 12 profiles, each also with a small heap), not a theorem about the compiler",
        ref="DESIGN.md §5 C02, §0",
        note=TB + "; constructs outside Src/Syntax.v (strings, floats, long, enums/match, tuples, multi-dimensional arrays, slices, comprehensions, modules) are covered by the other engines' probe families, not by this evaluator; Src/Eval.v has no tail-call elimination (functions with a tail self call get no catch clauses in the generator); the stacks of the value-level VMs are unbounded, a bound in terms of call depth is not proved (peaks are compared in the tie)"),
    "C03": dict(
        engine="E4 verifier + E5 source + E3 arith/index",
        technique="Coq proofs: exception-table binary search spec and its link to the verifier's lookup; fault delivery on the shape machine for all paths of verified code; clause selection theorems on the reference evaluator; decision logic of built-in calls over the FP status word; fault-program family with closed-form oracle, flag rows of the real libvm_execute_build_in evaluated by coqc, lock-step on real traces",
        text="proof: Properties_C03.v (28) — search_spec, handler_is_search; for every module accepted by the certificate checker and every reachable state (any call depth, any number of frames under construction): fault_lands_in_own_handler, handler_link_increases, handler_chain_finite, clear_stack_restores_frame, rethrow_pops_partial_frame, rethrow_returns_to_caller, every_fault_has_a_handler, unhandled_only_at_top_level, unhandled_reached_only_at_top; on Src/Eval.v: fault_result_unused_* (10), first_matching_clause, clause_value_is_call_result, no_clause_propagates, clause_exception_goes_to_later_clauses, catch_all_takes_the_rest, unhandled_at_top. Properties_C03b.v (7, Exc/BuiltinFlags.v) — builtin_outcome_is_classification_of_own_flags, builtin_outcome_independent_of_history, builtin_that_does_not_fail_raises_nothing, builtin_exception_is_an_own_flag. Tie: direct-call correspondence with exctab.c; ~3400 flag rows of the real built-in dispatcher checked by coqc (rows_ok); the verifier + emitter-layout check + lock-step on every corpus and family module; generated fault programs (13 fault kinds x argument position x 0..3 frames under construction x clause level/order x loops/closures/recursion/top level/FFI records, and operation history x built-in) compared with a closed-form oracle; completeness over fault sites: harness/c03/faultsites.py enumerates every site of back/*.c that sets VM_EXCEPTION (a site assigning no exception is a violation) and SITE_PROBES reach them with stale, non-matching and missing clauses; block-boundary test",
        ref="DESIGN.md §5 C03",
        note=TB + "; which exception number a clause tests is data (INT; PUSH_EXCEPT; EQ; JUMPZ): decided at source level and by the generated programs, the shape machine only carries control; values of libm built-ins are compared with libm called directly, not modelled"),
    "C04": dict(
        engine="E1 gc",
        technique="Coq proofs on the collector model: reachable cells preserved with identical objects, every path from the roots reads the same values, and schedule transparency of a path-addressed mutator language (any two collection schedules and heap sizes give equal observations); forced-schedule differential + heap audit on the real VM (hook H2) under ASan",
        text="proof: Properties_C04.v (8) — collect_preserves_reachable, run_preserves_reachable, deep_read_invariant(_run), collect_idempotent (GC/GCPreserve.v) and gc_schedule_transparent, gc_never_always_threshold, run_never_collfail (GC/GCTransparent.v: every mutator program over registers, every two schedules and heap sizes that do not run out of memory) about coq/GC/GCModel.v, which is tied to back/gc.c by E1's op-history correspondence (a slice is re-run here). That the roots handed to the collector are complete is a theorem for the stack slots (Properties_C09b.v root_slots, tied by the gc_stack-tag lock-step) and otherwise checked on the real VM: corpus + generated allocation-heavy programs (8 families) under every-safe-point / threshold / never / seeded schedules and heap sizes from the program's need upward must give identical outcomes, and an audit around every collection walks the real heap from the real roots",
        ref="DESIGN.md §5 C04",
        note=TB + "; gp and C temporaries of handlers as roots are observed through hook H2 + audit, not modelled instruction by instruction"),
    "C05": dict(
        engine="E6 front/mem",
        technique="Coq proofs of the logic slices an executable model can carry (print_msg buffer arithmetic over constants regenerated from the tree, the `use` include-stack state machine, a verified outcome classifier); malformed-input search (token mutation, truncation, grammar-driven syntax errors generated from the tree's parser.y, injected faults, raw bytes, long/deep inputs, use graphs) under ASan/UBSan with the extracted classifier as oracle",
        text="proof (partial by nature): Properties_C05.v (8) — msg_within_buffer_spec, msg_write_safe_criterion, msg_write_within_buffer_verdict, msg_write_within_buffer (all prefix/body lengths, over MAX_MSG_SIZE and the size expressions regenerated from back/utils.c on every run), msg_unbounded_body_limit_refuted (the arithmetic before fix 86d534e, kept as discriminating witness), use_depth_bounded, outcome_classifier_total, outcome_classifier_correct. Crash-, hang- and memory-safety of the generated scanner/parser and of the typechecker on arbitrary bytes cannot be stated over an executable model in this sandbox and are observed on ~3.8x10^4 inputs per quick run (incl. ~1.16x10^4 grammar-driven syntax errors, right-nested constructs at depths 100000 / 250000 on the plain build, capture / enum-record forms with an expected verdict, extern declarations over records, NEVER_PATH values with bad components), never presented as proof",
        ref="DESIGN.md §5 C05, §11",
        note=TB + "; gen/gen_frontconsts.py reads back/utils.c and front/scanner.l as text (a spelling it cannot translate is reported as a broken tie); stack overflow counts only if the plain build with an 8 MiB stack dies too"),
    "C06": dict(
        engine="E5 source",
        technique="Coq model typechecker for the core AST, proved sound AND complete w.r.t. a declarative typing judgment; every single-fault mutation operator of the rule catalogue proved rejected at any nesting depth; real compiler vs model on generated well-typed programs and all their mutants (accept/reject and diagnostic line); four text-level families with python oracles for constructs outside the core AST",
        text="proof: Properties_C06.v (9) — typecheck_sound, typecheck_complete, mutant_rejected (every well-typed P, every single-fault mutant of the catalogue at any depth: operands, branches, loop bodies, arguments, nested functions, lambdas, catch clauses), mutant_rejected_at_depth, assign_to_const_rejected, match_check_sound, match_omitting_enumerator_rejected, unknown_exception_rejected, unknown_attribute_rejected about coq/Src/Typecheck.v / TypecheckMatch.v; tie: ~4x10^4 generated mutants per quick run through the tree's compiler (each rejected with a diagnostic on the mutated node's lines; each base program accepted); text families: several matches per unit, binder-scope grid, one-place type differences in nested function types, offence x 48 contexts x sink grid, alias / call-syntax / array-literal forms, same-named types of different modules, operators on arrays, arms / branches of different types; corpus/C06 and the tree's *.nev.err samples",
        ref="DESIGN.md §5 C06",
        note=TB + "; the diagnostic line is not in the model (the AST carries no lines): checked on the real compiler only; rules outside the core AST of Src/Syntax.v are exercised by the text families and by C01's ill-typed acceptance matrix, not by a theorem"),
    "C07": dict(
        engine="E4 verifier + E7 ffi/hash",
        technique="Coq proof of a bytecode verifier (certificate checker) sound for a stack-shape machine along all paths, incl. direct-call arity; proved reference checks; extracted checker run on every compiled module; lock-step of the machine on real register traces and gc_stack tags; string-table refinement",
        text="proof: Properties_C07.v — verify_sound (all observation sequences = all static paths incl. exceptional edges and dynamic call targets), verify_depth, references_exist (a COPYGLOB self reference may target another emission of the running function: Refs.self_or_copy, for-in range bodies are emitted twice); Properties_C07b.v — direct_call_arity (a CALL directly after ID_FUNC_ADDR g finds exactly np g argument slots on every path); Hash/StrTabStatements.v (registered as obligations) — strtab_refines_list, strtab_entry_resize_preserves. Per program the extracted checker validates the module emitted by the tree's compiler (translation validation with a proved validator; a rejected module is searched for a concrete crashing static path); the machine's effect table is tied to back/vmexec.c by lock-step on real traces (hook H1: every step a successor, slot kinds = real tags), the opcode numbering is regenerated from back/bytecode.h, per-function metadata comes from hook H3",
        ref="DESIGN.md §5 C07",
        note=TB + "; operand kinds flowing through locals/calls are outside the untyped bytecode (C01b/C02); a dynamic callee of another arity is outcome ArityStuck of the model (the typechecker's obligation), observed by the lock-step"),
    "C08": dict(
        engine="E5 source",
        technique="Coq proofs on the reference evaluator: invariance under every injective renaming of all names, true alpha-conversion of a let/var binder to a fresh name, closures capture the environment's cells, distinct activations and distinct for-in iterations get distinct cells, store monotonicity; differential: original vs uniquified vs injectively renamed programs on the real compiler, and vs the evaluator, on shadowing/closure/alias profiles, also with small heaps",
        text="proof: Properties_C08.v (24) — rename_invariance, eval_rename, alpha_fresh_binder, alpha_fresh_binder_in_block, eval_subst_rel, res_rel_observable, closure_captures_cells, func_run_captures_env, func_run_names, closure_var_denotes_captured_cell, distinct_activations_distinct_cells, store_monotone(+_items,_handlers), cells_only_grow, cells_keep_index, objects_keep_index, and for for-in loops forin_range_step_fresh_cell, forin_range_cells_distinct, forin_closure_reads_own_cell, forin_arr_step_shares_cell — all about Src/Eval.v; tie: generated programs with the same name bound at every binder kind in nested scopes, escaping and returned closures, counters shared between closures, closures created in loops: the real compiler must give the same outcome on the original, the uniquified and an injectively renamed variant, and equal to the evaluator, with heaps of 20000, 150, 220 and 400 cells; an evaluator-free family for constructs outside Src/Syntax.v (patterns, dimension names, comprehension qualifiers, for-in over slices, catch bodies, module lets): every lexically equivalent spelling must behave alike, closures made per iteration must see distinct cells, an iterable is unchanged by iteration",
        ref="DESIGN.md §5 C08",
        note=TB + "; free-variable resolution inside the real compiler (gencode.c) is covered by a theorem only as far as Properties_C02c.v (F4, partial) goes and is otherwise tied through the differential; the generator avoids the shape of the known finding late-shadow-after-closure (kept in corpus/C08)"),
    "C09": dict(
        engine="E1 gc + E4 verifier",
        technique="Coq proof of heap-bookkeeping invariants and exact collection over all operation histories of a model of gc.c; root slots of the VM stack classified for all reachable states of verified code; op-history correspondence with the real gc.c + property oracle on the real heap; bounded-live and forced-schedule families on the real VM",
        text="proof: Properties_C09.v (10) — gc_new_wf, gc_wf_step, gc_wf_history, alloc_hands_out_a_free_cell, alloc_oom_iff_full, cells_conserved, collect_total, collect_exact, run_exact, bounded_live_never_oom about coq/GC/GCModel.v; Properties_C09b.v — stack_slots_classified, root_slots (Verifier/Roots.v: in every reachable state of verified code the roots are exactly the value slots and the saved-environment slot of every frame header). Tie: generated histories executed on the model and on back/gc.c (every address, both lists, free chain, marks, objects compared after every op; heaps 2..300 and 65535..140000 cells) + an independent reachability oracle; at VM level 17 bounded-live loop forms (heap for N iterations must suffice for 10N) and every corpus/generated program under forced collection schedules (same outcome; the stack extent and environment handed to each gc_run must equal sp+1 / gp at the next instruction boundary: GCROOTS oracle of harness/vm/bcdump.c); the slot kinds are compared with the real gc_stack tags by the lock-step",
        ref="DESIGN.md §5 C09",
        note=TB + "; not modelled: host recursion depth of gc_mark, malloc failure, OBJECT_UNKNOWN; one stated exemption of the tag comparison: the junk slot RETHROW leaves until CLEAR_STACK removes it"),
    "C10": dict(
        engine="E3 arith/index",
        technique="Coq proof by induction over literal expression trees that the model of front/constred.c agrees bit-for-bit with the run-time semantics written from front/emit.c + back/vmexec.c; model of front/enumred.c and of the enumerator index assignment as an equation system; three-leg correspondence (real reducer vs fold, real VM vs rt_eval, literal-vs-variable metamorphic pairs on the real code), operand-form and enum-declaration families",
        text="proof: Properties_C10.v (19) — well_typed_trees_are_emitted, fold_agrees_with_runtime (every typed tree, all literal values), fold_literal_is_runtime_value, fold_total, fold_never_crashes, run_never_traps, regression statements for the repaired defects (long_mul, bool_neq, int_min_div, enum_min_div, enum_compare), efold_never_crashes, enumred_is_constred_on_int_trees, enum_index_is_runtime_value; one statement is false of the faithful model and stays a known finding: fold_div0_is_runtime_fault_partial (strict trees) with fold_div0_is_runtime_fault_refuted / cond_div0_is_rejected_but_runs (a zero divisor under && || ?: is rejected although never evaluated); enumred_agrees_with_runtime_partial (int/bool trees; the rest of enumred.c by correspondence). Properties_C10b.v (7, Arith/EnumIndex.v) — enum_index_terminates, _satisfies_its_initialiser, _is_the_unique_solution, _independent_of_declaration_order, enum_index_stable, cyclic_reference_reported_only_for_cycles, enumerator_above_a_cycle_gets_no_index. Tie: typing/opcode tables regenerated (table:* obligations); the folded literal read back from the dumped bytecode, the VM result from probe programs with operands in variables, exhaustive over operator x admitted type pairs, corner + random values, MIN/-1 in every div/mod cell; enum declaration sets against the extracted decl_indices; string folds (s + s, s + char, s + number, comparisons, length, index) with literal vs variable operands",
        ref="DESIGN.md §5 C10",
        note=TB + "; excluded as C UB and counted in the evidence: out-of-range float->int, shift counts >= width"),
    "C11": dict(
        engine="E3 arith/index",
        technique="Coq proofs over regenerated finite tables (promotion / assignment conversion / opcode selection: forallb by vm_compute lifted with forallb_forall) and over all values (wrap ring homomorphism, truncating division incl. MIN / -1, two's-complement bit operations, exact int<->long and float<->double conversions on SpecFloat); value probes on the real VM in all operand forms compared by bit pattern",
        text="proof: Properties_C11.v (17, no _partial/_refuted left) — binary_result_is_join, binary_table_covers_numeric_pairs, assignment_converts_to_left, opcode_matches_type, unary_opcode_matches_type, accepted_cells_are_emitted over tables regenerated from the tree's typechecker+emitter on every run (exhaustive: 1152 binary + 24 unary + 64 assignment cells), and wrap_ring_hom, arith_exact_when_fits, div_never_traps, div_overflow_wraps, div_truncates, div_by_zero_faults, compare_total_int, bitops_are_two_complement, shift_in_range, conv_int_long_exact, conv_float_double_exact for all operand values; tie: every (operator, type pair, value pair) as var-var, lit-lit, lit-var, var-lit and enum-initialiser form, assignments and concatenations, and the array forms of the operators (element by element against the scalar operators), on the real VM; results compared bit-for-bit with the extracted operations (correspondence) and with an independent python reference (property oracle)",
        ref="DESIGN.md §5 C11",
        note=TB + "; IEEE conformance of Coq.Floats.SpecFloat is Flocq's theorem (cited, not re-proved, not imported); number formatting (Arith/Fmt.v) has no theorem and is tied by correspondence only; C UB excluded and counted: out-of-range float->int, shift counts >= width"),
    "C12": dict(
        engine="E3 arith/index",
        technique="Coq proofs about models of object_arr_dim_mult/fits/addr, vm_get_slice_range, MK_ARRAY and the deref/slice/string/array-arithmetic handlers; exhaustive small-extent + boundary + random direct-call correspondence and probe programs under ASan",
        text="proof: Properties_C12.v (34, no _partial/_refuted left) — dim_addr_row_major, row_major_injective, dim_addr_oob, array_deref_spec, dim_fits_spec, mk_array_spec, mk_array_deref_spec (every array the VM creates), slice_range_denotes, slice_range_index_out, slice_range_results, compose_ranges_denotes, range_deref_spec, slice_deref_spec, slice_aliases, mk_array_slice_deref_spec, slice_slice_assoc (all int bounds and indices, no overflow hypothesis since fix acecad0), string_index_guard, string_slice_exact, shape_conformance, arith_result_indexing, the flat layout of range vectors (unflatten_flatten, vec_layout, slice_range_vec_spec, range_deref_vec_spec, slice_deref_vec_spec, slice_slice_vec_spec, slice_dim_name_spec), and *_regression theorems on the witnesses of the former overflow refutations (fixed by acecad0, 1f9996a); tie: direct calls into the tree's object.c/vmexec.c/exctab.c (exhaustive for <=3 dims, extents <=4, all range quadruples in [-1,5]^4, ranges next to INT_MAX/INT_MIN, random 32-bit values) and handler-level probe programs (incl. 2-D / 3-D slice-of-slice and range-of-range compositions in every direction combination, bound names of slice and range parameters, empty strings) judged by a python oracle",
        ref="DESIGN.md §5 C12",
        note=TB + "; the theorems about object_arr_dim_mult/addr themselves keep the hypothesis product < 2^32 (that function still wraps; the guard sits in MK_ARRAY and the matrix product); handler-level behaviour is tied through probe programs, not by a model of the whole VM"),
    "C13": dict(
        engine="E4 verifier + E5 source",
        technique="Coq proofs: a tail transfer keeps the frame (P, F) and the stack is bounded by (non-tail calls + 1) x (max certified frame size + 5) in every run of verified code; model of front/tailrec.c marks only (and all direct) tail-position self calls; generated tail-recursive family at N and 10N with peak-sp monitor (hook H1) and code-vs-model marking comparison",
        text="proof: Properties_C13.v (9) — tail_call_keeps_frame, stack_bounded_by_open_calls, stack_bounded_by_nontail_calls, tail_call_constant_stack, tail_call_constant_stack_open (corollaries of verify_depth: any number of tail transfers, peak independent of the iteration count), tailrec_marks_characterised, tailrec_marks_only_tail_positions, tailrec_marks_all_direct_tail_self_calls, tailrec_ignores_catch_clauses for coq/Src/Tailrec.v; tie: generated shapes (?:, if/else, blocks with locals, parentheses, match arms, if-let, |>, unary operators around the call, nested functions with captures, let/var-bound function expressions, catch clauses, five unit layouts: plain / use clause / inside a module / that module imported first or last of two uses, non-tail controls) run at N=5000/50000 (thorough 30000/300000) on a 200-slot stack: equal peak sp and frame count, peak below the verifier's bound, result equal to the python reference and the while loop; tail sites in the dumped code equal the model's marking",
        ref="DESIGN.md §5 C13",
        note=TB + "; result equality with the loop is a theorem only for the F3 fragment of C02b (self tail calls of top-level functions)"),
    "C14": dict(
        engine="E4 verifier + E1 gc",
        technique="Coq proofs over per-opcode write plans (bump/check/write order mirrored from every handler, regenerated skeleton comparison): no write outside the stack and the limit reported exactly when needed, monotonicity in the stack size, on the shape machine for all runs of verified code; k-slot pushes with a checked vs hoisted check; allocation on a full heap reports out of memory before writing (GC model); exact prediction of the instruction at which the limit fires, guard-slot sweeps, peak probes, CLI family",
        text="proof: Properties_C14.v (16) — no_write_outside_stack (check-first tree, every opcode), no_write_outside_stack_variant, run_plans_monotone / _demand / _fires_iff_needed, limit_monotone_stack, limit_monotone_completes, limit_fires_iff_needed, limited_run_never_oob, all_consistent_checked, verified_run_under_limit, oom_reported; about the write-first plans of the pinned tree (fixed by f469f0b), kept as the discriminating half: no_write_outside_stack_partial, no_write_outside_stack_refuted, witnesses_checked_report_limit. Properties_C14b.v (10) — every_write_below_checked_bound, written_in_range, push_param_plan, pushn_checked_*, pushn_hoisted_*. The run probes the real VM to see which form of the five irregular handlers the tree has. Tie: stack skeleton of all handlers regenerated from the C sources and compared with the model shapes; for every program and stack size the extracted model's prediction (completes / limit at instruction i) must equal the real VM exactly; heap sweep from 1 cell; entry functions with 0..10 parameters at every size with guard slots; peak probes (one construct at the unique deepest point, per pushing opcode); the `never` tool with -s/-m in every order vs the API",
        ref="DESIGN.md §5 C14",
        note=TB + "; heap size 0 is outside the configured sizes; depth of the C recursion in gc_mark (host stack) not modelled; harness/c14/skeleton.py reads handler text (a respelled sp assignment can be reported as a broken tie when no boundary run confirms the model)"),
    "C15": dict(
        engine="E2 api + E7 ffi/hash",
        technique="Coq proofs over all API histories of an abstract embedding-API machine (stack neutrality, repeatability, VM independence; instruction-level VM universally quantified) and of a process-state machine (FP status word, scanner string buffer, working directory) under measured reinitialisation policies, proved necessary; function-table refinement; API-history correspondence and fresh-process replay oracles on the real library under ASan",
        text="proof for the modelled state: Properties_C15.v (13) — execute_stack_neutral, execute_stack_neutral_call, execute_uses_no_more_stack_than_first, reachable_is_primed, execute_repeatable, execute_outcome_function_of_globals, vms_independent, vms_commute over every finite history (execute_stack_neutral_partial / _refuted / _after_error_refuted describe the pinned policies fixed by 1f8f62e, a221d79); Properties_C15b.v (10) — process_history_as_in_fresh_process under `reinitialises`, process_reinit_necessary, fp_* and scan_* lemmas; Properties_C15c.v (5) — working_directory_invariant_over_history, compiles_resolve_files_as_in_fresh_process, working_directory_restore_necessary, process3_history_as_in_fresh_process under `cwd_restoring`; Hash/FuncTabStatements.v (obligations) — functab_add_sequences, functab_distinct_refines_map. The policies (pop at HALT / restore on error; fe*except masks, opening-quote rule, the two chdir(cwd)) are measured on the tree on every run. The remaining compile-time globals (flex start condition, use stack, line_no, utils_file_name) have no Gallina model and are decided by correspondence only: the k-th compile/execute of a random history must equal a fresh process's (code/exctab/strtab/functab digest, diagnostics, results, sp, cwd), incl. residue, never-path, ffi-failure-then-valid, reprepare and failfirst families",
        ref="DESIGN.md §5 C15",
        note=TB + "; the instruction-level run of the entry stub is universally quantified in the API theorems: its frame discipline is C07's theorem; the file system is a parameter of the cwd theorems"),
    "C16": dict(
        engine="E6 front/mem + E1 gc",
        technique="Coq proofs: an executable allocation-trace monitor is sound and complete for balanced / no double free / no free of unknown block, and exact about leaks; gc_delete frees each object exactly once (collector model); malloc-event traces of compile->run->dispose from a --wrap shim judged by the extracted monitor, LeakSanitizer as second opinion",
        text="proof (partial by nature): Properties_C16.v (4) — monitor_sound_complete, monitor_leak_exact, monitor_reject_sound, gc_delete_frees_each_object_once; Properties_C16b.v (3, Mem/GcDelete*.v with the loop bounds of gc_delete as parameters, read from the tree on every run) — gc_delete_bounds_freed, gc_delete_bounds_complete, gc_delete_cut_leaks; which source constructs reach which %destructor / *_delete cannot be modelled and is observed: every allocation event of libnev between program_new and the return of program_delete on valid, syntactically broken (grammar-driven, ~1.16x10^4), ill-typed, reducer-rejected and missing-module sources, enum initialisers, an FFI family, entry functions run with host-owned string / string-array arguments (re-prepared, several runs and VMs), all run outcomes, one probe per raise site of the VM x handler arrangement, one per built-in function and string-producing operator path, owned tokens at every grammar error position, and a heap-size sweep around each probe's need",
        ref="DESIGN.md §5 C16, §11",
        note=TB + "; runs ending in exit() inside libnev (stack too large, out of memory), signals and time-outs are counted but not judged for leaks"),
    "C17": dict(
        engine="E7 ffi/hash",
        technique="Coq proofs about a model of the record layout/marshalling code of back/vmffi.c (System V struct layout, marshal/unmarshal round-trip, descriptor stream, nil => ffi_fail decision) and refinement of the library handle cache back/dlcache.c to an association map for every hash function; layout compared exhaustively with gcc's offsetof/sizeof; generated C callees, many-argument and call-sequence families, dlcache operation histories under ASan",
        text="proof (partial by nature): Properties_C17.v (11) — layout_is_c_layout, ffi_align_is_round_up, marshal_within_bounds, marshal_unmarshal_roundtrip(_nested), marshal_ret_iff_nil, descriptor_stream_wellformed, sizeof_bound, nil_arg_is_ffi_fail (nil_arg_is_ffi_fail_partial / _refuted describe the assigning variant of the pinned tree, fixed by ab7c716) about coq/FFI/Layout.v; Properties_C17b.v (14) — dlcache_refines_map, dlcache_step_total, dlcache_handle_stable, dlcache_never_added_not_found, dlcache_resize_preserves_map ... (dlcache_dup_first_wins_refuted, dlcache_new_size0_refuted: outside what get_handle can reach / outside the precondition). The platform ABI / libffi / dlopen part cannot be modelled and is observed: layout vs gcc over ~10^4 shapes (exhaustive set), generated signatures (arities 0..8 densely, every arity 9..20/24 x by-value record of every size class x position, structs 1-40 bytes, records crossing 64 KiB and 128 KiB, every legal declaration order, register and memory classes, nil placements, missing library/symbol) must deliver every argument and result exactly; calls in sequence over several programs, VMs and libraries whose names surround the reserved word `host`; real dlcache functions with fake handles compared with the model after every operation",
        ref="DESIGN.md §5 C17",
        note=TB + "; register/memory classification, libffi, dlopen/dlsym and ownership of the argument buffers are observed, not proved"),
}

PENDING_REASON = "check not built yet (framework under construction); will be claimed once its Coq theorems and correspondence run"


def findings_note(pid):
    """'; findings: N fixed by fix: commits, M known' counted from known_findings.jsonl at generation time"""
    fixed = known = 0
    for l in open(os.path.join(VERIF, "known_findings.jsonl")):
        l = l.strip()
        if not l or l.startswith("#"):
            continue
        k = json.loads(l)
        if k.get("property") != pid:
            continue
        if k.get("status", "known") == "fixed":
            fixed += 1
        else:
            known += 1
    if not fixed and not known:
        return "; findings keyed to this property (known_findings.jsonl): none"
    return "; findings keyed to this property (known_findings.jsonl): %d fixed in /repo by fix: commits, %d still known (printed as KNOWN-FINDING, see DESIGN.md §7)" % (fixed, known)


def main():
    props = [json.loads(l) for l in open(os.path.join(VERIF, "properties.jsonl"))]
    hooks = subprocess.run(["git", "-C", "/repo", "log", "--format=%H %s"], stdout=subprocess.PIPE, text=True).stdout
    hook_commits = [l.split()[0] for l in hooks.splitlines() if "verif hook" in l]
    checks, na = [], []
    for p in props:
        pid = p["id"]
        c = CHECKS.get(pid)
        if c and os.path.exists(os.path.join(VERIF, "checks", pid.lower() + ".py")):
            checks.append({
                "property_id": pid,
                "quick_cmd": "bin/check %s --tier quick" % pid,
                "thorough_cmd": "bin/check %s --tier thorough" % pid,
                "evidence_file": "evidence/%s.json" % pid,
                "replay_cmd_template": "bin/check %s --replay {path}" % pid,
                "engine": c["engine"],
                "level_claimed": {"category": c.get("category", "proof"), "text": c["text"], "design_ref": c["ref"]},
                "level_note": c["note"] + findings_note(pid),
                "technique": c["technique"],
            })
        else:
            na.append({"property_id": pid, "reason": PENDING_REASON})
    m = {
        "version": 1,
        "setup_cmd": "bin/setup",
        "hooks": {"guard": "NEVER_VERIF",
                  "enable": "bin/repobuild asan|plain copies /repo's working tree to a scratch directory, regenerates parser/scanner and compiles it with -DNEVER_VERIF (asserts on; asan adds ASan+UBSan)",
                  "baseline_off_cmd": "bin/baseline-off",
                  "source_commits": hook_commits,
                  "add_only": True},
        "engines": ENGINES,
        "checks": checks,
        "notes": "see DESIGN.md; bin/check <id> is the single entry point; known_findings.jsonl lists findings/fixes",
        "not_applicable": na,
    }
    with open(os.path.join(VERIF, "MANIFEST.json"), "w") as f:
        json.dump(m, f, indent=1)
    print("checks:", [c["property_id"] for c in checks], "pending:", len(na))


if __name__ == "__main__":
    main()
