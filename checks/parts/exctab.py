"""Direct-call correspondence for the exception-table search (DESIGN.md §5 C03 (a)).

run_exctab(ctx) compares, on generated tables, the tree's real

    exception_tab_new / exception_tab_insert / exctab_search / exception_tab_search   (back/exctab.c)

(called by harness/index/indexdrive.c, ASan build) with the extracted model Exc/ExcTab.v
(build/ocaml/index/run), about which Exc/ExcTabProofs.v proves `search_spec`.

Cases: strictly sorted random tables of length 1..200 (lengths 1, 2, 3, 199, 200 always
present; first block 0 or > 0; small and 32-bit block addresses), searched at every block
boundary -1/+0/+1, below the first block, at and beyond the last block, at UINT_MAX-1 and
UINT_MAX; plus the degenerate calls (count 0, NULL table).

Independently of the model a python oracle states the property: the entry returned is the
unique i with block_i <= ip < block_{i+1} (block_n = UINT_MAX sentinel) and the handler address
is that entry's; NULL only below the first block (or for ip = UINT_MAX).
  real code != oracle  -> ctx.violation("exctab_search:...")
  real code != model   -> ctx.correspondence_broken("exctab_search", first differing case)
"""
import bisect
import os
import random

from lib import common

UINT_MAX = 4294967295
RUN = os.path.join(common.BUILD, "ocaml", "index", "run")
ASAN_ENV = "detect_leaks=0:abort_on_error=0:exitcode=99:allocator_may_return_null=1"


def drv_env():
    env = dict(os.environ)
    env["ASAN_OPTIONS"] = ASAN_ENV
    env["UBSAN_OPTIONS"] = "print_stacktrace=0:halt_on_error=1"
    return env


def gen_tables(rng, n):
    """-> list of (entries [(block, handler)], ips)"""
    out = []
    forced = [1, 1, 2, 3, 199, 200, 1, 2]
    for t in range(n):
        ln = forced[t] if t < len(forced) else rng.randint(1, 200)
        style = rng.choice(["small", "small", "wide", "dense", "top"])
        if style == "small":
            pool = rng.sample(range(0, 4 * ln + 50), ln)
        elif style == "dense":
            base = rng.choice([0, 1, 7, 1000])
            pool = list(range(base, base + ln))
        elif style == "top":
            pool = rng.sample(range(UINT_MAX - 5 * ln - 10, UINT_MAX - 1), ln)
        else:
            pool = list(set(rng.randrange(0, UINT_MAX - 1) for _ in range(ln)))
            while len(pool) < ln:
                v = rng.randrange(0, UINT_MAX - 1)
                if v not in pool:
                    pool.append(v)
        blocks = sorted(pool)
        if rng.random() < 0.5:
            blocks[0] = 0 if (len(blocks) == 1 or blocks[1] > 0) else blocks[0]
        entries = [(b, rng.randrange(0, UINT_MAX)) for b in blocks]
        ips = set()
        for b in blocks:
            for d in (-1, 0, 1):
                if 0 <= b + d <= UINT_MAX:
                    ips.add(b + d)
        ips.update([0, max(0, blocks[0] - 1), blocks[-1], min(UINT_MAX, blocks[-1] + 1000),
                    UINT_MAX - 1, UINT_MAX])
        for _ in range(4):
            ips.add(rng.randrange(0, UINT_MAX))
        out.append((entries, sorted(ips)))
    return out


def oracle(entries, ip):
    """index of the block containing ip, or None (python's own bisect, not the model)"""
    blocks = [b for b, _ in entries]
    i = bisect.bisect_right(blocks, ip) - 1
    if i < 0:
        return None
    nxt = blocks[i + 1] if i + 1 < len(blocks) else UINT_MAX
    if blocks[i] <= ip < nxt:
        return i
    return None


def run_exctab(ctx, lib=None, drv=None, tables=None):
    """-> dict(evaluations, nontrivial, diffs); records violations / broken correspondence on ctx"""
    if lib is None:
        lib = common.repobuild("asan")
    if drv is None:
        drv = common.cc_driver("indexdrive", ["index/indexdrive.c"], lib)
    if not os.path.exists(RUN):
        ok, log = common.ocaml_build("index")
        if not ok or not os.path.exists(RUN):
            ctx.correspondence_broken("exctab_search", {"error": "extracted model did not build", "log": log[-1500:]})
            return {"evaluations": 0, "nontrivial": 0}
    rng = random.Random((ctx.seed << 8) ^ 0xE7C7AB)
    n = tables if tables is not None else (300 if ctx.tier == "quick" else 3000)
    tabs = gen_tables(rng, n)
    lines = []
    for entries, ips in tabs:
        lines.append("X " + " ".join("%d %d" % e for e in entries) + " | " + " ".join(map(str, ips)))
    lines.append("X | 0 4 4294967295")          # count == 0
    lines.append("XN 0 4 4294967295")           # NULL table
    path = os.path.join(ctx.outdir, "exctab_cases.txt")
    with open(path, "w") as f:
        f.write("\n".join(lines) + "\n")
    rc_c, out_c, err_c = common.sh([drv, path], timeout=600, env=drv_env())
    rc_m, out_m, err_m = common.sh([RUN, path], timeout=600)
    res = {"evaluations": 0, "nontrivial": 0}
    if rc_m != 0:
        ctx.correspondence_broken("exctab_search", {"error": "model runner failed", "stderr": err_m[-800:]})
        return res
    lc, lm = out_c.split("\n"), out_m.split("\n")
    if rc_c != 0 or err_c.strip():
        # the real code crashed / tripped a sanitizer: the line after the last complete one
        k = max(0, len(lc) - 2)
        ctx.violation("exctab_search:sanitizer-or-crash",
                      "exctab_search/exception_tab_* crashed on a generated table (rc=%d)" % rc_c,
                      {"case": lines[min(k, len(lines) - 1)][:2000], "stderr": err_c[-1500:]})
    found = 0
    for k, ln in enumerate(lines):
        c = lc[k] if k < len(lc) else "<missing>"
        m = lm[k] if k < len(lm) else "<missing>"
        if ln.startswith("X "):
            entries, ips = tabs[k] if k < len(tabs) else ([], [0, 4, UINT_MAX])
            got = c.split(" ")[1:] if c.startswith("X") else []
            for j, ip in enumerate(ips):
                res["evaluations"] += 1
                want = oracle(entries, ip) if entries else None
                w = "-" if want is None else "%d:%d" % (want, entries[want][1])
                g = got[j] if j < len(got) else "<missing>"
                if want is not None:
                    found += 1
                if g != w and c != "<missing>":
                    kind = "found-outside-every-block" if want is None else (
                        "not-found" if g == "-" else "wrong-entry")
                    ctx.violation("exctab_search:" + kind,
                                  "exctab_search returns %s for ip=%d, the block containing it is %s "
                                  "(table of %d entries)" % (g, ip, w, len(entries)),
                                  {"case": {"entries": entries[:50], "n_entries": len(entries), "ip": ip},
                                   "expected": w, "observed": g, "driver_line": ln[:3000]})
        if c != m and "first_diff" not in res:
            res["first_diff"] = {"line": k, "case": ln[:1500], "code": c[:600], "model": m[:600]}
    if "first_diff" in res:
        ctx.correspondence_broken("exctab_search", res["first_diff"])
    res["nontrivial"] = found
    ctx.count(evaluations=res["evaluations"], nontrivial=found)
    ctx.coverage.setdefault("parts", {})["exctab"] = {
        "tables": len(tabs), "searches": res["evaluations"], "found": found,
        "rule": "sorted random tables len 1..200 (1,2,3,199,200 forced), ip at every boundary -1/0/+1, "
                "below first, beyond last, UINT_MAX-1, UINT_MAX; + count 0 and NULL table"}
    return res
