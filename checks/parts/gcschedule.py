"""C09 / C08, VM level: the collector is not observable.

Theorem side: coq/GC/GCTransparent.v `gc_schedule_transparent` (a run of the heap model under any
collection schedule reads the same values as the run that never collects, provided the roots given to
every collection contain everything the mutator still uses).  The premise "the roots contain everything
still in use" is a statement about back/vmexec.c (which gc_stack slots are tagged GC_MEM_ADDR, when
gc_run is called, what is passed as the global vector) that the heap model cannot see.  It is tied to
the code here in two ways:

  (1) slot kinds: the shape machine (coq/Verifier/Shape.v) knows which slots of the VM stack hold
      values / saved environments (roots) and which hold saved registers; bcdump prints a hash of
      the real gc_stack tags of slots 0..sp before every instruction and the lock-step
      (harness/ocaml/verifier/vrun.ml) compares it with the model's slot kinds
         -> "LOCKSTEP kinds …" = the VM tags a slot differently from the model
  (2) schedule transparency on the real VM: each program is run by the tree's VM (ASan/UBSan build)
      with the default schedule, with a collection forced at every gc_run call site visit
      (hook H2 nev_verif_gc_decide = 1) and with seeded random schedules; result value, printed
      text and exception must be identical, and no run may crash or touch freed memory
         -> ctx.violation("gc-schedule:<program>") with the program and the schedule as replay

    run_gcschedule(ctx, progs, mems=(…), schedules=(…))   progs = [(id, path, cwd)]
"""
import os
import re

from lib import common, vmcheck


def _outcome(dumpfile, rc, err):
    """canonical outcome of a bcdump run: ('end', END-line-without-steps, OUT) / ('heap',) / ('crash', detail)"""
    end, out, compiled, ngc, roots = None, "", None, 0, None
    try:
        for l in open(dumpfile, errors="replace"):
            if l.startswith("END "):
                end = re.sub(r"\s*steps=\d+", "", l.strip())
            elif l.startswith("OUT "):
                out = l[4:].strip()
                # vm_print's error dump ("machine:\n\tsp: …\n\tgp: <heap address>…") prints a heap address
                try:
                    txt = bytes.fromhex(out).decode("latin-1")
                    txt = re.sub(r"(machine:\n(?:\t[a-z_]+: [^\n]*\n)*?)\tgp: \d+\n", r"\1\tgp: _\n", txt)
                    out = txt.encode("latin-1").hex()
                except ValueError:
                    pass
            elif l.startswith("COMPILE "):
                compiled = l.split()[1]
            elif l.startswith("GCROOTS mismatch") and roots is None:
                roots = l.strip()
            elif l.startswith("PEAK "):
                m = re.search(r"collections=(\d+)", l)
                ngc = int(m.group(1)) if m else 0
    except OSError:
        pass
    if compiled is not None and compiled != "0":
        return ("nocompile",)
    if "out of memory" in err:
        return ("heap",)
    if end is not None and end.startswith("END budget"):
        return ("budget",)
    if "stack too large" in err or "stack overflow" in err.lower() and "AddressSanitizer" not in err:
        return ("stacklimit",)
    if end is None or "AddressSanitizer" in err or "runtime error" in err or rc < 0 or rc >= 128:
        m = re.search(r"(AddressSanitizer: [a-z-]+|runtime error: [^\n]{0,80}|Assertion[^\n]{0,100})", err)
        return ("crash", m.group(1) if m else "rc=%s %s" % (rc, err[-200:].replace("\n", " | ")))
    return ("end", end, out, ngc, roots)


def run_gcschedule(ctx, progs, mems=(0, 700), schedules=("default", "every", "seed:3"), max_steps=400000, prefix="gc-schedule"):
    tools = vmcheck.VmTools("asan")
    stats = {"programs": 0, "runs": 0, "compared": 0, "collections_forced_runs": 0, "collections": 0, "skipped_heap_or_budget": 0,
             "not_compiled": 0}

    def one(item):
        pid, path, cwd = item
        res = []
        for mem in mems:
            base = None
            for sch in schedules:
                extra = ["--peak", "--nocode", "--gc", sch] + (["--mem", str(mem)] if mem else [])
                dump, rc, err = tools.dump(pid, path, cwd, trace=True, max_steps=max_steps, extra=extra, timeout=120)
                o = _outcome(dump, rc, err)
                ngc = 0
                try:
                    os.unlink(dump)
                except OSError:
                    pass
                res.append((mem, sch, o, err[-1500:] if o[0] == "crash" else ""))
        return pid, path, res

    results = vmcheck.pmap(one, progs)
    tools.close()
    nrep = [0]
    for pid, path, res in results:
        if res and res[0][2][0] == "nocompile":
            stats["not_compiled"] += 1
            continue
        stats["programs"] += 1
        by_mem = {}
        for mem, sch, o, err in res:
            stats["runs"] += 1
            by_mem.setdefault(mem, []).append((sch, o, err))
        reported = False
        for mem, runs in by_mem.items():
            ref = [o for sch, o, err in runs if sch == "default"]
            ref = ref[0] if ref else None
            for sch, o, err in runs:
                if o[0] in ("heap", "budget", "stacklimit"):
                    stats["skipped_heap_or_budget"] += 1
                    continue
                if o[0] == "crash":
                    # a crash under the default schedule at the default heap is C01's business; here only
                    # crashes that depend on the schedule / heap size
                    others_fine = any(o2[0] == "end" for m2, rr in by_mem.items() for s2, o2, e2 in rr)
                    if others_fine and not reported and nrep[0] < 5:
                        nrep[0] += 1
                        reported = True
                        ctx.violation("%s:%s" % (prefix, pid),
                                      "program %s crashes when collections run (schedule %s, heap %s): %s — the same program completes under "
                                      "another schedule: a cell still in use was reclaimed (a root is missing)" % (pid, sch, mem or "default", o[1]),
                                      {"program": pid, "source": open(path, errors="replace").read()[:6000], "schedule": sch, "mem": mem,
                                       "observed": o[1], "log": err, "how": "harness/vm/bcdump --peak --gc %s %s <program> (ASan build)" % (
                                           sch, ("--mem %d" % mem) if mem else "")})
                    continue
                if ref is None or ref[0] != "end":
                    # compare against any completed run of the same heap size
                    done = [o2 for s2, o2, e2 in runs if o2[0] == "end"]
                    ref2 = done[0] if done else None
                else:
                    ref2 = ref
                if ref2 is None:
                    continue
                stats["compared"] += 1
                if len(o) > 4 and o[4] and not reported and nrep[0] < 5:
                    reported = True
                    nrep[0] += 1
                    ctx.violation("%s:roots-not-at-instruction-boundary:%s" % (prefix, pid),
                                  "program %s (schedule %s, heap %s): a collection was run on a root set that is not the machine's stack and "
                                  "environment at the instruction boundary (%s): cells of a frame that is already gone stay allocated, or the "
                                  "environment of the resumed function is not a root" % (pid, sch, mem or "default", o[4]),
                                  {"program": pid, "source": open(path, errors="replace").read()[:6000], "schedule": sch, "mem": mem, "observed": o[4],
                                   "how": "harness/vm/bcdump --peak --gc %s %s <program>" % (sch, ("--mem %d" % mem) if mem else "")})
                if o[3] > 0:
                    stats["collections_forced_runs"] += 1
                    stats["collections"] = stats.get("collections", 0) + o[3]
                if o[:3] != ref2[:3] and not reported and nrep[0] < 5:
                    nrep[0] += 1
                    reported = True
                    ctx.violation("%s:%s" % (prefix, pid),
                                  "program %s: outcome depends on when collections run (heap %s): schedule %s gives %s / output %s, the reference "
                                  "schedule gives %s / output %s" % (pid, mem or "default", sch, o[1], o[2][:80], ref2[1], ref2[2][:80]),
                                  {"program": pid, "source": open(path, errors="replace").read()[:6000], "schedule": sch, "mem": mem,
                                   "observed": {"end": o[1], "out_hex": o[2][:400]}, "expected": {"end": ref2[1], "out_hex": ref2[2][:400]},
                                   "how": "harness/vm/bcdump --peak --gc %s %s <program>" % (sch, ("--mem %d" % mem) if mem else "")})
        ctx.count(evaluations=len(res), nontrivial=1 if any(o[0] == "end" for _, _, o, _ in res) else 0)
    ctx.notes[prefix] = dict(stats, mems=list(mems), schedules=list(schedules))
    return stats
