(* Model of ranges and slices (definitions only, executable).

   Mirrors back/vmexec.c:
     vm_get_slice_range        the four direction cases of [a..b][c..d]
     vm_execute_slice_range    range  [ range ]   (SLICE_RANGE)
     vm_execute_slice_slice    slice  [ range ]   (SLICE_SLICE; same per-dimension loop)
     vm_execute_slice_array    array  [ range ]   (SLICE_ARRAY: pairs array and range, no check)
     vm_execute_range_deref    range  [ i, j ]    (RANGE_DEREF)
     vm_execute_slice_deref    slice  [ i, j ]    (SLICE_DEREF)

   All range bounds are C `int`.  Since fix acecad0 vm_get_slice_range forms `a + c` etc. in
   `long long`: for int operands the 64-bit sum is the mathematical sum (|a +- c| < 2^32), which
   is what the model writes; the bounds are tested on these exact values and the results are
   narrowed to int -- s32 -- only when no oob is reported. *)
From Coq Require Import ZArith List Bool.
From NV Require Import Index.W32 Index.ArrIndex.
Import ListNotations.
Local Open Scope Z_scope.

(* a range value: one (from, to) pair per dimension, both ends inclusive *)
Definition range := list (Z * Z).

(* vm_get_slice_range(range1_from=a, range1_to=b, range2_from=c, range2_to=d, &res_from,
   &res_to, &oob): returns (res_from, res_to, oob).
     if (range2_from < 0 || range2_to < 0) { *oob = 1; return; }     (fix bf51841)
     from = (long long)a +- c;  to = (long long)a +- d;              (fix acecad0)
     the bound test on from/to:  { *oob = 1; return; }
     *res_from = (int)from;  *res_to = (int)to;
   res_from/res_to are written only when no oob is reported: every caller presets them to 0,
   which is what the model returns on every oob path; oob is only ever set (callers clear it
   before the call). *)
Definition get_slice_range (a b c d : Z) : Z * Z * bool :=
  if (c <? 0) || (d <? 0) then (0, 0, true)
  else if a <? b then
    let from := a + c in
    let to := a + d in
    if c <? d then
      if b <? to then (0, 0, true)        (* C: to   > range1_to  =>  oob *)
      else (s32 from, s32 to, false)
    else
      if b <? from then (0, 0, true)      (* C: from > range1_to  =>  oob *)
      else (s32 from, s32 to, false)
  else
    let from := a - c in
    let to := a - d in
    if c <? d then
      if to <? b then (0, 0, true)        (* C: to   < range1_to  =>  oob *)
      else (s32 from, s32 to, false)
    else
      if from <? b then (0, 0, true)      (* C: from < range1_to  =>  oob *)
      else (s32 from, s32 to, false).

(* per-dimension loop shared by vm_execute_slice_range and vm_execute_slice_slice
   (d < code->mk_slice.dims; both vectors hold 2*dims ints) *)
Fixpoint compose_ranges (r1 r2 : range) : result range :=
  match r1, r2 with
  | (a, b) :: t1, (c, d) :: t2 =>
      let '(rf, rt, oob) := get_slice_range a b c d in
      if oob then Exc (IndexOob (-1))
      else match compose_ranges t1 t2 with
           | Ok t => Ok ((rf, rt) :: t)
           | Exc e => Exc e
           end
  | _, _ => Ok []
  end.

(* SLICE_RANGE: range1[range2]; None = nil reference *)
Definition slice_range (r1 r2 : option range) : result range :=
  match r1, r2 with
  | Some r1, Some r2 => compose_ranges r1 r2
  | _, _ => Exc NilPointer
  end.

(* a slice value = (array, range) vector; the array is identified by its dimension vector
   here, the handlers never copy it (SLICE_ARRAY stores the array pointer itself) *)
Record slice := { sl_arr : option dimv; sl_range : option range }.

(* SLICE_ARRAY: array[range] *)
Definition slice_array (arr : option dimv) (r : option range) : result slice :=
  match arr, r with
  | Some _, Some _ => Ok {| sl_arr := arr; sl_range := r |}
  | _, _ => Exc NilPointer
  end.

(* SLICE_SLICE: slice[range]; the array pointer is carried over unchanged *)
Definition slice_slice (s : option slice) (r : option range) : result slice :=
  match s, r with
  | Some s, Some r2 =>
      match sl_range s with
      | None => Exc NilPointer
      | Some r1 =>
          match compose_ranges r1 r2 with
          | Ok r => Ok {| sl_arr := sl_arr s; sl_range := Some r |}
          | Exc e => Exc e
          end
      end
  | _, _ => Exc NilPointer
  end.

(* RANGE_DEREF: range[i, j, ...] -> array of the selected values, one per dimension.
   Per dimension d: pop index; `if (range_indx < 0)` oob d; get_slice_range(from, to, i, i);
   `if (oob)` oob d; value = res_from. *)
Fixpoint range_deref_loop (d : Z) (r : range) (idx : list Z) : result (list Z) :=
  match r, idx with
  | (a, b) :: tr, i :: ti =>
      if i <? 0 then Exc (IndexOob d)
      else
        let '(rf, _, oob) := get_slice_range a b i i in
        if oob then Exc (IndexOob d)
        else match range_deref_loop (d + 1) tr ti with
             | Ok l => Ok (rf :: l)
             | Exc e => Exc e
             end
  | _, _ => Ok []
  end.

Definition range_deref (r : option range) (idx : list Z) : result (list Z) :=
  match r with
  | None => Exc NilPointer
  | Some r => range_deref_loop 0 r idx
  end.

(* SLICE_DEREF: slice[i, j, ...].
   loop 1: pop dims ints, `if (e < 0)` oob d, addr[d].mult = e           (pop_indices)
   nil checks on slice, array, range
   loop 2: get_slice_range(from, to, addr[d].mult, addr[d].mult) -- the unsigned field is
           converted to the int parameter (s32 i): same value since 0 <= e <= INT_MAX --;
           `if (oob)` oob d; addr[d].mult = res_from (int -> unsigned)
   then object_arr_dim_addr on the underlying array. *)
Fixpoint slice_positions (d : Z) (r : range) (addr : list Z) : result (list Z) :=
  match r, addr with
  | (a, b) :: tr, i :: ti =>
      let '(rf, _, oob) := get_slice_range a b (s32 i) (s32 i) in
      if oob then Exc (IndexOob d)
      else match slice_positions (d + 1) tr ti with
           | Ok l => Ok (u32 rf :: l)
           | Exc e => Exc e
           end
  | _, _ => Ok []
  end.

Definition slice_deref (s : option slice) (idx : list Z) : result Z :=
  match pop_indices 0 idx with
  | inl d => Exc (IndexOob d)
  | inr addr =>
      match s with
      | None => Exc NilPointer
      | Some s =>
          match sl_arr s, sl_range s with
          | Some dv, Some r =>
              match slice_positions 0 r addr with
              | Exc e => Exc e
              | Ok addr' =>
                  let '(k, oob) := dim_addr dv addr' in
                  if 0 <=? oob then Exc (IndexOob oob) else Ok k
              end
          | _, _ => Exc NilPointer
          end
      end
  end.
