"""Library handle cache (back/dlcache.c) — the C17 mechanism "dlcache_get_handle".

run_dlcache(ctx) ties the Coq model coq/Hash/OpenTabModel.v + DlCacheModel.v (about which
coq/Hash/DlCacheProofs.v proves the refinement to an association map, re-exported in
coq/Properties/Properties_C17b.v) to the tree's real code:

  harness/hash/dlcachedrive.c   (ASan build, linked with the tree's libnev.a) executes operation
      sequences against the REAL dlcache_new / dlcache_add_dl / dlcache_lookup / dlcache_get_handle /
      dlcache_resize / dlcache_delete and dlcache_entry_new / _add_dl / _lookup / _resize and
      hash_string; dlopen/dlclose are replaced inside the driver, handles are fake pointers;
  build/ocaml/hash/run          (extracted model + harness/ocaml/hash/hashrun.ml) runs the same file.

  every output line (operation result + size + count + every slot's name and handle) is compared
      -> ctx.correspondence_broken("dlcache-model-vs-dlcache.c", first difference)
  independently of the model, the property's own oracle (an association map kept in python) judges
  the REAL outputs: a name that was added is found, with the handle stored when it was (first)
  added, at every later point; a name never added is not found; get_handle calls dlopen exactly
  when the name is not cached; no crash / assert / sanitizer report
      -> ctx.violation("dlcache:<kind>", ..., replay = the shrunk operation sequence).

The hash model (DlCacheModel.hash_string, front/hash.c) is compared with the C function on every
name used (operation H).  Collisions are searched with the REAL hash values (one driver run over
the candidate pool), never with a python re-implementation.

run_dlcache_e2e(ctx, nevrun, tmp): never programs calling functions of N generated one-function
shared libraries (N up to 30) interleaved so that libraries loaded early are called again after the
cache has grown; every call must return its own library's constant.
"""
import collections
import os
import random
import re
from concurrent.futures import ThreadPoolExecutor

from lib import common

RUN = os.path.join(common.BUILD, "ocaml", "hash", "run")
ASAN_ENV = "detect_leaks=1:abort_on_error=0:exitcode=99:allocator_may_return_null=1"
VM_DLCACHE_SIZE_RE = re.compile(r"#define\s+DEFAULT_DLCACHE_SIZE\s+(\d+)")
HOST = b"host"


def drv_env():
    env = dict(os.environ)
    env["ASAN_OPTIONS"] = ASAN_ENV
    env["UBSAN_OPTIONS"] = "print_stacktrace=0:halt_on_error=1"
    return env


def hx(name):
    return name.hex() if name else "-"


def unhx(tok):
    return b"" if tok == "-" else bytes.fromhex(tok)


def show(name):
    """printable form of a name for reports"""
    s = name.decode("latin-1")
    if len(s) > 60:
        s = s[:40] + "...(%d bytes)" % len(name)
    return s


def op_line(op):
    k = op[0]
    if k in ("C",):
        return "C %d %d" % (op[1], op[2])
    if k in ("A", "G", "a"):
        return "%s %s %d" % (k, hx(op[1]), op[2])
    if k in ("L", "l", "H"):
        return "%s %s" % (k, hx(op[1]))
    if k in ("E", "r"):
        return "%s %d" % (k, op[1])
    return k


def op_show(op):
    k = op[0]
    names = {"C": "dlcache_new(size=%d) with host handle %d", "A": "dlcache_add_dl(%r, handle %d)",
             "G": "dlcache_get_handle(%r) [dlopen would give %d]", "L": "dlcache_lookup(%r)",
             "R": "dlcache_resize()", "D": "dlcache_delete()", "E": "dlcache_entry_new(%d)",
             "a": "dlcache_entry_add_dl(%r, handle %d)", "l": "dlcache_entry_lookup(%r)",
             "r": "dlcache_entry_resize(-> new table of size %d)", "H": "hash_string(%r)"}
    args = tuple(show(a) if isinstance(a, bytes) else a for a in op[1:])
    return names[k] % args


# ------------------------------------------------------------------------------------------
# names
def candidate_pool(rng):
    pool = set()
    for i in range(100):
        pool.add(b"lib%02d.so" % i)
        pool.add(b"./libs/dlc_%02d.so" % i)
        pool.add(b"/usr/lib/x86_64-linux-gnu/libm%d.so.6" % i)
    for w in (b"libm.so.6", b"libc.so.6", b"host", b"hos", b"host ", b"hostt", b"Host", b"libone.so", b"libtwo.so"):
        pool.add(w)
    for a in range(97, 123):
        pool.add(bytes([a]))
        for b in range(97, 123):
            pool.add(bytes([a, b]))
    for k in range(1, 60):                      # prefixes of each other
        pool.add(b"a" * k)
        pool.add((b"libprefix_of_each_other.so" * 3)[:k])
    for k in (100, 255, 256, 257, 1000, 4096, 5000):   # long names
        pool.add(bytes(rng.randrange(33, 127) for _ in range(k)))
        pool.add(b"/" + b"x" * k + b".so")
    for _ in range(300):                        # bytes >= 0x80: `char` is signed in hash_string
        pool.add(bytes(rng.choice([rng.randrange(128, 256), rng.randrange(1, 256)]) for _ in range(rng.randint(1, 12))))
    pool.add(b"\xff")
    pool.add(b"\x80\x80\x80\x80")
    pool.add(b"")
    while len(pool) < 3600:
        pool.add(bytes(rng.randrange(97, 123) for _ in range(rng.randint(3, 9))) + b".so")
    pool.discard(HOST)
    return sorted(pool)


def special_kind(n):
    if len(n) >= 100:
        return "long"
    if any(b >= 128 for b in n):
        return "highbyte"
    if n == b"":
        return "empty"
    return None


# ------------------------------------------------------------------------------------------
# cases
def adds_to_cross(size, r, start_count):
    """how many adds make a table of initial `size` (holding start_count entries) grow r times
    (generator steering only: the oracle never uses this)"""
    count, n, grown = start_count, 0, 0
    while grown < r:
        count += 1
        n += 1
        if count > size * 3 // 4:
            size *= 2
            grown += 1
    return n


_GROUPS = {}


def residue_groups(pool, hashes, modulus):
    key = (id(pool), modulus)
    if key not in _GROUPS:
        g = collections.defaultdict(list)
        for n in pool:
            if n != HOST:
                g[hashes[n] % modulus].append(n)
        _GROUPS[key] = dict(g)
    return _GROUPS[key]


def pick_names(rng, pool, hashes, mode, k, modulus, avoid=()):
    """k distinct names; mode selects the flavour"""
    avoid = set(avoid) | {HOST}
    if mode == "colliding":
        groups = {r: [n for n in g if n not in avoid] for r, g in residue_groups(pool, hashes, modulus).items()}
        big = [g for g in groups.values() if len(g) >= k]
        if big:
            g = rng.choice(big)
            # prefer the residue of "host" when it is available: collides with the first entry too
            hg = groups.get(hashes[HOST] % modulus)
            if hg and len(hg) >= k and rng.random() < 0.5:
                g = hg
            return rng.sample(g, k)
        # not enough names in one residue class: the fullest classes, in turn
        out = []
        for g in sorted(groups.values(), key=len, reverse=True):
            out.extend(g)
            if len(out) >= k:
                return out[:k]
    if mode == "adjacent":
        # names whose start slots form one run: long probe chains that wrap around the end
        base = rng.randrange(modulus)
        out = []
        by = {r: [n for n in g if n not in avoid] for r, g in residue_groups(pool, hashes, modulus).items()}
        d = 0
        while len(out) < k and d < 4 * modulus:
            g = by.get((base - (d % 3)) % modulus, [])
            if g:
                n = rng.choice(g)
                if n not in out:
                    out.append(n)
            d += 1
        if len(out) == k:
            return out
    if mode == "prefixes":
        pre = [n for n in pool if n not in avoid and (n == b"a" * len(n) or b"libprefix_of_each_other.so".startswith(n[:26]) and len(n) > 0)]
        if len(pre) >= k:
            return rng.sample(pre, k)
    if mode == "special":
        sp = [n for n in pool if n not in avoid and special_kind(n)]
        rest = [n for n in pool if n not in avoid and not special_kind(n)]
        a = rng.sample(sp, min(len(sp), max(1, k // 2)))
        return (a + rng.sample(rest, k))[:k] if len(a) < k else a[:k]
    if mode == "realistic":
        real = [n for n in pool if n not in avoid and (n.startswith(b"lib") or n.startswith(b"./libs") or n.startswith(b"/usr"))]
        if len(real) >= k:
            return rng.sample(real, k)
    cand = [n for n in pool if n not in avoid]
    return rng.sample(cand, k)


def gen_cache_case(rng, pool, hashes, size0, r, mode, style, vm_size):
    """one dlcache-level case -> (ops, meta)"""
    host = rng.choice([rng.randrange(1, 1 << 47), 1, 4096]) if style != "nullhost" else 0
    ops = [("C", size0, host)]
    k = adds_to_cross(size0, r, 1 if size0 > 0 else 0)
    # dlcache_new itself already grows size 1 once (count 1 > 1*3/4 = 0)
    if size0 == 1:
        k = max(0, adds_to_cross(2, max(0, r - 1), 1))
    k += rng.randint(0, 3)
    k = max(k, 1)
    final_mod = size0 * (2 ** (r + 1))
    names = pick_names(rng, pool, hashes, mode, k, max(1, final_mod if rng.random() < 0.6 else size0))
    absent = pick_names(rng, pool, hashes, rng.choice(["colliding", "random"]), 4, max(1, final_mod), avoid=names)
    handle = {}
    nxt = [rng.randrange(2, 1000)]

    def fresh():
        nxt[0] += rng.randint(1, 9)
        return nxt[0] if rng.random() < 0.8 else (nxt[0] << 20) + 7

    added = []
    pred_size, pred_count = (size0, 1)
    if size0 == 1:
        pred_size = 2
    for n in names:
        dup = False
        if style == "dups" and added and rng.random() < 0.35:
            n = rng.choice(added)
            dup = True
        h = fresh()
        if style in ("direct", "dups"):
            ops.append(("A", n, h))
        else:
            if rng.random() < 0.15:
                ops.append(("G", n, 0))             # dlopen fails: nothing may be cached
                if rng.random() < 0.5:
                    ops.append(("L", n))
            ops.append(("G", n, h))
        if not dup:
            added.append(n)
        pred_count += 1
        grew = pred_count > pred_size * 3 // 4
        if grew:
            pred_size *= 2
        # after a (predicted) growth every earlier name is looked up again
        if grew or len(added) <= 6 or rng.random() < 0.2:
            look = list(added)
        else:
            look = rng.sample(added, min(len(added), 3))
        rng.shuffle(look)
        for m in look:
            if style == "plain" and rng.random() < 0.3:
                ops.append(("G", m, fresh()))       # cached: must return the first handle, no dlopen
            else:
                ops.append(("L", m))
        if grew or rng.random() < 0.3:
            ops.append(("L", HOST))
        if rng.random() < 0.25:
            ops.append(("L", rng.choice(absent)))
        if rng.random() < 0.08:
            ops.append(("R",))
    for m in added:
        if style == "plain" and rng.random() < 0.5:
            ops.append(("G", m, fresh()))
        else:
            ops.append(("L", m))
    for m in absent:
        ops.append(("L", m))
    ops.append(("L", HOST))
    ops.append(("D",))
    return ops, {"level": "cache", "size0": size0, "resizes_wanted": r, "mode": mode, "style": style,
                 "vm_size": size0 == vm_size}


def gen_entry_case(rng, pool, hashes):
    """dlcache_entry_* on a raw array: fill it completely (the last free slot included), look up present
    and absent names on the full table (the give-up branch of lookup), rehash into arbitrary sizes"""
    size = rng.choice([1, 2, 3, 4, 5, 7, 8, 11, 16, 16, 24])
    fill = rng.choice(["full", "full", "partial"])
    k = size if fill == "full" else rng.randint(0, size - 1)
    mode = rng.choice(["colliding", "adjacent", "random", "prefixes"])
    names = pick_names(rng, pool, hashes, mode, k, size) if k else []
    absent = pick_names(rng, pool, hashes, "colliding", 3, size, avoid=names)
    ops = [("E", size)]
    h = 10
    for i, n in enumerate(names):
        h += rng.randint(1, 5)
        ops.append(("a", n, h))
        for m in rng.sample(names[:i + 1], min(i + 1, 2)):
            ops.append(("l", m))
        if rng.random() < 0.3:
            ops.append(("l", rng.choice(absent)))
    for m in names:
        ops.append(("l", m))
    for m in absent:
        ops.append(("l", m))
    new = rng.choice([k + 1, k + 1, k + 2, 2 * size, 2 * size, 2 * size + 1, 3 * size + 5])
    ops.append(("r", new))
    for m in names + absent:
        ops.append(("l", m))
    if rng.random() < 0.5:
        ops.append(("r", max(k + 1, rng.choice([size, new * 2, k + 1]))))
        for m in names + absent:
            ops.append(("l", m))
    return ops, {"level": "entry", "size0": size, "mode": mode, "style": "entry-" + fill, "resizes_wanted": 1,
                 "vm_size": False}


CORPUS = os.path.join(common.VERIF, "corpus", "C17")


def parse_op(line):
    t = line.split()
    k = t[0]
    if k == "C":
        return ("C", int(t[1]), int(t[2]))
    if k in ("A", "G", "a"):
        return (k, unhx(t[1]), int(t[2]))
    if k in ("L", "l", "H"):
        return (k, unhx(t[1]))
    if k in ("E", "r"):
        return (k, int(t[1]))
    return (k,)


def load_corpus(vm_size):
    """corpus/C17/dlcache_*.txt: driver input files kept as regression cases (always run first)"""
    out = []
    try:
        names = sorted(f for f in os.listdir(CORPUS) if f.startswith("dlcache") and f.endswith(".txt"))
    except OSError:
        names = []
    for f in names:
        ops = [parse_op(l) for l in open(os.path.join(CORPUS, f)).read().splitlines() if l.strip()]
        if ops and ops[0][0] in ("C", "E"):
            out.append((ops, {"level": "cache" if ops[0][0] == "C" else "entry", "size0": ops[0][1], "resizes_wanted": 1,
                              "mode": "corpus", "style": "corpus:" + f, "vm_size": ops[0][0] == "C" and ops[0][1] == vm_size}))
    return out


def gen_cases(rng, tier, pool, hashes, vm_size):
    cases = load_corpus(vm_size)
    n_rand = 260 if tier == "quick" else 1300
    sizes = list(range(1, 17))
    # every initial size 1..16 with every number of growths 0..3, get_handle style
    for s in sizes:
        for r in (0, 1, 2, 3):
            cases.append(gen_cache_case(rng, pool, hashes, s, r, rng.choice(["colliding", "realistic", "random"]), "plain", vm_size))
    # the size the VM uses: every name flavour, 1..3 growths (4 in thorough)
    for mode in ("realistic", "colliding", "adjacent", "prefixes", "special", "random"):
        for r in (1, 2, 3) + ((4, 5) if tier != "quick" else ()):
            for style in ("plain", "direct"):
                cases.append(gen_cache_case(rng, pool, hashes, vm_size, r, mode, style, vm_size))
    big = 0
    for _ in range(n_rand):
        s = rng.choice(sizes + [vm_size] * 6 + [rng.randint(17, 40)])
        r = rng.choice([0, 1, 1, 2, 2, 3, 3])
        # growths 4..6 take the table to 256..1024 slots; every operation dumps the table, so one such case is
        # 50..400 MB of driver output: a dozen of them, not a tenth of all cases
        if tier != "quick" and big < 12 and rng.random() < 0.02:
            big += 1
            r = rng.choice([4, 4, 5, 6])
        mode = rng.choice(["colliding", "colliding", "adjacent", "realistic", "prefixes", "special", "random"])
        style = rng.choice(["plain", "plain", "plain", "direct", "dups", "nullhost"])
        cases.append(gen_cache_case(rng, pool, hashes, s, r, mode, style, vm_size))
    for _ in range(n_rand // 3):
        cases.append(gen_entry_case(rng, pool, hashes))
    return cases


# ------------------------------------------------------------------------------------------
# the property's own oracle, applied to the REAL outputs of one case
def parse_dump(line, want_slots=True):
    """'X res.. | size count | i:name:h ...' -> (head tokens, [size, count] or [size], slots)"""
    parts = line.split("|")
    if len(parts) != 3:
        return line.split(), None, None
    head = parts[0].split()
    dims = [int(x) for x in parts[1].split()]
    slots = None
    if want_slots:
        slots = []
        for tok in parts[2].split():
            i, n, h = tok.split(":")
            slots.append((int(i), unhx(n), int(h)))
    return head, dims, slots


def judge_case(ops, out):
    """-> None or (kind, op index, detail).  `out` = real output lines of this case (may be short)."""
    table = {}          # name -> list of handles in the order they were added
    dups = False
    for k, op in enumerate(ops):
        if k >= len(out):
            return ("crash", k, "the driver died in this operation")
        line = out[k]
        try:
            head, dims, slots = parse_dump(line, False)
        except ValueError:
            return ("garbled-output", k, line[:200])
        kind = op[0]
        if not head or head[0] != kind:
            return ("crash", k, "unexpected output %r" % line[:200])
        if kind in ("C", "E"):
            table = {}
            dups = False
            if kind == "C":
                table[HOST] = [op[2]]
        elif kind in ("A", "a"):
            if op[1] in table:
                dups = True
            table.setdefault(op[1], []).append(op[2])
        elif kind == "G":
            ret, calls = int(head[1]), int(head[2])
            if op[1] in table:
                want = table[op[1]]
                if ret not in want or (len(want) == 1 and ret != want[0]):
                    return ("wrong-handle", k, "dlcache_get_handle(%r) returned %d, the handle cached for this name is %s"
                            % (show(op[1]), ret, want[0] if len(want) == 1 else want))
                if calls != 0:
                    return ("cached-library-reopened", k, "dlcache_get_handle(%r) called dlopen although the name is cached" % show(op[1]))
            else:
                if ret != op[2]:
                    return ("wrong-handle", k, "dlcache_get_handle(%r) returned %d, dlopen gave %d" % (show(op[1]), ret, op[2]))
                if calls != 1:
                    return ("dlopen-calls", k, "dlcache_get_handle(%r) on an uncached name called dlopen %d times" % (show(op[1]), calls))
                if op[2] != 0:
                    table[op[1]] = [op[2]]
        elif kind in ("L", "l"):
            got = head[1] if len(head) > 1 else "?"
            if op[1] in table:
                want = table[op[1]]
                if got == "-":
                    return ("lost-entry", k, "lookup(%r) finds nothing; the name was added with handle %s" % (show(op[1]), want[0]))
                h = int(got.split(":")[1])
                if h not in want or (len(want) == 1 and h != want[0]):
                    return ("wrong-handle", k, "lookup(%r) yields handle %d; the handle stored with this name is %s"
                            % (show(op[1]), h, want[0] if len(want) == 1 else want))
            elif got != "-":
                return ("phantom-entry", k, "lookup(%r) finds %s; the name was never added" % (show(op[1]), got))
        elif kind == "D":
            closed = sorted(int(x) for x in head[1:])
            want = sorted(h for hs in table.values() for h in hs if h != 0)
            if closed != want:
                return ("delete-closes-wrong-handles", k, "dlcache_delete dlclosed %s, the cache held %s" % (closed[:20], want[:20]))
            table = {}
    return None


def run_driver(drv, path, timeout=300):
    rc, so, se = common.sh([drv, path], timeout=timeout, env=drv_env())
    return rc, so.split("\n")[:-1] if so.endswith("\n") else so.split("\n"), se


def case_fails_same(drv, tmpdir, ops, kind, tag):
    path = os.path.join(tmpdir, "shrink_%s.txt" % tag)
    with open(path, "w") as f:
        f.write("\n".join(op_line(o) for o in ops) + "\n")
    rc, out, se = run_driver(drv, path, timeout=60)
    if rc == -9:
        return False, None          # stopped by this harness's time limit: not a reproduction
    v = judge_case(ops, out)
    if v is None and rc != 0:
        v = ("crash", len(out), se[-300:])
    return v is not None and v[0] == kind, v


def shrink_case(drv, tmpdir, ops, kind, tag, budget=220):
    """delta debugging on the operation list (the first operation creates the table and stays)"""
    cur = list(ops)
    runs = 0
    n = 2
    while len(cur) > 2 and runs < budget:
        body = cur[1:]
        chunk = max(1, len(body) // n)
        reduced = False
        for i in range(0, len(body), chunk):
            cand = [cur[0]] + body[:i] + body[i + chunk:]
            if len(cand) < 2:
                continue
            runs += 1
            ok, _ = case_fails_same(drv, tmpdir, cand, kind, tag)
            if ok:
                cur = cand
                n = max(n - 1, 2)
                reduced = True
                break
            if runs >= budget:
                break
        if not reduced:
            if chunk == 1:
                break
            n = min(len(body), n * 2)
    return cur, runs


# ------------------------------------------------------------------------------------------
def run_dlcache(ctx, lib=None, cases=None):
    """-> dict(evaluations, nontrivial, ...); records violations / broken correspondence on ctx"""
    res = {"evaluations": 0, "nontrivial": 0}
    if lib is None:
        lib = common.repobuild("asan")
    drv = common.cc_driver("dlcachedrive", ["hash/dlcachedrive.c"], lib)
    ok, log = common.ocaml_build("hash")
    if not ok or not os.path.exists(RUN):
        ctx.correspondence_broken("dlcache-model-vs-dlcache.c", {"error": "extracted model did not build", "log": log[-1500:]})
        return res
    workdir = os.path.join(ctx.outdir, "dlcache")
    os.makedirs(workdir, exist_ok=True)
    rng = random.Random((ctx.seed << 10) ^ 0xD1CAC4E)
    try:
        m = VM_DLCACHE_SIZE_RE.search(open(os.path.join(lib, "include", "back", "dlcache.h")).read())
    except OSError:
        m = None
    if m is None:
        for p in (os.path.join(lib, "include", "dlcache.h"), os.path.join(os.environ.get("NEVER_REPO", "/repo"), "back", "dlcache.h")):
            try:
                m = VM_DLCACHE_SIZE_RE.search(open(p).read())
            except OSError:
                m = None
            if m:
                break
    vm_size = int(m.group(1)) if m else 16

    # ---- the real hash of every candidate name (also the hash-model correspondence) ----------
    pool = candidate_pool(rng)
    allnames = pool + [HOST]
    hpath = os.path.join(workdir, "hash_cases.txt")
    with open(hpath, "w") as f:
        f.write("\n".join("H " + hx(n) for n in allnames) + "\n")
    rc, hout, herr = run_driver(drv, hpath)
    if rc != 0 or len(hout) != len(allnames):
        ctx.violation("dlcache:crash-in-hash_string", "hash_string crashed on a generated name (rc=%d)" % rc,
                      {"case": hx(allnames[min(len(hout), len(allnames) - 1)]), "stderr": herr[-1500:]})
        return res
    hashes = {n: int(l.split()[1]) for n, l in zip(allnames, hout)}
    rcm, so_m, se_m = common.sh([RUN, hpath], timeout=300)
    hm = so_m.split("\n")
    hdiff = None
    for k, n in enumerate(allnames):
        if k >= len(hm) or hm[k] != hout[k]:
            hdiff = {"name_hex": hx(n), "code": hout[k], "model": hm[k] if k < len(hm) else "<missing>"}
            break
    if hdiff:
        ctx.correspondence_broken("hash_string-model-vs-hash.c", hdiff)
    res["evaluations"] += len(allnames)

    # ---- cases ------------------------------------------------------------------------------------
    _GROUPS.clear()
    if cases is None:
        cases = gen_cases(rng, ctx.tier, pool, hashes, vm_size)
    nchunks = 16
    per = (len(cases) + nchunks - 1) // nchunks
    chunks = [cases[i:i + per] for i in range(0, len(cases), per)]

    def run_chunk(ic):
        i, ch = ic
        path = os.path.join(workdir, "cases_%02d.txt" % i)
        with open(path, "w") as f:
            for ops, _ in ch:
                f.write("\n".join(op_line(o) for o in ops) + "\n")
        rc_c, out_c, err_c = run_driver(drv, path)
        rc_m, so, se = common.sh([RUN, path], timeout=600)
        return rc_c, out_c, err_c, rc_m, so.split("\n"), se

    with ThreadPoolExecutor(nchunks) as ex:
        outs = list(ex.map(run_chunk, enumerate(chunks)))

    stats = {"size0": collections.Counter(), "resizes_crossed": collections.Counter(), "style": collections.Counter(),
             "mode": collections.Counter(), "max_size_reached": collections.Counter()}
    displaced_total = 0
    max_probe = 0
    lookups = hits = misses = gets_cached = gets_new = gets_failed = dup_adds = 0
    first_diff = None
    distinct = set()
    failures = {}
    samples = []
    timed_out = 0
    for ci, (ch, (rc_c, out_c, err_c, rc_m, out_m, err_m)) in enumerate(zip(chunks, outs)):
        if rc_m != 0 and first_diff is None:
            first_diff = {"error": "model runner failed", "stderr": err_m[-600:]}
        pos = 0
        for ops, meta in ch:
            oc = out_c[pos:pos + len(ops)]
            om = out_m[pos:pos + len(ops)]
            truncated = len(oc) < len(ops)
            # -- the property's oracle on the real outputs
            v = judge_case(ops, oc)
            if rc_c == -9 and truncated:
                # the driver was stopped by the time limit of this harness (loaded machine, large dumps): the rest of
                # the chunk did not run; that is no statement about the code
                timed_out += 1
                break
            if v is None and truncated:
                v = ("crash", len(oc), "driver output ends early")
            if v is not None:
                kind = v[0]
                detail = v[2]
                if kind == "crash":
                    mm = re.search(r"(ERROR: AddressSanitizer[^\n]*|runtime error:[^\n]*|[^\n]*Assertion[^\n]*)", err_c)
                    sm = re.search(r"SUMMARY: [^\n]*", err_c)
                    detail = ((mm.group(1) if mm else "") + " " + (sm.group(0) if sm else "")).strip() or err_c[-400:]
                    if "Assertion" in err_c:
                        kind = "assert-in-add-loop" if "dlcache_entry_add_dl" in err_c else "assert"
                    elif "AddressSanitizer" in err_c:
                        mm = re.search(r"AddressSanitizer: ([a-z-]+)", err_c)
                        kind = "asan-" + (mm.group(1) if mm else "report")
                    elif "runtime error" in err_c:
                        kind = "ubsan"
                failures.setdefault("dlcache:" + kind, []).append((ops, meta, v, detail, err_c[-3000:] if v[0] == "crash" else ""))
            if truncated:
                # the rest of this chunk did not run
                break
            # -- model correspondence, line by line
            if first_diff is None:
                for k, (a, b) in enumerate(zip(oc, om + ["<missing>"] * (len(oc) - len(om)))):
                    if a != b:
                        first_diff = {"operation": op_show(ops[k]), "driver_line": op_line(ops[k]),
                                      "operations_before": [op_line(o) for o in ops[max(0, k - 12):k]],
                                      "case_first_operation": op_line(ops[0]),
                                      "code": a[:1200], "model": b[:1200], "meta": meta}
                        break
            pos += len(ops)
            res["evaluations"] += len(ops)
            # -- coverage (observed on the real outputs)
            sizes_seen = []
            displaced = 0
            for k, (op, line) in enumerate(zip(ops, oc)):
                changes = op[0] in ("A", "a", "r", "R", "C") or (op[0] == "G" and op[2] != 0)
                head, dims, slots = parse_dump(line, changes)
                if dims:
                    if not sizes_seen or sizes_seen[-1] != dims[0]:
                        sizes_seen.append(dims[0])
                    if changes and slots:
                        d = 0
                        for (i, n, h) in slots:
                            if n in hashes and dims[0] > 0:
                                dist = (i - hashes[n] % dims[0]) % dims[0]
                                if dist:
                                    d += 1
                                    max_probe = max(max_probe, dist)
                        displaced = max(displaced, d)
                if op[0] in ("L", "l"):
                    lookups += 1
                    if head[1] == "-":
                        misses += 1
                    else:
                        hits += 1
                elif op[0] == "G":
                    if head[2] == "0":
                        gets_cached += 1
                    elif op[2] == 0:
                        gets_failed += 1
                    else:
                        gets_new += 1
            grown = max(0, len(sizes_seen) - 1)
            displaced_total += displaced
            stats["size0"][meta["size0"]] += 1
            stats["resizes_crossed"][grown] += 1
            stats["style"][meta["style"]] += 1
            stats["mode"][meta["mode"]] += 1
            stats["max_size_reached"][max(sizes_seen) if sizes_seen else 0] += 1
            if grown >= 1 or displaced >= 1:
                distinct.add(hash(tuple(ops)))
            if len(samples) < 2 and grown >= 2 and displaced >= 2 and len(ops) < 60:
                samples.append({"part": "dlcache", "first_operation": op_line(ops[0]), "operations": len(ops),
                                "sizes": sizes_seen, "entries_off_their_start_slot": displaced,
                                "last_table": oc[-2][:300] if len(oc) > 1 else ""})
    for key, fl in sorted(failures.items()):
        # report the failing sequence that starts from the VM's own cache size if there is one
        fl.sort(key=lambda f: (not f[1].get("vm_size"), not str(f[1].get("style")).startswith("corpus"),
                               f[1].get("style") != "plain", f[1].get("mode") != "realistic", len(f[0])))
        ops, meta, v, detail, err = fl[0]
        small, runs = shrink_case(drv, workdir, ops, v[0], re.sub(r"[^a-z0-9]", "_", key))
        okk, v2 = case_fails_same(drv, workdir, small, v[0], "final")
        if not okk:
            small, v2 = ops, v
        if v2[0] != "crash":
            detail = v2[2]
        ctx.violation(key, "C17 library handle cache (%s, initial size %d%s): after %d operations %s"
                      % ("dlcache_*" if meta["level"] == "cache" else "dlcache_entry_*", meta["size0"],
                         " = the VM's DEFAULT_DLCACHE_SIZE" if meta.get("vm_size") else "", len(small) - 1, detail[:300]),
                      {"case": {"operations": [op_show(o) for o in small],
                                "failing_operation_index": v2[1],
                                "failing_operation": op_show(small[min(v2[1], len(small) - 1)])},
                       "driver_input": [op_line(o) for o in small],
                       "original_length": len(ops), "shrink_runs": runs, "failing_cases_of_this_kind": len(fl),
                       "failure_kind": key.split(":", 1)[1], "detail": detail, "stderr": err, "meta": meta,
                       "replay_how": "write driver_input (one operation per line) to a file and run "
                                     "<repobuild asan>/dlcachedrive <file> (harness/hash/dlcachedrive.c, "
                                     "names are hex); handles are fake pointers, dlopen is replaced in the driver"})
    if first_diff is not None:
        ctx.correspondence_broken("dlcache-model-vs-dlcache.c", first_diff)
    res["nontrivial"] = len(distinct)
    ctx.count(evaluations=res["evaluations"], nontrivial=len(distinct))
    for s in samples:
        ctx.sample(s, limit=8)
    ctx.coverage.setdefault("parts", {})["dlcache"] = {
        "cases": len(cases), "operations_compared_line_by_line": res["evaluations"] - len(allnames),
        "chunks_stopped_by_the_harness_time_limit(rest of the chunk not run, not judged)": timed_out,
        "hash_string_values_compared(model vs front/hash.c)": len(allnames),
        "hash_model": "modelled in Coq (DlCacheModel.hash_string, signed char) and compared with the C function on every "
                      "candidate name incl. %d names with bytes >= 0x80, %d names of >= 100 bytes and the empty name; the table "
                      "model takes the hash as a parameter, the theorems hold for every hash"
                      % (len([n for n in pool if any(b >= 128 for b in n)]), len([n for n in pool if len(n) >= 100])),
        "model_limits": "sizes/counts are nat without the 2^32 wrap of unsigned int (coincides while size*3 < 2^32); "
                        "dlcache_add_dl(NULL name) early return, dlcache_print not modelled; dlcache_delete only judged by the "
                        "oracle (dlcloses exactly the non-NULL handles held). Theorems hold for EVERY hash function and any "
                        "sequence length; precondition size >= 1 (size 0: dlcache_new_size0_refuted = hash % 0)",
        "trusted_glue": "harness/hash/dlcachedrive.c defines dlopen/dlclose/dlerror itself, so the REAL dlcache_new and "
                        "dlcache_get_handle run with fake handles; harness/ocaml/hash/hashrun.ml decodes/prints only",
        "documented_behaviour": "duplicate dlcache_add_dl of one name: two entries; lookups return the first until the table "
                                "grows, then possibly the second (Properties_C17b.dlcache_dup_first_wins_refuted; corpus case "
                                "dlcache_dup_second_wins_after_growth.txt, model and code agree). Unreachable through "
                                "dlcache_get_handle",
        "vm_initial_size(DEFAULT_DLCACHE_SIZE)": vm_size,
        "initial_sizes": dict(sorted(stats["size0"].items())),
        "resizes_crossed(observed)": dict(sorted(stats["resizes_crossed"].items())),
        "largest_size_reached": dict(sorted(stats["max_size_reached"].items())),
        "styles": dict(stats["style"]), "name_flavours": dict(stats["mode"]),
        "entries_not_in_their_start_slot(sum over cases of the per-case maximum)": displaced_total,
        "longest_probe_distance": max_probe,
        "lookups": {"total": lookups, "hit": hits, "miss": misses},
        "get_handle": {"cached": gets_cached, "opened_and_cached": gets_new, "dlopen_failed_nothing_cached": gets_failed},
        "rule": "every initial size 1..16 x 0..3 growths; the VM's size with every name flavour (same residue of the REAL hash "
                "modulo the final table size, adjacent start slots, prefixes of each other, long / high-byte / empty names) "
                "x 1..3 growths; random mixes incl. direct dlcache_add_dl, duplicate adds, NULL host handle, failing dlopen; "
                "raw dlcache_entry_* arrays filled to the last slot, looked up when full (give-up branch), rehashed into "
                "arbitrary sizes.  After every growth every earlier name is looked up; at the end all names and absent names. "
                "non-trivial = distinct operation sequence that grew the table or put an entry off its start slot",
    }
    res["first_diff"] = first_diff
    return res


# ------------------------------------------------------------------------------------------
# end to end: N one-function libraries through the real `never`
def e2e_program(n, order, libdir_rel):
    """never source: wrapper per library, main calls wrappers in `order` (list of (lib index, arg))"""
    lines = []
    for k in range(n):
        lines.append('extern "%s/dlc_%02d.so" func dlc_%02d(x : int) -> int' % (libdir_rel, k, k))
    for k in range(n):
        lines.append("func w_%02d(x : int) -> int\n{\n    dlc_%02d(x)\n}\ncatch (ffi_fail)\n{\n    -777777\n}\n" % (k, k))
    lines.append("func main() -> int\n{")
    for j, (k, x) in enumerate(order):
        lines.append('    prints("@R %d "); print(w_%02d(%d));' % (j, k, x))
    lines.append("    0\n}\n")
    return "\n".join(lines)


def e2e_order(rng, n):
    """load libraries 0..n-1 in order; after each new one call some earlier ones again (all of them after
    the 12th / 24th ... load, i.e. around the growth of a 16-slot cache that already holds "host")"""
    order = []
    for k in range(n):
        order.append((k, rng.randint(0, 999)))
        if k >= 1:
            if (k + 2) % 12 in (0, 1, 2) or k == n - 1:
                back = list(range(k))
            else:
                back = rng.sample(range(k), min(k, 2))
            for b in back:
                order.append((b, rng.randint(0, 999)))
    return order


def run_dlcache_e2e(ctx, nevrun, tmp):
    rng = random.Random((ctx.seed << 9) ^ 0xE2E17)
    ns = [12, 13, 25, 30] if ctx.tier == "quick" else [3, 11, 12, 13, 14, 20, 24, 25, 26, 30, 30, 30]
    nmax = max(ns)
    libdir = os.path.join(tmp, "dlclibs")
    os.makedirs(libdir, exist_ok=True)
    consts = [1000003 * (k + 1) + rng.randrange(1000) for k in range(nmax)]

    def build(k):
        src = os.path.join(libdir, "dlc_%02d.c" % k)
        with open(src, "w") as f:
            f.write("int dlc_%02d(int x) { return %d + x; }\n" % (k, consts[k]))
        rc, so, se = common.sh("gcc -O0 -w -shared -fPIC -o %s/dlc_%02d.so %s" % (libdir, k, src), timeout=120)
        if rc != 0:
            raise common.BuildError("e2e library failed to build: " + se[-800:])

    with ThreadPoolExecutor(16) as ex:
        list(ex.map(build, range(nmax)))
    progs = []
    batch = os.path.join(tmp, "dlc_batch.txt")
    with open(batch, "w") as f:
        for i, n in enumerate(ns):
            order = e2e_order(rng, n)
            src = e2e_program(n, order, "./dlclibs")
            progs.append((n, order, src))
            f.write("@@@ dlc%d\n%s" % (i, src))
    env = dict(os.environ)
    env["ASAN_OPTIONS"] = "detect_leaks=1:abort_on_error=0:allocator_may_return_null=1"
    rc, so, se = common.sh([nevrun, "--timeout", "60", "--batch", batch], timeout=600, env=env, cwd=tmp)
    calls = good = 0
    cur = None
    outs = collections.defaultdict(list)
    status = {}
    for line in so.splitlines():
        if line.startswith("@@BEGIN "):
            cur = line[8:].strip()
        elif line.startswith("@@END "):
            mm = re.search(r"status=(.*)$", line)
            status[cur] = mm.group(1).strip() if mm else "?"
            cur = None
        elif cur is not None and line.strip():
            outs[cur].append(line.rstrip())
    for i, (n, order, src) in enumerate(progs):
        cid = "dlc%d" % i
        got = {}
        for l in outs.get(cid, []):
            mm = re.match(r"@R (\d+) (-?\d+)$", l)
            if mm:
                got[int(mm.group(1))] = int(mm.group(2))
        bad = None
        for j, (k, x) in enumerate(order):
            calls += 1
            want = consts[k] + x
            if got.get(j) != want:
                bad = bad or (j, k, x, want, got.get(j))
            else:
                good += 1
        if bad or status.get(cid) != "0":
            j, k, x, want, g = bad if bad else (len(order), -1, 0, None, None)
            loaded = len(set(kk for kk, _ in order[:j + 1]))
            if g == -777777:
                kind = "ffi_fail-for-a-loaded-library"
            elif g is None:
                kind = "crash-or-no-output"
            else:
                kind = "call-reached-another-library"
            ctx.violation("dlcache-e2e:" + kind,
                          "C17 a program using %d shared libraries: call #%d into library %d %s (%d libraries + \"host\" loaded by then)"
                          % (n, j, k, "returns %s instead of %s" % (g, want), loaded),
                          {"case": {"libraries": n, "call_index": j, "library": k, "argument": x,
                                    "libraries_loaded_before": loaded},
                           "expected": want, "observed": g, "status": status.get(cid),
                           "replay_library_c": "int dlc_KK(int x) { return CONST_K + x; }  with CONST_K = %s" % consts[:n],
                           "replay_never_program": src,
                           "other_output": [l for l in outs.get(cid, []) if not l.startswith("@R")][:30],
                           "replay_how": "build dlclibs/dlc_KK.so (gcc -shared -fPIC) from the one-line sources, run the program "
                                         "with the tree's never from the directory containing dlclibs/"})
    ctx.count(evaluations=calls, nontrivial=len([n for n in ns if n >= 12]))
    ctx.coverage.setdefault("parts", {})["dlcache_e2e"] = {
        "programs": len(ns), "libraries_per_program": ns, "calls": calls, "calls_with_exact_result": good,
        "rule": "library k exports dlc_k(x) = CONST_k + x; libraries are loaded in order and earlier ones are called again "
                "after each load (all of them around the 12th/24th load, where a 16-slot cache holding \"host\" grows)"}
    return {"calls": calls, "good": good}


# ==========================================================================================
# The same table shape elsewhere in the tree: string table (back/strtab.c, dedup add) and
# function table (back/functab.c, blind add).  Models coq/Hash/StrTabModel.v / FuncTabModel.v,
# proofs StrTabProofs.v / FuncTabProofs.v, statements coq/Hash/StrTabStatements.v /
# FuncTabStatements.v (compiled here and registered as obligations of the CALLING check).
#
#   run_strtab(ctx)   serves C07 ("every constant/string ... reference exists": the order stored in
#                     the bytecode indexes the string it was given for); string literals of C02 and the
#                     extern library / function names of C17 go through the same table.
#   run_functab(ctx)  serves C15 (embedding API: nev_prepare* finds the entry point by functab_lookup).
def register_statements(ctx, relpath):
    """compile a Properties-style statement file and register its theorems as obligations"""
    path = os.path.join(common.COQ, relpath)
    ok, log = common.coq_make([relpath[:-2] + ".vo"])
    r = common.check_one_property_file(path)
    names = []
    for t in r["theorems"]:
        good = t["status"] == "discharged"
        ctx.obligation(t["name"], good, None if good else {"status": t["status"], "log": r["log"][-1500:]})
        names.append({"name": t["name"], "status": t["status"], "axioms": t["axioms"]})
    if not r["theorems"]:
        ctx.obligation(relpath, False, {"log": (r["log"] + log)[-2000:]})
    ctx.coverage.setdefault("theorems", []).extend(names)
    return names


def real_hashes(ctx, lib, workdir, pool):
    drv = common.cc_driver("dlcachedrive", ["hash/dlcachedrive.c"], lib)
    hpath = os.path.join(workdir, "hash_cases.txt")
    with open(hpath, "w") as f:
        f.write("\n".join("H " + hx(n) for n in pool) + "\n")
    rc, hout, herr = run_driver(drv, hpath)
    if rc != 0 or len(hout) != len(pool):
        raise common.BuildError("hash_string driver failed: " + herr[-500:])
    return {n: int(l.split()[1]) for n, l in zip(pool, hout)}


def strtab_op_line(op):
    return op[0] if len(op) == 1 else ("%s %d" % op if isinstance(op[1], int) else "%s %s" % (op[0], hx(op[1])))


def strtab_op_show(op):
    names = {"S": "strtab_new(%d)", "s": "strtab_add_string(%r)", "q": "strtab_lookup_string(%r)", "T": "strtab_to_array()"}
    return names[op[0]] % tuple(show(a) if isinstance(a, bytes) else a for a in op[1:])


def judge_strtab(ops, out):
    strings = []
    for k, op in enumerate(ops):
        if k >= len(out):
            return ("crash", k, "the driver died in this operation")
        head = out[k].split("|")[0].split()
        if not head or head[0] != op[0]:
            return ("crash", k, "unexpected output %r" % out[k][:200])
        if op[0] == "S":
            strings = []
        elif op[0] == "s":
            if op[1] not in strings:
                strings.append(op[1])
            want = strings.index(op[1]) + 1
            if int(head[1]) != want:
                return ("wrong-order", k, "strtab_add_string(%r) returned %s; this is distinct string #%d" % (show(op[1]), head[1], want))
        elif op[0] == "q":
            want = strings.index(op[1]) + 1 if op[1] in strings else 0
            if int(head[1]) != want:
                return ("wrong-lookup", k, "strtab_lookup_string(%r) returned %s, expected %d" % (show(op[1]), head[1], want))
        elif op[0] == "T":
            want = ["T", str(len(strings) + 1), "~"] + [hx(s) for s in strings]
            if head != want:
                bad = next((i for i, (a, b) in enumerate(zip(head[2:], want[2:])) if a != b), None)
                return ("wrong-array", k, "strtab_to_array: size %s (expected %d), first differing index %s"
                        % (head[1] if len(head) > 1 else "?", len(strings) + 1, bad))
    return None


def functab_op_line(op):
    if op[0] == "f":
        return "f %s %d %d" % (hx(op[1]), op[2], op[3])
    if op[0] == "g":
        return "g " + hx(op[1])
    if op[0] == "F":
        return "F %d" % op[1]
    return op[0]


def functab_op_show(op):
    names = {"F": "functab_new(%d)", "f": "functab_add_func(func %r, entry_type %d, params_count %d)",
             "g": "functab_lookup(%r)", "K": "functab_close()"}
    return names[op[0]] % tuple(show(a) if isinstance(a, bytes) else a for a in op[1:])


def judge_functab(ops, out):
    table = {}
    payload = {}
    nfunc = 0
    for k, op in enumerate(ops):
        if k >= len(out):
            return ("crash", k, "the driver died in this operation")
        head = out[k].split("|")[0].split()
        if not head or head[0] != op[0]:
            return ("crash", k, "unexpected output %r" % out[k][:200])
        if op[0] == "F":
            table, payload, nfunc = {}, {}, 0
        elif op[0] == "f":
            table.setdefault(op[1], []).append(nfunc)
            payload[nfunc] = (op[2], op[3])
            nfunc += 1
        elif op[0] == "g":
            got = head[1] if len(head) > 1 else "?"
            if op[1] in table:
                want = table[op[1]]
                if got == "-":
                    return ("lost-entry", k, "functab_lookup(%r) finds nothing; function #%d was added under this name" % (show(op[1]), want[0]))
                fn = int(got.split(":")[1])
                if fn not in want or (len(want) == 1 and fn != want[0]):
                    return ("wrong-function", k, "functab_lookup(%r) yields function #%d; added under this name: %s" % (show(op[1]), fn, want))
                ent = tuple(int(x) for x in got.split(":")[2:4])
                if ent != payload[fn]:
                    return ("wrong-entry-data", k, "functab_lookup(%r): entry_type/params_count are %s, function #%d was added with %s"
                            % (show(op[1]), ent, fn, payload[fn]))
            elif got != "-":
                return ("phantom-entry", k, "functab_lookup(%r) finds %s; no such function was added" % (show(op[1]), got))
    return None


def gen_strtab_cases(rng, tier, pool, hashes, vm_size):
    cases = []
    n_rand = 120 if tier == "quick" else 1200
    plan = [(s, r) for s in range(1, 17) for r in (0, 1, 2)] + [(vm_size, r) for r in (0, 1, 2, 3) for _ in range(3)]
    for _ in range(n_rand):
        plan.append((rng.choice(list(range(1, 17)) + [vm_size] * 8), rng.choice([0, 1, 2, 3])))
    for size0, r in plan:
        mode = rng.choice(["colliding", "colliding", "adjacent", "realistic", "prefixes", "special", "random"])
        k = max(1, adds_to_cross(size0, r, 1) + rng.randint(0, 3))
        names = pick_names(rng, pool, hashes, mode, k, max(1, size0 * 2 ** (r + 1) if rng.random() < 0.6 else size0))
        absent = pick_names(rng, pool, hashes, rng.choice(["colliding", "random"]), 3, max(1, size0 * 2 ** (r + 1)), avoid=names)
        ops = [("S", size0)]
        seen = []
        for n in names:
            ops.append(("s", n))
            seen.append(n)
            if rng.random() < 0.35:
                ops.append(("s", rng.choice(seen)))          # added again: same order, nothing new
            for m in rng.sample(seen, min(len(seen), rng.choice([0, 1, 2]))):
                ops.append(("q", m))
            if rng.random() < 0.2:
                ops.append(("q", rng.choice(absent)))
        for m in seen:
            ops.append(("q" if rng.random() < 0.7 else "s", m))
        for m in absent:
            ops.append(("q", m))
        ops.append(("T",))
        cases.append((ops, {"size0": size0, "resizes_wanted": r, "mode": mode, "vm_size": size0 == vm_size}))
    return cases


def gen_functab_cases(rng, tier, pool, hashes, vm_size):
    cases = []
    n_rand = 120 if tier == "quick" else 1200
    plan = [(s, r) for s in range(1, 17) for r in (0, 1, 2)] + [(vm_size, r) for r in (0, 1, 2, 3) for _ in range(3)]
    for _ in range(n_rand):
        plan.append((rng.choice(list(range(1, 17)) + [vm_size] * 8), rng.choice([0, 1, 2, 3])))
    for size0, r in plan:
        mode = rng.choice(["colliding", "colliding", "adjacent", "realistic", "prefixes", "random"])
        dups = rng.random() < 0.15
        k = max(1, adds_to_cross(size0, r, 0) + rng.randint(0, 3))
        names = pick_names(rng, pool, hashes, mode, k, max(1, size0 * 2 ** (r + 1) if rng.random() < 0.6 else size0))
        absent = pick_names(rng, pool, hashes, rng.choice(["colliding", "random"]), 3, max(1, size0 * 2 ** (r + 1)), avoid=names)
        ops = [("F", size0)]
        seen = []
        for n in names:
            if dups and seen and rng.random() < 0.3:
                n = rng.choice(seen)
            ops.append(("f", n, rng.randint(0, 3), rng.randint(0, 5)))
            if n not in seen:
                seen.append(n)
            for m in rng.sample(seen, min(len(seen), rng.choice([0, 1, 2]))):
                ops.append(("g", m))
            if rng.random() < 0.2:
                ops.append(("g", rng.choice(absent)))
        for m in seen:
            ops.append(("g", m))
        ops.append(("K",))
        for m in seen + absent:
            ops.append(("g", m))
        cases.append((ops, {"size0": size0, "resizes_wanted": r, "mode": mode, "dups": dups, "vm_size": size0 == vm_size}))
    return cases


def _run_tab(ctx, label, lib, drvname, cases, op_line_fn, op_show_fn, judge_fn, corr_name, what):
    """shared runner: real driver vs extracted model line by line + the oracle on the real outputs"""
    drv = common.cc_driver(drvname, ["hash/%s.c" % drvname], lib)
    workdir = os.path.join(ctx.outdir, label)
    os.makedirs(workdir, exist_ok=True)
    nchunks = 8
    per = (len(cases) + nchunks - 1) // nchunks
    chunks = [cases[i:i + per] for i in range(0, len(cases), per)]

    def run_chunk(ic):
        i, ch = ic
        path = os.path.join(workdir, "cases_%02d.txt" % i)
        with open(path, "w") as f:
            for ops, _ in ch:
                f.write("\n".join(op_line_fn(o) for o in ops) + "\n")
        rc_c, out_c, err_c = run_driver(drv, path)
        rc_m, so, se = common.sh([RUN, path], timeout=600)
        return rc_c, out_c, err_c, rc_m, so.split("\n"), se

    with ThreadPoolExecutor(nchunks) as ex:
        outs = list(ex.map(run_chunk, enumerate(chunks)))
    first_diff = None
    failures = {}
    evals = 0
    distinct = set()
    grown_hist = collections.Counter()
    size_hist = collections.Counter()
    timed_out = 0
    for ch, (rc_c, out_c, err_c, rc_m, out_m, err_m) in zip(chunks, outs):
        if rc_m != 0 and first_diff is None:
            first_diff = {"error": "model runner failed", "stderr": err_m[-600:]}
        pos = 0
        for ops, meta in ch:
            oc = out_c[pos:pos + len(ops)]
            om = out_m[pos:pos + len(ops)]
            truncated = len(oc) < len(ops)
            v = judge_fn(ops, oc)
            if rc_c == -9 and truncated:
                timed_out += 1
                break
            if v is None and truncated:
                v = ("crash", len(oc), "driver output ends early")
            if v is not None:
                kind, detail = v[0], v[2]
                if kind == "crash":
                    mm = re.search(r"(ERROR: AddressSanitizer[^\n]*|runtime error:[^\n]*|[^\n]*Assertion[^\n]*)", err_c)
                    sm = re.search(r"SUMMARY: [^\n]*", err_c)
                    detail = ((mm.group(1) if mm else "") + " " + (sm.group(0) if sm else "")).strip() or err_c[-400:]
                    if "Assertion" in err_c:
                        kind = "assert"
                    elif "AddressSanitizer" in err_c:
                        m2 = re.search(r"AddressSanitizer: ([a-z-]+)", err_c)
                        kind = "asan-" + (m2.group(1) if m2 else "report")
                failures.setdefault("%s:%s" % (label, kind), []).append((ops, meta, v, detail))
            if truncated:
                break
            if first_diff is None:
                for k, (a, b) in enumerate(zip(oc, om + ["<missing>"] * (len(oc) - len(om)))):
                    if a != b:
                        first_diff = {"operation": op_show_fn(ops[k]), "driver_line": op_line_fn(ops[k]),
                                      "operations_before": [op_line_fn(o) for o in ops[max(0, k - 12):k]],
                                      "case_first_operation": op_line_fn(ops[0]), "code": a[:1200], "model": b[:1200], "meta": meta}
                        break
            pos += len(ops)
            evals += len(ops)
            sizes = []
            for line in oc:
                p = line.split("|")
                if len(p) == 3:
                    sz = int(p[1].split()[0])
                    if not sizes or sizes[-1] != sz:
                        sizes.append(sz)
            grown = max(0, len(sizes) - 1)
            grown_hist[grown] += 1
            size_hist[meta["size0"]] += 1
            if grown >= 1:
                distinct.add(hash(tuple(ops)))

    def fails_same(ops, kind):
        path = os.path.join(workdir, "shrink.txt")
        with open(path, "w") as f:
            f.write("\n".join(op_line_fn(o) for o in ops) + "\n")
        rc, out, se = run_driver(drv, path, timeout=60)
        if rc == -9:
            return False, None
        v = judge_fn(ops, out)
        if v is None and rc != 0:
            v = ("crash", len(out), se[-300:])
        return v is not None and v[0] == kind, v

    for key, fl in sorted(failures.items()):
        fl.sort(key=lambda f: (not f[1].get("vm_size"), len(f[0])))
        ops, meta, v, detail = fl[0]
        cur, runs, n = list(ops), 0, 2
        while len(cur) > 2 and runs < 200:                  # delta debugging, first operation stays
            body = cur[1:]
            chunk = max(1, len(body) // n)
            reduced = False
            for i in range(0, len(body), chunk):
                cand = [cur[0]] + body[:i] + body[i + chunk:]
                if len(cand) < 2:
                    continue
                runs += 1
                okk, _ = fails_same(cand, v[0])
                if okk:
                    cur, n, reduced = cand, max(n - 1, 2), True
                    break
                if runs >= 200:
                    break
            if not reduced:
                if chunk == 1:
                    break
                n = min(len(body), n * 2)
        okk, v2 = fails_same(cur, v[0])
        if not okk:
            cur, v2 = ops, v
        if v2[0] != "crash":
            detail = v2[2]
        ctx.violation(key, "%s (initial size %d%s): after %d operations %s"
                      % (what, meta["size0"], " = the size the compiler uses" if meta.get("vm_size") else "", len(cur) - 1, detail[:300]),
                      {"case": {"operations": [op_show_fn(o) for o in cur], "failing_operation_index": v2[1]},
                       "driver_input": [op_line_fn(o) for o in cur], "original_length": len(ops), "shrink_runs": runs,
                       "failing_cases_of_this_kind": len(fl), "detail": detail, "meta": meta,
                       "replay_how": "write driver_input to a file and run <repobuild asan>/%s <file> (harness/hash/%s.c; names are hex)"
                                     % (drvname, drvname)})
    if first_diff is not None:
        ctx.correspondence_broken(corr_name, first_diff)
    ctx.count(evaluations=evals, nontrivial=len(distinct))
    return {"cases": len(cases), "operations_compared_line_by_line": evals,
            "chunks_stopped_by_the_harness_time_limit(rest of the chunk not run, not judged)": timed_out, "initial_sizes": dict(sorted(size_hist.items())),
            "resizes_crossed(observed)": dict(sorted(grown_hist.items())), "distinct_cases_that_grew": len(distinct),
            "first_diff": first_diff}


def _tab_setup(ctx, lib, label):
    if lib is None:
        lib = common.repobuild("asan")
    ok, log = common.ocaml_build("hash")
    if not ok or not os.path.exists(RUN):
        ctx.correspondence_broken(label + "-model", {"error": "extracted model did not build", "log": log[-1500:]})
        return None, None, None, None
    rng = random.Random((ctx.seed << 10) ^ (0x57A7AB if label == "strtab" else 0xF0C7AB))
    workdir = os.path.join(ctx.outdir, label)
    os.makedirs(workdir, exist_ok=True)
    pool = candidate_pool(rng) + [HOST]
    hashes = real_hashes(ctx, lib, workdir, pool)
    _GROUPS.clear()
    return lib, rng, pool, hashes


def _module_size(lib, which, default):
    for root in (os.environ.get("NEVER_REPO", "/repo"),):
        try:
            m = re.search(r"%s_new\((\d+)\)" % which, open(os.path.join(root, "back", "module.c")).read())
            if m:
                return int(m.group(1))
        except OSError:
            pass
    return default


def run_strtab(ctx, lib=None, statements=True):
    """string table back/strtab.c: obligations (coq/Hash/StrTabStatements.v) + correspondence + oracle"""
    if statements:
        register_statements(ctx, "Hash/StrTabStatements.v")
    lib, rng, pool, hashes = _tab_setup(ctx, lib, "strtab")
    if lib is None:
        return {}
    vm_size = _module_size(lib, "strtab", 32)
    cases = gen_strtab_cases(rng, ctx.tier, pool, hashes, vm_size)
    res = _run_tab(ctx, "strtab", lib, "tabdrive", cases, strtab_op_line, strtab_op_show, judge_strtab,
                   "strtab-model-vs-strtab.c", "string table back/strtab.c")
    res["size_used_by_module_new"] = vm_size
    res["rule"] = ("initial sizes 1..16 and the module's size x 0..3 growths; strings with the same residue of the REAL hash / adjacent "
                   "start slots / prefixes / long / high-byte / empty; every string is added again and looked up later; absent strings "
                   "looked up; strtab_to_array at the end.  oracle: list of distinct strings in first-insertion order")
    ctx.coverage.setdefault("parts", {})["strtab"] = res
    return res


def run_functab(ctx, lib=None, statements=True):
    """function table back/functab.c: obligations (coq/Hash/FuncTabStatements.v) + correspondence + oracle"""
    if statements:
        register_statements(ctx, "Hash/FuncTabStatements.v")
    lib, rng, pool, hashes = _tab_setup(ctx, lib, "functab")
    if lib is None:
        return {}
    vm_size = _module_size(lib, "functab", 8)
    cases = gen_functab_cases(rng, ctx.tier, pool, hashes, vm_size)
    res = _run_tab(ctx, "functab", lib, "tabdrive", cases, functab_op_line, functab_op_show, judge_functab,
                   "functab-model-vs-functab.c", "function table back/functab.c")
    res["size_used_by_module_new"] = vm_size
    res["rule"] = ("initial sizes 1..16 and the module's size x 0..3 growths; function names colliding modulo the final size of the REAL "
                   "hash etc.; 15% of the cases add duplicate names (oracle: one of the functions added under the name); lookups of "
                   "present and absent names before and after functab_close")
    ctx.coverage.setdefault("parts", {})["functab"] = res
    return res
