#!/bin/bash
# tools/final_pass.sh : sequential clean run of every check on /repo's current tree (quick tier, VERIF_SEED=1),
# then regenerate the DESIGN tables and MANIFEST and validate MANIFEST + evidence against the schemas.
set -uo pipefail
VERIF="$(cd "$(dirname "$0")/.." && pwd)"; cd "$VERIF"
PAR="${1:-1}"
ls checks/c[0-9][0-9].py | sed 's/.*\/c/C/; s/\.py//' | xargs -P "$PAR" -I{} sh -c 'VERIF_SEED=1 bin/check {} --tier quick > /var/tmp/final_{}.log 2>&1; echo "{} rc=$?"'
echo "--- VIOLATION / NOTE lines:"; grep -h "^VIOLATION\|^NOTE" /var/tmp/final_C*.log | cut -c1-300
echo "--- KNOWN-FINDING lines: $(grep -h '^KNOWN-FINDING' /var/tmp/final_C*.log | wc -l)"
python3 tools/asbuilt.py > /dev/null; python3 tools/seed_table.py > /dev/null; python3 tools/seed_paragraphs.py > /dev/null; python3 tools/mkmanifest.py > /dev/null
python3-vt - <<'P'
import json, glob, jsonschema
m = json.load(open('/verif/MANIFEST.json')); jsonschema.validate(m, json.load(open('/root/.vp/MANIFEST.schema.json'))); print('MANIFEST ok', len(m['checks']), 'checks', 'not_applicable', m.get('not_applicable'))
es = json.load(open('/root/.vp/EVIDENCE.schema.json'))
for f in sorted(glob.glob('/verif/evidence/C*.json')):
    e = json.load(open(f))
    try:
        jsonschema.validate(e, es); ok = 'ok'
    except Exception as ex:
        ok = 'INVALID ' + str(ex)[:200]
    print(f[-8:], ok, 'violations', e.get('violations'), e.get('tier'), e.get('wall_s'))
P
