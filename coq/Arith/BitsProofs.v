(* Arith/BitsProofs.v — facts about wrap / signed / unsigned (Arith/Bits.v). *)
From Coq Require Import ZArith Bool Lia.
From NV Require Import Arith.Bits.
Local Open Scope Z_scope.

Lemma modulus_pos : forall n, 0 <= n -> 0 < modulus n.
Proof. intros. unfold modulus. apply Z.pow_pos_nonneg; lia. Qed.

Lemma half_pos : forall n, 0 < n -> 0 < half n.
Proof. intros. unfold half. apply Z.pow_pos_nonneg; lia. Qed.

Lemma modulus_half : forall n, 0 < n -> modulus n = 2 * half n.
Proof.
  intros n Hn. unfold modulus, half.
  replace n with (Z.succ (n - 1)) at 1 by lia. rewrite Z.pow_succ_r; lia.
Qed.

Lemma unsigned_range : forall n z, 0 < n -> 0 <= unsigned n z < modulus n.
Proof. intros. unfold unsigned. apply Z.mod_pos_bound. apply modulus_pos. lia. Qed.

Lemma signed_range : forall n u, 0 < n -> 0 <= u < modulus n -> in_range n (signed n u).
Proof.
  intros n u Hn Hu. unfold signed, in_range.
  pose proof (modulus_half n Hn). pose proof (half_pos n Hn).
  destruct (u <? half n) eqn:E; [apply Z.ltb_lt in E | apply Z.ltb_ge in E]; lia.
Qed.

Lemma signed_congr : forall n u, 0 < n -> (signed n u) mod modulus n = u mod modulus n.
Proof.
  intros n u Hn. unfold signed.
  destruct (u <? half n); [reflexivity|].
  replace (u - modulus n) with (u + (-1) * modulus n) by lia.
  apply Z.mod_add. pose proof (modulus_pos n). lia.
Qed.

Theorem wrap_in_range : forall n z, 0 < n -> in_range n (wrap n z).
Proof. intros. unfold wrap. apply signed_range; [assumption|]. now apply unsigned_range. Qed.

Theorem wrap_congr : forall n z, 0 < n -> (wrap n z) mod modulus n = z mod modulus n.
Proof.
  intros n z Hn. unfold wrap. rewrite signed_congr by assumption.
  unfold unsigned. apply Z.mod_mod. pose proof (modulus_pos n). lia.
Qed.

Theorem wrap_id : forall n z, 0 < n -> in_range n z -> wrap n z = z.
Proof.
  intros n z Hn [Hlo Hhi]. unfold wrap, unsigned, signed.
  pose proof (modulus_half n Hn) as Hm. pose proof (half_pos n Hn) as Hh.
  destruct (Z_lt_le_dec z 0) as [Hneg|Hpos].
  - assert (E : z mod modulus n = z + modulus n).
    { symmetry. apply Z.mod_unique with (q := -1); lia. }
    rewrite E. destruct (z + modulus n <? half n) eqn:C.
    + apply Z.ltb_lt in C. lia.
    + lia.
  - rewrite Z.mod_small by lia.
    destruct (z <? half n) eqn:C; [reflexivity|]. apply Z.ltb_ge in C. lia.
Qed.

Lemma wrap_eq_of_congr : forall n a b, 0 < n ->
  a mod modulus n = b mod modulus n -> wrap n a = wrap n b.
Proof. intros n a b Hn H. unfold wrap, unsigned. now rewrite H. Qed.

Theorem wrap_idem : forall n z, 0 < n -> wrap n (wrap n z) = wrap n z.
Proof. intros. apply wrap_id; [assumption|]. now apply wrap_in_range. Qed.

Lemma in_rangeb_spec : forall n z, in_rangeb n z = true <-> in_range n z.
Proof.
  intros. unfold in_rangeb, in_range. rewrite andb_true_iff, Z.leb_le, Z.ltb_lt. tauto.
Qed.

(* the arithmetic operations commute with wrap: whole expressions evaluate mod 2^n *)
Theorem wrap_add : forall n a b, 0 < n -> wrap n (wrap n a + wrap n b) = wrap n (a + b).
Proof.
  intros n a b Hn. apply wrap_eq_of_congr; [assumption|].
  pose proof (modulus_pos n) as Hm.
  rewrite Z.add_mod by lia. rewrite !wrap_congr by assumption.
  rewrite <- Z.add_mod by lia. reflexivity.
Qed.

Theorem wrap_sub : forall n a b, 0 < n -> wrap n (wrap n a - wrap n b) = wrap n (a - b).
Proof.
  intros n a b Hn. apply wrap_eq_of_congr; [assumption|].
  pose proof (modulus_pos n) as Hm.
  rewrite Zminus_mod. rewrite !wrap_congr by assumption.
  rewrite <- Zminus_mod. reflexivity.
Qed.

Theorem wrap_mul : forall n a b, 0 < n -> wrap n (wrap n a * wrap n b) = wrap n (a * b).
Proof.
  intros n a b Hn. apply wrap_eq_of_congr; [assumption|].
  pose proof (modulus_pos n) as Hm.
  rewrite Z.mul_mod by lia. rewrite !wrap_congr by assumption.
  rewrite <- Z.mul_mod by lia. reflexivity.
Qed.

Theorem wrap_opp : forall n a, 0 < n -> wrap n (- wrap n a) = wrap n (- a).
Proof.
  intros n a Hn.
  replace (- wrap n a) with (wrap n 0 - wrap n a).
  - rewrite wrap_sub by assumption. f_equal.
  - rewrite (wrap_id n 0); [lia | assumption |].
    unfold in_range. pose proof (half_pos n Hn). lia.
Qed.

(* in_range through the top bits: x is an n-bit signed number iff x >> (n-1) is 0 or -1 *)
Lemma in_range_shiftr : forall n x, 0 < n ->
  (in_range n x <-> (Z.shiftr x (n - 1) = 0 \/ Z.shiftr x (n - 1) = -1)).
Proof.
  intros n x Hn. unfold in_range, half.
  rewrite Z.shiftr_div_pow2 by lia.
  assert (Hp : 0 < 2 ^ (n - 1)) by (apply Z.pow_pos_nonneg; lia).
  set (p := 2 ^ (n - 1)) in *.
  split.
  - intros [Hlo Hhi]. destruct (Z_lt_le_dec x 0).
    + right. symmetry. apply Z.div_unique with (r := x + p); lia.
    + left. apply Z.div_small. lia.
  - intros [H|H].
    + apply Z.div_small_iff in H; lia.
    + pose proof (Z.div_mod x p ltac:(lia)) as E. rewrite H in E.
      pose proof (Z.mod_pos_bound x p Hp). lia.
Qed.
