(* C02 — the evaluation rules the reference evaluator (Src/Eval.v) embodies, as theorems over
   ALL expressions, environments and stores.  Only statements here; every proof is
   `exact <lemma>` into Src/EvalProps.v.  (compile_correct is stated elsewhere, staged.) *)
From Coq Require Import ZArith List Bool.
From NV Require Import Src.Syntax Src.Eval Src.EvalLemmas Src.EvalProps.
Import ListNotations.

(* ---- the outcome of a program is a well-defined partial function ------------------- *)

Theorem eval_fuel_mono : forall genv k k' e st x r st', k <= k' ->
  eval genv k e st x = (r, st') -> r <> RFuel -> eval genv k' e st x = (r, st').
Proof. exact EvalProps.eval_fuel_mono. Qed.
Print Assumptions eval_fuel_mono.

Theorem eval_items_fuel_mono : forall genv k k' e st l last r st', k <= k' ->
  eval_items genv k e st l last = (r, st') -> r <> RFuel ->
  eval_items genv k' e st l last = (r, st').
Proof. exact EvalProps.eval_items_fuel_mono. Qed.
Print Assumptions eval_items_fuel_mono.

Theorem handlers_fuel_mono : forall genv k k' e st ex cs call r st', k <= k' ->
  handlers genv k e st ex cs call = (r, st') -> r <> RFuel ->
  handlers genv k' e st ex cs call = (r, st').
Proof. exact EvalProps.handlers_fuel_mono. Qed.
Print Assumptions handlers_fuel_mono.

(* the local argument-list evaluator, for an abstract one-expression evaluator *)
Theorem eval_args_fuel_mono : forall (ev ev' : state -> expr -> res * state),
  (forall st a r st', ev st a = (r, st') -> r <> RFuel -> ev' st a = (r, st')) ->
  forall l st o r st', eval_args_f ev l st = ((o, r), st') -> (o = None -> r <> RFuel) ->
  eval_args_f ev' l st = ((o, r), st').
Proof. exact EvalProps.eval_args_f_mono. Qed.
Print Assumptions eval_args_fuel_mono.

Theorem run_program_fuel_mono : forall k k' p args, k <= k' ->
  run_program k p args <> OFuel -> run_program k' p args = run_program k p args.
Proof. exact EvalProps.run_program_fuel_mono. Qed.
Print Assumptions run_program_fuel_mono.

Theorem run_program_deterministic_in_fuel : forall k1 k2 p args,
  run_program k1 p args <> OFuel -> run_program k2 p args <> OFuel ->
  run_program k1 p args = run_program k2 p args.
Proof. exact EvalProps.run_program_deterministic_in_fuel. Qed.
Print Assumptions run_program_deterministic_in_fuel.

Theorem evaluates_functional : forall genv e st x r1 s1 r2 s2,
  evaluates genv e st x r1 s1 -> evaluates genv e st x r2 s2 -> r1 = r2 /\ s1 = s2.
Proof. exact EvalProps.evaluates_functional. Qed.
Print Assumptions evaluates_functional.

(* ---- binary operands: left to right ------------------------------------------------- *)

Theorem binop_left_to_right : forall genv op k e st a b c1 st1 c2 st2, op <> And -> op <> Or ->
  eval genv k e st a = (ROk c1, st1) -> eval genv k e st1 b = (ROk c2, st2) ->
  eval genv (S k) e st (EBin op a b) = binop_result op c1 c2 st2.
Proof. exact EvalProps.binop_left_to_right. Qed.
Print Assumptions binop_left_to_right.

Theorem binop_left_raises : forall genv op k e st a b r st1, not_ok r ->
  eval genv k e st a = (r, st1) -> eval genv (S k) e st (EBin op a b) = (r, st1).
Proof. exact EvalProps.binop_left_raises. Qed.
Print Assumptions binop_left_raises.

Theorem binop_right_raises : forall genv op k e st a b c1 st1 r st2, op <> And -> op <> Or ->
  not_ok r -> eval genv k e st a = (ROk c1, st1) -> eval genv k e st1 b = (r, st2) ->
  eval genv (S k) e st (EBin op a b) = (r, st2).
Proof. exact EvalProps.binop_right_raises. Qed.
Print Assumptions binop_right_raises.

(* ---- call arguments: right to left, then the function expression --------------------- *)

Theorem call_args_right_to_left : forall genv k e st f a1 a2 c2 st1 c1 st2 cf st3,
  eval genv k e st a2 = (ROk c2, st1) ->
  eval genv k e st1 a1 = (ROk c1, st2) ->
  eval genv k e st2 f = (ROk cf, st3) ->
  eval genv (S k) e st (ECall f [a1; a2]) = apply_fun genv k st3 cf [c1; c2].
Proof. exact EvalProps.call_args_right_to_left. Qed.
Print Assumptions call_args_right_to_left.

Theorem call_last_arg_raises : forall genv k e st f a1 a2 r st1, not_ok r ->
  eval genv k e st a2 = (r, st1) -> eval genv (S k) e st (ECall f [a1; a2]) = (r, st1).
Proof. exact EvalProps.call_last_arg_raises. Qed.
Print Assumptions call_last_arg_raises.

Theorem call_first_arg_raises : forall genv k e st f a1 a2 c2 st1 r st2, not_ok r ->
  eval genv k e st a2 = (ROk c2, st1) -> eval genv k e st1 a1 = (r, st2) ->
  eval genv (S k) e st (ECall f [a1; a2]) = (r, st2).
Proof. exact EvalProps.call_first_arg_raises. Qed.
Print Assumptions call_first_arg_raises.

(* n-ary: the argument phase is a right fold over the list ... *)
Theorem eval_args_fold_right : forall genv k e l st,
  eval_args genv k e l st =
  fold_right (fun a acc =>
                match acc with
                | ((Some cs, _), st1) =>
                  match eval genv k e st1 a with
                  | (ROk c, st2) => ((Some (c :: cs), ROk 0), st2)
                  | (r, st2) => ((None, r), st2)
                  end
                | r => r
                end) ((Some [], ROk 0), st) l.
Proof. exact EvalProps.eval_args_fold_right. Qed.
Print Assumptions eval_args_fold_right.

(* ... i.e. exactly the relation "arguments to the right first" (args_rtl) *)
Theorem eval_args_rtl : forall genv k e l st cs st',
  (exists r, eval_args genv k e l st = ((Some cs, r), st')) <-> args_rtl genv k e l st cs st'.
Proof. exact EvalProps.eval_args_rtl. Qed.
Print Assumptions eval_args_rtl.

Theorem call_args_then_function : forall genv k e st f args cs st1 cf st2,
  args_rtl genv k e args st cs st1 -> eval genv k e st1 f = (ROk cf, st2) ->
  eval genv (S k) e st (ECall f args) = apply_fun genv k st2 cf cs.
Proof. exact EvalProps.call_args_then_function. Qed.
Print Assumptions call_args_then_function.

(* ---- && and || short-circuit -------------------------------------------------------- *)

Theorem and_short_circuits : forall genv k e st a c st1,
  eval genv k e st a = (ROk c, st1) -> get_cell st1 c = Some (CBool false) ->
  forall b, eval genv (S k) e st (EBin And a b) =
            (ROk (length (cells st1)), with_new_cell st1 (CBool false)).
Proof. exact EvalProps.and_short_circuits. Qed.
Print Assumptions and_short_circuits.

Theorem or_short_circuits : forall genv k e st a c st1,
  eval genv k e st a = (ROk c, st1) -> get_cell st1 c = Some (CBool true) ->
  forall b, eval genv (S k) e st (EBin Or a b) =
            (ROk (length (cells st1)), with_new_cell st1 (CBool true)).
Proof. exact EvalProps.or_short_circuits. Qed.
Print Assumptions or_short_circuits.

Theorem and_short_circuits_evaluates : forall genv e st a c st1,
  evaluates genv e st a (ROk c) st1 -> get_cell st1 c = Some (CBool false) ->
  forall b, evaluates genv e st (EBin And a b)
              (ROk (length (cells st1))) (with_new_cell st1 (CBool false)).
Proof. exact EvalProps.and_short_circuits_evaluates. Qed.
Print Assumptions and_short_circuits_evaluates.

Theorem or_short_circuits_evaluates : forall genv e st a c st1,
  evaluates genv e st a (ROk c) st1 -> get_cell st1 c = Some (CBool true) ->
  forall b, evaluates genv e st (EBin Or a b)
              (ROk (length (cells st1))) (with_new_cell st1 (CBool true)).
Proof. exact EvalProps.or_short_circuits_evaluates. Qed.
Print Assumptions or_short_circuits_evaluates.

Theorem and_evaluates_right : forall genv k e st a b c st1 c2 st2 v,
  eval genv k e st a = (ROk c, st1) -> get_cell st1 c = Some (CBool true) ->
  eval genv k e st1 b = (ROk c2, st2) -> get_cell st2 c2 = Some (CBool v) ->
  eval genv (S k) e st (EBin And a b) = (ROk (length (cells st2)), with_new_cell st2 (CBool v)).
Proof. exact EvalProps.and_evaluates_right. Qed.
Print Assumptions and_evaluates_right.

(* ---- binding shares the cell, assignment copies the payload -------------------------- *)

Theorem binding_never_copies : forall genv k e st x y c rest last,
  lookup_var genv y e = Some c ->
  eval_items genv (S (S k)) e st (ILet x (EVar y) :: rest) last =
    eval_items genv (S k) ((x, c) :: e) st rest (Some c) /\
  eval_items genv (S (S k)) e st (IVar x (EVar y) :: rest) last =
    eval_items genv (S k) ((x, c) :: e) st rest (Some c) /\
  lookup_var genv x ((x, c) :: e) = lookup_var genv y e.
Proof. exact EvalProps.binding_never_copies. Qed.
Print Assumptions binding_never_copies.

Theorem binding_shares_cell : forall genv k e st x a c st1 rest last,
  eval genv k e st a = (ROk c, st1) ->
  eval_items genv (S k) e st (ILet x a :: rest) last = eval_items genv k ((x, c) :: e) st1 rest (Some c) /\
  eval_items genv (S k) e st (IVar x a :: rest) last = eval_items genv k ((x, c) :: e) st1 rest (Some c).
Proof. exact EvalProps.binding_shares_cell. Qed.
Print Assumptions binding_shares_cell.

Theorem assign_copies_payload : forall genv k e st x rhs cx cr st2 v,
  lookup_var genv x e = Some cx ->
  eval genv (S k) e st rhs = (ROk cr, st2) -> get_cell st2 cr = Some v ->
  eval genv (S (S k)) e st (EAssign (EVar x) rhs) = (ROk cx, set_cell st2 cx v) /\
  (get_cell st2 cx <> None -> get_cell (set_cell st2 cx v) cx = Some v) /\
  (forall c, c <> cx -> get_cell (set_cell st2 cx v) c = get_cell st2 c) /\
  arrs (set_cell st2 cx v) = arrs st2 /\ recs (set_cell st2 cx v) = recs st2 /\
  out (set_cell st2 cx v) = out st2.
Proof. exact EvalProps.assign_copies_payload. Qed.
Print Assumptions assign_copies_payload.

Theorem fresh_cell_for_arith : forall genv op k e st a b c st',
  eval genv (S k) e st (EBin op a b) = (ROk c, st') ->
  exists st2 v, st_le st st2 /\ c = length (cells st2) /\ st' = with_new_cell st2 v /\
                length (cells st) <= c /\ get_cell st c = None.
Proof. exact EvalProps.fresh_cell_for_arith. Qed.
Print Assumptions fresh_cell_for_arith.

(* ---- the statements are not vacuous -------------------------------------------------- *)

Definition pr (z : Z) : expr := EPrint (EInt z).
Definition loop_forever : expr := EWhile (EBool true) (EInt 0).

(* print(1) + print(2) prints 1 then 2 (out is most-recent-first) and yields a fresh cell *)
Example ex_binop_order :
  exists c st', eval [] 5 [] empty_state (EBin Add (pr 1) (pr 2)) = (ROk c, st') /\
                out st' = [2; 1]%Z /\ get_cell st' c = Some (CInt 3).
Proof. eexists; eexists; split; [vm_compute; reflexivity|split; reflexivity]. Qed.

(* f(print(1), print(2)) prints 2 then 1 *)
Definition prog_call_order : program :=
  {| p_recs := [];
     p_funcs := [FDef 1%N [(10%N, false, TInt); (11%N, false, TInt)] TInt
                      [IExpr (EBin Sub (EVar 10%N) (EVar 11%N))] [] None;
                 FDef 2%N [] TInt [IExpr (ECall (EVar 1%N) [pr 1; pr 2])] [] None];
     p_main := 2%N |}.
Example ex_call_order : run_program 20 prog_call_order [] = OResult (CInt (-1)) [2; 1]%Z.
Proof. vm_compute. reflexivity. Qed.
Example ex_fuel_irrelevant : run_program 200 prog_call_order [] = run_program 20 prog_call_order [].
Proof. apply EvalProps.run_program_fuel_mono; [repeat constructor | vm_compute; discriminate]. Qed.

(* false && <diverging> is false; the right operand alone never terminates with this fuel *)
Example ex_and_skips_divergence :
  fst (eval [] 3 [] empty_state (EBin And (EBool false) loop_forever)) = ROk 1 /\
  fst (eval [] 200 [] empty_state loop_forever) = RFuel.
Proof. split; vm_compute; reflexivity. Qed.
Example ex_or_skips_fault :
  fst (eval [] 3 [] empty_state (EBin Or (EBool true) (EBin Div (EInt 1) (EInt 0)))) = ROk 1 /\
  fst (eval [] 9 [] empty_state (EBin Div (EInt 1) (EInt 0))) = RExc ExDivision.
Proof. split; vm_compute; reflexivity. Qed.

(* var b = a; b = 5  changes a too (same cell);  var b = a + 0; b = 5 does not *)
Example ex_alias_vs_copy :
  let body1 := [IVar 1%N (EInt 1); IVar 2%N (EVar 1%N); IExpr (EAssign (EVar 2%N) (EInt 5)); IExpr (EPrint (EVar 1%N))] in
  let body2 := [IVar 1%N (EInt 1); IVar 2%N (EBin Add (EVar 1%N) (EInt 0)); IExpr (EAssign (EVar 2%N) (EInt 5)); IExpr (EPrint (EVar 1%N))] in
  out (snd (eval_items [] 20 [] empty_state body1 None)) = [5%Z] /\
  out (snd (eval_items [] 20 [] empty_state body2 None)) = [1%Z].
Proof. split; vm_compute; reflexivity. Qed.

(* ---- for-in loops ------------------------------------------------------------------------ *)
From NV Require Import Src.EvalForIn.

(* `for (x in [a .. b]) body`: b is evaluated first, then a, each exactly once; afterwards the
   loop depends on the two VALUES only (assignments to the variables of a and b in the body do
   not change the iterations); direction fixed at entry: ascending iff a < b *)
Theorem forin_range_bounds_once : forall genv k e st x a b body cb st1 ca st2 za zb,
  eval genv k e st b = (ROk cb, st1) ->
  eval genv k e st1 a = (ROk ca, st2) ->
  get_cell st2 ca = Some (CInt za) -> get_cell st2 cb = Some (CInt zb) ->
  eval genv (S k) e st (EForInRange x a b body) =
  forin_loop (fun c s => eval genv k ((x, c) :: e) s body) k (range_src za zb) st2.
Proof. exact EvalForIn.forin_range_bounds_once. Qed.
Print Assumptions forin_range_bounds_once.

Theorem forin_range_bound_raises : forall genv k e st x a b body r st1, (forall c, r <> ROk c) ->
  eval genv k e st b = (r, st1) ->
  eval genv (S k) e st (EForInRange x a b body) = (r, st1).
Proof. exact EvalForIn.forin_range_bound_raises. Qed.
Print Assumptions forin_range_bound_raises.

(* a range loop that runs to its end executes the body |b - a| + 1 times with the loop variable
   holding a, a+-1, .., b (both bounds inclusive; a = b: once) -- unless the last value is the
   extreme int of the direction, where the counter wraps around and the loop never ends *)
Theorem forin_range_values : forall ev n za zb st c st',
  int32 za -> int32 zb ->
  (za < zb -> zb < 2147483647)%Z -> (zb <= za -> -2147483648 < zb)%Z ->
  forin_loop ev n (range_src za zb) st = (ROk c, st') ->
  forin_values ev n (range_src za zb) st = map (fun z => Some (CInt z)) (range_values za zb) /\
  length (forin_cells ev n (range_src za zb) st) = Z.to_nat (Z.abs (zb - za) + 1).
Proof. exact EvalForIn.forin_range_values. Qed.
Print Assumptions forin_range_values.

(* one iteration: fresh cell with the current value, the body, then the next value *)
Theorem forin_range_iteration : forall ev n z zb st, (z <= zb)%Z ->
  forin_loop ev (S n) (LUp z zb) st =
  match ev (length (cells st)) (with_new_cell st (CInt z)) with
  | (ROk _, st2) => forin_loop ev n (LUp (wrap32 (z + 1)) zb) st2
  | r => r
  end.
Proof. exact EvalForIn.forin_range_iteration. Qed.
Print Assumptions forin_range_iteration.

Theorem forin_range_iteration_down : forall ev n z zb st, (zb <= z)%Z ->
  forin_loop ev (S n) (LDown z zb) st =
  match ev (length (cells st)) (with_new_cell st (CInt z)) with
  | (ROk _, st2) => forin_loop ev n (LDown (wrap32 (z - 1)) zb) st2
  | r => r
  end.
Proof. exact EvalForIn.forin_range_iteration_down. Qed.
Print Assumptions forin_range_iteration_down.

(* the value of a finished loop is a fresh int 0; a fault in the body leaves the loop at once *)
Theorem forin_done_value : forall ev n s st, forin_step st s = LsDone ->
  forin_loop ev (S n) s st = (ROk (length (cells st)), with_new_cell st (CInt 0)).
Proof. exact EvalForIn.forin_done_value. Qed.
Print Assumptions forin_done_value.

Theorem forin_body_raises : forall ev n s st c st1 s' r st2, (forall c', r <> ROk c') ->
  forin_step st s = LsBind c st1 s' -> ev c st1 = (r, st2) ->
  forin_loop ev (S n) s st = (r, st2).
Proof. exact EvalForIn.forin_body_raises. Qed.
Print Assumptions forin_body_raises.

(* `for (x in arr) body`: the iterable is evaluated once, to a CELL; every iteration reads the
   array reference in that cell again (see forin_arr_step_shares_cell in Properties_C08.v) *)
Theorem forin_arr_iterable_once : forall genv k e st x arr body ca st1,
  eval genv k e st arr = (ROk ca, st1) ->
  eval genv (S k) e st (EForInArr x arr body) =
  forin_loop (fun c s => eval genv k ((x, c) :: e) s body) k (LArr ca 0) st1.
Proof. exact EvalForIn.forin_arr_iterable_once. Qed.
Print Assumptions forin_arr_iterable_once.

(* for (i in [3 .. 1]) print(i)  prints 3 2 1;  [2 .. 2] runs once;  the loop yields 0 *)
Example ex_forin_down :
  out (snd (eval [] 20 [] empty_state (EForInRange 1%N (EInt 3) (EInt 1) (EPrint (EVar 1%N))))) = [1; 2; 3]%Z /\
  out (snd (eval [] 20 [] empty_state (EForInRange 1%N (EInt 2) (EInt 2) (EPrint (EVar 1%N))))) = [2]%Z /\
  out (snd (eval [] 20 [] empty_state (EPrint (EForInRange 1%N (EInt 1) (EInt 2) (EVar 1%N))))) = [0]%Z.
Proof. repeat split; vm_compute; reflexivity. Qed.
(* for (x in a) x = x + 1  writes the elements;  a = b in the body redirects the loop *)
Example ex_forin_arr_shares :
  let a := EArrLit [EInt 10; EInt 20] TInt in
  out (snd (eval_items [] 30 [] empty_state
    [IVar 1%N a; IExpr (EForInArr 2%N (EVar 1%N) (EAssign (EVar 2%N) (EBin Add (EVar 2%N) (EInt 1))));
     IExpr (EPrint (EIndex (EVar 1%N) (EInt 0))); IExpr (EPrint (EIndex (EVar 1%N) (EInt 1)))] None)) = [21; 11]%Z.
Proof. vm_compute. reflexivity. Qed.
