"""C15 — the embedding API is repeatable, isolated, deterministic.

  "Compiling the same source always yields the same code and diagnostics, whatever was compiled
   (successfully or not) before it in the same process.  A compiled program can be executed on one VM
   any number of times, with any mix of its entry points and arguments: each call returns what a fresh
   VM primed with the same earlier calls' global-variable effects would return, and uses no more VM
   stack than the first such call.  Several programs and VMs alive at once do not affect each other."

Proof side (coq/Properties/Properties_C15.v, ctx.proofs()): the API model coq/VM/Api.v — what
nev_execute / vm_execute do around a run of the VM (initialized, ip 0 vs code_entry, the result slot at
HALT, what a failed run leaves behind, vm_check_stack) — with theorems over ALL histories and EVERY
instruction-level behaviour (gdepth/init/exec are universally quantified): execute_stack_neutral,
execute_uses_no_more_stack_than_first, execute_repeatable, execute_outcome_function_of_globals,
vms_independent, vms_commute.  The model carries a policy (pop_at_halt, restore_on_error); a probe run
on the real API measures which policy the tree implements.  execute_stack_neutral needs (true, true);
for the other policies the `..._refuted` theorems are the witnesses and the probe history, which shows
the same on the real code, is reported as a violation.

Process-global state (coq/VM/ApiGlobal.v, Properties_C15b.v): the IEEE status word and the scanner's pending string
buffer are threaded through histories of compiles, calls and host arithmetic; process_history_as_in_fresh_process holds
under `reinitialises` (every tested flag is cleared first; the opening quote always starts a new buffer or the end of
the input inside a literal frees it), which
process_reinit_necessary shows to be necessary.  measure_reinit_policy() reads both policies from the tree's sources;
the residue family checks the hypothesis on the real code (host `fpraise` of each flag, float effects at run time and
in constant folding, compiles ending in every scanner situation, then observers vs a fresh process).

Working directory (coq/VM/ApiGlobalCwd.v, Properties_C15c.v): third component of the modelled process state.  fopen_path
(front/scanner.l) walks NEVER_PATH with chdir(); under `cwd_restoring` (both chdir(cwd) present — read from the tree by
measure_reinit_policy) no history moves the directory and every compile resolves files as in a fresh process; necessary.
The driver prints getcwd() after EVERY operation (line CWD) and oracle (4') demands that it never moves; the never-path
family (NEVER_PATH unset / empty / relative / absolute / missing / several elements x program given as string, absolute,
relative file name, then compiles of relative names and a `use` resolved in the working directory) is judged by (1), (4').
Foreign calls (pool programs ffi, ffi2; libraries harness/api/c15ffi_*.c built into the work directory): the library
handles are cached per VM, the libraries reference-counted by the process; the ffi-failure-then-valid family enumerates
(failing entry: symbol missing from a library that loads / missing library / nil string, caught or unhandled) x (1..3
failures in a row) x (same VM / another live VM / after vm_delete of the failing VM / second program sharing the library),
each followed by valid calls into the same library, judged by (2), (2b), (5), (6).

PARTIAL: the rest of compile determinism / isolation lives in C globals of the flex/bison runtime and back/utils.c
(start condition, use stack, line_no, file name) that no Gallina model expresses — correspondence only (oracles 1, 4, 5).

Tie / search: harness/api/apidrive.c (ASan/UBSan build of the tree, hook H1 for the peak sp) interprets
API histories over a pool of sources (corpus/C15/pool: valid programs with several entry points and
int/float/string arguments, programs whose entries mutate top-level globals, programs ending in an
unhandled exception / failed assert / failing global initialisation, invalid sources: lexical, syntax,
type errors, constant division by zero, missing module, error inside a used module, missing file).
Histories are generated from ctx.seed: interleaved compiles (str/file), prepares, executes on several
VMs, deletes, 1..300 repeated executes.  Oracles (= the property), all on the real code:
  (1) the k-th compile of a source gives the same (ret, diagnostics, stderr text, code/exctab/strtab/
      functab digest) as compiling it alone in a fresh process;
  (2) every execute gives the same (ret, result, printed text, stderr text) as the same call sequence of
      that VM replayed alone in a fresh process; a call of a program without global effects equals the
      first call on a fresh VM; for programs with get/set entries a call equals the same call on a fresh
      VM primed by set(<observed state>);
  (3) sp after = sp before (first call: = sp when code_entry was reached); peak sp of a call <= peak of
      the first such call on a fresh VM;
  (4) an operation changes the digest of no program / VM it does not name;
  (5) no sanitizer report, no crash, no exit that stack exhaustion on a neutral stack would not explain;
  (6) for the pool programs whose meaning is obvious from the text (counter, pure, faults, churn) a tiny reference
      semantics in this file says what each call has to give after the earlier calls on that VM (catches a result
      copied from the wrong slot, which every replay would reproduce faithfully).
Process-global residue (kind `residue` + the systematic family residue_histories): operations that leave state in the
PROCESS rather than in the program/VM they name — float arithmetic raising each IEEE status flag silently at run time
(pool fpa) and while folding constants (fpc_*), failing compiles whose input ends in every scanner situation
(T.<base>.<n> = pool source <base> cut after n bytes: inside a string / escape / octal escape / comment / `use`
directive / identifier / number / operator / char literal; bad_mod_trunc* = the same inside a used module) — each followed
by observers (math built-ins and printing of fpb on the old and on a new VM, compiles of sources with string literals,
comments, `use`), judged by oracles (1), (2), (2b).
Kind `reprepare`: the same entries of argsprog (int, float, string parameters, a string array) prepared again and again with
DIFFERENT argument vectors — through nev_prepare_argc_argv (`<entry>@argv`, a new host-owned argv each time) or by storing
into prog->params[] — each followed by executes on one or two VMs; oracle (2b).  Kind `failfirst`: the FIRST call of a VM
fails inside an entry of toplets after the top-level bindings were built (division by zero, assert, index), then calls
that fill a small heap beyond the collection threshold and read the bindings.  A call that ends in libnev's exit(1)
"out of memory" is heap capacity (garbage of earlier calls is only collected at the collector's own safe points): counted
(heap_exhausted), not judged.
Violation keys (stable): execute:sp-leak-per-call, execute:sp-leak-after-error, execute:after-failed-global-init,
execute:reinitialises-globals, execute:relative-stack-use-grows, execute:peak-exceeds-first-call,
execute:differs-from-fresh-vm-replay:{result,output,diagnostic}, execute:pure-call-differs-from-first-call:*,
execute:call-differs-from-primed-fresh-vm:*, execute:runtime-message-names-last-compiled-source,
execute:runtime-diagnostic-line-depends-on-earlier-call,
execute:result-differs-from-reference-semantics, execute:unexplained-exit, compile:ret-depends-on-history,
compile:line_no-not-reset, compile:diagnostics-depend-on-history, compile:code-depends-on-history,
compile_file:missing-file-diagnostic-depends-on-history, isolation:<op>-changes-other-{program,vm},
process:cwd-changed-by-<op>,
sanitizer:<kind>:<first library frame>[:freed-by-<who>], crash:rc=<n>.  Every violation carries the shrunk history.
Model correspondence: the extracted Api model (build/ocaml/api/run), its `exec` instantiated by replaying
the observed per-call outcome classes and relative peaks, must predict initialized, sp before/after every
call, the absolute peak and which call kills the process, under the measured policy.
"""
LEVEL = "proof"

import binascii
import json
import multiprocessing
import os
import random
import re
import shutil
import time

from lib import common

RUN_BUILT = os.path.join(common.BUILD, "ocaml", "api", "run")
RUN = RUN_BUILT          # replaced by a private copy while a check is running
CORPUS = os.path.join(common.VERIF, "corpus", "C15")
POOLDIR = os.path.join(CORPUS, "pool")
NPROC = 16
ASAN_ENV = "detect_leaks=0:abort_on_error=0:exitcode=99:allocator_may_return_null=1"
UBSAN_ENV = "print_stacktrace=1:halt_on_error=1"

# ------------------------------------------------------------------------------------------
# the pool of sources.  entries: name -> list of argument tuples to draw from ("i:<n>", "f:<x>", "s:<hex>")
# ------------------------------------------------------------------------------------------
def S(text):
    return "s:" + binascii.hexlify(text.encode()).decode()


VALID = {
    "counter": {"entries": {"main": [()], "get": [()], "inc": [("i:1",), ("i:5",), ("i:-3",), ("i:1000",)],
                            "set": [("i:0",), ("i:42",)]},
                "pure": False, "state": ("get", "set")},
    "pure": {"entries": {"main": [()], "fact": [("i:0",), ("i:5",), ("i:10",)],
                         "addf": [("f:1.5", "f:2.25"), ("f:-0.5", "f:1e3")],
                         "slen": [(S("hello"),), (S(""),), (S("a b c d"),)],
                         "mix": [("i:3", "f:0.5", S("xy")), ("i:-7", "f:2.0", S("never"))],
                         "fib": [("i:1",), ("i:7",), ("i:12",)]},
             "pure": True, "state": None},
    "faults": {"entries": {"main": [()], "get": [()], "divi": [("i:0",), ("i:4",)], "chk": [("i:0",), ("i:3",)],
                           "deep": [("i:0",), ("i:3",), ("i:6",)], "idx": [("i:0",), ("i:2",), ("i:3",), ("i:-1",)],
                           "caught": [("i:0",), ("i:8",)], "set": [("i:0",), ("i:7",)]},
               "pure": False, "state": ("get", "set")},
    "globals2": {"entries": {"main": [()], "push": [("i:0", "i:5"), ("i:3", "i:-2"), ("i:1", "i:100")],
                             "accum": [("f:0.25",), ("f:-1.5",)], "sum": [()], "getacc": [()]},
                 "pure": False, "state": None},
    "strings": {"entries": {"main": [()], "setname": [(S("zebra"),), (S(""),), (S("a much longer name"),)],
                            "getlen": [()], "rounds": [()]},
                "pure": False, "state": None},
    "churn": {"entries": {"main": [()], "fill": [("i:1",), ("i:17",), ("i:40",)], "get": [()],
                          "set": [("i:0",), ("i:9",)]},
              "pure": False, "state": ("get", "set")},
    "usemod": {"entries": {"main": [()], "bump": [("i:1",), ("i:10",)], "get": [()]},
               "pure": False, "state": None},
    "initfail": {"entries": {"main": [()]}, "pure": True, "state": None},
    # --- process-global residue: float arithmetic that silently raises each IEEE status flag at run time (fpa) or
    #     while the compiler folds constants (fpc_*), observed by math built-ins / printing (fpb)
    "fpa": {"entries": {"main": [()], "over": [("f:1e30",), ("f:-3e25",)], "under": [("f:1e-30",), ("f:-2e-25",)],
                        "denorm": [("f:1e-30",)], "inexact": [("f:1.0",), ("f:0.1",)], "invalid": [("f:1e30",)],
                        "dunder": [("i:30",)], "dover": [("i:30",)]},
            "pure": True, "state": None},
    "fpb": {"entries": {"main": [()], "root": [("f:16.0",), ("f:2.0",), ("f:-1.0",)], "pw": [("f:2.0", "f:10.0"), ("f:1.5", "f:0.5")],
                        "lg": [("f:1.0",), ("f:8.0",)], "sine": [("f:0.5",), ("f:0.0",)], "show": [("f:1.5",), ("f:0.1",)],
                        "strlen": [("f:2.5",)], "tang": [("f:0.25",)]},
            "pure": True, "state": None},
    "fpc_under": {"entries": {"main": [()], "tiny": [()]}, "pure": True, "state": None},
    "fpc_over": {"entries": {"main": [()], "huge": [()]}, "pure": True, "state": None},
    "fpc_invalid": {"entries": {"main": [()], "nan": [()]}, "pure": True, "state": None},
    "fpc_inexact": {"entries": {"main": [()], "third": [()]}, "pure": True, "state": None},
    "fpc_dunder": {"entries": {"main": [()], "tiny": [()]}, "pure": True, "state": None},
    # --- every lexical construct once (strings with escapes, comments, use, char/hex/long/double literals, multi-character
    #     operators): observer of what an earlier compile left in the scanner, and the text that is truncated (T.<base>.<n>)
    "lexrich": {"entries": {"main": [()], "lablen": [("i:0",), ("i:12",)], "shifts": [("i:9",)], "total": [("i:4",)],
                            "weigh": [("f:1.0",), ("f:4.0",)], "pick": [("i:2",), ("i:7",)]},
                "pure": True, "state": None},
    # --- modules found through NEVER_PATH (corpus/C15/pool/mods, mods2): resolving a `use` walks the path elements with
    #     chdir(); the working directory is PROCESS state
    "usepath": {"entries": {"main": [()], "triple": [("i:1",), ("i:14",), ("i:-5",)]}, "pure": True, "state": None},
    "usepath2": {"entries": {"main": [()], "mix": [("i:10",), ("i:28",)]}, "pure": True, "state": None},
    # --- foreign calls: two libraries built into the work directory (harness/api/c15ffi_*.c, found through
    #     LD_LIBRARY_PATH); a symbol that is missing from a library that loads, a missing library, a nil string argument
    #     (each caught by the program or not), next to valid calls into the same libraries.  The library handles live in
    #     a per-VM cache, the libraries themselves are reference-counted by the PROCESS
    "ffi": {"entries": {"main": [()], "good": [("i:21",), ("i:-4",), ("i:1000",)], "other": [("i:1",), ("i:41",)],
                        "bad": [("i:1",)], "guarded": [("i:1",)], "nolib": [("i:1",)], "gnolib": [("i:1",)],
                        "slen": [(S("hi"),), (S(""),), (S("never lang"),)], "badnil": [("i:0",)], "gnil": [("i:0",)]},
            "pure": True, "state": None},
    "ffi2": {"entries": {"main": [()], "good": [("i:14",), ("i:-1",)], "other": [("i:7",)], "bad": [("i:1",)],
                         "guarded": [("i:1",)]},
             "pure": True, "state": None},
}
# which directories (relative to the pool) must be on the module search path for a pool source to compile
REQUIRES = {"usemod": ["."], "usepath": ["mods"], "usepath2": ["mods", "mods2"]}
# values of NEVER_PATH the histories put into the environment (None = unset); @POOL@ = absolute path of the pool
NPATHS = [None, "", "mods", "@POOL@/mods", "nonexistent:mods", "mods:mods2", "@POOL@/mods2:mods", "mods2:@POOL@/mods",
          ".:mods:mods2", "mods:.", "@POOL@/mods:@POOL@/mods2:@POOL@", "nonexistent"]
FFI_FAILING = {"ffi": ["bad", "guarded", "nolib", "gnolib", "badnil", "gnil"], "ffi2": ["bad", "guarded"]}


def search_dirs(npath):
    """the directories (relative to the pool) fopen_path looks into for a module"""
    if npath is None or npath == "":
        return ["."]
    out = []
    for el in npath.split(":"):
        if el == "@POOL@":
            el = "."
        elif el.startswith("@POOL@/"):
            el = el[len("@POOL@/"):]
        out.append(el)
    return out


def resolvable(src, npath):
    return all(d in search_dirs(npath) for d in REQUIRES.get(src, []))


VALID.update({
    # --- entries of every parameter kind (int, float, string, string array), prepared through nev_prepare_argc_argv
    #     (`<entry>@argv`) or by storing into prog->params[] after nev_prepare; no global effects
    "argsprog": {"entries": {"main@argv": [(), (S("a"),), (S("bb"), S("c")), (S("x"), S("yy"), S("zzz"), S("wwww")), (S("hello world"),),
                                           (S("p"), S("q"), S("r"))],
                             "joinlen@argv": [(S("ab"), S("c"), "i:3"), (S(""), S("xyz"), "i:2"), (S("longer text"), S("z"), "i:-1")],
                             "joinlen": [(S("ab"), S("c"), "i:3"), (S("q"), S(""), "i:5")],
                             "scale@argv": [("f:1.5", "i:2"), ("f:-0.25", "i:0")], "scale": [("f:1.5", "i:2"), ("f:8.0", "i:1")],
                             "one@argv": [(S("single"),), (S(""),)], "one": [(S("single"),), (S("another one"),)]},
                 "pure": True, "state": None},
    # --- top-level bindings read by every entry; entries that fail AFTER the bindings were built (first call of a VM)
    "toplets": {"entries": {"main": [()], "read": [()], "work": [("i:288", "i:4"), ("i:576", "i:4"), ("i:720", "i:5"), ("i:10", "i:2")],
                            "boom": [("i:0",), ("i:5",)], "chk": [("i:0",), ("i:3",)], "oob": [("i:7",), ("i:1",)]},
                "pure": True, "state": None},
})
FP_COMPILE_TIME = ["fpc_under", "fpc_over", "fpc_invalid", "fpc_inexact", "fpc_dunder"]
INVALID = ["bad_lex", "bad_unterminated_string", "bad_unterminated_comment", "bad_syntax", "bad_types",
           "bad_constdiv2", "bad_missing_module", "bad_late_error", "bad_empty", "bad_in_module", "bad_eof",
           "bad_constdiv",
           # the input of a used MODULE ends inside a string / inside an escape / inside a comment / inside a token / inside `use`
           "bad_mod_truncs", "bad_mod_trunce", "bad_mod_truncc", "bad_mod_trunct", "bad_mod_truncu"]
# sources that (surprisingly or not) compile with ret 0 but are never executed by the generator
COMPILE_ONLY = set(INVALID)
MISSING = "no_such_file"      # only for compile_file


CRASHING = set()          # (mode, source) whose compile ALONE in a fresh process kills the process (measured by run()):
                          # a defect of the compiler (property C05), the same with and without history; histories avoid it
GEN_DIR = None            # where truncated sources T.<base>.<n> are materialised (set by run() / the worker initialiser)
_pool_text = {}


def pool_text(name):
    if name not in _pool_text:
        with open(os.path.join(POOLDIR, name + ".nev"), "rb") as f:
            _pool_text[name] = f.read()
    return _pool_text[name]


def source_text(name):
    """the bytes of a source by name; T.<base>.<n> = the first n bytes of pool source <base>"""
    if name.startswith("T."):
        _, base, n = name.split(".")
        return pool_text(base)[:int(n)]
    return pool_text(name)


def src_path(name):
    if name.startswith("T."):
        d = GEN_DIR or os.path.join(common.VERIF, "out", "C15-gen")
        path = os.path.join(d, name + ".nev")
        if not os.path.exists(path):
            os.makedirs(d, exist_ok=True)
            tmp = "%s.%d.tmp" % (path, os.getpid())
            with open(tmp, "wb") as f:
                f.write(source_text(name))
            os.replace(tmp, path)
        return path
    return os.path.join(POOLDIR, name + ".nev")


# ------------------------------------------------------------------------------------------
# where can the input of a compile END?  A small re-statement of the start conditions of front/scanner.l
# (INITIAL, C_STRING, C_COMMENT, USE, MODULE_REF) + the partial-token situations inside INITIAL.
# scan_classes(text)[n] = the situation of the scanner when the input is text[:n]  (n = 1 .. len-1)
# ------------------------------------------------------------------------------------------
MULTI_OPS = [b"->", b"..", b"<<<", b">>>", b"&&&", b"|||", b"^^^", b"~~~", b"==", b"!=", b"<=", b">=", b"&&", b"||", b"::",
             b"|>", b"/*"]
SCAN_CLASSES = ["string", "string-escape", "string-octal", "comment", "comment-star", "line-comment", "use-keyword",
                "use-name", "use-name-end", "ident", "ident-end", "number", "number-dot", "char-partial", "op-partial",
                "initial"]


def scan_classes(text):
    n = len(text)
    cls = [None] * (n + 1)
    i = 0
    ID0 = b"abcdefghijklmnopqrstuvwxyzABCDEFGHIJKLMNOPQRSTUVWXYZ_"
    IDC = ID0 + b"0123456789"
    DIG = b"0123456789"
    HEX = DIG + b"abcdefABCDEF"

    def mark(a, b, c):           # input ends after a+1 .. b characters
        for k in range(a + 1, min(b, n) + 1):
            cls[k] = c
    while i < n:
        ch = text[i:i + 1]
        if ch in b" \t\r\n":
            cls[i + 1] = "initial"
            i += 1
        elif ch == b"#":
            j = text.find(b"\n", i)
            j = n if j < 0 else j
            mark(i, j, "line-comment")
            i = j
        elif text.startswith(b"/*", i):
            cls[i + 1] = "op-partial"
            j = text.find(b"*/", i + 2)
            end = n if j < 0 else j + 1
            for k in range(i + 2, end + 1):
                cls[k] = "comment-star" if (k > i + 2 and text[k - 1:k] == b"*") else "comment"
            if j >= 0:
                cls[j + 2] = "initial"
            i = n if j < 0 else j + 2
        elif ch == b'"':
            k = i + 1
            cls[k] = "string"
            while k < n:
                c2 = text[k:k + 1]
                if c2 == b'"':
                    cls[k + 1] = "initial"
                    k += 1
                    break
                if c2 == b"\n":                 # the scanner gives up the literal at a newline
                    cls[k + 1] = "initial"
                    k += 1
                    break
                if c2 == b"\\":
                    cls[k + 1] = "string-escape"
                    if k + 1 < n:
                        m = k + 2
                        if text[k + 1:k + 2] in b"01234567":
                            while m < n and m < k + 4 and text[m:m + 1] in b"01234567":
                                m += 1
                            for q in range(k + 2, m + 1):
                                cls[q] = "string-octal" if q < k + 4 else "string"
                        else:
                            cls[k + 2] = "string"
                        k = m
                    else:
                        k += 1
                    continue
                cls[k + 1] = "string"
                k += 1
            i = k
        elif ch == b"'":
            if text[i + 2:i + 3] == b"'":
                cls[i + 1] = cls[i + 2] = "char-partial"
                cls[min(i + 3, n)] = "initial"
                i += 3
            else:
                cls[i + 1] = "char-partial"
                i += 1
        elif ch in ID0:
            j = i
            while j < n and text[j:j + 1] in IDC:
                j += 1
            mark(i, j - 1, "ident")
            cls[j] = "ident-end"
            word = text[i:j]
            i = j
            if word == b"use":
                while i < n and text[i:i + 1] in b" \t\r\n":
                    cls[i + 1] = "use-keyword"
                    i += 1
                j = i
                while j < n and text[j:j + 1] in ID0 + b"./":
                    j += 1
                mark(i, j - 1, "use-name")
                if j > i:
                    cls[j] = "use-name-end"
                i = j
                if i < n and text[i:i + 1] in b". \t\n":        # <MODULE_REF>
                    cls[i + 1] = "initial"
                    i += 1
        elif ch in DIG:
            j = i
            if text[i:i + 2] in (b"0x", b"0X"):
                j = i + 2
                while j < n and text[j:j + 1] in HEX:
                    j += 1
            else:
                while j < n and text[j:j + 1] in DIG:
                    j += 1
                if text[j:j + 1] == b"." and text[j + 1:j + 2] in DIG and j + 1 < n:
                    cls[j + 1] = "number-dot"
                    j += 1
                    while j < n and text[j:j + 1] in DIG:
                        j += 1
            if j < n and text[j:j + 1] in b"lLfFdD":
                j += 1
            for k in range(i + 1, j + 1):
                if cls[k] is None:
                    cls[k] = "number"
            i = j
        else:
            op = None
            for o in sorted(MULTI_OPS, key=len, reverse=True):
                if text.startswith(o, i):
                    op = o
                    break
            if op is None:
                cls[i + 1] = "initial"
                i += 1
            else:
                mark(i, i + len(op) - 1, "op-partial")
                cls[i + len(op)] = "initial"
                i += len(op)
    return cls


TRUNC_BASES = ["lexrich", "strings", "usemod", "pure"]


def truncations(base, rng=None, per_class=2):
    """names T.<base>.<n>, for every scanner situation that occurs in <base>: the first and the last place where the
    input can end in it (+ one drawn by rng) -> [(name, class)]"""
    text = pool_text(base)
    cls = scan_classes(text)
    where = {}
    for k in range(1, len(text)):
        if cls[k] is not None:
            where.setdefault(cls[k], []).append(k)
    out = []
    for c in SCAN_CLASSES:
        ks = where.get(c, [])
        if not ks:
            continue
        pick = [ks[0], ks[-1]][:per_class]
        if rng is not None:
            pick.append(rng.choice(ks))
        for k in sorted(set(pick)):
            out.append(("T.%s.%d" % (base, k), c))
    return out


def static_truncations():
    out = []
    for b in TRUNC_BASES:
        out += truncations(b, None, 2 if b == "lexrich" else 1)
    return out


try:
    TRUNCATED = static_truncations()
except OSError:
    TRUNCATED = []
INVALID += [nm for nm, _ in TRUNCATED]


# ------------------------------------------------------------------------------------------
# histories.  A step is a list:
#   ["compile", h, "str"|"file", src]   ["vm_new", v, mem, stack]   ["prepare", h, entry, [args]]
#   ["execute", h, v]                   ["pdel", h]                 ["vdel", v]
#   ["fpraise", "flag,flag"]  ["fpclear"]   float arithmetic of the HOST application between API calls (no libnev call)
#   ["env", "NEVER_PATH", value | None]     the host sets / unsets an environment variable (@POOL@ = the pool directory)
# compile modes: "str" (nev_compile_str), "file" (nev_compile_file, absolute name), "rfile" (nev_compile_file, name relative
# to the working directory)
# ------------------------------------------------------------------------------------------
def step_line(st):
    k = st[0]
    if k == "compile":
        if st[2] == "rfile":           # nev_compile_file with a name relative to the working directory (= the pool)
            return "compile_file %d %s" % (st[1], os.path.relpath(src_path(st[3]), POOLDIR))
        return "compile_%s %d %s" % (st[2], st[1], src_path(st[3]))
    if k == "env":
        if st[2] is None:
            return "unsetenv %s" % st[1]
        return ("setenv %s %s" % (st[1], st[2].replace("@POOL@", POOLDIR))).rstrip()
    if k == "vm_new":
        return "vm_new %d %d %d" % (st[1], st[2], st[3])
    if k == "prepare":
        return ("prepare %d %s %s" % (st[1], st[2], " ".join(st[3]))).rstrip()
    if k == "execute":
        return "execute %d %d" % (st[1], st[2])
    if k == "pdel":
        return "program_delete %d" % st[1]
    if k == "vdel":
        return "vm_delete %d" % st[1]
    if k == "fpraise":
        return "fpraise %s" % st[1]
    if k == "fpclear":
        return "fpclear"
    raise ValueError(st)


class Sim(object):
    """static validity of a history (what the generator and the shrinker may emit)"""

    def __init__(self):
        self.prog = {}      # h -> {"src", "inc", "prep": (entry, args) | None}
        self.vm = {}        # v -> {"bound": inc | None, "orphan": bool}
        self.ninc = 0
        self.nvinc = 0
        self.npath = None   # NEVER_PATH in force

    def ok(self, st):
        k = st[0]
        if k == "compile":
            return st[1] not in self.prog
        if k == "vm_new":
            return st[1] not in self.vm
        if k == "prepare":
            p = self.prog.get(st[1])
            return p is not None and p["runnable"]
        if k == "execute":
            p, v = self.prog.get(st[1]), self.vm.get(st[2])
            return (p is not None and v is not None and p["runnable"] and p["prep"] is not None
                    and not v["orphan"] and v["bound"] in (None, p["inc"]))
        if k == "pdel":
            return st[1] in self.prog
        if k == "vdel":
            return st[1] in self.vm
        if k in ("fpraise", "fpclear"):
            return True
        if k == "env":
            return st[1] == "NEVER_PATH"
        return False

    def apply(self, st):
        k = st[0]
        if k == "compile":
            self.ninc += 1
            self.prog[st[1]] = {"src": st[3], "inc": self.ninc, "prep": None, "mode": st[2], "npath": self.npath,
                                "runnable": st[3] in VALID and resolvable(st[3], self.npath)}
        elif k == "vm_new":
            self.nvinc += 1
            self.vm[st[1]] = {"bound": None, "orphan": False, "stack": st[3], "vinc": self.nvinc}
        elif k == "prepare":
            p = self.prog[st[1]]
            if st[2] in VALID[p["src"]]["entries"]:
                p["prep"] = (st[2], tuple(st[3]))
        elif k == "execute":
            self.vm[st[2]]["bound"] = self.prog[st[1]]["inc"]
        elif k == "pdel":
            inc = self.prog.pop(st[1])["inc"]
            for v in self.vm.values():
                if v["bound"] == inc:
                    v["orphan"] = True
        elif k == "vdel":
            self.vm.pop(st[1])
        elif k == "env":
            self.npath = st[2]


def valid_history(hist):
    s = Sim()
    for st in hist:
        if not s.ok(st):
            return False
        s.apply(st)
    return True


def gen_history(rng, kind):
    """kind: 'mixed' | 'compile' | 'repeat' | 'twovm'"""
    s = Sim()
    hist = []

    def emit(st):
        assert s.ok(st), st
        s.apply(st)
        hist.append(st)

    def free_handle(used):
        c = [h for h in range(6) if h not in used]
        return rng.choice(c) if c else None

    def do_compile(valid_p=0.6):
        h = free_handle(s.prog)
        if h is None:
            return
        mode = rng.choice(["str", "str", "file", "rfile"])
        r = rng.random()
        if r < valid_p:
            ok_here = sorted(x for x in VALID if resolvable(x, s.npath))
            src = rng.choice(ok_here if rng.random() < 0.9 else sorted(VALID))
        elif mode == "file" and r > 0.93:
            src = MISSING
        else:
            src = rng.choice(INVALID)
        mode = usable_mode(mode, src)
        if mode is not None:
            emit(["compile", h, mode, src])

    def do_env():
        emit(["env", "NEVER_PATH", rng.choice(NPATHS)])

    def do_call(h=None, v=None):
        progs = [x for x in s.prog if s.prog[x]["runnable"]] if h is None else [h]
        if not progs or not s.prog[progs[0]]["runnable"]:
            return
        h = rng.choice(progs)
        p = s.prog[h]
        vms = [x for x in s.vm if not s.vm[x]["orphan"] and s.vm[x]["bound"] in (None, p["inc"])] if v is None else [v]
        if not vms:
            x = free_handle(s.vm)
            if x is None:
                return
            emit(["vm_new", x, rng.choice([5000, 5000, 1500, 20000]), rng.choice([200, 200, 400, 1000])])
            vms = [x]
        v = rng.choice(vms)
        ents = VALID[p["src"]]["entries"]
        if p["prep"] is None or rng.random() < 0.75:
            e = rng.choice(sorted(ents))
            emit(["prepare", h, e, list(rng.choice(ents[e]))])
            if rng.random() < 0.06:
                emit(["prepare", h, "no_such_entry", []])
        emit(["execute", h, v])

    if kind == "compile":
        n = rng.randint(4, 14)
        for _ in range(n):
            r = rng.random()
            if r < 0.12:
                do_env()
            elif r < 0.7:
                do_compile(valid_p=0.35)
            elif r < 0.85 and s.prog:
                emit(["pdel", rng.choice(sorted(s.prog))])
            else:
                do_call()
    elif kind == "repeat":
        src = rng.choice(["counter", "pure", "faults", "churn", "strings", "globals2", "ffi"])
        emit(["compile", 0, rng.choice(["str", "file", "rfile"]), src])
        emit(["vm_new", 0, rng.choice([5000, 2000]), rng.choice([200, 200, 120, 500, 1000])])
        n = rng.choice([1, 2, 3, 10, 40, 100, 200, 300])
        ents = VALID[src]["entries"]
        fixed = rng.random() < 0.5
        e = rng.choice(sorted(ents))
        a = list(rng.choice(ents[e]))
        emit(["prepare", 0, e, a])
        for _ in range(n):
            if not fixed and rng.random() < 0.3:
                e = rng.choice(sorted(ents))
                emit(["prepare", 0, e, list(rng.choice(ents[e]))])
            emit(["execute", 0, 0])
    elif kind == "twovm":
        src = rng.choice(sorted(x for x in VALID if x != "initfail" and resolvable(x, None)) + ["ffi", "ffi", "ffi2"])
        emit(["compile", 0, "str", src])
        emit(["vm_new", 0, 5000, 300])
        emit(["vm_new", 1, 5000, 300])
        if rng.random() < 0.5:
            emit(["compile", 1, "str", rng.choice(sorted(x for x in VALID if resolvable(x, None)))])
        for _ in range(rng.randint(4, 24)):
            if rng.random() < 0.15:
                do_compile(valid_p=0.3)
            else:
                do_call(h=0, v=rng.choice([0, 1]))
    elif kind == "reprepare":
        # the SAME entries prepared several times with DIFFERENT argument vectors, each followed by executes
        emit(["compile", 0, rng.choice(["str", "file"]), "argsprog"])
        emit(["vm_new", 0, 5000, 300])
        if rng.random() < 0.5:
            emit(["vm_new", 1, 5000, 300])
        ents = VALID["argsprog"]["entries"]
        focus = rng.choice(["main@argv", "main@argv", "joinlen@argv", None])
        for _ in range(rng.randint(3, 9)):
            e = focus if focus and rng.random() < 0.75 else rng.choice(sorted(ents))
            emit(["prepare", 0, e, list(rng.choice(ents[e]))])
            for _ in range(rng.choice([1, 1, 2])):
                emit(["execute", 0, rng.choice(sorted(s.vm))])
    elif kind == "failfirst":
        # the FIRST call of a VM fails inside an entry, after the top-level bindings were built; later calls on the same VM
        # allocate enough to make a small heap collect, then read the bindings
        mem = rng.choice([1200, 1600, 2000, 3000])
        big = int(mem * 0.8) - 120          # 140 library cells + big > 80% of the heap: the slide after the first array collects
        emit(["compile", 0, "str", "toplets"])
        emit(["vm_new", 0, mem, rng.choice([200, 300])])
        fail = rng.choice([("boom", ["i:0"]), ("chk", ["i:0"]), ("oob", ["i:7"]), ("work", ["i:%d" % big, "i:0"])])
        emit(["prepare", 0, fail[0], fail[1]])
        emit(["execute", 0, 0])
        if rng.random() < 0.3:
            emit(["execute", 0, 0])                 # fails again
        for _ in range(rng.randint(1, 4)):
            r = rng.random()
            if r < 0.6:
                emit(["prepare", 0, "work", ["i:%d" % (big - rng.choice([0, 0, 7, 40])), "i:%d" % rng.choice([4, 5, 10])]])
            elif r < 0.8:
                emit(["prepare", 0, "read", []])
            else:
                emit(["prepare", 0, fail[0], fail[1]])
            emit(["execute", 0, 0])
    elif kind == "residue":
        # several operations that leave process-global state behind, each followed by observers
        emit(["compile", 0, rng.choice(["str", "file"]), "fpb"])
        emit(["vm_new", 0, 5000, 300])
        if rng.random() < 0.6:
            do_call(h=0, v=0)
        ops = residue_ops(rng)
        for _ in range(rng.randint(1, 4)):
            for st in instantiate_residue(rng.choice(ops), s, rng):
                if s.ok(st):
                    emit(st)
            for st in observers(s, rng, rng.randint(2, 5), rot=None):
                if s.ok(st):
                    emit(st)
            if rng.random() < 0.4 and len(s.prog) > 1:
                emit(["pdel", rng.choice(sorted(h for h in s.prog if h != 0))])
    else:
        n = rng.randint(8, 40)
        for _ in range(n):
            r = rng.random()
            if r < 0.04:
                do_env()
            elif r < 0.22 or not s.prog:
                do_compile()
            elif r < 0.30:
                x = free_handle(s.vm)
                if x is not None:
                    emit(["vm_new", x, rng.choice([5000, 1500]), rng.choice([200, 300, 600])])
            elif r < 0.38 and s.prog:
                emit(["pdel", rng.choice(sorted(s.prog))])
            elif r < 0.43 and s.vm:
                emit(["vdel", rng.choice(sorted(s.vm))])
            else:
                do_call()
    # sometimes leave handles alive, sometimes tidy up
    if rng.random() < 0.5:
        for v in sorted(s.vm):
            emit(["vdel", v])
        for h in sorted(s.prog):
            emit(["pdel", h])
    return hist


# ------------------------------------------------------------------------------------------
# process-global residue.  An operation of the API may leave state behind in the PROCESS (not in the program or VM it
# names): the IEEE status flags after float arithmetic in the VM or in the constant folder, the scanner's statics
# (start condition, pending string buffer, use stack, line number) after a compile that failed in any scanner
# situation, utils.c's current file name...  residue_ops = the operations known to leave something; observers = the
# operations whose outcome would show it: calls of math built-ins / printing, compiles of sources with string literals,
# comments and `use`.  The oracles are the property's own: (1) fresh-process compile, (2)/(2b) fresh-VM replay.
# ------------------------------------------------------------------------------------------
OBSERVER_SOURCES = ["strings", "lexrich", "usemod", "pure", "fpb"]
OBSERVER_CALLS = [("root", ("f:16.0",)), ("show", ("f:1.5",)), ("strlen", ("f:2.5",)), ("pw", ("f:2.0", "f:10.0")),
                  ("sine", ("f:0.5",)), ("lg", ("f:1.0",)), ("tang", ("f:0.25",)), ("main", ())]


def residue_ops(rng=None):
    """[(kind, ...)]: every run-time float effect of fpa, every compile-time one, every failing compile of the pool,
    every scanner situation in which the input of a compile can end"""
    ops = []
    for e in sorted(VALID["fpa"]["entries"]):
        for a in VALID["fpa"]["entries"][e][:1]:
            ops.append(("run", "fpa", e, a))
    for c in FP_COMPILE_TIME:
        ops.append(("compile", c, "str"))
        ops.append(("compile", c, "file"))
        ops.append(("run", c, sorted(x for x in VALID[c]["entries"] if x != "main")[0], ()))
    for fl in FP_FLAGS + ["inexact,underflow", "overflow,inexact", "divbyzero,invalid,overflow,underflow,inexact"]:
        ops.append(("host", fl))                                 # the embedding application's own arithmetic
    ops.append(("run", "fpb", "root", ("f:-1.0",)))          # a built-in that legitimately raises `invalid`
    ops.append(("run", "faults", "divi", ("i:0",)))
    ops.append(("run", "faults", "chk", ("i:0",)))
    trunc = list(TRUNCATED)
    if rng is not None:
        seen = set(nm for nm, _ in trunc)
        for b in TRUNC_BASES:
            for nm, c in truncations(b, rng, 0):
                if nm not in seen:
                    seen.add(nm)
                    trunc.append((nm, c))
    for k, (nm, c) in enumerate(trunc):
        ops.append(("compile", nm, "str" if k % 3 else "file"))
    for k, nm in enumerate(x for x in INVALID if not x.startswith("T.")):
        ops.append(("compile", nm, "file" if k % 3 else "str"))
    return ops


FP_FLAGS = ["inexact", "underflow", "overflow", "invalid", "divbyzero"]


def usable_mode(mode, src):
    probe = "file" if mode == "rfile" else mode           # a relative name reaches the same code as an absolute one
    if (probe, src) not in CRASHING:
        return mode
    other = "str" if probe == "file" else "file"
    return other if (other, src) not in CRASHING else None


def _free(used, lo=1):
    for h in range(lo, 40):
        if h not in used:
            return h
    return None


def instantiate_residue(op, sim, rng=None):
    """steps of one residue operation on handles that are free in sim"""
    if op[0] == "host":
        return [["fpraise", op[1]]]
    if op[0] == "compile":
        mode = usable_mode(op[2], op[1])
        return [["compile", _free(sim.prog), mode, op[1]]] if mode else []
    h, v = _free(sim.prog), _free(sim.vm)
    return [["compile", h, "str", op[1]], ["vm_new", v, 5000, 300], ["prepare", h, op[2], list(op[3])], ["execute", h, v]]


def observers(sim, rng, count, rot=0):
    """count observer operations: B calls on its old VM and on a new VM, compiles of sources whose scanning would show a
    left-over scanner state.  rot selects which observer comes first (systematic family) or rng draws them"""
    steps = []
    used_p, used_v = set(sim.prog), set(sim.vm)
    cand = []
    for i, src in enumerate(OBSERVER_SOURCES):
        cand.append(("compile", src, "str" if i % 2 == 0 else "file"))
    for e, a in OBSERVER_CALLS:
        cand.append(("call", e, a, 0))
    cand.append(("newvm",))
    for e, a in OBSERVER_CALLS[:3]:
        cand.append(("call", e, a, None))
    if rot is None:
        order = [rng.choice(cand) for _ in range(count)]
    else:
        # the first observer decides what a one-shot residue hits: rotate compiles and calls separately
        comp = [c for c in cand if c[0] == "compile"]
        rest = [c for c in cand if c[0] != "compile"]
        comp = comp[rot % len(comp):] + comp[:rot % len(comp)]
        calls = rest[:len(OBSERVER_CALLS)]
        calls = calls[rot % len(calls):] + calls[:rot % len(calls)]
        order = ([comp[0], calls[0], calls[1], comp[1]] + [rest[len(OBSERVER_CALLS)]] + rest[len(OBSERVER_CALLS) + 1:] + comp[2:] + calls[2:])[:count]
    newvm = None
    for c in order:
        if c[0] == "compile":
            h = _free(used_p)
            used_p.add(h)
            steps.append(["compile", h, c[2], c[1]])
        elif c[0] == "newvm":
            newvm = _free(used_v)
            used_v.add(newvm)
            steps.append(["vm_new", newvm, 5000, 300])
        else:
            v = c[3]
            if v is None:
                if newvm is None:
                    newvm = _free(used_v)
                    used_v.add(newvm)
                    steps.append(["vm_new", newvm, 5000, 300])
                v = newvm
            steps.append(["prepare", 0, c[1], list(c[2])])
            steps.append(["execute", 0, v])
    return steps


def residue_histories(rng, limit=None):
    """the systematic family: B warmed up; ONE residue operation; the observers (rotated); optionally tidy up"""
    ops = residue_ops(rng)
    hists = []
    for k, op in enumerate(ops):
        s = Sim()
        hist = [["compile", 0, "str", "fpb"], ["vm_new", 0, 5000, 300], ["prepare", 0, "root", ["f:16.0"]], ["execute", 0, 0]]
        for st in hist:
            s.apply(st)
        for st in instantiate_residue(op, s):
            if s.ok(st):
                s.apply(st)
                hist.append(st)
        if k % 4 == 1:                      # the residue's own program / VM is gone before anybody looks
            for st in [["vdel", v] for v in sorted(s.vm) if v != 0] + [["pdel", h] for h in sorted(s.prog) if h != 0]:
                s.apply(st)
                hist.append(st)
        for st in observers(s, rng, 9 if op[0] in ("run", "host") else 7, rot=k):
            if s.ok(st):
                s.apply(st)
                hist.append(st)
        assert valid_history(hist), hist
        hists.append(hist)
    if limit is not None and len(hists) > limit:
        rng.shuffle(hists)
        hists = hists[:limit]
    return hists


# ------------------------------------------------------------------------------------------
# two more systematic families of operations that leave something behind OUTSIDE the program / VM they name
# ------------------------------------------------------------------------------------------
def ffi_histories(rng):
    """foreign calls that fail in the FFI layer (symbol missing from a library that loads, missing library, nil string
    argument; caught by the program or unhandled; once or several times in a row) followed by valid calls into the same
    libraries: on the same VM, on another live VM, after vm_delete of the failing VM, from a second program sharing the
    library whose own VM never failed.  Each library is reference-counted by the process and cached per VM, so the number
    of VMs holding it and the number of failures both matter: enumerated."""
    hists = []
    def call(h, v, e, a):
        return [["prepare", h, e, list(a)], ["execute", h, v]]
    k = 0
    for src, fails in sorted(FFI_FAILING.items()):
        for f in fails:
            for times in (1, 2, 3):
                for scen in ("same-vm", "other-live-vm", "after-vm-delete", "two-programs"):
                    k += 1
                    if src == "ffi2" and (k % 2):
                        continue                      # the second program repeats the first one's shape: every other one
                    mode = ["str", "file", "rfile"][k % 3]
                    good = VALID[src]["entries"]["good"]
                    g = lambda: list(rng.choice(good))
                    fa = list(VALID[src]["entries"][f][0])
                    hist = [["compile", 0, mode, src], ["vm_new", 0, 5000, 300]]
                    other_src = "ffi2" if src == "ffi" else "ffi"
                    if scen == "same-vm":
                        hist += call(0, 0, "good", g())
                        for _ in range(times):
                            hist += call(0, 0, f, fa)
                        hist += call(0, 0, "good", g()) + call(0, 0, "other", VALID[src]["entries"]["other"][0]) + call(0, 0, f, fa) + call(0, 0, "good", g())
                    elif scen == "other-live-vm":
                        hist += [["vm_new", 1, 5000, 300]] + call(0, 0, "good", g()) + call(0, 1, "good", g())
                        for _ in range(times):
                            hist += call(0, 0, f, fa)
                        hist += call(0, 1, "good", g()) + call(0, 0, "good", g()) + call(0, 1, "other", VALID[src]["entries"]["other"][0])
                    elif scen == "after-vm-delete":
                        hist += [["vm_new", 1, 5000, 300]] + call(0, 0, "good", g()) + call(0, 1, "good", g())
                        for _ in range(times):
                            hist += call(0, 0, f, fa)
                        hist += [["vdel", 0]] + call(0, 1, "good", g()) + [["vm_new", 2, 5000, 300]] + call(0, 2, "good", g()) + call(0, 1, "good", g())
                    else:
                        og = lambda: list(rng.choice(VALID[other_src]["entries"]["good"]))
                        hist += [["compile", 1, "str", other_src], ["vm_new", 1, 5000, 300]] + call(0, 0, "good", g()) + call(1, 1, "good", og())
                        for _ in range(times):
                            hist += call(0, 0, f, fa)
                        hist += call(1, 1, "good", og()) + [["vdel", 0], ["pdel", 0]] + call(1, 1, "good", og()) + call(1, 1, "other", VALID[other_src]["entries"]["other"][0])
                    assert valid_history(hist), hist
                    hists.append(hist)
    return hists


def path_histories(rng):
    """every value of NEVER_PATH (unset, empty, relative / absolute / missing elements, several elements) x the way the
    program with the `use` is handed to the compiler (string, absolute file name, relative file name); then observers
    whose outcome depends on where the process stands: nev_compile_file of relative names, a second `use` through the
    same path, a `use` resolved in the working directory after the variable is unset, a call on a VM created before"""
    hists = []
    k = 0
    for npath in NPATHS:
        for mode in ("str", "file", "rfile"):
            k += 1
            srcs = [x for x in ("usepath2", "usepath", "usemod") if resolvable(x, npath)]
            hist = [["compile", 0, "rfile", "counter"], ["vm_new", 0, 5000, 300], ["prepare", 0, "inc", ["i:5"]], ["execute", 0, 0],
                    ["env", "NEVER_PATH", npath]]
            use = srcs[k % len(srcs)] if srcs else "usepath"
            hist.append(["compile", 1, mode, use])
            if resolvable(use, npath):
                e = sorted(VALID[use]["entries"])[k % len(VALID[use]["entries"])]
                hist += [["vm_new", 1, 5000, 300], ["prepare", 1, e, list(VALID[use]["entries"][e][0])], ["execute", 1, 1]]
            obs = [["compile", 2, "rfile", "counter"], ["compile", 3, "rfile", use], ["compile", 4, "rfile", "lexrich"],
                   ["compile", 5, ["str", "file", "rfile"][(k + 1) % 3], srcs[(k + 1) % len(srcs)] if srcs else "usepath2"],
                   ["compile", 6, "rfile", MISSING]]
            obs = obs[k % len(obs):] + obs[:k % len(obs)]
            hist += obs[:3] + [["execute", 0, 0], ["env", "NEVER_PATH", None], ["compile", 7, "rfile", "usemod"]] + obs[3:]
            hist += [["prepare", 7, "bump", ["i:1"]], ["vm_new", 2, 5000, 300], ["execute", 7, 2]]
            assert valid_history(hist), hist
            hists.append(hist)
    return hists


# ------------------------------------------------------------------------------------------
# running a script and parsing the driver's output
# ------------------------------------------------------------------------------------------
class Block(object):
    __slots__ = ("idx", "op", "out", "err", "ret", "mod", "prep", "exe", "res", "P", "M", "V", "refused", "exit", "died", "cwd")

    def __init__(self, idx, op):
        self.idx, self.op = idx, op
        self.out = self.err = ""
        self.ret = self.mod = self.prep = self.exe = self.res = self.refused = None
        self.P, self.M, self.V = {}, {}, {}
        self.exit = False
        self.died = False
        self.cwd = None


def unhex(h):
    try:
        return binascii.unhexlify(h).decode("utf-8", "replace")
    except (binascii.Error, ValueError):
        return "<bad hex>"


EXE_RE = re.compile(r"init=(\d+) before=(-?\d+),(-?\d+),(-?\d+) after=(-?\d+),(-?\d+),(-?\d+) peak=(-?\d+) "
                    r"entrysp=(-|-?\d+) ipeak=(-?\d+) speak=(-|-?\d+) steps=(\d+) state=(\w+)")


def parse_exe(s):
    m = EXE_RE.match(s)
    if not m:
        return None
    g = m.groups()
    return {"init": int(g[0]), "before": int(g[1]), "fp_b": int(g[2]), "pp_b": int(g[3]), "after": int(g[4]),
            "fp_a": int(g[5]), "pp_a": int(g[6]), "peak": int(g[7]),
            "entrysp": None if g[8] == "-" else int(g[8]), "ipeak": int(g[9]),
            "speak": None if g[10] == "-" else int(g[10]), "steps": int(g[11]), "state": g[12]}


def parse_output(text):
    blocks, cur, ended = [], None, False
    for ln in text.split("\n"):
        if ln.startswith("@ "):
            p = ln.split(" ")
            cur = Block(int(p[1]), p[2:])
            blocks.append(cur)
        elif ln.startswith("END "):
            ended = True
        elif cur is None:
            continue
        elif ln.startswith("OUT "):
            cur.out = unhex(ln[4:])
        elif ln.startswith("ERR "):
            cur.err = unhex(ln[4:])
        elif ln.startswith("RET "):
            cur.ret = ln[4:]
        elif ln.startswith("MOD "):
            cur.mod = ln.split(" ", 2)[2]
        elif ln.startswith("PREP "):
            cur.prep = ln[5:]
        elif ln.startswith("EXE "):
            cur.exe = parse_exe(ln[4:])
        elif ln.startswith("RES "):
            cur.res = ln[4:]
        elif ln.startswith("REFUSED"):
            cur.refused = ln
        elif ln.startswith("EXIT-IN-CALL"):
            cur.exit = True
        elif ln.startswith("DIED-IN-CALL"):
            cur.died = True
        elif ln.startswith("P "):
            p = ln.split(" ", 2)
            cur.P[int(p[1])] = p[2]
        elif ln.startswith("M "):
            p = ln.split(" ")
            cur.M.setdefault(int(p[1]), []).append(unhex(p[3]) if len(p) > 3 else "")
        elif ln.startswith("V "):
            p = ln.split(" ", 2)
            cur.V[int(p[1])] = p[2]
        elif ln.startswith("CWD "):
            cur.cwd = unhex(ln[4:])
    return blocks, ended


class RunResult(object):
    pass


_counter = [0]


def run_script(drv, workdir, lines):
    """one fresh process"""
    _counter[0] += 1
    tag = "%d_%d" % (os.getpid(), _counter[0])
    path = os.path.join(workdir, "s_%s.txt" % tag)
    logp = os.path.join(workdir, "san_%s" % tag)
    with open(path, "w") as f:
        f.write("\n".join(lines) + "\n")
    env = dict(os.environ)
    env["ASAN_OPTIONS"] = ASAN_ENV + ":log_path=" + logp
    env["UBSAN_OPTIONS"] = UBSAN_ENV + ":log_path=" + logp
    env.pop("NEVER_PATH", None)
    env["LD_LIBRARY_PATH"] = os.path.join(workdir, "ffilib")        # c15ffi_a.so / c15ffi_b.so of the pool programs ffi, ffi2
    rc, so, se = common.sh([drv, path], timeout=120, cwd=POOLDIR, env=env)
    r = RunResult()
    r.rc, r.stderr = rc, se
    r.blocks, r.ended = parse_output(so)
    r.san = ""
    d = os.path.dirname(logp)
    for fn in os.listdir(d):
        if fn.startswith(os.path.basename(logp) + "."):
            fp = os.path.join(d, fn)
            try:
                r.san += open(fp, errors="replace").read()
            except OSError:
                pass
            os.unlink(fp)
    if "runtime error:" in se or "Sanitizer" in se:
        r.san += se
    r.last_words = ""
    for suf in (".cap.err", ".cap.out"):
        if os.path.exists(path + suf):          # left behind: the process was killed inside a call
            if suf == ".cap.err":
                r.last_words = open(path + suf, errors="replace").read()[-3000:]
            os.unlink(path + suf)
    if "runtime error:" in r.last_words or "Sanitizer" in r.last_words:
        r.san += r.last_words
    os.unlink(path)
    return r


FRAME_RE = re.compile(r"#\d+ \S+ in (\w+) ((?:back|front)/\S+)")


def sanitizer_key(text):
    """stable key of a sanitizer report: kind + first frame inside the library [+ who freed the block]"""
    m = re.search(r"SUMMARY: (\w+): ([\w-]+)", text)
    kind = m.group(2) if m else None
    if kind is None:
        m = re.search(r"(\S+:\d+):\d+: runtime error: (.*)", text)
        if m:
            return "sanitizer:ubsan:%s" % os.path.basename(m.group(1)).split(":")[0], m.group(0)[:200]
        return "sanitizer:report", text[:200]
    parts = re.split(r"\n(?=freed by|previously allocated|allocated by)", text)
    acc = FRAME_RE.search(parts[0])
    key = "sanitizer:%s:%s" % (kind, acc.group(1) if acc else "?")
    for p in parts[1:]:
        if p.startswith("freed by"):
            fr = FRAME_RE.search(p)
            key += ":freed-by-" + (fr.group(1) if fr else "caller")
    summ = re.search(r"SUMMARY: .*", text)
    return key, summ.group(0) if summ else kind


# ------------------------------------------------------------------------------------------
# evaluation of one history against the oracles (runs in a worker process)
# ------------------------------------------------------------------------------------------
LINE_RE = re.compile(r":\d+:|in line \d+")


class Env(object):
    """per-worker context: driver, work directory, caches of the fresh-process reference runs"""

    def __init__(self, drv, workdir, policy):
        self.drv, self.workdir, self.policy = drv, workdir, policy
        self.solo_compile = {}
        self.solo_call = {}


def compile_obs(b):
    h = int(b.op[1])
    return {"ret": b.ret, "msgs": b.M.get(h, []), "stderr": b.err, "stdout": b.out, "module": b.mod}


def exec_obs(b, mask_lines=False):
    """what a call gave.  mask_lines: the line number inside a run-time diagnostic is the VM's line_no register, i.e.
    the last LINE instruction executed — possibly one of an EARLIER call when the faulting entry function has not
    executed a LINE of its own yet; it is not one of the global-variable effects a primed fresh VM shares, so the
    oracles that compare against a differently primed VM (2b, 2c) ignore it (the replay oracle (2) does not)."""
    err = re.sub(r":\d+: ", ":#: ", b.err) if mask_lines else b.err
    return {"ret": b.ret, "res": b.res, "stdout": strip_machine(b.out), "stderr": err}


def strip_machine(out):
    """the `machine:` dump printed on VM_ERROR shows sp/fp/gp/ip — raw registers, not part of the outcome"""
    i = out.find("machine:\n")
    return out if i < 0 else out[:i] + "<machine dump>"


def env_prefix(npath):
    """the environment a compile ran in is part of its input: the fresh-process reference gets the same"""
    return [] if npath is None else [["env", "NEVER_PATH", npath]]


def get_solo_compile(env, mode, src, npath=None):
    k = (mode, src, npath)
    if k not in env.solo_compile:
        r = run_script(env.drv, env.workdir, [step_line(s) for s in env_prefix(npath) + [["compile", 0, mode, src]]])
        cb = [b for b in r.blocks if b.op[0].startswith("compile")]
        env.solo_compile[k] = (compile_obs(cb[0]) if cb and cb[0].ret is not None else None, r.san)
    return env.solo_compile[k]


def get_solo_call(env, src, entry, args, pre=None, stack=4000, mode="str", npath=None):
    """first call(s) on a fresh VM in a fresh process; pre = optional priming call (entry, args)"""
    k = (src, entry, tuple(args), pre, mode, npath)
    if k not in env.solo_call:
        hist = env_prefix(npath) + [["compile", 0, mode, src], ["vm_new", 0, 20000, stack]]
        if pre is not None:
            hist += [["prepare", 0, pre[0], list(pre[1])], ["execute", 0, 0]]
        hist += [["prepare", 0, entry, list(args)], ["execute", 0, 0]]
        r = run_script(env.drv, env.workdir, [step_line(s) for s in hist])
        ex = [b for b in r.blocks if b.op[0] == "execute"]
        env.solo_call[k] = ex[-1] if ex and len(ex) == (2 if pre else 1) and (ex[-1].exe is not None) else None
    return env.solo_call[k]


def classify(b):
    """outcome class of an execute block: H U A I D"""
    if b.exit:
        return "D"
    if b.ret == "0":
        return "H"
    if b.exe is None:
        return "?"
    if b.exe["entrysp"] is None and b.exe["init"] == 0:
        return "I"
    if b.out.startswith("unhandled "):
        return "U"
    return "A"


def sub_history(hist, vinc, inc):
    """the steps that concern one VM incarnation and the program incarnation it runs, renumbered to handles 0/0:
    the compile, every prepare of that program, the vm_new, the executes on that VM"""
    s, sub = Sim(), []
    for st in hist:
        s.apply(st)
        k = st[0]
        if k == "compile" and s.prog[st[1]]["inc"] == inc:
            sub += env_prefix(s.prog[st[1]]["npath"])
            sub.append(["compile", 0, st[2], st[3]])
        elif k == "prepare" and s.prog[st[1]]["inc"] == inc:
            sub.append(["prepare", 0, st[2], st[3]])
        elif k == "vm_new" and s.vm[st[1]]["vinc"] == vinc:
            sub.append(["vm_new", 0, st[2], st[3]])
        elif k == "execute" and s.vm[st[2]]["vinc"] == vinc:
            sub.append(["execute", 0, 0])
    return sub


PREFIX_RE = re.compile(r"^[^\n:]*(?=:(?:\d+|#): )", re.M)


def obs_diff_key(o1, o2, default):
    """two execute observations differ: which way?"""
    diff = [f for f in ("ret", "res", "stdout", "stderr") if o1[f] != o2[f]]
    if diff == ["stderr"] and PREFIX_RE.sub("<src>", o1["stderr"]) == PREFIX_RE.sub("<src>", o2["stderr"]):
        return "execute:runtime-message-names-last-compiled-source", diff
    if "ret" in diff or "res" in diff:
        return default + ":result", diff
    if "stdout" in diff:
        return default + ":output", diff
    return default + ":diagnostic", diff


# ------------------------------------------------------------------------------------------
# reference semantics of the pool programs (independent of the implementation): what each call has to give.
# state = the program's top-level variables; reset whenever the VM (re)initialises its globals.
# returns ("int", value) | ("U",) unhandled exception | ("A",) failed assert | None (not covered)
# ------------------------------------------------------------------------------------------
def wrap32(x):
    x &= 0xFFFFFFFF
    return x - (1 << 32) if x & 0x80000000 else x


def cdiv(a, b):
    q = abs(a) // abs(b)
    return q if (a < 0) == (b < 0) else -q


def arg_int(a):
    return int(a[2:])


def arg_str(a):
    return binascii.unhexlify(a[2:])


def reference(src, state, entry, args):
    if src == "counter":
        state.setdefault("c", 0)
        if entry == "inc":
            state["c"] = wrap32(state["c"] + arg_int(args[0]))
            return ("int", state["c"])
        if entry == "set":
            state["c"] = arg_int(args[0])
            return ("int", state["c"])
        if entry in ("get", "main"):
            return ("int", state["c"])
    elif src == "pure":
        if entry == "fact":
            r = 1
            for k in range(2, arg_int(args[0]) + 1):
                r = wrap32(r * k)
            return ("int", r)
        if entry == "fib":
            a, b = 0, 1
            for _ in range(arg_int(args[0])):
                a, b = b, wrap32(a + b)
            return ("int", a)
        if entry == "slen":
            return ("int", len(arg_str(args[0])))
        if entry == "mix":
            return ("int", wrap32(arg_int(args[0]) * 2 + len(arg_str(args[2]))))
        if entry == "main":
            return ("int", 0)
    elif src == "faults":
        state.setdefault("calls", 0)
        if entry in ("divi", "chk", "deep", "idx", "caught"):
            state["calls"] += 1
        n = arg_int(args[0]) if args else 0
        if entry == "divi":
            return ("U",) if n == 0 else ("int", cdiv(100, n))
        if entry == "chk":
            return ("int", n) if n > 0 else ("A",)
        if entry == "deep":
            return ("A",)
        if entry == "idx":
            return ("int", [10, 20, 30][n]) if 0 <= n < 3 else ("U",)
        if entry == "caught":
            return ("int", -1) if n == 0 else ("int", cdiv(1000, n))
        if entry == "set":
            state["calls"] = n
            return ("int", n)
        if entry in ("get", "main"):
            return ("int", state["calls"])
    elif src == "churn":
        state.setdefault("total", 0)
        if entry in ("fill", "main"):
            n = arg_int(args[0]) if entry == "fill" else 10
            sm = n * (n - 1)
            state["total"] = wrap32(state["total"] + sm)
            return ("int", sm)
        if entry == "set":
            state["total"] = arg_int(args[0])
            return ("int", state["total"])
        if entry == "get":
            return ("int", state["total"])
    elif src in ("ffi", "ffi2"):
        n = arg_int(args[0]) if args and args[0].startswith("i:") else 0
        if entry == "good":
            return ("int", wrap32((2 if src == "ffi" else 3) * n))
        if entry == "main":
            return ("int", 42)
        if entry == "other":
            return ("int", wrap32(n + 1))
        if entry in ("bad", "nolib", "badnil"):
            return ("U",)
        if entry in ("guarded", "gnolib", "gnil"):
            return ("int", {"guarded": -1, "gnolib": -2, "gnil": -3}[entry])
        if entry == "slen":
            return ("int", len(arg_str(args[0])))
    elif src == "usepath":
        return ("int", 42) if entry == "main" else ("int", wrap32(3 * arg_int(args[0])))
    elif src == "usepath2":
        return ("int", 42) if entry == "main" else ("int", cdiv(wrap32(3 * arg_int(args[0])), 2))
    return None


def matches_reference(ref, b):
    c = classify(b)
    if ref[0] == "int":
        return c == "H" and b.res == "int %d" % ref[1]
    return c == ref[0]


def stale_line_finding(n, v, entry, args, b, solo, other):
    """same return code, result, output and message text, but the line number in the run-time diagnostic (stderr and
    prog->msg_array) differs: it is the VM's line_no register, left by whatever call ran before"""
    return finding("execute:runtime-diagnostic-line-depends-on-earlier-call",
                   "call #%d on VM %d (%s %s) reported %r; %s, holding the same globals, reports %r: the line number is "
                   "the line_no register left behind by the previous call" % (
                       n + 1, v, entry, " ".join(args), b.err.strip(), other, solo.err.strip()), at_op=b.idx)


def finding(key, what, **kw):
    d = {"key": key, "what": what}
    d.update(kw)
    return d


def cwd_findings(st, b, home):
    if home is None or b.cwd is None or b.cwd == home:
        return []
    op = step_line(st).split(" ")[0]
    return [finding("process:cwd-changed-by-%s" % op,
                    "after `%s` the working directory of the process is %s; it was %s before and no "
                    "operation of the embedding API is entitled to move it (relative file names of later compiles, relative "
                    "NEVER_PATH elements and the host's own files are resolved against it)" % (
                        " ".join(step_line(st).split(" ")[:3]), b.cwd.replace(POOLDIR, "<pool>"), home.replace(POOLDIR, "<pool>")),
                    at_op=b.idx, cwd_before=home, cwd_after=b.cwd)]


def compile_findings(env, hist, st, b, npath):
    """(1) the k-th compile of a source = the same compile (same mode, same environment) alone in a fresh process"""
    ref, _ = get_solo_compile(env, st[2], st[3], npath)
    obs = compile_obs(b)
    if ref is None or obs == ref:
        return []
    diff = [f for f in ("ret", "msgs", "stderr", "stdout", "module") if obs[f] != ref[f]]
    if st[3] == MISSING:
        key = "compile_file:missing-file-diagnostic-depends-on-history"
    elif "ret" in diff:
        key = "compile:ret-depends-on-history"
    elif "msgs" in diff or "stderr" in diff or "stdout" in diff:
        same_mod_lines = (LINE_RE.sub("#", "\n".join(obs["msgs"]) + obs["stderr"]) ==
                          LINE_RE.sub("#", "\n".join(ref["msgs"]) + ref["stderr"]))
        key = "compile:line_no-not-reset" if same_mod_lines else "compile:diagnostics-depend-on-history"
    else:
        key = "compile:code-depends-on-history"
    return [finding(key, "compile #%d of %s (%s%s) differs from the same compile in a fresh process in %s" % (
        sum(1 for s2 in hist[:b.idx + 1] if s2[0] == "compile"), st[3], st[2],
        "" if npath is None else ", NEVER_PATH=%s" % npath, ",".join(diff)),
        at_op=b.idx, expected=ref, observed=obs)]


def evaluate(env, hist, want=None):
    """-> (findings, stats).  findings: list of dicts(key, what, detail...)"""
    F = []
    stats = {"ops": len(hist), "compiles": 0, "executes": 0, "nontrivial": 0, "model_calls": 0, "model_skipped": 0,
             "classes": {}, "primed": 0, "replayed_vms": 0, "refused": 0}
    r = run_script(env.drv, env.workdir, [step_line(s) for s in hist])
    blocks = r.blocks
    if any(b.refused for b in blocks):
        # the driver refused an operation (e.g. prepare on a program without a function table because its compile failed
        # although the generator expected it to succeed): judge what ran before it by the compile / cwd oracles only
        stats["refused"] = 1
        n_ok = next(i for i, b in enumerate(blocks) if b.refused)
        sim = Sim()
        home = os.path.realpath(POOLDIR)
        for st, b in list(zip(hist, blocks))[:n_ok]:
            sim.apply(st)
            F.extend(cwd_findings(st, b, home))
            home = b.cwd or home
            if st[0] == "compile" and b.ret is not None:
                F.extend(compile_findings(env, hist, st, b, sim.prog[st[1]]["npath"]))
        if want is not None:
            F = [f for f in F if f["key"] == want]
        return F, stats
    # (5) sanitizer / crash
    if (r.san or r.rc != 0) and blocks and blocks[-1].ret is None and len(blocks) <= len(hist) \
            and hist[len(blocks) - 1][0] == "compile" and len(blocks) > 1:
        # the process died inside a compile: does the same compile alone in a fresh process die the same way?  Then the
        # outcome does not depend on the history (the crash itself is property C05's finding)
        st = hist[len(blocks) - 1]
        sim0 = Sim()
        for s0 in hist[:len(blocks) - 1]:
            sim0.apply(s0)
        ref, rsan = get_solo_compile(env, st[2], st[3], sim0.npath)
        if ref is None and (sanitizer_key(rsan)[0] if rsan else "crash") == (sanitizer_key(r.san)[0] if r.san else "crash"):
            stats["crash_same_as_alone"] = 1
            r.san, r.rc = "", 0
    if r.san:
        k, summ = sanitizer_key(r.san)
        last = blocks[-1] if blocks else None
        F.append(finding(k, "sanitizer report during `%s`: %s" % (" ".join(last.op) if last else "?", summ),
                         at_op=last.idx if last else None, report=r.san[:1800]))
    elif r.rc != 0 and not (blocks and blocks[-1].exit):
        F.append(finding("crash:rc=%d" % r.rc, "the driver process ended with status %d during `%s`" % (
            r.rc, " ".join(blocks[-1].op) if blocks else "?"), stderr=r.stderr[-800:], last_words=r.last_words[-800:]))
    # bookkeeping of handles while walking the blocks
    sim = Sim()
    prev_P, prev_V = {}, {}
    home = os.path.realpath(POOLDIR)            # the working directory the process is in (the driver is started in the pool)
    vm_calls = {}          # VM incarnation -> {"v", "inc", "stack", "src", "calls": [(block, src, entry, args)]}
    for st, b in zip(hist, blocks):
        k = st[0]
        named_p, named_v = set(), set()
        if k in ("compile", "prepare", "pdel"):
            named_p.add(st[1])
        elif k == "execute":
            named_p.add(st[1]); named_v.add(st[2])
        elif k in ("vm_new", "vdel"):
            named_v.add(st[1])
        sim.apply(st)
        # (4') the working directory belongs to the process: no operation of the API may move it
        F.extend(cwd_findings(st, b, home))
        home = b.cwd or home
        # (4) isolation
        if not b.exit:
            for h, d in b.P.items():
                if h not in named_p and h in prev_P and prev_P[h] != d:
                    F.append(finding("isolation:%s-changes-other-program" % step_line(st).split(" ")[0],
                                     "`%s` changed program handle %d, which it does not name" % (step_line(st), h),
                                     at_op=b.idx, before=prev_P[h], after=d, new_messages=b.M.get(h)))
            for v, d in b.V.items():
                if v not in named_v and v in prev_V and prev_V[v] != d:
                    F.append(finding("isolation:%s-changes-other-vm" % step_line(st).split(" ")[0],
                                     "`%s` changed VM handle %d, which it does not name" % (step_line(st), v),
                                     at_op=b.idx, before=prev_V[v], after=d))
            prev_P, prev_V = b.P, b.V
        # (1) compile determinism
        if k == "compile" and b.ret is not None:
            stats["compiles"] += 1
            F.extend(compile_findings(env, hist, st, b, sim.prog[st[1]]["npath"]))
        if k == "execute":
            stats["executes"] += 1
            h, v = st[1], st[2]
            p = sim.prog[h]
            rec = vm_calls.setdefault(sim.vm[v]["vinc"], {"v": v, "inc": p["inc"], "stack": sim.vm[v]["stack"],
                                                          "src": p["src"], "mode": p["mode"], "npath": p["npath"], "calls": []})
            rec["calls"].append((b, p["src"], p["prep"][0], p["prep"][1]))
    # per VM: stack oracle (3), replay (2), model correspondence
    for vinc in sorted(vm_calls):
        rec = vm_calls[vinc]
        v, inc, stack, src, calls, mode = rec["v"], rec["inc"], rec["stack"], rec["src"], rec["calls"], rec["mode"]
        npath = rec["npath"]
        spec = VALID[src]
        sub = sub_history(hist, vinc, inc)
        died = any(b.exit for b, _, _, _ in calls)
        # ---- (3) stack neutrality and peaks on the real observations
        leak_keys = set()
        for n, (b, _, entry, args) in enumerate(calls):
            if b.exe is None:
                continue
            c = classify(b)
            stats["classes"][c] = stats["classes"].get(c, 0) + 1
            e = b.exe
            if c in ("H", "U", "A"):
                start = e["entrysp"] if e["init"] == 0 else e["before"]
                as_new = (c != "H" and e["init"] == 0 and e["after"] == e["before"] and "init=0 " in b.V.get(v, ""))
                if start is not None and e["after"] != start and not as_new:
                    key = "execute:sp-leak-per-call" if c == "H" else "execute:sp-leak-after-error"
                    leak_keys.add(key)
                    F.append(finding(key, "nev_execute #%d on VM %d (%s %s, outcome %s) left sp at %d, it started at %d" % (
                        n + 1, v, entry, " ".join(args), {"H": "result", "U": "unhandled exception", "A": "failed assert"}[c],
                        e["after"], start), at_op=b.idx, sp_before=start, sp_after=e["after"]))
            if c == "I":
                # a failed global initialisation: the next call must not run against half-initialised globals
                if n + 1 < len(calls) and calls[n + 1][0].exe is not None and calls[n + 1][0].exe["init"] == 1:
                    nb = calls[n + 1][0]
                    solo = get_solo_call(env, src, calls[n + 1][2], calls[n + 1][3], mode=mode, npath=npath)
                    if solo is not None and nb.ret is not None and exec_obs(nb) != exec_obs(solo):
                        F.append(finding("execute:after-failed-global-init",
                                         "after a nev_execute whose global initialisation failed the next call ran "
                                         "against half-initialised globals: it gave %s where a fresh VM gives %s" % (
                                             exec_obs(nb), exec_obs(solo)), at_op=nb.idx))
            # peak against the first such call on a fresh VM
            if c in ("H", "U", "A") and e["speak"] is not None:
                solo = get_solo_call(env, src, entry, args, mode=mode, npath=npath)
                if solo is not None and solo.exe is not None and solo.exe["speak"] is not None and classify(solo) == c:
                    start = e["entrysp"] if e["init"] == 0 else e["before"]
                    rel = e["speak"] - start
                    srel = solo.exe["speak"] - solo.exe["entrysp"]
                    if rel > srel:
                        F.append(finding("execute:relative-stack-use-grows",
                                         "call #%d (%s) needs %d slots above its start, the first such call %d" % (
                                             n + 1, entry, rel, srel), at_op=b.idx))
                    elif e["speak"] > solo.exe["speak"] and not leak_keys and start > solo.exe["entrysp"]:
                        F.append(finding("execute:peak-exceeds-first-call",
                                         "call #%d (%s) peaked at sp=%d, the first such call on a fresh VM at %d" % (
                                             n + 1, entry, e["speak"], solo.exe["speak"]), at_op=b.idx))
        # ---- reference semantics: what each call has to return, whatever came before on other handles
        state = {}
        for n, (b, _, entry, args) in enumerate(calls):
            if b.exe is None or b.exit or b.ret is None:
                break
            if b.exe["init"] == 0:
                state = {}
            elif b.exe["entrysp"] is not None and b.exe["entrysp"] != b.exe["before"]:
                F.append(finding("execute:reinitialises-globals",
                                 "nev_execute #%d on the initialised VM %d reached code_entry with sp=%d although the call "
                                 "started at sp=%d: the global prelude ran again" % (n + 1, v, b.exe["entrysp"], b.exe["before"]),
                                 at_op=b.idx))
                break
            if classify(b) == "I":
                continue
            ref = reference(src, state, entry, args)
            if ref is None:
                continue
            stats["referenced"] = stats.get("referenced", 0) + 1
            if not matches_reference(ref, b):
                F.append(finding("execute:result-differs-from-reference-semantics",
                                 "call #%d on VM %d (%s %s) gave %s (ret %s); by the source text, after the earlier calls on "
                                 "this VM, it has to give %s" % (n + 1, v, entry, " ".join(args), b.res or classify(b), b.ret,
                                                                 "int %d" % ref[1] if ref[0] == "int" else
                                                                 {"U": "an unhandled exception", "A": "a failed assert"}[ref[0]]),
                                 at_op=b.idx))
                break
        # ---- (2) replay of this VM's calls alone in a fresh process
        if len(calls) <= 320:
            rr = run_script(env.drv, env.workdir, [step_line(s) for s in sub])
            stats["replayed_vms"] += 1
            rex = [b for b in rr.blocks if b.op[0] == "execute"]
            for n, (b, _, entry, args) in enumerate(calls):
                if n >= len(rex):
                    if not b.exit and not (rex and rex[-1].exit) and not rr.san:
                        F.append(finding("execute:replay-ends-early", "replay of VM %d ended before call #%d" % (v, n + 1),
                                         at_op=b.idx))
                    break
                if b.exit or rex[n].exit:
                    if b.exit != rex[n].exit:
                        F.append(finding("execute:exit-differs-from-fresh-vm-replay",
                                         "call #%d on VM %d: process exit in %s only" % (
                                             n + 1, v, "the history" if b.exit else "the replay"), at_op=b.idx))
                    break
                if b.ret is None:
                    break                  # the history's process crashed here (reported by oracle 5)
                o1, o2 = exec_obs(b), exec_obs(rex[n])
                if o1 != o2:
                    key, diff = obs_diff_key(o1, o2, "execute:differs-from-fresh-vm-replay")
                    F.append(finding(key, "call #%d on VM %d (%s %s) differs in %s from the same call sequence replayed "
                                          "alone on a fresh VM in a fresh process" % (n + 1, v, entry, " ".join(args), ",".join(diff)),
                                     at_op=b.idx, history_obs=o1, replay_obs=o2))
                    break
        # ---- (2b) calls without global effects = first call on a fresh VM;  (2c) primed by set(<state>)
        prevb = None
        for n, (b, _, entry, args) in enumerate(calls):
            if b.exe is None or b.exit or b.ret is None:
                break
            if spec["pure"] and src != "initfail":
                solo = get_solo_call(env, src, entry, args, mode=mode, npath=npath)
                if solo is not None and exec_obs(b, True) == exec_obs(solo, True) and exec_obs(b) != exec_obs(solo):
                    F.append(stale_line_finding(n, v, entry, args, b, solo, "the first call on a fresh VM"))
                if solo is not None and exec_obs(b, True) != exec_obs(solo, True):
                    F.append(finding(obs_diff_key(exec_obs(b, True), exec_obs(solo, True), "execute:pure-call-differs-from-first-call")[0],
                                     "call #%d on VM %d (%s %s) of a program without global effects gave %s, the first call on "
                                     "a fresh VM %s" % (n + 1, v, entry, " ".join(args), exec_obs(b), exec_obs(solo)), at_op=b.idx))
                stats["primed"] += 1
            elif spec["state"] and prevb is not None and prevb[2] == spec["state"][0] and prevb[0].res \
                    and prevb[0].res.startswith("int ") and entry != spec["state"][1]:
                state = prevb[0].res.split(" ")[1]
                solo = get_solo_call(env, src, entry, args, pre=(spec["state"][1], ("i:" + state,)), mode=mode, npath=npath)
                stats["primed"] += 1
                if solo is not None and exec_obs(b, True) == exec_obs(solo, True) and exec_obs(b) != exec_obs(solo):
                    F.append(stale_line_finding(n, v, entry, args, b, solo, "a fresh VM primed with set(%s)" % state))
                if solo is not None and exec_obs(b, True) != exec_obs(solo, True):
                    F.append(finding(obs_diff_key(exec_obs(b, True), exec_obs(solo, True), "execute:call-differs-from-primed-fresh-vm")[0],
                                     "call #%d on VM %d (%s %s) with global state %s gave %s; a fresh VM primed with set(%s) gives %s" % (
                                         n + 1, v, entry, " ".join(args), state, exec_obs(b), state, exec_obs(solo)), at_op=b.idx))
            prevb = (b, src, entry)
        # ---- a call that ends in libnev's exit(1) "out of memory": the heap (garbage of earlier calls included: the collector
        #      runs at its own safe points, not on exhaustion) was too small for this call sequence.  Heap capacity is not part
        #      of the API model; counted, the VM's trajectory is compared up to that call only
        oom = next((n for n, c4 in enumerate(calls) if c4[0].exit and "out of memory" in c4[0].err), None)
        if oom is not None:
            stats["heap_exhausted"] = stats.get("heap_exhausted", 0) + 1
            calls = calls[:oom]
            died = False
        # ---- model correspondence: the extracted Api model predicts the sp trajectory
        mf, used, skipped, expl = model_check(env, v, stack, calls, src, npath)
        stats["model_calls"] += used
        stats["model_skipped"] += skipped
        F.extend(mf)
        if died and not expl and not mf:
            last = [b for b, _, _, _ in calls if b.exit][0]
            F.append(finding("execute:unexplained-exit", "the process exited inside nev_execute (%s) and the model, fed the "
                             "observed stack use, does not predict an exit there" % last.err.strip()[:80], at_op=last.idx))
        elif died and expl and env.policy == (True, True):
            pass        # stack genuinely too small for this call sequence under a neutral stack: C14's business
        if len(calls) >= 2 and any(classify(b) in "HUA" for b, _, _, _ in calls[1:]):
            stats["nontrivial"] = 1
    if stats["compiles"] >= 2:
        stats["nontrivial"] = 1
    if want is not None:
        F = [f for f in F if f["key"] == want]
    return F, stats


def model_lines(policy, stack, calls, relpeak_of):
    """input of build/ocaml/api/run for one VM incarnation -> (lines, number of calls encoded)"""
    lines = ["POLICY %d %d" % (1 if policy[0] else 0, 1 if policy[1] else 0), "VM 0 %d" % stack]
    enc = 0
    for n, (b, src, entry, args) in enumerate(calls):
        e = b.exe
        if e is None:
            break
        c = classify(b)
        start = e["before"]
        if e["init"] == 0:
            if c == "I":
                lines.append("INIT 0 fail %d %d" % (e["after"] + 1, e["peak"] + 1))
                lines.append("CALL 0 A 0 0")
                enc += 1
                continue
            if e["entrysp"] is None:
                break                      # died inside the global initialisation: not replayable
            lines.append("INIT 0 ok %d %d" % (e["entrysp"] + 1, e["ipeak"] + 1))
            start = e["entrysp"]
        if c == "D":
            rp = relpeak_of(src, entry, args)
            if rp is None:
                break
            lines.append("CALL 0 H %d" % rp)
        elif c in ("H", "U"):
            lines.append("CALL 0 %s %d" % (c, e["speak"] - start))
        elif c == "A":
            lines.append("CALL 0 A %d %d" % (e["speak"] - start, e["after"] - start))
        else:
            break
        enc += 1
    return lines, enc


def run_model(lines):
    rc, so, se = common.sh([RUN], timeout=60, input="\n".join(lines) + "\n")
    if rc != 0:
        return None
    return [l.split(" ") for l in so.split("\n") if l.startswith("R ")]


def model_check(env, v, stack, calls, src, npath=None):
    """the extracted model, fed the observed outcome classes and relative peaks, must predict sp before/after every
    call, the absolute peak and the call that kills the process.
    -> (findings, calls compared, calls skipped, death explained by the model?)"""
    F = []
    known = {}
    for b, s, entry, args in calls:
        if b.exe is not None and not b.exit and b.exe["speak"] is not None:
            start = b.exe["entrysp"] if b.exe["init"] == 0 else b.exe["before"]
            known.setdefault((s, entry, tuple(args)), b.exe["speak"] - start)

    def relpeak_of(s, entry, args):
        k = (s, entry, tuple(args))
        if k in known:
            return known[k]
        solo = get_solo_call(env, s, entry, args, npath=npath)
        if solo is None or solo.exe is None or solo.exe["speak"] is None or solo.exe["entrysp"] is None:
            return None
        return solo.exe["speak"] - solo.exe["entrysp"]

    lines, enc = model_lines(env.policy, stack, calls, relpeak_of)
    died = [n for n, c4 in enumerate(calls) if c4[0].exit]
    pred = run_model(lines)
    if pred is None:
        return [finding("model:runner-failed", "build/ocaml/api/run failed", correspondence=True)], 0, len(calls), False
    explained = not died
    for n in range(enc):
        b = calls[n][0]
        e = b.exe
        c = classify(b)
        if n >= len(pred):
            F.append(finding("model:trajectory", "the model predicts the process to die before call #%d on VM %d, the real "
                             "VM went on" % (n + 1, v), correspondence=True, model_input=lines[:12], at_op=b.idx))
            break
        kind, pk, sb, sa = pred[n][2], int(pred[n][3]), int(pred[n][4]), int(pred[n][5])
        obs = (c, e["before"], e["after"] if c != "D" else None)
        prd = (kind, sb, sa if kind != "D" else None)
        if obs != prd:
            F.append(finding("model:trajectory", "call #%d on VM %d: the model (policy pop_at_halt=%s restore_on_error=%s) "
                             "predicts (outcome, sp before, sp after) = %s, the real VM did %s" % (
                                 n + 1, v, env.policy[0], env.policy[1], prd, obs),
                             correspondence=True, model_input=lines[:n + 6], at_op=b.idx))
            break
        if c == "D":
            explained = True
            break
        if c in "HUA" and pk != e["peak"]:
            F.append(finding("model:peak", "call #%d on VM %d: model peak %d, real %d" % (n + 1, v, pk, e["peak"]),
                             correspondence=True, model_input=lines[:n + 6], at_op=b.idx))
            break
    return F, enc, len(calls) - enc, explained


# ------------------------------------------------------------------------------------------
# shrinking
# ------------------------------------------------------------------------------------------
def shrink(env, hist, key, budget=70):
    cur = list(hist)
    spent = 0
    chunk = max(1, len(cur) // 2)
    while chunk >= 1 and spent < budget:
        i = 0
        progressed = False
        while i < len(cur) and spent < budget:
            cand = cur[:i] + cur[i + chunk:]
            if cand and valid_history(cand):
                spent += 1
                F, st = evaluate(env, cand, want=key)
                if F and not st["refused"]:
                    cur = cand
                    progressed = True
                    continue
            i += chunk
        if not progressed or chunk > 1:
            chunk //= 2
    return cur


# ------------------------------------------------------------------------------------------
# worker
# ------------------------------------------------------------------------------------------
_ENV = None


def _init_worker(drv, workdir, policy, runner, gen_dir=None, crashing=()):
    global _ENV, RUN, GEN_DIR
    RUN = runner
    GEN_DIR = gen_dir
    CRASHING.clear()
    CRASHING.update(crashing)
    _ENV = Env(drv, workdir, policy)


def _probe_alone(job):
    """does this compile alone in a fresh process kill the process?"""
    mode, src = job
    r = run_script(_ENV.drv, _ENV.workdir, [step_line(["compile", 0, mode, src])])
    dead = not r.blocks or r.blocks[0].ret is None
    return mode, src, (sanitizer_key(r.san)[0] if r.san else "crash:rc=%d" % r.rc) if dead else None


def _work(job):
    idx, kind, seed, hist = job
    if hist is None:
        rng = random.Random(seed * 1000003 + idx * 7919 + 13)
        hist = gen_history(rng, kind)
    try:
        F, st = evaluate(_ENV, hist)
    except Exception as ex:      # a harness bug must not masquerade as a pass
        import traceback
        return idx, kind, hist, [finding("harness:exception", traceback.format_exc()[-1500:], correspondence=True)], {"ops": len(hist)}
    return idx, kind, hist, F, st


# ------------------------------------------------------------------------------------------
# the probe: which policy does the tree implement?  (+ the 300-call reproduction)
# ------------------------------------------------------------------------------------------
PROBE_HIST = [["compile", 0, "str", "faults"], ["vm_new", 0, 5000, 200],
              ["prepare", 0, "main", []], ["execute", 0, 0], ["execute", 0, 0], ["execute", 0, 0],
              ["prepare", 0, "divi", ["i:0"]], ["execute", 0, 0],
              ["prepare", 0, "chk", ["i:0"]], ["execute", 0, 0],
              ["prepare", 0, "main", []], ["execute", 0, 0]]


def probe_policy(drv, workdir):
    r = run_script(drv, workdir, [step_line(s) for s in PROBE_HIST])
    ex = [b for b in r.blocks if b.op[0] == "execute" and b.exe is not None]
    if len(ex) < 6:
        return None, r
    pop = ex[1].exe["after"] == ex[1].exe["before"] and ex[2].exe["after"] == ex[2].exe["before"]
    restore = ex[3].exe["after"] == ex[3].exe["before"] and ex[4].exe["after"] == ex[4].exe["before"]
    return (pop, restore), r


def repeat_probe(drv, workdir, n=300, stack=200):
    """N calls of main of corpus/C15/probe.nev on a <stack>-slot stack: sp after each call"""
    lines = ["compile_str 0 %s" % os.path.join(CORPUS, "probe.nev"), "vm_new 0 5000 %d" % stack, "prepare 0 main"]
    lines += ["execute 0 0"] * n
    r = run_script(drv, workdir, lines)
    ex = [b for b in r.blocks if b.op[0] == "execute" and b.exe is not None]
    return r, ex


# ------------------------------------------------------------------------------------------
def private_copy(src, dst, probe_input, lock):
    """build/ and .cache/ are shared and may be rebuilt/evicted by a concurrent bin/build-ocaml or bin/repobuild:
    work on copies, and make sure the copy runs"""
    last = ""
    for _ in range(8):
        try:
            with common.Lock(lock):
                shutil.copy2(src, dst)
            os.chmod(dst, 0o755)
            rc, so, se = common.sh([dst] + ([] if probe_input is not None else ["/nonexistent-script"]), timeout=30,
                                   input=probe_input)
            if (probe_input is not None and rc == 0) or (probe_input is None and rc == 2):
                return dst
            last = "probe exit code %d: %s" % (rc, se[-200:])
        except (OSError, IOError) as e:
            last = str(e)
        time.sleep(1.0)
    raise OSError("cannot obtain a working copy of %s: %s" % (src, last))


def measure_reinit_policy(repo):
    """the two policies of coq/VM/ApiGlobal.v as the tree's sources state them: the masks of feclearexcept / fetestexcept in
    libvm_execute_build_in (back/libvm.c) and whether the opening-quote rule of front/scanner.l allocates unconditionally"""
    allf = {"divbyzero", "invalid", "overflow", "underflow", "inexact"}

    def flagset(text):
        if "FE_ALL_EXCEPT" in text:
            return set(allf)
        return {f for f in allf if "FE_" + f.upper() in text}
    out = {}
    try:
        src = open(os.path.join(repo, "back", "libvm.c")).read()
        m = re.search(r"libvm_execute_build_in\s*\(.*?feclearexcept\s*\(([^)]*)\)", src, re.S)
        m2 = re.search(r"fetestexcept\s*\(([^)]*)\)", src[m.end():]) if m else None
        if m and m2:
            # every feclearexcept call of the prologue (function head up to the `switch`) counts: the mask may be cleared in several calls;
            # every fetestexcept call of the function counts: the flags may be read one by one into locals, in any order
            end = src.find("\n}\n", m.end())
            tested = " ".join(re.findall(r"fetestexcept\s*\(([^)]*)\)", src[m.end():end if end > 0 else len(src)]))
            out["cleared"], out["tested"] = sorted(flagset(" ".join(re.findall(r"feclearexcept\s*\(([^)]*)\)", re.split(r"\bswitch\b", src[m.start():m.end() + m2.start()])[0])))), sorted(flagset(tested))
            out["tested_subset_of_cleared"] = set(out["tested"]) <= set(out["cleared"])
    except OSError:
        pass
    try:
        lex = open(os.path.join(repo, "front", "scanner.l")).read()
        m = re.search(r'^\\"\s*\{(.*?)^\}', lex, re.S | re.M)
        if m:
            body = m.group(1)
            out["opening_quote_rule"] = " ".join(body.split())[:160]
            out["alloc_always"] = "string_new" in body and re.search(r"\bif\s*\(", body) is None
        m = re.search(r'^<C_STRING><<EOF>>\s*\{(.*?)^\}', lex, re.S | re.M)

        def frees(body):
            return "string_delete" in body and re.search(r"string_value\s*=\s*NULL", body) is not None
        # the rule frees the buffer itself, or calls `f()`, a parameterless function of this file whose body does:
        #   static void string_abandon(void) { parse_result = 1; if (string_value != NULL) { string_delete(string_value); string_value = NULL; } BEGIN(INITIAL); }
        freeing = [hm.group(1) for hm in re.finditer(r"^(?:static\s+)?(?:inline\s+)?void\s+(\w+)\s*\(\s*(?:void)?\s*\)\s*\{(.*?)^\}", lex, re.S | re.M)
                   if frees(hm.group(2))]
        out["eof_frees"] = bool(m and (frees(m.group(1)) or any(re.search(r"\b%s\s*\(\s*\)\s*;" % re.escape(h), m.group(1)) for h in freeing)))
        if freeing:
            out["string_freeing_helpers"] = freeing
        # the policy of coq/VM/ApiGlobalCwd.v: the two chdir(cwd) of fopen_path's search loop
        m = re.search(r"^FILE \* fopen_path\([^)]*\)\s*\{.*?^\}", lex, re.S | re.M)
        w = re.search(r"while \(\(path = strtok.*", m.group(0), re.S) if m else None
        found = re.search(r"if \(ffile != NULL\)\s*\{(.*?)break;", w.group(0), re.S) if w else None
        if found:
            # `chdir(cwd)` itself, or a call `f(cwd, ...)` of a function of this file whose body calls chdir exactly once, on its first
            # parameter:  static void restore_cwd(const char * cwd) { int ret = chdir(cwd); if (ret < 0) { <warning> } }
            restorers = []
            for hm in re.finditer(r"^(?:static\s+)?(?:inline\s+)?(?:void|int)\s+(\w+)\s*\(\s*(?:const\s+)?char\s*\*\s*(\w+)\s*[,)][^{;]*\{(.*?)^\}", lex, re.S | re.M):
                if hm.group(1) != "fopen_path" and re.search(r"\bchdir\s*\(\s*%s\s*\)" % re.escape(hm.group(2)), hm.group(3)) \
                        and len(re.findall(r"\bchdir\s*\(", hm.group(3))) == 1 and not re.search(r"\breturn\b[^;]*;[^}]*\bchdir\b", hm.group(3), re.S):
                    restorers.append(hm.group(1))
            back = re.compile(r"\bchdir\s*\(\s*cwd\s*\)" + "".join(r"|\b%s\s*\(\s*cwd\s*[,)]" % re.escape(h) for h in restorers))
            out["cwd_restore_on_found"] = back.search(found.group(1)) is not None
            out["cwd_restore_on_miss"] = back.search(w.group(0)[found.end():]) is not None
            if restorers:
                out["cwd_restore_helpers"] = restorers
    except OSError:
        pass
    return out


def runner_is_current():
    if not os.path.exists(RUN_BUILT):
        return False
    srcs = [os.path.join(common.COQ, "Extract", "ExtractApi.v"), os.path.join(common.COQ, "VM", "Api.vo"),
            os.path.join(common.VERIF, "harness", "ocaml", "api", "apirun.ml")]
    t = os.path.getmtime(RUN_BUILT)
    return all(os.path.exists(p) and os.path.getmtime(p) <= t for p in srcs)


def run(ctx):
    global RUN, GEN_DIR
    RUN = RUN_BUILT
    GEN_DIR = os.path.join(ctx.outdir, "gen")
    t0 = time.time()
    ctx.proofs()
    lib = common.repobuild("asan")
    ok, log = common.ocaml_build()
    if not ok and runner_is_current():
        ctx.notes["ocaml_build_failed_in_another_engine"] = log[-300:]     # bin/build-ocaml stops at the first failure
        ok = True
    if not ok or not os.path.exists(RUN_BUILT):
        ctx.correspondence_broken("ocaml-build", log[-2000:])
        return
    drv = common.cc_driver("apidrive", ["api/apidrive.c"], lib)
    replay_hist = None
    if getattr(ctx, "replay", None):
        try:
            replay_hist = json.load(open(ctx.replay))["history"]
        except (ValueError, KeyError, OSError) as e:
            ctx.correspondence_broken("replay-file-unreadable", str(e))
            return
    for fn in os.listdir(ctx.outdir):        # replay files of earlier runs
        if fn.startswith("replay_") or fn == "broken_obligations.json":
            os.unlink(os.path.join(ctx.outdir, fn))
    workdir = os.path.join(ctx.outdir, "work")
    shutil.rmtree(workdir, ignore_errors=True)
    os.makedirs(workdir)
    try:
        RUN = private_copy(RUN_BUILT, os.path.join(workdir, "apirun"), "POLICY 1 1\n", "ocaml")
        drv = private_copy(drv, os.path.join(workdir, "apidrive"), None, "cc.apidrive")
    except OSError as e:
        ctx.correspondence_broken("c15-binaries-unavailable", str(e))
        return
    # the two libraries the pool programs ffi / ffi2 call into (found through LD_LIBRARY_PATH, see run_script)
    os.makedirs(os.path.join(workdir, "ffilib"))
    for nm in ("c15ffi_a", "c15ffi_b"):
        rc, so, se = common.sh(["gcc", "-O0", "-w", "-shared", "-fPIC", "-o", os.path.join(workdir, "ffilib", nm + ".so"),
                                os.path.join(common.VERIF, "harness", "api", nm + ".c")], timeout=120)
        if rc != 0:
            ctx.correspondence_broken("c15-ffi-library-does-not-build", se[-800:])
            return
    ctx.coverage["partial"] = ("compile determinism/isolation (flex/bison/utils.c globals) is correspondence-only: no Gallina "
                               "model expresses that state; proved part = the VM/API bookkeeping of VM/Api.v")
    ctx.coverage["trusted_base"] = ctx.coverage.get("trusted_base", []) + [
        "Section variables gdepth/init/exec of VM/Api.v stand for the instruction-level VM (back/vmexec.c dispatch loop); "
        "assumed of it: a run of the entry stub that reaches HALT or the unhandled-exception stub leaves exactly one slot "
        "above its starting sp (frame discipline covered by property C07's verifier theorem); replayed from the real "
        "trace in the correspondence run"]

    # ---- probe: policy of the tree ------------------------------------------------------------
    policy, pr = probe_policy(drv, workdir)
    if policy is None:
        ctx.correspondence_broken("policy-probe", {"error": "probe history did not run", "rc": pr.rc,
                                                   "sanitizer": pr.san[:1500], "stderr": pr.stderr[-800:]})
        policy = (False, False)
    ctx.coverage["policy_measured"] = {"pop_at_halt": policy[0], "restore_on_error": policy[1]}
    ctx.coverage["theorem_in_force"] = (
        "execute_stack_neutral (+ execute_uses_no_more_stack_than_first)" if policy == (True, True) else
        "execute_stack_neutral_partial; execute_stack_neutral_after_error_refuted applies" if policy[0] else
        "execute_stack_neutral_refuted / no_pop_leaks_one_slot_per_call / pinned_policy_dies_at_call_162 apply")
    env = Env(drv, workdir, policy)

    # ---- tie of Properties_C15b.v: does every operation re-initialise the process-global state it reads? ----------
    rp = measure_reinit_policy(common.REPO)
    ctx.coverage["process_state_policy_measured(VM/ApiGlobal.v)"] = rp
    if rp.get("tested_subset_of_cleared") is None or rp.get("alloc_always") is None:
        ctx.correspondence_broken("process-state-policy-not-measurable", rp)
    elif rp.get("cwd_restore_on_found") is None:
        ctx.correspondence_broken("process-state-policy-not-measurable(fopen_path)", rp)
    elif not (rp["cwd_restore_on_found"] and rp["cwd_restore_on_miss"]):
        ctx.correspondence_broken("process-state-cwd-hypothesis(Properties_C15c.process3_history_as_in_fresh_process)",
                                  {"measured": rp, "meaning": "fopen_path does not satisfy `cwd_restoring`: by working_directory_restore_necessary "
                                   "a history exists whose last compile differs from a fresh process; the never-path family searches for it"})
    elif not (rp["tested_subset_of_cleared"] and (rp["alloc_always"] or rp.get("eof_frees"))):
        ctx.correspondence_broken("process-state-reinit-hypothesis(Properties_C15b.process_history_as_in_fresh_process)",
                                  {"measured": rp, "meaning": "the tree does not satisfy `reinitialises`: by process_reinit_necessary a "
                                   "history exists whose last operation differs from a fresh process; the residue family searches for it"})

    # the 300-call reproduction: real API vs extracted model
    rr, ex = repeat_probe(drv, workdir)
    rep = {"calls_requested": 300, "stack": 200, "calls_returned": sum(1 for b in ex if not b.exit),
           "died_in_call": next((n + 1 for n, b in enumerate(ex) if b.exit), None),
           "sp_after_first_calls": [b.exe["after"] for b in ex[:5]],
           "sp_before_last_call": ex[-1].exe["before"] if ex else None}
    if ex and ex[0].exe["entrysp"] is not None:
        rel = ex[0].exe["speak"] - ex[0].exe["entrysp"]
        ml = ["POLICY %d %d" % (int(policy[0]), int(policy[1])), "VM 0 200",
              "INIT 0 ok %d %d" % (ex[0].exe["entrysp"] + 1, ex[0].exe["ipeak"] + 1)] + ["CALL 0 H %d" % rel] * 300
        pred = run_model(ml) or []
        mdied = next((n + 1 for n, x in enumerate(pred) if x[2] == "D"), None)
        rep.update({"gdepth": ex[0].exe["entrysp"] + 1, "relative_peak_of_main": rel, "model_died_in_call": mdied})
        if mdied != rep["died_in_call"]:
            ctx.correspondence_broken("api-model-vs-nev_execute(300 calls)", rep)
    ctx.coverage["repeat_300_calls_on_200_slots"] = rep

    # ---- which compiles kill the process even alone?  (C05's business; the generators avoid them) -------------------
    CRASHING.clear()
    rrng = random.Random(ctx.seed * 7919 + 15)
    names = sorted(set(INVALID) | set(op[1] for op in residue_ops(rrng) if op[0] == "compile"))
    with multiprocessing.Pool(NPROC, initializer=_init_worker, initargs=(drv, workdir, policy, RUN, GEN_DIR)) as pool:
        probed = pool.map(_probe_alone, [(m, x) for x in names for m in ("str", "file")], chunksize=4)
    alone = {}
    for m, x, k in probed:
        if k is not None:
            CRASHING.add((m, x))
            alone.setdefault(k, []).append("%s:%s" % (m, x))
    ctx.coverage["compiles_that_crash_alone(left to C05, avoided by the generators)"] = {k: v[:6] + (["... %d in all" % len(v)] if len(v) > 6 else [])
                                                                                          for k, v in alone.items()}

    # ---- histories ---------------------------------------------------------------------------
    quick = ctx.tier == "quick"
    plan = ([("mixed", 90), ("compile", 50), ("twovm", 30), ("repeat", 16), ("residue", 40), ("reprepare", 30), ("failfirst", 30)] if quick else
            [("mixed", 5000), ("compile", 2500), ("twovm", 1800), ("repeat", 500), ("residue", 2500), ("reprepare", 1500), ("failfirst", 1500)])
    jobs = []
    n = 0
    # corpus first
    corpus = []
    if os.path.isdir(CORPUS):
        for fn in sorted(os.listdir(CORPUS)):
            if fn.endswith(".json"):
                try:
                    h = json.load(open(os.path.join(CORPUS, fn)))["history"]
                    if valid_history(h):
                        corpus.append((fn, h))
                except (ValueError, KeyError):
                    pass
    for fn, h in corpus:
        jobs.append((n, "corpus:" + fn, ctx.seed, h)); n += 1
    if replay_hist is not None:
        jobs, plan, n = [(0, "replay", ctx.seed, replay_hist)], [], 1
    else:
        jobs.append((n, "probe", ctx.seed, PROBE_HIST)); n += 1
    residue_info = {}
    if replay_hist is None:
        # the systematic residue family: one history per (operation that leaves process-global state x first observer)
        rrng = random.Random(ctx.seed * 7919 + 15)
        rops = residue_ops(rrng)
        fam = residue_histories(random.Random(ctx.seed * 7919 + 15))
        for h in fam:
            jobs.append((n, "residue-systematic", ctx.seed, h)); n += 1
        tcls = dict(TRUNCATED)
        by = {}
        for op in rops:
            if op[0] == "host":
                k = "host-raises:" + op[1]
            elif op[0] == "run":
                k = "run-time:%s.%s" % (op[1], op[2])
            elif op[1].startswith("T."):
                k = "input-ends-in:" + (tcls.get(op[1]) or scan_classes(pool_text(op[1].split(".")[1]))[int(op[1].split(".")[2])])
            elif op[1] in VALID:
                k = "compile-time-fold:" + op[1]
            else:
                k = "failing-compile:" + op[1]
            by[k] = by.get(k, 0) + 1
        residue_info = {"operations": len(rops), "histories": len(fam), "by_operation": by,
                        "observer_sources": OBSERVER_SOURCES, "observer_calls_of_fpb": [e for e, _ in OBSERVER_CALLS]}
    family_info = {}
    if replay_hist is None:
        frng = random.Random(ctx.seed * 7919 + 16)
        fam = ffi_histories(frng)
        if quick and len(fam) > 60:
            # every (program, failing entry, scenario) stays; the repeat counts are thinned
            keep = [h for i, h in enumerate(fam) if i % 2 == 0 or i % 12 in (1, 3)]
            fam = keep
        for h in fam:
            jobs.append((n, "ffi-failure-then-valid", ctx.seed, h)); n += 1
        pfam = path_histories(frng)
        for h in pfam:
            jobs.append((n, "never-path", ctx.seed, h)); n += 1
        family_info = {"ffi-failure-then-valid": len(fam), "never-path": len(pfam), "NEVER_PATH_values": NPATHS,
                       "ffi_failing_entries": FFI_FAILING}
    for kind, cnt in plan:
        for _ in range(cnt):
            jobs.append((n, kind, ctx.seed, None)); n += 1

    results = []
    with multiprocessing.Pool(NPROC, initializer=_init_worker, initargs=(drv, workdir, policy, RUN, GEN_DIR, sorted(CRASHING))) as pool:
        for res in pool.imap_unordered(_work, jobs, chunksize=2):
            results.append(res)
    results.sort(key=lambda x: x[0])

    tot = {"histories": 0, "ops": 0, "compiles": 0, "executes": 0, "nontrivial": 0, "model_calls": 0,
           "model_skipped": 0, "primed": 0, "replayed_vms": 0, "refused": 0, "referenced": 0, "crash_same_as_alone": 0, "heap_exhausted": 0}
    classes, kinds, distinct = {}, {}, set()
    first = {}      # key -> (hist, finding)
    for idx, kind, hist, F, st in results:
        tot["histories"] += 1
        kinds[kind.split(":")[0]] = kinds.get(kind.split(":")[0], 0) + 1
        for k in tot:
            if k in st:
                tot[k] += st[k]
        for c, v in st.get("classes", {}).items():
            classes[c] = classes.get(c, 0) + v
        canon = json.dumps(hist, sort_keys=True)
        if st.get("nontrivial") and canon not in distinct:
            distinct.add(canon)
        for f in F:
            if f["key"] not in first or len(hist) < len(first[f["key"]][0]):
                first[f["key"]] = (hist, f)
    # the entry-point table nev_prepare* looks functions up in ("any mix of its entry points"):
    # coq/Hash/FuncTabStatements.v + correspondence with back/functab.c across collisions and growth
    try:
        from checks.parts import hashtab
        ft = hashtab.run_functab(ctx)
        ctx.notes["functab"] = {k: v for k, v in ft.items() if k in ("evaluations", "nontrivial", "size_used_by_module_new", "rule", "cases", "operations")}
    except common.BuildError:
        raise
    except Exception as ex:
        ctx.correspondence_broken("functab-part-crashed", repr(ex)[:400])
    ctx.count(evaluations=tot["histories"], nontrivial=len(distinct))
    ctx.coverage["rule"] = ("API histories from VERIF_SEED over corpus/C15/pool (%d valid multi-entry programs, %d invalid sources of which %d "
                            "are pool sources cut off in each scanner situation, a missing file): kinds mixed / compile-heavy / two "
                            "VMs of one program / 1..300 repeated executes / process-global residue (one operation that leaves the "
                            "IEEE status flags or the scanner statics dirty, then observers: math built-ins, printing, compiles of "
                            "sources with string literals/comments/use); foreign calls failing in the FFI layer followed by valid "
                            "calls into the same library (same VM / other live VM / after vm_delete / second program), "
                            "NEVER_PATH values x compile modes followed by compiles of relative file names (the working "
                            "directory is recorded after every operation and must never move); " % (len(VALID), len(INVALID), len(TRUNCATED)) +
                            "non-trivial = a history with >= 2 compiles or a VM executed >= 2 times")
    ctx.coverage["process_global_residue_family"] = residue_info
    ctx.coverage["ffi_and_module_path_families"] = family_info
    ctx.coverage["generator"] = {"kinds": kinds, "totals": tot, "outcome_classes_of_executes(H=result,U=unhandled,A=assert,"
                                 "I=init failed,D=process exit)": classes}
    for idx, kind, hist, F, st in results[:400]:
        if kind == "mixed" and st.get("executes", 0) >= 3 and st.get("compiles", 0) >= 2:
            ctx.sample({"history": [step_line(s).replace(POOLDIR + "/", "") for s in hist][:14], "ops": len(hist),
                        "findings": sorted({f["key"] for f in F})}, limit=3)

    # ---- report: shrink the first history of every key ----------------------------------------
    deadline = time.time() + (25 if quick else 120)
    for key in sorted(first):
        hist, f = first[key]
        if f.get("correspondence"):
            ctx.correspondence_broken(key, {"what": f["what"], "history": [step_line(s) for s in hist][:60],
                                            "detail": {k: v for k, v in f.items() if k not in ("key", "what")}})
            continue
        small = hist
        if time.time() < deadline and len(hist) > 3:
            try:
                small = shrink(env, hist, key, budget=60 if quick else 150)
            except Exception:
                small = hist
        Fs, _ = evaluate(env, small, want=key)
        f2 = Fs[0] if Fs else f
        ctx.violation(key, f2["what"], {
            "history": small, "script": [step_line(s) for s in small],
            "truncated_sources": {s[3]: source_text(s[3]).decode("latin-1") for s in small if s[0] == "compile" and s[3].startswith("T.")},
            "replay_cmd": "cd %s && <bin/repobuild asan>/apidrive <file with the script lines>" % POOLDIR,
            "detail": {k: v for k, v in f2.items() if k not in ("key", "what")},
            "policy_measured": {"pop_at_halt": policy[0], "restore_on_error": policy[1]},
            "original_length": len(hist)})
    shutil.rmtree(workdir, ignore_errors=True)
    ctx.coverage["check_wall_s"] = round(time.time() - t0, 1)
