"""Run batches of Never programs through harness/common/nevrun.c and classify the outcomes
(the outcome classes of property C01)."""
import os
import re
import subprocess
import tempfile

from lib import common

SAMPLE_DIR = os.path.join(common.REPO, "sample")


def build(variant="asan"):
    lib = common.repobuild(variant)
    return common.cc_driver("nevrun", ["common/nevrun.c"], lib)


def make_batch(cases):
    """cases: list of dict(id, src, entry?, mem?, stack?, args?, compile_only?) -> batch text"""
    parts = []
    for c in cases:
        hdr = "@@@ %s" % c["id"]
        if c.get("entry"):
            hdr += " entry=%s" % c["entry"]
        if c.get("mem"):
            hdr += " mem=%d" % c["mem"]
        if c.get("stack"):
            hdr += " stack=%d" % c["stack"]
        if c.get("args"):
            hdr += " args=" + ",".join(str(a) for a in c["args"])
        if c.get("compile_only"):
            hdr += " compile-only"
        src = c["src"]
        if not src.endswith("\n"):
            src += "\n"
        parts.append(hdr + "\n" + src)
    return "".join(parts)


BEGIN = re.compile(r"^@@BEGIN (\S+)$")
OUTC = re.compile(r"^@@OUTCOME (\S+) (\S+) ?(.*)$")
END = re.compile(r"^@@END (\S+) status=(.*)$")


def parse(output):
    """-> dict id -> dict(text, kind, detail, status)"""
    res, cur = {}, None
    for line in output.splitlines():
        m = BEGIN.match(line)
        if m:
            cur = {"text": [], "kind": None, "detail": "", "status": None}
            res[m.group(1)] = cur
            continue
        if cur is None:
            continue
        m = OUTC.match(line)
        if m:
            cur["kind"], cur["detail"] = m.group(2), m.group(3)
            continue
        m = END.match(line)
        if m:
            cur["status"] = m.group(2)
            cur["text"] = "\n".join(cur["text"])
            cur = None
            continue
        cur["text"].append(line)
    for v in res.values():
        if isinstance(v["text"], list):
            v["text"] = "\n".join(v["text"])
            v["status"] = v["status"] or "truncated"
    return res


def run_batch(drv, cases, timeout_per=10, cwd=None, env=None, total_timeout=None):
    fd, path = tempfile.mkstemp(prefix="nvbatch.", dir="/var/tmp")
    with os.fdopen(fd, "w") as f:
        f.write(make_batch(cases))
    e = dict(os.environ, ASAN_OPTIONS="detect_leaks=0:abort_on_error=0:allocator_may_return_null=1",
             UBSAN_OPTIONS="print_stacktrace=0", NEVER_PATH="%s/lib:%s" % (SAMPLE_DIR, SAMPLE_DIR))
    if env:
        e.update(env)
    try:
        p = subprocess.run([drv, "--timeout", str(timeout_per), "--batch", path], stdout=subprocess.PIPE,
                           stderr=subprocess.STDOUT, stdin=subprocess.DEVNULL, cwd=cwd or SAMPLE_DIR, env=e,
                           timeout=total_timeout or (timeout_per * len(cases) + 60))
        out = p.stdout.decode(errors="replace")
    except subprocess.TimeoutExpired as ex:
        out = (ex.stdout or b"").decode(errors="replace")
    finally:
        os.unlink(path)
    return parse(out)


def classify(r):
    """Outcome class of property C01 for one parsed nevrun record:
    result | unhandled:<name> | assert | limit:stack | limit:heap | compile_error | prepare_error |
    timeout | CRASH:<what>   (CRASH = the host process misbehaved: a C01 violation)"""
    text = r["text"]
    if "AddressSanitizer" in text or "runtime error:" in text or "LeakSanitizer" in text:
        m = re.search(r"(ERROR: AddressSanitizer: [a-zA-Z-]+|runtime error: [^\n]{0,80})", text)
        where = re.search(r"#\d+ 0x[0-9a-f]+ in (\S+) (\S+)", text)
        return "CRASH:sanitizer:" + (m.group(1) if m else "report") + (" in " + where.group(1) if where else "")
    st = r["status"]
    if st == "timeout":
        return "timeout"
    if st and st.startswith("signal"):
        m = re.search(r"Assertion `([^']*)' failed", text)
        return "CRASH:" + st + (":assert(%s)" % m.group(1)[:60] if m else "")
    if r["kind"] == "RESULT":
        return "result"
    if r["kind"] in ("COMPILE_ERROR", "COMPILED"):
        return "compile_error" if r["kind"] == "COMPILE_ERROR" else "compiled"
    if r["kind"] == "PREPARE_ERROR":
        return "prepare_error"
    if r["kind"] == "EXEC_ERROR":
        m = re.search(r"unhandled (\S+) exception", text)
        if m:
            return "unhandled:" + m.group(1)
        if "assert failed" in text:
            return "assert"
        return "CRASH:exec-error-without-report"
    if st == "1" and "stack too large" in text:
        return "limit:stack"
    if st == "1" and "out of memory" in text:
        return "limit:heap"
    return "CRASH:exit-status-%s-without-report" % st
