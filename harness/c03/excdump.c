/* excdump — harness/vm/bcdump.c (same options, same output) with one addition for the C03
 * block-boundary test: environment variable
 *
 *     C03_SPLIT=<addr>[,<addr>...]
 *
 * splits, after compilation and before the module is dumped and run, the exception-table block
 * containing each <addr> at <addr>: a new entry (<addr>, H0) is inserted, H0 = the handler of the
 * first entry (the unhandled stub).  With <addr> = a + 1 for an address a at which the program
 * faults, the faulting instruction becomes the LAST address of its block: the VM must still look
 * the handler up for a (ip - 1 after the increment), not for a + 1.  The dump shows the patched
 * table, so the shape machine (vrun LOCKSTEP) predicts the handler of a from the same table.
 *
 * Implementation: bcdump.c is included textually with its call of nev_compile_file redirected.
 */
#define _GNU_SOURCE
#include <stdio.h>
#include <stdlib.h>
#include <string.h>
#include "nev.h"
#include "module.h"
#include "exctab.h"

static int c03_compile_file(const char * file, program * prog);

#define nev_compile_file c03_compile_file
#include "../vm/bcdump.c"
#undef nev_compile_file

static void c03_split(module * m, unsigned int addr)
{
    exctab * old = m->exctab_value;
    unsigned int i, n = old->count;
    unsigned int h0;
    exctab * nt;
    if (n == 0) return;
    h0 = old->tab[0].handler_addr;
    for (i = 0; i < n; i++) if (old->tab[i].block_addr == addr) return;   /* already a boundary */
    if (addr < old->tab[0].block_addr) return;
    nt = exception_tab_new(n + 8);
    for (i = 0; i < n; i++)
    {
        exception_tab_insert(nt, old->tab[i].block_addr, old->tab[i].handler_addr);
        if (old->tab[i].block_addr < addr && (i + 1 == n || addr < old->tab[i + 1].block_addr))
        {
            exception_tab_insert(nt, addr, h0);
        }
    }
    exception_tab_delete(old);
    m->exctab_value = nt;
}

static int c03_compile_file(const char * file, program * prog)
{
    int ret = nev_compile_file(file, prog);
    const char * sp = getenv("C03_SPLIT");
    if (ret == 0 && sp != NULL && prog->module_value != NULL)
    {
        char * dup = strdup(sp);
        char * tok = strtok(dup, ",");
        while (tok != NULL)
        {
            c03_split(prog->module_value, (unsigned int)strtoul(tok, NULL, 10));
            tok = strtok(NULL, ",");
        }
        free(dup);
    }
    return ret;
}
