(* Arith/NumTy.v — vocabulary shared by the arithmetic models and the REGENERATED tables
   (Gen/ConvTables.v, Gen/OpSelect.v): scalar types, operators, conversions, VM opcodes of the
   arithmetic fragment.  Definitions only.

   Anchors: front/expr.h (comb_type, conv_type, expr_type), back/bytecode.h (bytecode_type). *)
From Coq Require Import ZArith Bool List String.
Import ListNotations.

(* comb_type restricted to the scalars the arithmetic operators admit.  An enum type here is an
   *item* enum (ENUMTYPE_TYPE_ITEM): its values are ints at run time. *)
Inductive ty := TInt | TLong | TFloat | TDouble | TBool | TChar | TString | TEnum.

Definition ty_eqb (a b : ty) : bool :=
  match a, b with
  | TInt, TInt | TLong, TLong | TFloat, TFloat | TDouble, TDouble
  | TBool, TBool | TChar, TChar | TString, TString | TEnum, TEnum => true
  | _, _ => false
  end.

Definition all_ty : list ty := [TInt; TLong; TFloat; TDouble; TBool; TChar; TString; TEnum].
Definition num_ty : list ty := [TInt; TLong; TFloat; TDouble].

Definition is_num (t : ty) : bool :=
  match t with TInt | TLong | TFloat | TDouble => true | _ => false end.

(* the promotion order int < long < float < double *)
Definition rank (t : ty) : nat :=
  match t with TInt => 0 | TLong => 1 | TFloat => 2 | TDouble => 3 | _ => 4 end.

Definition join (a b : ty) : ty := if Nat.leb (rank a) (rank b) then b else a.

(* conv_type (front/expr.h) / BYTECODE_<A>_TO_<B> *)
Inductive conv := I2L | I2F | I2D | L2I | L2F | L2D | F2I | F2L | F2D | D2I | D2L | D2F.

Definition conv_eqb (a b : conv) : bool :=
  match a, b with
  | I2L, I2L | I2F, I2F | I2D, I2D | L2I, L2I | L2F, L2F | L2D, L2D
  | F2I, F2I | F2L, F2L | F2D, F2D | D2I, D2I | D2L, D2L | D2F, D2F => true
  | _, _ => false
  end.

Definition conv_src (c : conv) : ty :=
  match c with
  | I2L | I2F | I2D => TInt | L2I | L2F | L2D => TLong
  | F2I | F2L | F2D => TFloat | D2I | D2L | D2F => TDouble
  end.

Definition conv_dst (c : conv) : ty :=
  match c with
  | L2I | F2I | D2I => TInt | I2L | F2L | D2L => TLong
  | I2F | L2F | D2F => TFloat | I2D | L2D | F2D => TDouble
  end.

(* the conversion from a to b, if they differ and both are numeric *)
Definition conv_of (a b : ty) : option conv :=
  match a, b with
  | TInt, TLong => Some I2L | TInt, TFloat => Some I2F | TInt, TDouble => Some I2D
  | TLong, TInt => Some L2I | TLong, TFloat => Some L2F | TLong, TDouble => Some L2D
  | TFloat, TInt => Some F2I | TFloat, TLong => Some F2L | TFloat, TDouble => Some F2D
  | TDouble, TInt => Some D2I | TDouble, TLong => Some D2L | TDouble, TFloat => Some D2F
  | _, _ => None
  end.

Definition oconv_eqb (a b : option conv) : bool :=
  match a, b with
  | None, None => true
  | Some x, Some y => conv_eqb x y
  | _, _ => false
  end.

(* binary operators of expr_type; And/Or are the short-circuit boolean operators *)
Inductive binop :=
  | Add | Sub | Mul | Div | Mod
  | OLt | OGt | OLe | OGe | OEq | ONe
  | And | Or
  | BAnd | BOr | BXor | Shl | Shr.

Definition binop_eqb (a b : binop) : bool :=
  match a, b with
  | Add, Add | Sub, Sub | Mul, Mul | Div, Div | Mod, Mod
  | OLt, OLt | OGt, OGt | OLe, OLe | OGe, OGe | OEq, OEq | ONe, ONe
  | And, And | Or, Or
  | BAnd, BAnd | BOr, BOr | BXor, BXor | Shl, Shl | Shr, Shr => true
  | _, _ => false
  end.

Definition all_binop : list binop :=
  [Add; Sub; Mul; Div; Mod; OLt; OGt; OLe; OGe; OEq; ONe; And; Or; BAnd; BOr; BXor; Shl; Shr].

Inductive unop := Neg | Not | BNot.

Definition unop_eqb (a b : unop) : bool :=
  match a, b with Neg, Neg | Not, Not | BNot, BNot => true | _, _ => false end.

Definition all_unop : list unop := [Neg; Not; BNot].

Definition is_arith (o : binop) : bool :=
  match o with Add | Sub | Mul | Div => true | _ => false end.
Definition is_cmp (o : binop) : bool :=
  match o with OLt | OGt | OLe | OGe | OEq | ONe => true | _ => false end.
Definition is_bitop (o : binop) : bool :=
  match o with BAnd | BOr | BXor | Shl | Shr => true | _ => false end.

(* VM opcodes of the arithmetic fragment, as the tree's bytecode printer names them:
   "op add int" = VBin Add TInt, "op bin shl long" = VBin Shl TLong, "op neg float" =
   VUn Neg TFloat, "int to long" = VConv I2L, "op ass double" = VAss TDouble,
   "op add int string" = VCat TInt TString; anything else the probes meet is VOther. *)
Inductive vmop :=
  | VBin (o : binop) (t : ty)
  | VUn (o : unop) (t : ty)
  | VConv (c : conv)
  | VAss (t : ty)
  | VCat (l r : ty)
  | VOther (name : string).

Definition vmop_eqb (a b : vmop) : bool :=
  match a, b with
  | VBin o t, VBin o' t' => binop_eqb o o' && ty_eqb t t'
  | VUn o t, VUn o' t' => unop_eqb o o' && ty_eqb t t'
  | VConv c, VConv c' => conv_eqb c c'
  | VAss t, VAss t' => ty_eqb t t'
  | VCat l r, VCat l' r' => ty_eqb l l' && ty_eqb r r'
  | VOther n, VOther n' => String.eqb n n'
  | _, _ => false
  end.

Definition ovmop_eqb (a b : option vmop) : bool :=
  match a, b with
  | None, None => true
  | Some x, Some y => vmop_eqb x y
  | _, _ => false
  end.

(* ---- rows of the REGENERATED tables (gen/gen_convtables.py) ---------------------------

   Typing rows (Gen/ConvTables.v).  For `var a = <lit l>; var b = <lit r>; var x = a OP b`
   the tree's compiler either rejects the program in the typechecker (accepted = false) or
   accepts it.  res is the static type of the expression when it could be observed (opcode of
   a following `x = x`, acceptance of `-> bool`); cl / cr are the conversion opcodes found
   after the loads of the left / right operand.  When the compiler aborts in front/emit.c
   (assert(0)) after a successful typecheck nothing but bool-ness of the result is observable:
   res = Some TBool or None. *)
Record bin_row := {
  br_op : binop; br_l : ty; br_r : ty;
  br_accepted : bool;
  br_res : option ty;
  br_cl : option conv;
  br_cr : option conv
}.

(* `var x = <lit l>; var y = <lit r>; x = y` *)
Record ass_row := {
  ar_l : ty; ar_r : ty;
  ar_accepted : bool;
  ar_conv : option conv
}.

(* `var a = <lit t>; var x = OP a` *)
Record un_row := {
  ur_op : unop; ur_t : ty;
  ur_accepted : bool;
  ur_res : option ty
}.

(* Opcode rows (Gen/OpSelect.v): what the emitter produced for the operator itself. *)
Inductive emit_obs :=
  | EmitOp (v : vmop)     (* exactly one instruction *)
  | EmitJumps             (* && || : JUMPZ/JUMP/LABEL sequence, no operator opcode *)
  | EmitAbort             (* typecheck passed, the compiler died in front/emit.c *)
  | EmitNone.             (* rejected before emission *)

Definition emit_obs_eqb (a b : emit_obs) : bool :=
  match a, b with
  | EmitOp x, EmitOp y => vmop_eqb x y
  | EmitJumps, EmitJumps | EmitAbort, EmitAbort | EmitNone, EmitNone => true
  | _, _ => false
  end.

Record binop_row := { bo_op : binop; bo_l : ty; bo_r : ty; bo_emit : emit_obs }.
Record unop_row := { uo_op : unop; uo_t : ty; uo_emit : emit_obs }.
Record assop_row := { ao_l : ty; ao_r : ty; ao_emit : emit_obs }.
