(* zmain — driver of the compile tie (checks/parts/compiletie.py), engine compile4 (level 4: closures).

     run gen <seed> <first> <n> <dir> <level>
        for case i = first .. first+n-1 (choices derived from (seed, i) only): generate a program of
        the fragment (level 1: F1, 2: F2, 3: F3 = several top-level functions, recursion, self tail
        calls, 5: F5 = F3 + catch clauses), write <dir>/c<i>.nev (pretty-printed source) and append to <dir>/model.txt
            @@CASE <i> level=<l> in_fragment=<0|1> in_proved=<0|1> nparams=<k> args=<a1>,<a2>,…
                 in_fragment = the tie's predicate prog_in_F4, in_proved = the fragment predicate of the level's theorem
            C <opcode number> <w0> <w1>     one per instruction of the model's WHOLE module image
                                            (compile_program: prelude, entry stub, stdlib bodies,
                                            the program's functions; linked)
            X <block addr> <handler addr>   the model's exception table (exc_table)
            M entry=<code_entry> main=<address of the entry function>
            V <result> peak=<largest flat stack length> steps=<instructions executed>
                 result = ret <z> [printed,…] | exc <name> [printed,…] | fuel | stuck
                                            ValueVM (VM/ValueVM.v run_vm_peak) from the entry stub
            E ret <z> [printed,…] | exc <name> [printed,…] | fuel | stuck
                                            reference evaluator (Src/Eval.v run_program)
            @@END
   Everything is computed by functions extracted from Coq (compile_program, exc_table, run_vm_peak,
   run_program, prog_in_F, N_of_opcode); this file only generates, prints and formats. *)
open Compilemodel
open Conv

let csv l = String.concat "," (List.map (fun z -> string_of_int (int_of_z z)) l)

let vres_str = function
  | VRet (z, pr) -> Printf.sprintf "ret %d [%s]" (int_of_z z) (csv pr)
  | VExc (e, pr) -> Printf.sprintf "exc %s [%s]" (exn_name e) (csv pr)
  | VFuel -> "fuel"
  | VStuck -> "stuck"

let outcome_str = function
  | OResult (CInt z, pr) -> Printf.sprintf "ret %d [%s]" (int_of_z z) (csv pr)
  | OResult (CBool b, pr) -> Printf.sprintf "ret %d [%s]" (if b then 1 else 0) (csv pr)
  | OResult (_, _) -> "stuck"
  | OUnhandled (e, pr) -> Printf.sprintf "exc %s [%s]" (exn_name e) (csv pr)
  | OFuel -> "fuel"
  | OStuck -> "stuck"

let gen_case oc dir seed level i =
  let rng = Rng.derive seed i in
  let st = { Cgen.rng; next = 1; level; fuelv = 3; funs = []; acc = 0; mult = 1; limit = 4000; clf = 0 } in
  let prog, np = Cgen.gen_program st in
  let src = Pp.print_program prog in
  let f = open_out (Filename.concat dir (Printf.sprintf "c%d.nev" i)) in
  output_string f src; close_out f;
  let args = List.init np (fun _ -> Cgen.small_int st) in
  let code = compile_program prog in
  (* the fragment predicate of the THEOREM of this level: 4 -> compile_program_correct_F4 (prog_in_P 5 || prog_in_P 6),
     7 -> F7 (prog_in_P 7), 8 -> F8 (prog_in_P 8) *)
  let proved =
    match level with
    | 4 -> prog_in_P (nat_of_int 5) prog || prog_in_P (nat_of_int 6) prog
    | l -> prog_in_P (nat_of_int l) prog in
  Printf.fprintf oc "@@CASE %d level=%d in_fragment=%d in_proved=%d nparams=%d args=%s\n" i level
    (if prog_in_F (nat_of_int level) prog then 1 else 0) (if proved then 1 else 0) np (String.concat "," (List.map string_of_int args));
  List.iter (fun ins ->
      Printf.fprintf oc "C %d %d %d\n" (int_of_n (n_of_opcode ins.r_op)) (int_of_z ins.r_w0) (int_of_z ins.r_w1)) code;
  List.iter (fun (b, h) -> Printf.fprintf oc "X %d %d\n" (int_of_nat b) (int_of_nat h)) (exc_table prog);
  Printf.fprintf oc "M entry=%d main=%d\n" (int_of_nat (code_entry prog)) (int_of_nat (main_addr prog));
  let zargs = List.map z_of_int args in
  let (r, (pk, steps)) = run_vm_peak prog (nat_of_int 400000) zargs in
  Printf.fprintf oc "V %s peak=%d steps=%d\n" (vres_str r) (int_of_nat pk) (int_of_nat steps);
  Printf.fprintf oc "E %s\n" (outcome_str (run_program (nat_of_int 30000) prog zargs));
  Printf.fprintf oc "@@END\n"

let () =
  match Array.to_list Sys.argv with
  | [_; "gen"; seed; first; n; dir; level] ->
    let seed = int_of_string seed and first = int_of_string first and n = int_of_string n
    and level = int_of_string level in
    let oc = open_out (Filename.concat dir "model.txt") in
    for i = first to first + n - 1 do gen_case oc dir seed level i done;
    close_out oc
  | _ -> prerr_endline "usage: run gen <seed> <first> <n> <dir> <level>"; exit 2
