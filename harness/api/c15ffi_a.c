/* c15ffi_a.so — the library the pool programs ffi.nev / ffi2.nev of property C15 call into (built by checks/c15.py
   into its work directory, found through LD_LIBRARY_PATH).  Deliberately without the symbols c15_missing / c15_absent. */
#include <string.h>
int c15_twice(int x) { return 2 * x; }
int c15_thrice(int x) { return 3 * x; }
int c15_slen(const char * s) { return s ? (int)strlen(s) : -99; }
