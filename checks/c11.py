"""C11 — fixed-width numbers and the promotion order.

Proof obligations: theorems of coq/Properties/Properties_C11.v (tables + values) and the tie
obligations `table:*` (hand-written typing/emission model = tables regenerated from the
tree's compiler, completely enumerated).
Correspondence / search: one-expression probe programs run on the code built from /repo's
current tree.  The property is about the language's numbers whatever the syntactic form of an
operand, so every (operator, type pair, value pair) case is evaluated in ALL OPERAND FORMS
(type pairs over int, long, float, double and item enumerators, which are ints at run time):
  var-var   both operands in variables (nothing is reduced: the VM's handlers)
  lit-lit   both operands literal (front/constred.c reduces the whole expression)
  lit-var / var-lit   one literal operand (the inserted conversion of the literal is reduced)
  enum-init (int x int and unary int only) the expression as an enumerator initialiser,
            `enum E { k = <expr> }` read back (front/enumred.c, the third evaluator)
and likewise assignments (`x = <literal>` / `x = <variable>`) and concatenations.
ARRAY FORMS of the operators (`- a`, `a + b`, `a - b`, scalar `s * a`, matrix product `a * b`
on int/long/float/double arrays, 1-D and 2-D, literal-built / variable-built / computed arrays):
every element of the result against the scalar operators applied to the elements (a second
program, metamorphic), pyref and the Coq model on the element tree (key
`array:<op>:<element type>:<1-D|2-D|matrix-product>[:<scalar type>-scalar]`).  The result
(bit pattern for float/double) of every form is compared with
  * the extracted Coq model (Arith.RtEval.rt_eval / rt_assign, Arith.Fmt)   -> correspondence
  * an independent Python reference of the C semantics the property names   -> property oracle
A case where the real code differs from the reference is a VIOLATION (key
`value:<op>:<types>` for var-var, `value:<op>:<types>:<form>` for the other forms,
`ass-conv:<l><-<r>[:lit]`, `concat:<kind>[:lit]`, `div:int_min/-1:runtime`, ...);
a case where only the model differs is a broken correspondence.
Excluded as C undefined behaviour (counted in the evidence): float->integer conversions whose
value does not fit, shift counts outside 0 <= k < width.
"""
LEVEL = "proof"

import collections
import json
import os

from lib import common
from gen import arithlib as al
from gen import arithcases as ac
from gen import aritheval as ae
from gen import arithforms as af
from gen import gen_convtables

NUMK = ["i", "l", "f", "d"]


def trap_key(tree):
    t = tree
    while t[0] == "P":
        t = t[1]
    op = t[1]
    kinds = ae.root_key(tree).split(":")[1]
    wide = "long" if "long" in kinds else "int"
    return "%s:%s_min/-1:runtime" % (op, wide)


# boundary magnitudes every (operator, type pair) cell sees on either side, whatever the seed:
# >= 2^31, >= 2^32, >= 2^53 (long -> double rounds), long -> float tie points (2^60+2^36+1:
# must round once, directly), negative left operands of shifts, INT_MIN / LONG_MIN, denormals
BOUNDARY = {
    "b": [0, 1],
    "i": [al.INT_MIN, -16, al.INT_MAX, -1, 16777217, -2147483647, 2 ** 30, 0],
    "e": [al.INT_MIN, -16, al.INT_MAX, -1, 7, 0],
    "l": [5000000000, -3000000000, 2 ** 32, 2 ** 31, 2 ** 53 + 1, 2 ** 60 + 2 ** 36 + 1, al.LONG_MIN,
          -(2 ** 60 + 2 ** 36 + 1), -16, al.LONG_MAX, 2 ** 32 + 1, -(2 ** 31) - 1],
    "f": [0x00000001, 0x807FFFFF, 0x4F000000, 0x5F000000, 0x4B800001, 0x7F7FFFFF, 0x80000000, 0x3F800001],
    "d": [0x0000000000000001, 0x800FFFFFFFFFFFFF, 0x41E0000000000000, 0x43E0000000000000,
          0x4340000000000001, 0x7FEFFFFFFFFFFFFF, 0x8000000000000000, 0x41F0000000000000,
          0x3FF0000010000000, 0x47EFFFFFF0000000],
}
LITFORMS = (("lit", "lit"), ("lit", "var"), ("var", "lit"))


def build_expr_cases(ctx, per_cell, deep):
    rng = ctx.rng
    cases = collections.OrderedDict()
    dist = collections.Counter()

    def add(tag, tree):
        cid = "%s%05d" % (tag, len(cases))
        cases[cid] = tree
        return cid

    # operator x admitted numeric type pair x values (boundary list + corner-biased + random)
    for op in ac.BINSYM:
        for (ka, kb) in ac.admitted_pairs(op):
            # an item enumerator operand is its int index (typed int since /repo 2ca194c): the
            # (enum, int), (int, enum), (enum, enum) cells are int operations like any other
            n = per_cell if (ka in NUMK and kb in NUMK) else max(4, per_cell // 4)
            ba, bb = BOUNDARY[ka], BOUNDARY[kb]
            off = rng.randrange(len(ba) * len(bb))
            for k in range(n):
                if op in ("shl", "shr") and rng.random() < 0.8:
                    vb = rng.choice([0, 1, 2, 7, 15, 30, 31] + ([32, 33, 62, 63] if "l" in (ka, kb) else []))
                else:
                    vb = ac.pick_value(rng, kb)
                va = ac.pick_value(rng, ka)
                if 2 <= k < 2 + len(ba):
                    va = ba[k - 2]
                elif 2 + len(ba) <= k < 2 + len(ba) + len(bb) and op not in ("shl", "shr"):
                    vb = bb[k - 2 - len(ba)]
                elif k == n - 1:
                    va, vb = ba[off % len(ba)], (bb[off // len(ba)] if op not in ("shl", "shr") else vb)
                if op in ("div", "mod") and k == 0:
                    va, vb = ({"i": al.INT_MIN, "l": al.LONG_MIN, "e": al.INT_MIN}.get(ka, va),
                              -1 if kb in "ile" else vb)
                if op in ("div", "mod") and k == 1:
                    vb = 0 if kb in "ile" else {"f": 0x80000000, "d": 0}[kb]
                add("b", ("B", op, ac.atom(ac.value_tree(ka, va)), ac.atom(ac.value_tree(kb, vb))))
                dist["binary:%s" % op] += 1
    for op, kinds in (("neg", NUMK), ("bnot", ["i", "l"]), ("not", ["b"])):
        for ka in kinds:
            for k in range(per_cell):
                va = BOUNDARY[ka][k] if k < len(BOUNDARY[ka]) else ac.pick_value(rng, ka)
                add("u", ("U", op, ac.atom(ac.value_tree(ka, va))))
                dist["unary:%s" % op] += 1
    # whole expressions evaluate modulo 2^n / in the promoted type: random trees
    for k in range(deep):
        kind = rng.choice(NUMK)

        def gen(d):
            if d == 0 or rng.random() < 0.25:
                kk = rng.choice(NUMK[:NUMK.index(kind) + 1])
                return ac.atom(ac.value_tree(kk, ac.pick_value(rng, kk, 0.4)))
            op = rng.choice(["add", "sub", "mul"] + (["band", "bxor"] if kind in "il" else []))
            return ("P", ("B", op, gen(d - 1), gen(d - 1)))
        g = gen(rng.choice([2, 3]))
        add("d", g[1] if g[0] == "P" else g)
        dist["deep"] += 1
    return cases, dist


def int_only_tree(tree):
    return all(l[1] == "i" for l in ac.leaves(tree))


def build_assign_cases(ctx, per_cell):
    rng = ctx.rng
    cases = collections.OrderedDict()
    for kl in NUMK:
        for kr in NUMK:
            for k in range(per_cell):
                v = BOUNDARY[kr][k] if k < len(BOUNDARY[kr]) else ac.pick_value(rng, kr)
                cases["a%05d" % len(cases)] = (kl, 0, ac.value_tree(kr, v), kr, v)
    return cases


def build_concat_cases(ctx, n):
    rng = ctx.rng
    cases = collections.OrderedDict()
    for kind in NUMK:
        for k in range(n):
            v = ac.pick_value(rng, kind, 0.5)
            if kind == "f" and not al.is_finite32(v) or kind == "d" and not al.is_finite64(v):
                pass
            cases["s%05d" % len(cases)] = (kind, v, k % 2 == 0)
    return cases


def load_corpus():
    d = os.path.join(common.VERIF, "corpus", "C11")
    items = []
    if os.path.isdir(d):
        for f in sorted(os.listdir(d)):
            if f.endswith(".json"):
                for obj in json.load(open(os.path.join(d, f))):
                    items.append(obj)
    return items


def totuple(x):
    return tuple(totuple(i) for i in x) if isinstance(x, list) else x


def array_forms(ctx, Tp, Ta, work, reps, counts, nontrivial, violation):
    """- a, a + b, a - b, s * a, a * b (matrix product) on int/long/float/double arrays, 1-D and
    2-D, literal-built / element-variable / computed arrays: every element of the result against
    (1) the scalar operators applied to the elements, evaluated by the VM in a second program
    (metamorphic oracle, no model), (2) pyref and (3) the extracted Coq model on the element tree"""
    rng = ctx.rng
    cases = collections.OrderedDict()
    n = 0
    for obj in load_corpus():
        if obj.get("kind") == "array":
            c = dict(obj["case"])
            for k in ("shape", "dims_a", "dims_b", "dims_r"):
                if k in c:
                    c[k] = totuple(c[k])
            cases["kr%04d" % len(cases)] = c
    for op in af.ARR_OPS:
        for kind in af.ARR_KINDS:
            for shape in af.ARR_SHAPES[op]:
                for form in af.ARR_FORMS:
                    for r in range(reps * (4 if op == "smul" else 1)):
                        cases["r%05d" % len(cases)] = af.gen_arr_case(rng, op, kind, shape, form, n)
                        n += 1
    progs, meta, lines = [], collections.OrderedDict(), []
    dist = collections.Counter()
    for cid, case in cases.items():
        dist[(case["op"], ac.KIND_TY[case["kind"]], af.shape_class(case), af.shape_name(case), case["form"])] += 1
        for e in range(af.arr_result_count(case)):
            tree = af.arr_elem_tree(case, e)
            if tree is None:
                counts["excluded-C-UB"] += 1
                continue
            eid = "%s.%d" % (cid, e)
            pa, ps = af.arr_programs(case, e)
            progs.append((eid + ".a", "", pa))
            progs.append((eid + ".s", "", ps))
            lines.append("E %s %s" % (eid, ac.sx(tree)))
            meta[eid] = (case, e, tree, pa, ps)
    mo = ae.run_model(lines)
    rr = al.run_batch(Tp["nevrun"], progs, work, "c11-arr")
    rr_asan = al.run_batch(Ta["nevrun"], [pr for i, pr in enumerate(progs) if (i // 2) % 8 == 0], work, "c11a-arr")
    for eid, (case, e, tree, pa, ps) in meta.items():
        counts["evaluations"] += 1
        counts["array-form-elements"] += 1
        key = "array:%s:%s:%s" % (case["op"], ac.KIND_TY[case["kind"]], af.shape_class(case))
        if case["op"] == "smul" and case["ks"] != case["kind"]:
            key += ":%s-scalar" % ac.KIND_TY[case["ks"]]
        m = ae.parse_model_E(mo[eid]) if eid in mo else None
        ref = ae.ref_as_real(ac.pyref_outcome(tree))
        if m is None or m["ty"] is None:
            ctx.correspondence_broken("model-driver", {"case": ac.sx(tree)})
            continue
        if m["ub"] or ref[0] == "undef":
            counts["excluded-C-UB"] += 1
            continue
        arr = ae.canon_real(al.classify_run(rr.get(eid + ".a")))
        sca = ae.canon_real(al.classify_run(rr.get(eid + ".s")))
        nontrivial.add((key, case["form"], arr))
        obj = {"array_program": pa, "scalar_program": ps, "element": e, "operator": case["op"],
               "element_type": ac.KIND_TY[case["kind"]], "shape": af.shape_name(case), "arrays_built": case["form"],
               "array_form_result": arr, "scalar_operators_result": sca, "expected": ref, "model": m["rt"],
               "element_tree": ac.sx(tree)}
        if eid + ".a" in rr_asan:
            ra = ae.canon_real(al.classify_run(rr_asan.get(eid + ".a")))
            if ra != arr:
                violation("sanitizer-differs:" + key, "ASan/UBSan build behaves differently from the plain build", dict(obj, asan=ra))
        if arr != sca or arr != ref:
            if sca == ref or arr != sca:
                violation(key, "element of the array form of %s on %s arrays (shape %s, arrays %s) differs from the scalar operator "
                          "applied to the elements" % (case["op"], ac.KIND_TY[case["kind"]], af.shape_name(case),
                                                       {"lit": "literal-built", "var": "built from variables", "computed": "computed"}[case["form"]]),
                          obj)
            else:
                # both programs agree with each other but not with the C semantics: the scalar
                # operator itself is off (the operator matrix above reports that)
                violation("value:%s" % ae.root_key(tree), "VM result differs from the C semantics (seen through an array element)", obj)
        else:
            counts["array-form-agrees"] += 1
        if m["rt"] != arr:
            ctx.correspondence_broken("vm-array-vs-rt_eval", obj)
        else:
            counts["model=real"] += 1
    table = collections.OrderedDict()
    for (op, ty, cls, shp, form), k in sorted(dist.items()):
        table.setdefault(op, collections.OrderedDict()).setdefault(ty, collections.OrderedDict()).setdefault(
            "%s %s" % (cls, shp), []).append("%s:%d" % (form, k))
    return {"cases": len(cases), "elements": counts["array-form-elements"],
            "operator -> element type -> shape -> arrays built:count":
                {op: {ty: {shp: " ".join(v) for shp, v in shapes.items()} for ty, shapes in tys.items()}
                 for op, tys in table.items()}}


def run(ctx):
    quick = ctx.tier == "quick"
    work = os.path.join(ctx.outdir, "work")
    # ---- regenerate the tables, then prove ---------------------------------------------
    Tp = ae.tools("plain")
    info = gen_convtables.generate(Tp["dumpops"], work)
    tabs = info.pop("tables")
    ctx.notes["tables"] = {k: info[k] for k in ("probe_programs", "binary_cells", "unary_cells",
                                                  "assign_cells", "changed", "complete")}
    ctx.notes["exhaustive"] = bool(info["complete"])
    ctx.notes["exhaustive_scope"] = ("typing/opcode tables: every operator x every ordered pair of "
                               "{int,long,float,double,bool,char,string,enum} enumerated completely: %s"
                               % bool(info["complete"]))
    if info["problems"]:
        ctx.correspondence_broken("table-generator", info["problems"][:5])
    ctx.proofs()
    tab_ok, failing, tlog = ae.table_obligations(ctx)
    if not ae.build_model(ctx):
        return
    Ta = ae.tools("asan")

    counts = collections.Counter()
    nontrivial = set()
    viol_seen = {}

    def violation(key, what, r):
        if key in viol_seen:
            viol_seen[key] += 1
            return
        viol_seen[key] = 1
        ctx.violation(key, what, r)

    # ---- expression cases ------------------------------------------------------------
    corpus = load_corpus()
    cases = collections.OrderedDict()          # the corpus always runs first
    for i, obj in enumerate(corpus):
        if obj.get("kind") == "expr":
            cases["k%05d" % i] = totuple(obj["tree"])
    gen_cases, dist = build_expr_cases(ctx, 40 if quick else 150, 1500 if quick else 12000)
    cases.update(gen_cases)
    res = ae.eval_expr_cases(cases, Tp, work, "c11", legs=("var",))
    if res.get("?model_errors"):
        ctx.correspondence_broken("model-driver", res["?model_errors"][:3])
    # a sample under the sanitizer build as well (memory errors, assertions)
    deep_failing = []
    sample_ids = [c for i, c in enumerate(cases) if i % (8 if quick else 4) == 0 or c.startswith("k")]
    res_asan = ae.eval_expr_cases({c: cases[c] for c in sample_ids}, Ta, work, "c11a", legs=("var",))
    for cid, tree in cases.items():
        r = res[cid]
        m = r["model"]
        if m is None:
            ctx.correspondence_broken("model-driver", {"case": ac.sx(tree)})
            continue
        if m["ty"] is None:
            counts["rejected-by-model-typechecker"] += 1
            continue
        counts["evaluations"] += 1
        real, ref, rt = r["var"], r["ref"], m["rt"]
        if m["ub"] or ref[0] == "undef":
            counts["excluded-C-UB"] += 1
            continue
        key = ae.root_key(tree)
        nontrivial.add((key, real))
        case = {"program": r["src_var"], "tree": ac.sx(tree)}
        ra = res_asan.get(cid)
        if ra is not None and "var" in ra and ra["var"] != real:
            violation("sanitizer-differs:" + key, "ASan/UBSan build behaves differently from the plain build",
                      dict(case, plain=real, asan=ra["var"]))
        expected = ref
        if ref == ("trap",):
            # INT_MIN / -1 : the property promises two's-complement wrap-around
            t0 = tree
            while t0[0] == "P":
                t0 = t0[1]
            wide = "long" if "long" in key else "int"
            wrapped = 0 if t0[1] == "mod" else (al.LONG_MIN if wide == "long" else al.INT_MIN)
            if real != ("val", wide, wrapped):
                if real[0] == "crash":
                    violation(trap_key(tree), "%s with operands MIN, -1 kills the VM (%s) instead of wrapping" % (key, real[1]),
                              dict(case, expected=("val", wide, wrapped), observed=real, model=rt))
                else:
                    violation("value:" + key, "VM result differs from two's-complement wrap-around for %s" % key,
                              dict(case, expected=("val", wide, wrapped), observed=real, model=rt))
            if rt != real:
                ctx.correspondence_broken("vm-vs-rt_eval", dict(case, model=rt, real=real))
            else:
                counts["model=real"] += 1
            continue
        if real != expected:
            if cid.startswith("d"):
                deep_failing.append((cid, tree))      # shrunk below
            else:
                violation("value:" + key, "VM result differs from the C semantics for %s" % key,
                          dict(case, expected=expected, observed=real, model=rt))
        if rt != real:
            ctx.correspondence_broken("vm-vs-rt_eval", dict(case, model=rt, real=real, reference=expected))
        else:
            counts["model=real"] += 1
        if len(ctx.coverage["samples"]) < 4 and counts["evaluations"] % 997 == 1:
            ctx.sample({"program": r["src_var"], "vm": real, "model": rt, "reference": expected})

    # shrink failing random trees to their smallest failing subtree
    sub, owner = collections.OrderedDict(), {}
    for cid, tree in deep_failing[:40]:
        for j, st in enumerate(ac.subtrees(tree)):
            if st[0] != "L":
                sub["%s.s%d" % (cid, j)] = st
                owner["%s.s%d" % (cid, j)] = cid
    sres = ae.eval_expr_cases(sub, Tp, work, "c11s", legs=("var",)) if sub else {}
    best = {}
    for sid, st in sub.items():
        r = sres[sid]
        m = r.get("model")
        if not m or m["ty"] in (None, "enum") or m["ub"] or r["ref"][0] in ("undef", "trap"):
            continue
        if r["var"] != r["ref"]:
            cid = owner[sid]
            if cid not in best or ac.size(st) < ac.size(best[cid][0]):
                best[cid] = (st, r)
    for cid, tree in deep_failing[:40]:
        if cid in best:
            st, r = best[cid]
            violation("value:" + ae.root_key(st), "VM result differs from the C semantics for %s" % ae.root_key(st),
                      {"program": r["src_var"], "tree": ac.sx(st), "expected": r["ref"], "observed": r["var"],
                       "model": r["model"]["rt"], "found_in": ac.sx(tree)})

    # ---- the same cases in the other operand forms ---------------------------------------
    # (lit-lit / lit-var / var-lit: constred.c reduces the literal operands and their inserted
    #  conversions; enum-init: enumred.c evaluates the expression) against the same expectation
    formdist = collections.Counter()
    for cid, tree in cases.items():
        if not cid.startswith("d") and res[cid].get("model") and res[cid]["model"]["ty"] not in (None, "enum"):
            formdist[(ae.root_key(tree), "var-var")] += 1
    fprogs, fmeta = [], collections.OrderedDict()
    for cid, tree in cases.items():
        if cid.startswith("d"):
            continue
        r = res[cid]
        m = r["model"]
        if not m or m["ty"] in (None, "enum") or m["ub"] or r["ref"][0] == "undef":
            continue
        t0 = tree
        while t0[0] == "P":
            t0 = t0[1]
        key = ae.root_key(tree)
        expected = r["ref"]
        if expected == ("trap",):
            wide = "long" if "long" in key else "int"
            expected = ("val", wide, 0 if t0[1] == "mod" else (al.LONG_MIN if wide == "long" else al.INT_MIN))
        forms = list(LITFORMS) if t0[0] == "B" else [("lit",)]
        for fm in forms:
            fid = "%s.%s" % (cid, af.form_name(fm))
            src = af.form_program(tree, fm, m["ty"])
            fprogs.append((fid, "", src))
            fmeta[fid] = (cid, af.form_name(fm), src, expected)
            formdist[(key, af.form_name(fm))] += 1
        if int_only_tree(tree):
            isb = m["ty"] == "bool"
            fid = "%s.enum-init" % cid
            src = ac.program_enum(ac.as_int_tree(tree, isb))
            fprogs.append((fid, "", src))
            exp_e = expected
            if isb and expected[0] == "val":
                exp_e = ("val", "int", 10 if expected[2] else 11)
            fmeta[fid] = (cid, "enum-init", src, exp_e)
            formdist[(key, "enum-init")] += 1
    frr = al.run_batch(Tp["nevrun"], fprogs, work, "c11-forms")
    fsample = [pr for i, pr in enumerate(fprogs) if i % (16 if quick else 8) == 0]
    frr_asan = al.run_batch(Ta["nevrun"], fsample, work, "c11a-forms")
    for fid, (cid, fname, src, expected) in fmeta.items():
        tree = cases[cid]
        key = ae.root_key(tree)
        real = ae.canon_real(al.classify_run(frr.get(fid)))
        counts["evaluations"] += 1
        counts["form:" + fname] += 1
        case = {"program": src, "tree": ac.sx(tree), "operand_form": fname,
                "variable_form_program": res[cid]["src_var"], "variable_form_result": res[cid]["var"]}
        if fid in frr_asan:
            ra = ae.canon_real(al.classify_run(frr_asan.get(fid)))
            if ra != real:
                violation("sanitizer-differs:%s:%s" % (key, fname), "ASan/UBSan build behaves differently from the plain build",
                          dict(case, plain=real, asan=ra))
        if real == ("compile_error", "division by zero") and expected == ("fault", "division_by_zero"):
            counts["constant-division-by-zero-rejected"] += 1
            nontrivial.add((key, fname, "rejected"))
            continue
        if fname == "enum-init" and real == ("compile_error", "other") and key.split(":")[0] in ("eq", "neq"):
            counts["enum-init-not-reducible(== != on ints)"] += 1
            continue
        nontrivial.add((key, fname, real))
        if real != expected:
            if real[0] == "crash" and res[cid]["ref"] == ("trap",):
                violation(trap_key(tree).replace(":runtime", ":" + fname),
                          "%s with operands MIN, -1 (operand form %s) kills the compiler (%s) instead of wrapping"
                          % (key, fname, real[1]), dict(case, expected=expected, observed=real))
            else:
                violation("value:%s:%s" % (key, fname),
                          "%s in operand form %s: result differs from the C semantics" % (key, fname),
                          dict(case, expected=expected, observed=real, model=res[cid]["model"]["rt"]))
        else:
            counts["form-agrees"] += 1

    # ---- assignments --------------------------------------------------------------------
    acases = collections.OrderedDict()
    for i, obj in enumerate(corpus):
        if obj.get("kind") == "assign":
            acases["ka%04d" % i] = (obj["left"], 0, totuple(obj["tree"]), obj["right"], obj["value"])
    acases.update(build_assign_cases(ctx, 30 if quick else 120))
    lines, progs = [], []
    for cid, (kl, old, tree, kr, v) in acases.items():
        lines.append("A %s %s (L %s 0) %s" % (cid, ac.KIND_TY[kl], kl, ac.sx(tree)))
        progs.append((cid, "", ac.program_assign(kl, old, tree)))
    mo = ae.run_model(lines)
    lprogs = [(cid + ".lit", "", ac.program_assign_lit(kl, old, tree)) for cid, (kl, old, tree, kr, v) in acases.items()]
    rr = al.run_batch(Tp["nevrun"], progs + lprogs, work, "c11-ass")
    rr_asan = al.run_batch(Ta["nevrun"], [p for i, p in enumerate(progs) if i % 4 == 0], work, "c11a-ass")
    for (cid, (kl, old, tree, kr, v)), (_, _, src) in zip(acases.items(), progs):
        counts["evaluations"] += 1
        mm = ae.ASSIGN_RE.match(mo.get(cid, ""))
        if not mm:
            ctx.correspondence_broken("model-driver", {"case": cid, "line": mo.get(cid)})
            continue
        ub = mm.group(3) == "1"
        model = ae.parse_outcome(mm.group(2)) if mm.group(2) != "REJECT" else ("reject",)
        real = ae.canon_real(al.classify_run(rr.get(cid)))
        conv = ac.convert(kr, kl, v)
        if ub or conv is None:
            counts["excluded-C-UB"] += 1
            continue
        expected = ("val", ae.KINDNAME[kl], al.canon32(conv) if kl == "f" else al.canon64(conv) if kl == "d" else conv)
        key = "ass-conv:%s<-%s" % (ac.KIND_TY[kl], ac.KIND_TY[kr])
        nontrivial.add((key, real))
        case = {"program": src}
        if cid in rr_asan:
            ra = ae.canon_real(al.classify_run(rr_asan.get(cid)))
            if ra != real:
                violation("sanitizer-differs:" + key, "ASan build behaves differently", dict(case, plain=real, asan=ra))
        if real != expected:
            violation(key, "assignment %s does not store the right side converted to the left type" % key,
                      dict(case, expected=expected, observed=real, model=model))
        # the same assignment with a literal right side (the conversion is reduced by constred.c)
        counts["evaluations"] += 1
        formdist[(key, "var")] += 1
        formdist[(key, "lit")] += 1
        lsrc = ac.program_assign_lit(kl, old, tree)
        lreal = ae.canon_real(al.classify_run(rr.get(cid + ".lit")))
        nontrivial.add((key, "lit", lreal))
        if lreal != expected:
            violation(key + ":lit", "assignment %s of a LITERAL right side does not store it converted to the left type" % key,
                      {"program": lsrc, "expected": expected, "observed": lreal,
                       "variable_form_program": src, "variable_form_result": real})
        if model != real:
            ctx.correspondence_broken("vm-vs-rt_assign", dict(case, model=model, real=real))
        else:
            counts["model=real"] += 1

    # ---- number-to-string concatenation ---------------------------------------------------
    scases = build_concat_cases(ctx, 80 if quick else 400)
    lines, progs = [], []
    for cid, (kind, v, left) in scases.items():
        lines.append("S %s (L %s %s)" % (cid, kind, ac.hexnum(v)))
        progs.append((cid, "", ac.program_concat(ac.value_tree(kind, v), left)))
    mo = ae.run_model(lines)

    def concat_lit(cid):
        kind, v, left = scases[cid]
        txt = ac.expr_text(ac.value_tree(kind, v), lambda i, leaf: ac.lit_text(leaf, {}))
        return "func main() -> int { prints(%s); 0 }" % (("%s + \"|\"" % txt) if left else ("\"|\" + %s" % txt))
    rr = al.run_batch(Tp["nevrun"], progs + [(cid + ".lit", "", concat_lit(cid)) for cid in scases], work, "c11-cat")
    for (cid, (kind, v, left)), (_, _, src) in zip(scases.items(), progs):
        counts["evaluations"] += 1
        mm = ae.TEXT_RE.match(mo.get(cid, ""))
        rec = rr.get(cid)
        if not mm or rec is None:
            ctx.correspondence_broken("model-driver", {"case": cid})
            continue
        num = mm.group(2)
        real = al.program_text(rec).replace("-nan", "nan")
        if kind in "il":
            ref = str(v)
        else:
            ref = ac.fmt_fixed2(kind, v)
        exp_model = (num + "|") if left else ("|" + num)
        exp_ref = (ref + "|") if left else ("|" + ref)
        nontrivial.add(("concat:" + kind, left, real[:6]))
        if real != exp_ref:
            violation("concat:" + ac.KIND_TY[kind], "text of a %s concatenated to a string differs from printf" % ac.KIND_TY[kind],
                      {"program": src, "expected": exp_ref, "observed": real, "model": exp_model})
        counts["evaluations"] += 1
        formdist[("concat:" + ac.KIND_TY[kind] + (":number-left" if left else ":string-left"), "var")] += 1
        formdist[("concat:" + ac.KIND_TY[kind] + (":number-left" if left else ":string-left"), "lit")] += 1
        lrec = rr.get(cid + ".lit")
        lreal = al.program_text(lrec).replace("-nan", "nan") if lrec else None
        if lreal != exp_ref:
            violation("concat:%s:lit" % ac.KIND_TY[kind],
                      "text of a LITERAL %s concatenated to a string differs from printf" % ac.KIND_TY[kind],
                      {"program": concat_lit(cid), "expected": exp_ref, "observed": lreal, "variable_form_result": real})
        if real != exp_model:
            ctx.correspondence_broken("vm-vs-Fmt", {"program": src, "model": exp_model, "real": real})
        else:
            counts["model=real"] += 1

    # ---- array forms of the operators ------------------------------------------------------
    arrdist = array_forms(ctx, Tp, Ta, work, 2 if quick else 6, counts, nontrivial, violation)

    # ---- the table statements on the rows themselves: name the offending cells -----------
    bin_rows = tabs[0]
    order = ["TInt", "TLong", "TFloat", "TDouble"]
    bad_cells = []
    for (on, l, r, acc, rt_, cl, cr) in bin_rows:
        if l in order and r in order:
            j = order[max(order.index(l), order.index(r))]
            intonly = on in ("Mod", "BAnd", "BOr", "BXor", "Shl", "Shr")
            if on in ("And", "Or") or (intonly and j in ("TFloat", "TDouble")):
                continue
            want = "Some TBool" if on in ("OLt", "OGt", "OLe", "OGe", "OEq", "ONe") else "Some " + j
            if acc != "true" or rt_ != want:
                bad_cells.append((on, l, r, acc, rt_, cl, cr))
    ctx.notes["table_cells_violating_join"] = ["%s %s %s -> accepted=%s res=%s" % c[:5] for c in bad_cells][:20]

    ctx.count(evaluations=counts["evaluations"], nontrivial=len(nontrivial))
    ctx.coverage["rule"] = (
        "probe programs `func main() -> T { var v0 = L0; ...; <one expression> }` over every operator x every "
        "admitted ordered pair of {int,long,float,double} (+ bool ==/!=) x every operand form (var-var, lit-lit, "
        "lit-var, var-lit, and for int operands the expression as an enumerator initialiser) x values (a fixed "
        "boundary list per type on either side: >=2^31, >=2^32, >=2^53, long->float tie points, negative shift "
        "operands, MIN, denormals; corner set: 0, +-1, min, max, "
        "min/-1, 2^31, 2^53+-1, +-0.0, denormals, inf, NaN, int->float halfway and double-rounding cases; + seeded "
        "random), assignments over all 16 numeric pairs, number+string concatenations, random +,-,*,&,^ trees, "
        "and the array forms (- a, a + b, a - b, s * a, matrix product) per element type and shape, element-wise "
        "against the scalar operators; "
        "non-trivial = distinct (operator, operand types, outcome) triples")
    ctx.notes["distribution"] = dict(dist)
    ctx.coverage["array_forms_operator_x_elementtype_x_shape"] = arrdist
    table = collections.OrderedDict()
    for (key, fname), n in sorted(formdist.items()):
        op, _, pair = key.partition(":")
        table.setdefault(op, collections.OrderedDict()).setdefault(pair, []).append("%s:%d" % (fname, n))
    ctx.coverage["operator_x_typepair_x_operandform"] = {
        op: {pair: " ".join(v) for pair, v in pairs.items()} for op, pairs in table.items()}
    ctx.coverage["operand_form_cells"] = {
        "distinct (operator, type pair, operand form) cells": len(formdist),
        "cases per form": {f: sum(n for (k, ff), n in formdist.items() if ff == f)
                           for f in sorted({ff for (k, ff) in formdist})},
        "smallest cell": min(formdist.values()) if formdist else 0}
    ctx.notes["counts"] = dict(counts)
    ctx.notes["violation_hits"] = viol_seen
    ctx.notes["excluded"] = ("C undefined behaviour: out-of-range float->int conversions, shift counts >= width "
                             "(%d cases)" % counts["excluded-C-UB"])
    ctx.notes["skipped_theorems"] = ["conv_to_float_is_RNE (SpecFloat.binary_normalize; Flocq's theorem, cited)",
                                     "fmt_roundtrips_2dp (Arith/Fmt.v is tied by correspondence only)"]
