/* memdrive — allocation-trace driver for C16 (links the tree's libnev.a, NON-sanitized build).
 *
 * Linked with  -Wl,--wrap=malloc,--wrap=calloc,--wrap=realloc,--wrap=free,--wrap=strdup,
 *              --wrap=strndup,--wrap=getcwd
 * so that every allocator call made by an object of THIS link (libnev.a members: parser,
 * scanner, AST, typechecker, emitter, VM, GC, FFI glue) goes through the shims below.  Calls made
 * inside shared libraries (libc's stdio buffers, dlopen, libffi) are not wrapped and not seen.
 *
 *   memdrive --batch FILE [--timeout T] [--bt] [--mem M] [--stack S]
 *
 * FILE: cases  "@@@ <id> <nbytes> [path=<NEVER_PATH>] [compile-only] [mem=<M>] [stack=<S>]
 *                  [entry=<name>] [args=<a1>,<a2>,...] [mode=argv|params] [runs=<R>] [vms=<V>] [reprepare]\n<bytes>\n".
 * Each case runs in a forked child:
 *     program_new(); nev_compile_str(); [nev_prepare(entry);
 *         V x { vm_new(); R x nev_execute(); vm_delete(); }]
 *     program_delete();
 * and everything between the start of program_new() and the return of program_delete() is logged.
 * With args=: the argument strings (and the argv vector) are HOST memory, allocated outside the log.  mode=argv hands
 * them over through nev_prepare_argc_argv(), mode=params stores them into prog->params[] after nev_prepare() the way
 * an embedding application does (int / float converted, string = the host pointer).  `reprepare` prepares again
 * before every nev_execute.  A free()/realloc() of host memory by libnev is logged like any other free (the monitor
 * rejects it: the block was never allocated inside the bracket), reported as
 *     @@HOST <id> freed <hex return addresses>        and NOT performed (the host's memory stays usable);
 * after program_delete every host buffer is compared with the copy taken before the run:
 *     @@HOST <id> written <index of the buffer>
 * Before every vm_delete:
 *     @@HEAP <id> vm=<k> size=<mem_size> used=<cells holding an object> first=<cell 1 in use> last=<cell size-1 in use>
 * Output (stdout), per case:
 *     @@BEGIN <id>
 *     M <blk> <size> | C <blk> <size> | R <old> <new> <size> | S <blk> | F <blk>     one per call
 *     @@PHASE <id> <compile|prepare|execute|vm_delete|program_delete|done>            progress marks
 *     @@OUTCOME <id> <COMPILE_ERROR r|PREPARE_ERROR r|RESULT|EXEC_ERROR r>
 *     A <blk> <hex return addresses, innermost first> <seq> <k>   for blocks live at the end / bad frees
 *                      (seq = order of acquisition; the block is the k-th one acquired at that call site)
 *     @@OUT <id> <first bytes of what the program printed, escaped>
 *     @@END <id> status=<exit N|signal N|timeout>
 * Block numbers: pointers renumbered in order of first appearance inside the bracket, 0 = NULL.
 * The verdict is NOT computed here: the stream is piped into the extracted Coq monitor
 * (build/ocaml/mem/run).  The liveness bits kept below only select which allocation sites
 * are worth printing.
 */
#define _GNU_SOURCE
#include <stdio.h>
#include <stdlib.h>
#include <string.h>
#include <stdint.h>
#include <unistd.h>
#include <fcntl.h>
#include <signal.h>
#include <execinfo.h>
#include <sys/wait.h>
#include <sys/types.h>
#include "nev.h"
#include "gc.h"

void * __real_malloc(size_t);
void * __real_calloc(size_t, size_t);
void * __real_realloc(void *, size_t);
void __real_free(void *);
char * __real_strdup(const char *);
char * __real_strndup(const char *, size_t);
char * __real_getcwd(char *, size_t);

#define TAB_BITS 22
#define TAB_SIZE (1u << TAB_BITS)
#define MAX_IDS (1u << 21)
#define BT_DEPTH 7

static volatile int g_on = 0;
static int g_bt = 0;
static int g_efd = 1;
static uintptr_t g_keys[TAB_SIZE];
static uint32_t g_vals[TAB_SIZE];
static uint32_t g_next = 1;
static unsigned char g_live[MAX_IDS];
static void * g_site[MAX_IDS];
static uint32_t g_seq[MAX_IDS];
static uint32_t g_siteidx[MAX_IDS];      /* this block is the k-th one acquired at its call site (k from 1) */
#define SITE_TAB 8192
static uintptr_t g_site_key[SITE_TAB];
static uint32_t g_site_cnt[SITE_TAB];
static uint32_t g_clock = 0;
static void * (*g_sites_bt)[BT_DEPTH] = NULL;
static int g_overflow = 0;
static char g_buf[1 << 16];
static size_t g_len = 0;
static const char * g_id = "?";

static void ev_flush(void)
{
    size_t off = 0;
    while (off < g_len)
    {
        ssize_t k = write(g_efd, g_buf + off, g_len - off);
        if (k <= 0) break;
        off += (size_t)k;
    }
    g_len = 0;
}

static unsigned long g_events = 0;
#define MAX_EVENTS 4000000ul       /* a program that allocates for ever: stop the case, it is not judged */

static void ev_put(const char * s, size_t n)
{
    if (g_on && ++g_events > MAX_EVENTS)
    {
        static const char msg[] = "@@OVERFLOW events\n";
        g_on = 0;
        ev_flush();
        if (write(g_efd, msg, sizeof msg - 1) < 0) { }
        _exit(99);
    }
    if (g_len + n > sizeof g_buf) ev_flush();
    memcpy(g_buf + g_len, s, n);
    g_len += n;
}

static void ev_line(const char * fmt, unsigned long a, unsigned long b, unsigned long c, int nargs)
{
    char tmp[96];
    int n;
    if (nargs == 1) n = snprintf(tmp, sizeof tmp, fmt, a);
    else if (nargs == 2) n = snprintf(tmp, sizeof tmp, fmt, a, b);
    else n = snprintf(tmp, sizeof tmp, fmt, a, b, c);
    ev_put(tmp, (size_t)n);
}

static uint32_t id_of(void * p)
{
    if (p == NULL) return 0;
    uintptr_t k = (uintptr_t)p;
    uint32_t h = (uint32_t)((k >> 4) * 2654435761u) & (TAB_SIZE - 1);
    while (g_keys[h] != 0 && g_keys[h] != k) h = (h + 1) & (TAB_SIZE - 1);
    if (g_keys[h] == 0)
    {
        if (g_next >= MAX_IDS - 1) { g_overflow = 1; return MAX_IDS - 1; }
        g_keys[h] = k;
        g_vals[h] = g_next++;
    }
    return g_vals[h];
}

static void note_site(uint32_t id, void * ra)
{
    g_site[id] = ra;
    g_seq[id] = ++g_clock;
    {
        uintptr_t k = (uintptr_t)ra;
        uint32_t h = (uint32_t)((k >> 2) * 2654435761u) & (SITE_TAB - 1), probes = 0;
        while (g_site_key[h] != 0 && g_site_key[h] != k && probes++ < SITE_TAB) h = (h + 1) & (SITE_TAB - 1);
        g_site_key[h] = k;
        g_siteidx[id] = ++g_site_cnt[h];
    }
    if (g_bt && g_sites_bt)
    {
        void * fr[BT_DEPTH + 2];
        int was = g_on, n, i;
        g_on = 0;
        n = backtrace(fr, BT_DEPTH + 2);
        g_on = was;
        for (i = 0; i < BT_DEPTH; i++) g_sites_bt[id][i] = (i + 2 < n) ? fr[i + 2] : NULL;
    }
}

static void print_site(uint32_t id)
{
    char tmp[256];
    int n = snprintf(tmp, sizeof tmp, "A %u %lx", id, (unsigned long)g_site[id]);
    if (g_bt && g_sites_bt)
    {
        int i;
        n = snprintf(tmp, sizeof tmp, "A %u", id);
        for (i = 0; i < BT_DEPTH && g_sites_bt[id][i]; i++)
            n += snprintf(tmp + n, sizeof tmp - n, "%c%lx", i ? ',' : ' ', (unsigned long)g_sites_bt[id][i]);
    }
    n += snprintf(tmp + n, sizeof tmp - n, " %u %u\n", g_seq[id], g_siteidx[id]);
    ev_put(tmp, (size_t)n);
}

static void acquired(uint32_t id, void * ra)
{
    if (id == 0 || id >= MAX_IDS - 1) return;
    g_live[id] = 1;
    note_site(id, ra);
}

static void released(uint32_t id, void * ra)
{
    if (id == 0 || id >= MAX_IDS - 1) return;
    if (!g_live[id])
    {
        /* a free the monitor will reject: print where it happened and where the block came from */
        if (g_site[id]) print_site(id);
        { char t2[96]; int n2 = snprintf(t2, sizeof t2, "A %u %lx %u 0\n", id, (unsigned long)ra, ++g_clock); ev_put(t2, (size_t)n2); }
    }
    g_live[id] = 0;
}

/* ---- memory owned by the host application (argument strings, argv vector) ------------------------------- */
#define MAX_HOST 80
static char * g_host_ptr[MAX_HOST];
static size_t g_host_len[MAX_HOST];
static char * g_host_copy[MAX_HOST];
static int g_host_n = 0;
static int g_host_freed = 0;

static char * host_alloc(const void * data, size_t len)
{
    char * p = __real_malloc(len ? len : 1);
    memcpy(p, data, len);
    if (g_host_n < MAX_HOST)
    {
        g_host_ptr[g_host_n] = p; g_host_len[g_host_n] = len;
        g_host_copy[g_host_n] = __real_malloc(len ? len : 1); memcpy(g_host_copy[g_host_n], data, len);
        g_host_n++;
    }
    return p;
}

static int host_owned(void * p)
{
    int i;
    for (i = 0; i < g_host_n; i++)
        if ((char *)p >= g_host_ptr[i] && (char *)p < g_host_ptr[i] + (g_host_len[i] ? g_host_len[i] : 1)) return 1;
    return 0;
}

static void host_freed(void * ra)
{
    char tmp[400];
    int n = snprintf(tmp, sizeof tmp, "@@HOST %s freed %lx", g_id, (unsigned long)ra);
    if (g_bt)
    {
        void * fr[BT_DEPTH + 3];
        int was = g_on, k, i;
        g_on = 0;
        k = backtrace(fr, BT_DEPTH + 3);
        g_on = was;
        n = snprintf(tmp, sizeof tmp, "@@HOST %s freed ", g_id);
        for (i = 2; i < k; i++) n += snprintf(tmp + n, sizeof tmp - n, "%s%lx", i > 2 ? "," : "", (unsigned long)fr[i]);
    }
    n += snprintf(tmp + n, sizeof tmp - n, "\n");
    ev_put(tmp, (size_t)n);
    g_host_freed++;
}

void * __wrap_malloc(size_t n)
{
    void * p = __real_malloc(n);
    if (g_on) { uint32_t id = id_of(p); ev_line("M %lu %lu\n", id, n, 0, 2); acquired(id, __builtin_return_address(0)); }
    return p;
}

void * __wrap_calloc(size_t a, size_t b)
{
    void * p = __real_calloc(a, b);
    if (g_on) { uint32_t id = id_of(p); ev_line("C %lu %lu\n", id, a * b, 0, 2); acquired(id, __builtin_return_address(0)); }
    return p;
}

void * __wrap_realloc(void * old, size_t n)
{
    uint32_t oid = g_on ? id_of(old) : 0;
    void * p;
    if (g_on && old != NULL && host_owned(old))
    {
        /* libnev reallocates the host's memory: logged (rejected by the monitor), served from a new block instead */
        host_freed(__builtin_return_address(0));
        p = __real_malloc(n);
        ev_line("R %lu %lu %lu\n", oid, id_of(p), n, 3);
        released(oid, __builtin_return_address(0));
        acquired(id_of(p), __builtin_return_address(0));
        return p;
    }
    p = __real_realloc(old, n);
    if (g_on)
    {
        uint32_t id = id_of(p);
        ev_line("R %lu %lu %lu\n", oid, id, n, 3);
        released(oid, __builtin_return_address(0));
        acquired(id, __builtin_return_address(0));
    }
    return p;
}

void __wrap_free(void * p)
{
    if (g_on && p != NULL) { uint32_t id = id_of(p); ev_line("F %lu\n", id, 0, 0, 1); released(id, __builtin_return_address(0)); }
    if (g_on && p != NULL && host_owned(p)) { host_freed(__builtin_return_address(0)); return; }
    __real_free(p);
}

char * __wrap_strdup(const char * s)
{
    char * p = __real_strdup(s);
    if (g_on) { uint32_t id = id_of(p); ev_line("S %lu\n", id, 0, 0, 1); acquired(id, __builtin_return_address(0)); }
    return p;
}

char * __wrap_strndup(const char * s, size_t n)
{
    char * p = __real_strndup(s, n);
    if (g_on) { uint32_t id = id_of(p); ev_line("S %lu\n", id, 0, 0, 1); acquired(id, __builtin_return_address(0)); }
    return p;
}

char * __wrap_getcwd(char * buf, size_t n)
{
    char * p = __real_getcwd(buf, n);
    if (g_on && buf == NULL && p != NULL) { uint32_t id = id_of(p); ev_line("M %lu %lu\n", id, strlen(p) + 1, 0, 2); acquired(id, __builtin_return_address(0)); }
    return p;
}

static void phase(const char * what)
{
    char tmp[400];
    int n = snprintf(tmp, sizeof tmp, "@@PHASE %s %s\n", g_id, what);
    ev_put(tmp, (size_t)n);
}

static void at_exit_flush(void)
{
    g_on = 0;
    ev_flush();
}

static void on_signal(int sig)
{
    g_on = 0;
    ev_flush();
    signal(sig, SIG_DFL);
    raise(sig);
}

static void dump_out(int ofd)
{
    char raw[240], esc[1000];
    ssize_t r, i;
    int n = 0;
    lseek(ofd, 0, SEEK_SET);
    r = read(ofd, raw, sizeof raw);
    n += snprintf(esc, sizeof esc, "@@OUT %s ", g_id);
    for (i = 0; i < r; i++)
    {
        unsigned char ch = (unsigned char)raw[i];
        if (ch == '\n') n += snprintf(esc + n, sizeof esc - n, "\\n");
        else if (ch < 32 || ch > 126 || ch == '\\') n += snprintf(esc + n, sizeof esc - n, "\\x%02x", ch);
        else esc[n++] = (char)ch;
    }
    esc[n++] = '\n';
    ev_put(esc, (size_t)n);
}

typedef struct
{
    const char * entry;
    int nargs;
    char * args[64];          /* text of the arguments (driver memory; copied into host buffers) */
    int mode_params, runs, vms, reprepare;
} call_spec;

static char ** g_hargv = NULL;     /* the host's argv vector and strings */

static int prepare_entry(program * prog, call_spec * cs)
{
    int ret;
    unsigned i;
    if (cs->nargs == 0 && !cs->mode_params) return nev_prepare(prog, cs->entry);
    if (!cs->mode_params) return nev_prepare_argc_argv(prog, cs->entry, (unsigned)cs->nargs, g_hargv);
    ret = nev_prepare(prog, cs->entry);
    if (ret != 0) return ret;
    for (i = 0; i < prog->params_count; i++)
    {
        const char * a = (int)i < cs->nargs ? g_hargv[i] : "0";
        if (prog->params[i].type == OBJECT_INT) prog->params[i].int_value = atoi(a);
        else if (prog->params[i].type == OBJECT_FLOAT) prog->params[i].float_value = (float)atof(a);
        else if (prog->params[i].type == OBJECT_STRING_REF) prog->params[i].string_value = (int)i < cs->nargs ? g_hargv[i] : g_hargv[cs->nargs];
        else return 77;        /* a parameter kind that can only be filled by nev_prepare_argc_argv */
    }
    return 0;
}

static void heap_line(vm * machine, int k)
{
    char tmp[200];
    gc * c = machine->collector;
    unsigned i, used = 0;
    for (i = 0; i < c->mem_size; i++) if (c->mem[i].object_value != NULL) used++;
    ev_put(tmp, (size_t)snprintf(tmp, sizeof tmp, "@@HEAP %s vm=%d size=%u used=%u first=%d last=%d\n", g_id, k, c->mem_size, used,
                                 c->mem_size > 1 && c->mem[1].object_value != NULL,
                                 c->mem_size > 1 && c->mem[c->mem_size - 1].object_value != NULL));
}

static void run_one(const char * src, int compile_only, unsigned mem, unsigned stack, int ofd, call_spec * cs)
{
    int ret, i, k, r;
    char tmp[400];
    object result = { 0 };
    vm * machine = NULL;
    program * prog;

    /* the host's own memory: allocated before the bracket opens, never logged */
    g_hargv = (char **)host_alloc(cs->args, (size_t)(cs->nargs + 2) * sizeof(char *));
    for (i = 0; i < cs->nargs; i++) g_hargv[i] = host_alloc(cs->args[i], strlen(cs->args[i]) + 1);
    g_hargv[cs->nargs] = host_alloc("", 1);
    g_hargv[cs->nargs + 1] = NULL;
    memcpy(g_host_copy[0], g_hargv, (size_t)(cs->nargs + 2) * sizeof(char *));

    g_on = 1;
    prog = program_new();
    phase("compile");
    ret = nev_compile_str(src, prog);
    if (ret != 0)
    {
        ev_put(tmp, (size_t)snprintf(tmp, sizeof tmp, "@@OUTCOME %s COMPILE_ERROR %d\n", g_id, ret));
    }
    else if (compile_only)
    {
        ev_put(tmp, (size_t)snprintf(tmp, sizeof tmp, "@@OUTCOME %s COMPILED 0\n", g_id));
    }
    else
    {
        phase("prepare");
        ret = prepare_entry(prog, cs);
        if (ret != 0)
        {
            ev_put(tmp, (size_t)snprintf(tmp, sizeof tmp, "@@OUTCOME %s PREPARE_ERROR %d\n", g_id, ret));
        }
        else
        {
            for (k = 0; k < cs->vms; k++)
            {
                machine = vm_new(mem, stack);
                for (r = 0; r < cs->runs; r++)
                {
                    if (cs->reprepare && (k > 0 || r > 0)) { phase("prepare"); prepare_entry(prog, cs); }
                    phase("execute");
                    ret = nev_execute(prog, machine, &result);
                    fflush(stdout);
                    if (ret == 0) ev_put(tmp, (size_t)snprintf(tmp, sizeof tmp, "@@OUTCOME %s RESULT %d\n", g_id, (int)result.type));
                    else ev_put(tmp, (size_t)snprintf(tmp, sizeof tmp, "@@OUTCOME %s EXEC_ERROR %d\n", g_id, ret));
                }
                heap_line(machine, k);
                phase("vm_delete");
                vm_delete(machine);
            }
        }
    }
    phase("program_delete");
    program_delete(prog);
    g_on = 0;
    phase("done");
    for (i = 0; i < g_host_n; i++)
        if (memcmp(g_host_ptr[i], g_host_copy[i], g_host_len[i]) != 0)
            ev_put(tmp, (size_t)snprintf(tmp, sizeof tmp, "@@HOST %s written %d\n", g_id, i));
    {
        uint32_t i;
        int shown = 0;
        for (i = 1; i < g_next && shown < 400; i++) if (g_live[i]) { print_site(i); shown++; }
    }
    if (g_overflow) ev_put(tmp, (size_t)snprintf(tmp, sizeof tmp, "@@OVERFLOW %s\n", g_id));
    dump_out(ofd);
    ev_flush();
}

int main(int argc, char ** argv)
{
    const char * batch = NULL;
    unsigned g_mem = DEFAULT_VM_MEM_SIZE, g_stack = DEFAULT_VM_STACK_SIZE;
    int timeout = 10, i;
    for (i = 1; i < argc; i++)
    {
        if (!strcmp(argv[i], "--timeout") && i + 1 < argc) timeout = atoi(argv[++i]);
        else if (!strcmp(argv[i], "--batch") && i + 1 < argc) batch = argv[++i];
        else if (!strcmp(argv[i], "--mem") && i + 1 < argc) g_mem = (unsigned)atoi(argv[++i]);
        else if (!strcmp(argv[i], "--stack") && i + 1 < argc) g_stack = (unsigned)atoi(argv[++i]);
        else if (!strcmp(argv[i], "--bt")) g_bt = 1;
    }
    if (!batch) { fprintf(stderr, "usage: memdrive --batch FILE [--timeout T] [--bt]\n"); return 2; }
    FILE * f = fopen(batch, "rb");
    if (!f) { perror(batch); return 2; }
    fseek(f, 0, SEEK_END); long total = ftell(f); fseek(f, 0, SEEK_SET);
    char * buf = __real_malloc(total + 1);
    if (fread(buf, 1, total, f) != (size_t)total) { perror("read"); return 2; }
    buf[total] = 0; fclose(f);
    if (g_bt)
    {
        void * warm[4];
        g_sites_bt = __real_calloc(MAX_IDS, sizeof *g_sites_bt);
        backtrace(warm, 4);               /* loads libgcc now, outside any bracket */
    }
    printf("@@DRIVER memdrive\n"); fflush(stdout);     /* warm-up of stdio, outside any bracket */

    char * p = buf, * end = buf + total;
    while (p < end)
    {
        if (strncmp(p, "@@@ ", 4) != 0) { fprintf(stderr, "bad batch framing\n"); return 2; }
        char * eol = memchr(p, '\n', end - p);
        if (!eol) break;
        *eol = 0;
        char id[256] = "?", pathopt[1024] = "";
        long nbytes = 0; int compile_only = 0; unsigned mem = g_mem, stack = g_stack;
        call_spec cs = { "main", 0, { 0 }, 0, 1, 1, 0 };
        char entrybuf[128];
        char * tok = strtok(p + 4, " ");
        int k = 0;
        while (tok)
        {
            if (k == 0) snprintf(id, sizeof id, "%s", tok);
            else if (k == 1) nbytes = atol(tok);
            else if (!strncmp(tok, "path=", 5)) snprintf(pathopt, sizeof pathopt, "%s", tok + 5);
            else if (!strcmp(tok, "compile-only")) compile_only = 1;
            else if (!strncmp(tok, "mem=", 4)) mem = (unsigned)atoi(tok + 4);
            else if (!strncmp(tok, "stack=", 6)) stack = (unsigned)atoi(tok + 6);
            else if (!strncmp(tok, "entry=", 6)) { snprintf(entrybuf, sizeof entrybuf, "%s", tok + 6); cs.entry = entrybuf; }
            else if (!strcmp(tok, "mode=params")) cs.mode_params = 1;
            else if (!strncmp(tok, "runs=", 5)) cs.runs = atoi(tok + 5) > 0 ? atoi(tok + 5) : 1;
            else if (!strncmp(tok, "vms=", 4)) cs.vms = atoi(tok + 4) > 0 ? atoi(tok + 4) : 1;
            else if (!strcmp(tok, "reprepare")) cs.reprepare = 1;
            else if (!strncmp(tok, "args=", 5))
            {
                /* comma-separated; the pieces stay inside this header line, which strtok has already passed */
                char * a = tok + 5;
                while (a && *a && cs.nargs < 62) { char * c = strchr(a, ','); if (c) *c = 0; cs.args[cs.nargs++] = a; a = c ? c + 1 : NULL; }
            }
            k++;
            tok = strtok(NULL, " ");
        }
        char * src = eol + 1;
        if (src + nbytes > end) { fprintf(stderr, "truncated case %s\n", id); return 2; }
        char saved = src[nbytes];
        src[nbytes] = 0;

        printf("@@BEGIN %s\n", id);
        fflush(stdout);
        pid_t pid = fork();
        if (pid == 0)
        {
            char tmpl[64] = "/var/tmp/nvmemout.XXXXXX";
            int ofd = mkstemp(tmpl);
            int nul = open("/dev/null", O_RDONLY);
            unlink(tmpl);
            g_id = id;
            g_efd = dup(1);
            dup2(ofd, 1); dup2(ofd, 2); dup2(nul, 0);
            setvbuf(stdout, NULL, _IONBF, 0);
            if (pathopt[0]) setenv("NEVER_PATH", pathopt, 1); else unsetenv("NEVER_PATH");
            atexit(at_exit_flush);
            signal(SIGSEGV, on_signal); signal(SIGABRT, on_signal); signal(SIGFPE, on_signal); signal(SIGBUS, on_signal);
            alarm(timeout);
            run_one(src, compile_only, mem, stack, ofd, &cs);
            _exit(0);
        }
        int st = 0;
        waitpid(pid, &st, 0);
        if (WIFEXITED(st)) printf("@@END %s status=exit_%d\n", id, WEXITSTATUS(st));
        else if (WIFSIGNALED(st) && WTERMSIG(st) == SIGALRM) printf("@@END %s status=timeout\n", id);
        else if (WIFSIGNALED(st)) printf("@@END %s status=signal_%d\n", id, WTERMSIG(st));
        else printf("@@END %s status=unknown\n", id);
        fflush(stdout);
        src[nbytes] = saved;
        p = src + nbytes;
        if (p < end && *p == '\n') p++;
    }
    return 0;
}
