(* The rule catalogue of property C06 as single-fault mutations of accepted programs, and the
   theorems that every mutant is rejected with the rule of the operator.

   A mutation is a derivation of
       MutE r G e e'            (expression e' is e with one fault of rule r, in environment G)
       MutI r G inrun last l l' (item list)
       MutF r G lam fd fd'      (function definition)
       MutP r p p'              (program)
   built from a BASE fault (BaseE / BaseI / base cases of MutF: the operators of the catalogue)
   wrapped in any number of congruence steps -- one per syntactic position of Src/Syntax.v -- so the
   fault may sit at any nesting depth: in a nested function, a lambda (closure), a loop body, a
   branch, an argument, a catch clause.  The congruence steps thread the environment exactly as
   the checker does, so base faults may talk about what is in scope at the site (e.g. "x is a let
   name or a non-var parameter visible here": AssignToConst also covers closures capturing x).

   Theorems (end of file):  mutE_rejected / mutI_rejected / mutF_rejected, and
       mutant_rejected : WellTyped p -> MutP r p p' -> tc_program p' = Error r.
   No axioms. *)
From Coq Require Import NArith List Bool Arith Lia.
From NV Require Import Src.Syntax Src.Types Src.Typecheck Src.TypecheckInd Src.TypecheckSpec.
Import ListNotations.

Arguments tc_expr R G !e /.
Arguments tc_fdef R G lam !fd /.

(* literals: typed the same in every environment *)
Inductive is_lit : expr -> cty -> Prop :=
| L_int z : is_lit (EInt z) CInt
| L_bool b : is_lit (EBool b) CBool.

Definition arith_like (op : binop) : bool :=
  match op with And | Or | Eq | Ne => false | _ => true end.
Definition logic (op : binop) : bool := match op with And | Or => true | _ => false end.

Definition fd_sig (fd : fdef) := (fd_name fd, fd_params fd, fd_ret fd).

Section Mut.
Variable R : list recdecl.
Notation tce := (tc_expr R).
Notation tcf := (tc_fdef R).
Notation tci := (tc_items (tc_expr R) (tc_fdef R)).
Notation tcb := (tc_block (tc_expr R) (tc_fdef R)).

(* ---- the operators of the catalogue (base faults) ------------------------------------------ *)
Inductive BaseE : rule -> env -> expr -> expr -> Prop :=
(* UndefinedName: a variable replaced by a name bound nowhere in scope *)
| B_undefined G x y : lookup y G = None -> BaseE RUndefined G (EVar x) (EVar y)
(* BadOperator *)
| B_op_left G op a b v : arith_like op = true -> BaseE ROperator G (EBin op a b) (EBin op (EBool v) b)
| B_op_right G op a b v : arith_like op = true -> BaseE ROperator G (EBin op a b) (EBin op a (EBool v))
| B_logic_left G op a b z : logic op = true -> BaseE ROperator G (EBin op a b) (EBin op (EInt z) b)
| B_logic_right G op a b z : logic op = true -> BaseE ROperator G (EBin op a b) (EBin op a (EInt z))
| B_neg G a v : BaseE ROperator G (ENeg a) (ENeg (EBool v))
| B_bnot G a v : BaseE ROperator G (EBNot a) (EBNot (EBool v))
| B_not G a z : BaseE ROperator G (ENot a) (ENot (EInt z))
(* NonBoolCond *)
| B_cond G c a b z : BaseE RCond G (ECond c a b) (ECond (EInt z) a b)
| B_if G c a z : BaseE RCond G (EIf c a) (EIf (EInt z) a)
| B_while G c b z : BaseE RCond G (EWhile c b) (EWhile (EInt z) b)
| B_dowhile G c b z : BaseE RCond G (EDoWhile b c) (EDoWhile b (EInt z))
| B_for G i c s b z : BaseE RCond G (EFor i c s b) (EFor i (EInt z) s b)
(* BranchMismatch: a branch replaced by a literal of another kind *)
| B_branch G c a b l tl ta ka :
    is_lit l tl -> tce G a = Ok (ta, ka) -> merge ta tl = false ->
    BaseE RBranches G (ECond c a b) (ECond c a l)
(* WrongArgCount *)
| B_args_drop G f args a : BaseE RArgs G (ECall f (args ++ [a])) (ECall f args)
| B_args_add G f args l tl : is_lit l tl -> BaseE RArgs G (ECall f args) (ECall f (args ++ [l]))
| B_rec_drop G r args a : BaseE RRecordArgs G (ERecNew r (args ++ [a])) (ERecNew r args)
| B_rec_add G r args l tl : is_lit l tl -> BaseE RRecordArgs G (ERecNew r args) (ERecNew r (args ++ [l]))
(* WrongArgKind: argument number |l1| replaced by a literal the parameter does not accept *)
| B_arg_kind G f l1 a l2 l tl ps r kf v p :
    is_lit l tl -> tce G f = Ok (CFun ps r, kf) -> nth_error ps (length l1) = Some (v, p) ->
    accepts p tl = false ->
    BaseE RArgs G (ECall f (l1 ++ a :: l2)) (ECall f (l1 ++ l :: l2))
| B_print_kind G a v : BaseE RArgs G (EPrint a) (EPrint (EBool v))
(* NotCallable *)
| B_not_callable G f args l tl : is_lit l tl -> BaseE RNotCallable G (ECall f args) (ECall l args)
(* AssignType / AssignToTemp *)
| B_assign_type G lhs rhs l tl t :
    is_lit l tl -> tce G lhs = Ok (t, KVar) -> accepts t tl = false ->
    BaseE RAssignType G (EAssign lhs rhs) (EAssign lhs l)
| B_assign_temp G lhs rhs l tl : is_lit l tl -> BaseE RAssignConst G (EAssign lhs rhs) (EAssign l rhs)
(* UndefinedAttr (a position beyond the record = a name that is not a field) / AttrOnNonRecord *)
| B_attr G a r fld fld' t k fs :
    tce G a = Ok (t, k) -> t = CRec r -> find_rec r R = Some fs -> length fs <= fld' ->
    BaseE RAttr G (EField a r fld) (EField a r fld')
| B_attr_lit G a r fld l tl : is_lit l tl -> BaseE RAttr G (EField a r fld) (EField l r fld)
(* BadIndex *)
| B_index_bool G a i v : BaseE RIndex G (EIndex a i) (EIndex a (EBool v))
| B_index_lit G a i l tl : is_lit l tl -> BaseE RIndex G (EIndex a i) (EIndex l i).

(* inserted items: AssignToLet / AssignToParam (any name visible at the site that is not var:
   a let name, a non-var parameter, a function name -- of this or of an enclosing function),
   VarFromConst *)
Inductive BaseI : rule -> env -> item -> Prop :=
| BI_assign_const G x t k :
    lookup x G = Some (t, k) -> k <> KVar ->
    BaseI RAssignConst G (IExpr (EAssign (EVar x) (EVar x)))
| BI_var_from_const G x y t :
    lookup x G = Some (t, KConst) -> BaseI RVarInitConst G (IVar y (EVar x)).

(* ---- congruence: the fault at any depth ------------------------------------------------------ *)
Inductive MutE : rule -> env -> expr -> expr -> Prop :=
| ME_base r G e e' : BaseE r G e e' -> MutE r G e e'
| ME_neg r G a a' : MutE r G a a' -> MutE r G (ENeg a) (ENeg a')
| ME_not r G a a' : MutE r G a a' -> MutE r G (ENot a) (ENot a')
| ME_bnot r G a a' : MutE r G a a' -> MutE r G (EBNot a) (EBNot a')
| ME_print r G a a' : MutE r G a a' -> MutE r G (EPrint a) (EPrint a')
| ME_field r G a a' rr fld : MutE r G a a' -> MutE r G (EField a rr fld) (EField a' rr fld)
| ME_bin_l r G op a a' b : MutE r G a a' -> MutE r G (EBin op a b) (EBin op a' b)
| ME_bin_r r G op a b b' : MutE r G b b' -> MutE r G (EBin op a b) (EBin op a b')
| ME_cond_c r G c c' a b : MutE r G c c' -> MutE r G (ECond c a b) (ECond c' a b)
| ME_cond_a r G c a a' b : MutE r G a a' -> MutE r G (ECond c a b) (ECond c a' b)
| ME_cond_b r G c a b b' : MutE r G b b' -> MutE r G (ECond c a b) (ECond c a b')
| ME_if_c r G c c' a : MutE r G c c' -> MutE r G (EIf c a) (EIf c' a)
| ME_if_a r G c a a' : MutE r G a a' -> MutE r G (EIf c a) (EIf c a')
| ME_assign_l r G a a' b : MutE r G a a' -> MutE r G (EAssign a b) (EAssign a' b)
| ME_assign_r r G a b b' : MutE r G b b' -> MutE r G (EAssign a b) (EAssign a b')
| ME_index_a r G a a' b : MutE r G a a' -> MutE r G (EIndex a b) (EIndex a' b)
| ME_index_i r G a b b' : MutE r G b b' -> MutE r G (EIndex a b) (EIndex a b')
| ME_while_c r G c c' b : MutE r G c c' -> MutE r G (EWhile c b) (EWhile c' b)
| ME_while_b r G c b b' : MutE r G b b' -> MutE r G (EWhile c b) (EWhile c b')
| ME_dowhile_c r G c c' b : MutE r G c c' -> MutE r G (EDoWhile b c) (EDoWhile b c')
| ME_dowhile_b r G c b b' : MutE r G b b' -> MutE r G (EDoWhile b c) (EDoWhile b' c)
| ME_for_i r G i i' c s b : MutE r G i i' -> MutE r G (EFor i c s b) (EFor i' c s b)
| ME_for_c r G i c c' s b : MutE r G c c' -> MutE r G (EFor i c s b) (EFor i c' s b)
| ME_for_s r G i c s s' b : MutE r G s s' -> MutE r G (EFor i c s b) (EFor i c s' b)
| ME_for_b r G i c s b b' : MutE r G b b' -> MutE r G (EFor i c s b) (EFor i c s b')
| ME_call_f r G f f' args : MutE r G f f' -> MutE r G (ECall f args) (ECall f' args)
| ME_call_arg r G f l1 a a' l2 :
    MutE r G a a' -> MutE r G (ECall f (l1 ++ a :: l2)) (ECall f (l1 ++ a' :: l2))
| ME_rec_arg r G rr l1 a a' l2 :
    MutE r G a a' -> MutE r G (ERecNew rr (l1 ++ a :: l2)) (ERecNew rr (l1 ++ a' :: l2))
| ME_arr_elem r G l1 a a' l2 t :
    MutE r G a a' -> MutE r G (EArrLit (l1 ++ a :: l2) t) (EArrLit (l1 ++ a' :: l2) t)
| ME_block r G items items' :
    MutI r ([] :: G) false None items items' -> MutE r G (EBlock items) (EBlock items')
| ME_lambda r G fd fd' : MutF r G true fd fd' -> MutE r G (ELambda fd) (ELambda fd')

with MutI : rule -> env -> bool -> option binding -> list item -> list item -> Prop :=
(* a faulty item inserted before a non-empty rest (never between two functions of one run) *)
| MI_insert r G inrun last it i rest :
    BaseI r G it -> MutI r G inrun last (i :: rest) (it :: i :: rest)
| MI_let_here r G inrun last x e e' rest :
    MutE r G e e' -> MutI r G inrun last (ILet x e :: rest) (ILet x e' :: rest)
| MI_var_here r G inrun last x e e' rest :
    MutE r G e e' -> MutI r G inrun last (IVar x e :: rest) (IVar x e' :: rest)
| MI_expr_here r G inrun last e e' rest :
    MutE r G e e' -> MutI r G inrun last (IExpr e :: rest) (IExpr e' :: rest)
| MI_func_here r G (inrun : bool) last fd fd' rest G1 :
    fd_sig fd = fd_sig fd' ->
    (if inrun then Ok G else declare_all (run_sigs (IFunc fd :: rest)) G) = Ok G1 ->
    MutF r G1 false fd fd' ->
    MutI r G inrun last (IFunc fd :: rest) (IFunc fd' :: rest)
| MI_let_skip r G inrun last x e t k G' rest rest' :
    tce G e = Ok (t, k) -> declare x (t, KConst) G = Ok G' ->
    MutI r G' false None rest rest' ->
    MutI r G inrun last (ILet x e :: rest) (ILet x e :: rest')
| MI_var_skip r G inrun last x e t k G' rest rest' :
    tce G e = Ok (t, k) -> declare x (t, KVar) G = Ok G' ->
    MutI r G' false None rest rest' ->
    MutI r G inrun last (IVar x e :: rest) (IVar x e :: rest')
| MI_expr_skip r G inrun last e b rest rest' :
    tce G e = Ok b -> MutI r G false (Some b) rest rest' ->
    MutI r G inrun last (IExpr e :: rest) (IExpr e :: rest')
| MI_func_skip r G (inrun : bool) last fd rest rest' G1 :
    run_sigs rest = run_sigs rest' ->                 (* the site does not split the run *)
    (if inrun then Ok G else declare_all (run_sigs (IFunc fd :: rest)) G) = Ok G1 ->
    MutI r G1 true None rest rest' ->
    MutI r G inrun last (IFunc fd :: rest) (IFunc fd :: rest')

with MutF : rule -> env -> bool -> fdef -> fdef -> Prop :=
(* WrongReturnKind: a literal of another kind appended to the body / a catch clause *)
| MF_ret_body G lam name ps ret body catches call l tl :
    is_lit l tl -> accepts (cty_of ret) tl = false ->
    MutF RReturn G lam (FDef name ps ret body catches call)
                       (FDef name ps ret (body ++ [IExpr l]) catches call)
| MF_ret_catch G lam name ps ret body c1 ex h c2 call l tl :
    is_lit l tl -> accepts (cty_of ret) tl = false ->
    MutF RReturn G lam (FDef name ps ret body (c1 ++ (ex, h) :: c2) call)
                       (FDef name ps ret body (c1 ++ (ex, h ++ [IExpr l]) :: c2) call)
| MF_body r G lam name ps ret body body' catches call G' :
    fun_env G lam name ps ret = Ok G' ->
    MutI r ([] :: G') false None body body' ->
    MutF r G lam (FDef name ps ret body catches call) (FDef name ps ret body' catches call)
| MF_catch r G lam name ps ret body c1 ex h h' c2 call G' :
    fun_env G lam name ps ret = Ok G' ->
    MutI r ([] :: G') false None h h' ->
    MutF r G lam (FDef name ps ret body (c1 ++ (ex, h) :: c2) call)
                 (FDef name ps ret body (c1 ++ (ex, h') :: c2) call)
| MF_call r G lam name ps ret body catches h h' G' :
    fun_env G lam name ps ret = Ok G' ->
    MutI r ([] :: G') false None h h' ->
    MutF r G lam (FDef name ps ret body catches (Some h)) (FDef name ps ret body catches (Some h')).

Scheme MutE_mind := Minimality for MutE Sort Prop
  with MutI_mind := Minimality for MutI Sort Prop
  with MutF_mind := Minimality for MutF Sort Prop.
Combined Scheme mut_mutind from MutE_mind, MutI_mind, MutF_mind.

(* ---- lemmas ------------------------------------------------------------------------------------ *)
Lemma lit_tc : forall l t G, is_lit l t -> tce G l = Ok (t, KTemp).
Proof. intros l t G H. destruct H; reflexivity. Qed.

Lemma args_ok_length : forall c ps l, args_ok c ps l = true -> length ps = length l.
Proof.
  induction ps as [|p ps IH]; destruct l as [|a l]; cbn; intros H; try discriminate; auto.
  apply andb_true_iff in H. destruct H as [_ H]. f_equal. now apply IH.
Qed.

Lemma tc_list_length : forall f l bs, tc_list f l = Ok bs -> length bs = length l.
Proof.
  induction l as [|a l IH]; cbn; intros bs H.
  - inversion H. reflexivity.
  - destruct (f a); cbn in H; [|discriminate]. destruct (tc_list f l); cbn in H; [|discriminate].
    inversion H. cbn. f_equal. now apply IH.
Qed.

Lemma tc_list_app : forall f l1 l2 bs,
  tc_list f (l1 ++ l2) = Ok bs ->
  exists b1 b2, tc_list f l1 = Ok b1 /\ tc_list f l2 = Ok b2 /\ bs = b1 ++ b2.
Proof.
  induction l1 as [|a l1 IH]; cbn; intros l2 bs H.
  - exists [], bs. auto.
  - destruct (f a) eqn:Ea; cbn in H; [|discriminate].
    destruct (tc_list f (l1 ++ l2)) eqn:El; cbn in H; [|discriminate]. inversion H; subst.
    destruct (IH _ _ El) as [b1 [b2 [H1 [H2 H3]]]]. subst.
    exists (a0 :: b1), b2. rewrite H1. cbn. auto.
Qed.

Lemma tc_list_app_ok : forall f l1 l2 b1 b2,
  tc_list f l1 = Ok b1 -> tc_list f l2 = Ok b2 -> tc_list f (l1 ++ l2) = Ok (b1 ++ b2).
Proof.
  induction l1 as [|a l1 IH]; cbn; intros l2 b1 b2 H1 H2.
  - inversion H1. exact H2.
  - destruct (f a); cbn in *; [|discriminate]. destruct (tc_list f l1) eqn:E; cbn in *; [|discriminate].
    inversion H1; subst. rewrite (IH _ _ _ eq_refl H2). reflexivity.
Qed.

(* one element of an accepted list replaced by one that fails *)
Lemma tc_list_replace_err : forall f l1 a a' l2 bs r,
  tc_list f (l1 ++ a :: l2) = Ok bs -> f a' = Err r -> tc_list f (l1 ++ a' :: l2) = Err r.
Proof.
  induction l1 as [|x l1 IH]; cbn; intros a a' l2 bs r H Ha.
  - now rewrite Ha.
  - destruct (f x); cbn in *; [|discriminate].
    destruct (tc_list f (l1 ++ a :: l2)) eqn:E; cbn in H; [|discriminate].
    now rewrite (IH _ _ _ _ _ E Ha).
Qed.

(* a failing argument: position |b1| of the bindings is not accepted *)
Lemma args_ok_nth_false : forall c ps b1 b b2 v p,
  nth_error ps (length b1) = Some (v, p) -> accepts p (fst b) = false ->
  args_ok c ps (b1 ++ b :: b2) = false.
Proof.
  intros c ps b1. revert ps. induction b1 as [|x b1 IH]; intros ps b b2 v p Hn Ha.
  - destruct ps as [|q ps]; cbn in *; [discriminate|]. inversion Hn; subst.
    unfold arg_ok. cbn. now rewrite Ha.
  - destruct ps as [|q ps]; cbn in *; [discriminate|].
    rewrite (IH _ _ _ _ _ Hn Ha). apply andb_false_r.
Qed.

(* appending a literal to an accepted item list: accepted, with the literal's type *)
Lemma tc_items_snoc_lit : forall l lt t G inrun last b,
  is_lit lt t -> tci G inrun last l = Ok b ->
  tci G inrun last (l ++ [IExpr lt]) = Ok (t, KTemp).
Proof.
  induction l as [|i l IH]; intros lt t G inrun last b Hl H.
  - cbn. rewrite (lit_tc _ _ G Hl). reflexivity.
  - assert (Hrs : forall fd, run_sigs (IFunc fd :: l ++ [IExpr lt]) = run_sigs (IFunc fd :: l)).
    { intros fd. cbn. f_equal. clear. induction l as [|j l IHl]; [reflexivity|].
      destruct j; cbn; try reflexivity. now rewrite IHl. }
    destruct i; cbn [app tc_items] in H |- *.
    + destruct (tce G e); cbn in *; [|discriminate].
      destruct (declare x (fst a, KConst) G); cbn in *; [|discriminate]. eapply IH; eauto.
    + destruct (tce G e); cbn in *; [|discriminate].
      destruct (cst_eqb (snd a) KConst); [discriminate|].
      destruct (declare x (fst a, KVar) G); cbn in *; [|discriminate]. eapply IH; eauto.
    + change (IFunc fd :: l ++ [IExpr lt]) with (IFunc fd :: (l ++ [IExpr lt])). rewrite Hrs.
      destruct (if inrun then Ok G else declare_all (run_sigs (IFunc fd :: l)) G); cbn in *; [|discriminate].
      destruct (tcf a false fd); cbn in *; [|discriminate]. eapply IH; eauto.
    + destruct (tce G e); cbn in *; [|discriminate]. eapply IH; eauto.
Qed.

Lemma tc_catches_replace_err : forall G ret c1 ex h h' c2 r,
  tc_catches tce tcf G ret (c1 ++ (ex, h) :: c2) = Ok tt ->
  check_ret ret (tcb G h') = Err r ->
  tc_catches tce tcf G ret (c1 ++ (ex, h') :: c2) = Err r.
Proof.
  induction c1 as [|[ex0 h0] c1 IH]; cbn; intros ex h h' c2 r H Hh.
  - now rewrite Hh.
  - destruct (check_ret ret (tcb G h0)); cbn in *; [|discriminate]. eapply IH; eauto.
Qed.

Lemma tc_catches_in : forall G ret c1 ex h c2,
  tc_catches tce tcf G ret (c1 ++ (ex, h) :: c2) = Ok tt -> check_ret ret (tcb G h) = Ok tt.
Proof.
  induction c1 as [|[ex0 h0] c1 IH]; cbn; intros ex h c2 H.
  - destruct (check_ret ret (tcb G h)) as [[]|]; cbn in *; [reflexivity|discriminate].
  - destruct (check_ret ret (tcb G h0)); cbn in *; [|discriminate]. eapply IH; eauto.
Qed.

Lemma check_ret_err ret x r : x = Err r -> check_ret ret x = Err r.
Proof. intros ->. reflexivity. Qed.

Lemma check_ret_lit ret t : accepts (cty_of ret) t = false -> check_ret ret (Ok (t, KTemp)) = Err RReturn.
Proof. intros H. unfold check_ret. cbn. now rewrite H. Qed.

Lemma check_ret_inv ret x : check_ret ret x = Ok tt -> exists b, x = Ok b.
Proof. destruct x; cbn; intros H; [eauto|discriminate]. Qed.

(* destruct the checks of the unchanged sub-expressions of an accepted expression *)
Ltac split_ok H :=
  repeat match type of H with
         | context [bind (tc_expr ?R0 ?G0 ?a0) _] =>
             let E := fresh "E" in
             destruct (tc_expr R0 G0 a0) eqn:E; cbn [bind] in H |- *; [|discriminate H]
         end.

(* ---- base faults are rejected -------------------------------------------------------------------- *)
Lemma baseE_rejected : forall r G e e', BaseE r G e e' -> forall b, tce G e = Ok b -> tce G e' = Err r.
Proof.
  intros r G e e' HB b H. destruct HB; cbn in H |- *.
  - now rewrite H0.
  - (* op left *) split_ok H. destruct op; cbn in *; try discriminate; reflexivity.
  - split_ok H. destruct op; cbn in *; try discriminate; rewrite ?andb_false_r; reflexivity.
  - split_ok H. destruct op; cbn in *; try discriminate; reflexivity.
  - split_ok H. destruct op; cbn in *; try discriminate; rewrite ?andb_false_r; reflexivity.
  - reflexivity.
  - reflexivity.
  - reflexivity.
  - (* cond *) split_ok H. reflexivity.
  - split_ok H. reflexivity.
  - split_ok H. reflexivity.
  - split_ok H. reflexivity.
  - split_ok H. reflexivity.
  - (* branch *) split_ok H. rewrite (lit_tc _ _ G H0). cbn [bind].
    inversion H1; subst a1. unfold check_cond in *. cbn [fst snd] in *.
    destruct (is_bool (fst a0)); [|discriminate]. rewrite H2. reflexivity.
  - (* args drop *) split_ok H.
    destruct (tc_list (tce G) (args ++ [a])) as [bs|] eqn:El; cbn in H; [|discriminate].
    destruct (tc_list_app _ _ _ _ El) as [b1 [b2 [H1 [H2 H3]]]]. rewrite H1. cbn.
    unfold check_call in *. destruct (fst a0); try discriminate.
    destruct (args_ok true ps bs) eqn:Ea; [|discriminate].
    apply args_ok_length in Ea. apply tc_list_length in H2. subst bs. rewrite app_length in Ea. cbn in H2.
    destruct (args_ok true ps b1) eqn:Eb; [|reflexivity]. apply args_ok_length in Eb. lia.
  - (* args add *) split_ok H.
    destruct (tc_list (tce G) args) as [bs|] eqn:El; cbn in H; [|discriminate].
    assert (Hl : tc_list (tce G) [l] = Ok [(tl, KTemp)]) by (cbn; now rewrite (lit_tc _ _ G H0)).
    rewrite (tc_list_app_ok _ _ _ _ _ El Hl). cbn.
    unfold check_call in *. destruct (fst a); try discriminate.
    destruct (args_ok true ps bs) eqn:Ea; [|discriminate]. apply args_ok_length in Ea.
    destruct (args_ok true ps (bs ++ [(tl, KTemp)])) eqn:Eb; [|reflexivity].
    apply args_ok_length in Eb. rewrite app_length in Eb. cbn in Eb. lia.
  - (* rec drop *)
    destruct (tc_list (tce G) (args ++ [a])) as [bs|] eqn:El; cbn in H; [|discriminate].
    destruct (tc_list_app _ _ _ _ El) as [b1 [b2 [H1 [H2 H3]]]]. rewrite H1. cbn.
    unfold check_recnew in *. destruct (find_rec r R) as [fs|]; [|discriminate].
    destruct (args_ok false (map (fun t : ty => (false, cty_of t)) fs) bs) eqn:Ea; [|discriminate].
    apply args_ok_length in Ea. apply tc_list_length in H2. subst bs. rewrite app_length in Ea. cbn in H2.
    destruct (args_ok false (map (fun t : ty => (false, cty_of t)) fs) b1) eqn:Eb; [|reflexivity].
    apply args_ok_length in Eb. lia.
  - (* rec add *)
    destruct (tc_list (tce G) args) as [bs|] eqn:El; cbn in H; [|discriminate].
    assert (Hl : tc_list (tce G) [l] = Ok [(tl, KTemp)]) by (cbn; now rewrite (lit_tc _ _ G H0)).
    rewrite (tc_list_app_ok _ _ _ _ _ El Hl). cbn.
    unfold check_recnew in *. destruct (find_rec r R) as [fs|]; [|discriminate].
    destruct (args_ok false (map (fun t : ty => (false, cty_of t)) fs) bs) eqn:Ea; [|discriminate].
    apply args_ok_length in Ea.
    destruct (args_ok false (map (fun t : ty => (false, cty_of t)) fs) (bs ++ [(tl, KTemp)])) eqn:Eb; [|reflexivity].
    apply args_ok_length in Eb. rewrite app_length in Eb. cbn in Eb. lia.
  - (* arg kind *) rewrite H1 in H |- *. cbn in H |- *.
    destruct (tc_list (tce G) (l1 ++ a :: l2)) as [bs|] eqn:El; cbn in H; [|discriminate].
    destruct (tc_list_app _ _ _ _ El) as [b1 [b2 [Hb1 [Hb2 Hbs]]]].
    cbn in Hb2. destruct (tce G a); cbn in Hb2; [|discriminate].
    destruct (tc_list (tce G) l2) as [b3|] eqn:El2; cbn in Hb2; [|discriminate].
    assert (Hl : tc_list (tce G) (l :: l2) = Ok ((tl, KTemp) :: b3))
      by (cbn; rewrite (lit_tc _ _ G H0); cbn; rewrite El2; reflexivity).
    rewrite (tc_list_app_ok _ _ _ _ _ Hb1 Hl). cbn. unfold check_call. cbn.
    apply tc_list_length in Hb1. rewrite <- Hb1 in H2.
    pose proof (args_ok_nth_false true ps b1 (tl, KTemp) b3 v p H2 H3) as Hf.
    match goal with |- (if ?x then _ else _) = _ => replace x with false by (symmetry; exact Hf) end.
    reflexivity.
  - (* print *) reflexivity.
  - (* not callable *) rewrite (lit_tc _ _ G H0). cbn. split_ok H.
    destruct (tc_list (tce G) args); cbn in *; [|discriminate]. destruct H0; reflexivity.
  - (* assign type *) rewrite H1 in H |- *. cbn in H |- *. rewrite (lit_tc _ _ G H0). cbn.
    unfold check_assign. cbn. now rewrite H2.
  - (* assign temp *) rewrite (lit_tc _ _ G H0). cbn. split_ok H. reflexivity.
  - (* attr *) rewrite H0. cbn. subst. unfold check_field. cbn. rewrite N.eqb_refl, H2.
    now rewrite (proj2 (nth_error_None fs fld') H3).
  - (* attr lit *) rewrite (lit_tc _ _ G H0). cbn. destruct H0; reflexivity.
  - (* index bool *) split_ok H. cbn. unfold check_index. cbn. destruct (fst a0); reflexivity.
  - (* index lit *) rewrite (lit_tc _ _ G H0). cbn. split_ok H. destruct H0; reflexivity.
Qed.

Lemma baseI_rejected : forall r G it, BaseI r G it ->
  forall inrun last rest, tci G inrun last (it :: rest) = Err r.
Proof.
  intros r G it HB inrun last rest. destruct HB; cbn.
  - rewrite H. cbn. unfold check_assign. cbn. destruct k; try congruence; reflexivity.
  - rewrite H. cbn. reflexivity.
Qed.


Lemma tc_list_mid_ok : forall f l1 a l2 bs, tc_list f (l1 ++ a :: l2) = Ok bs -> exists x, f a = Ok x.
Proof.
  intros f l1 a l2 bs H. destruct (tc_list_app _ _ _ _ H) as [b1 [b2 [_ [H2 _]]]].
  cbn in H2. destruct (f a); [eauto|discriminate].
Qed.

Lemma run_sigs_sig : forall fd fd' rest, fd_sig fd = fd_sig fd' ->
  run_sigs (IFunc fd' :: rest) = run_sigs (IFunc fd :: rest).
Proof.
  intros fd fd' rest H. unfold fd_sig in H. inversion H as [[H1 H2 H3]]. cbn. unfold fd_cty.
  now rewrite H1, H2, H3.
Qed.

Ltac congr_e IH H :=
  cbn in H |- *; split_ok H;
  rewrite (IH _ eq_refl); reflexivity.

Ltac congr_list IH H :=
  cbn in H |- *; split_ok H;
  match type of H with
  | context [tc_list ?f (?l1 ++ ?a :: ?l2)] =>
      let El := fresh "El" in
      destruct (tc_list f (l1 ++ a :: l2)) eqn:El; cbn [bind] in H; [|discriminate H];
      let x := fresh "x" in let Ex := fresh "Ex" in
      destruct (tc_list_mid_ok _ _ _ _ _ El) as [x Ex];
      rewrite (tc_list_replace_err _ _ _ _ _ _ _ El (IH _ Ex)); reflexivity
  end.

Theorem mut_rejected_all :
  (forall r G e e', MutE r G e e' -> forall b, tce G e = Ok b -> tce G e' = Err r) /\
  (forall r G inrun last l l', MutI r G inrun last l l' ->
     forall b, tci G inrun last l = Ok b -> tci G inrun last l' = Err r) /\
  (forall r G lam fd fd', MutF r G lam fd fd' -> tcf G lam fd = Ok tt -> tcf G lam fd' = Err r).
Proof.
  apply mut_mutind.
  - intros r G e e' HB b H. eapply baseE_rejected; eauto.
  - intros r G a a' _ IH b H. congr_e IH H.
  - intros r G a a' _ IH b H. congr_e IH H.
  - intros r G a a' _ IH b H. congr_e IH H.
  - intros r G a a' _ IH b H. congr_e IH H.
  - intros r G a a' rr fld _ IH b H. congr_e IH H.
  - intros r G op a a' b0 _ IH b H. congr_e IH H.
  - intros r G op a b0 b' _ IH b H. cbn in H |- *. split_ok H. rewrite (IH _ eq_refl). reflexivity.
  - intros r G c c' a b0 _ IH b H. cbn in H |- *. split_ok H. rewrite (IH _ eq_refl). reflexivity.
  - intros r G c a a' b0 _ IH b H. cbn in H |- *. split_ok H. rewrite (IH _ eq_refl). reflexivity.
  - intros r G c a b0 b' _ IH b H. cbn in H |- *. split_ok H. rewrite (IH _ eq_refl). reflexivity.
  - intros r G c c' a _ IH b H. cbn in H |- *. split_ok H. rewrite (IH _ eq_refl). reflexivity.
  - intros r G c a a' _ IH b H. cbn in H |- *. split_ok H. rewrite (IH _ eq_refl). reflexivity.
  - intros r G a a' b0 _ IH b H. cbn in H |- *. split_ok H. rewrite (IH _ eq_refl). reflexivity.
  - intros r G a b0 b' _ IH b H. cbn in H |- *. split_ok H. rewrite (IH _ eq_refl). reflexivity.
  - intros r G a a' b0 _ IH b H. cbn in H |- *. split_ok H. rewrite (IH _ eq_refl). reflexivity.
  - intros r G a b0 b' _ IH b H. cbn in H |- *. split_ok H. rewrite (IH _ eq_refl). reflexivity.
  - (* while c *) intros r G c c' b0 _ IH b H. cbn in H |- *. split_ok H. rewrite (IH _ eq_refl). reflexivity.
  - intros r G c b0 b' _ IH b H. cbn in H |- *. split_ok H. rewrite (IH _ eq_refl). reflexivity.
  - (* dowhile c *) intros r G c c' b0 _ IH b H. cbn in H |- *. split_ok H. rewrite (IH _ eq_refl). reflexivity.
  - intros r G c b0 b' _ IH b H. cbn in H |- *. split_ok H. rewrite (IH _ eq_refl). reflexivity.
  - (* for *) intros r G i i' c s b0 _ IH b H. cbn in H |- *. split_ok H. rewrite (IH _ eq_refl). reflexivity.
  - intros r G i c c' s b0 _ IH b H. cbn in H |- *. split_ok H. rewrite (IH _ eq_refl). reflexivity.
  - intros r G i c s s' b0 _ IH b H. cbn in H |- *. split_ok H. rewrite (IH _ eq_refl). reflexivity.
  - intros r G i c s b0 b' _ IH b H. cbn in H |- *. split_ok H. rewrite (IH _ eq_refl). reflexivity.
  - (* call f *) intros r G f f' args _ IH b H. cbn in H |- *. split_ok H. rewrite (IH _ eq_refl). reflexivity.
  - (* call arg *) intros r G f l1 a a' l2 _ IH b H. congr_list IH H.
  - (* rec arg *) intros r G rr l1 a a' l2 _ IH b H. congr_list IH H.
  - (* arr elem *) intros r G l1 a a' l2 t _ IH b H. congr_list IH H.
  - (* block *) intros r G items items' _ IH b H. rewrite tc_block_eq in H |- *. unfold tc_block in *. eauto.
  - (* lambda *) intros r G fd fd' _ IH b H. rewrite tc_lambda_eq in H |- *.
    destruct (tcf G true fd) as [[]|] eqn:E; cbn in H; [|discriminate]. now rewrite (IH eq_refl).
  - (* insert *) intros r G inrun last it i rest HB b H. eapply baseI_rejected; eauto.
  - (* let here *) intros r G inrun last x e e' rest _ IH b H. cbn [tc_items] in H |- *.
    split_ok H. rewrite (IH _ eq_refl). reflexivity.
  - intros r G inrun last x e e' rest _ IH b H. cbn [tc_items] in H |- *.
    split_ok H. rewrite (IH _ eq_refl). reflexivity.
  - intros r G inrun last e e' rest _ IH b H. cbn [tc_items] in H |- *.
    split_ok H. rewrite (IH _ eq_refl). reflexivity.
  - (* func here *) intros r G inrun last fd fd' rest G1 Hsig HG _ IH b H.
    cbn [tc_items] in H |- *. rewrite (run_sigs_sig _ _ rest Hsig). rewrite HG in H |- *. cbn [bind] in H |- *.
    destruct (tcf G1 false fd) as [[]|] eqn:E; cbn [bind] in H; [|discriminate]. now rewrite (IH eq_refl).
  - (* let skip *) intros r G inrun last x e t k G' rest rest' He Hd _ IH b H.
    cbn [tc_items] in H |- *. rewrite He in H |- *. cbn [bind fst] in H |- *. rewrite Hd in H |- *.
    cbn [bind] in H |- *. eauto.
  - (* var skip *) intros r G inrun last x e t k G' rest rest' He Hd _ IH b H.
    cbn [tc_items] in H |- *. rewrite He in H |- *. cbn [bind fst snd] in H |- *.
    destruct (cst_eqb k KConst); [discriminate|]. rewrite Hd in H |- *. cbn [bind] in H |- *. eauto.
  - (* expr skip *) intros r G inrun last e b0 rest rest' He _ IH b H.
    cbn [tc_items] in H |- *. rewrite He in H |- *. cbn [bind] in H |- *. eauto.
  - (* func skip *) intros r G inrun last fd rest rest' G1 Hrs HG _ IH b H.
    cbn [tc_items] in H |- *.
    assert (Hs : run_sigs (IFunc fd :: rest') = run_sigs (IFunc fd :: rest)) by (cbn; now rewrite Hrs).
    rewrite Hs. rewrite HG in H |- *. cbn [bind] in H |- *.
    destruct (tcf G1 false fd) as [[]|]; cbn [bind] in H |- *; [|discriminate]. eauto.
  - (* ret body *) intros G lam name ps ret body catches call l tl Hl Hacc H.
    rewrite tc_fdef_eq in H |- *. destruct (sig_wf R ps ret); [|discriminate].
    destruct (fun_env G lam name ps ret) as [G0|]; cbn [bind] in H |- *; [|discriminate].
    destruct (tc_catches tce tcf G0 ret catches) as [[]|]; cbn [bind] in H |- *; [|discriminate].
    destruct (match call with None => Ok tt | Some b => check_ret ret (tcb G0 b) end) as [[]|];
      cbn [bind] in H |- *; [|discriminate].
    destruct (check_ret_inv _ _ H) as [b Hb]. unfold tc_block in *.
    rewrite (tc_items_snoc_lit _ _ _ _ _ _ _ Hl Hb). now apply check_ret_lit.
  - (* ret catch *) intros G lam name ps ret body c1 ex h c2 call l tl Hl Hacc H.
    rewrite tc_fdef_eq in H |- *. destruct (sig_wf R ps ret); [|discriminate].
    destruct (fun_env G lam name ps ret) as [G0|]; cbn [bind] in H |- *; [|discriminate].
    destruct (tc_catches tce tcf G0 ret (c1 ++ (ex, h) :: c2)) as [[]|] eqn:Ec; cbn [bind] in H; [|discriminate].
    pose proof (tc_catches_in _ _ _ _ _ _ Ec) as Hh. destruct (check_ret_inv _ _ Hh) as [b Hb].
    rewrite (tc_catches_replace_err _ _ _ _ _ (h ++ [IExpr l]) _ RReturn Ec); [reflexivity|].
    unfold tc_block in *. rewrite (tc_items_snoc_lit _ _ _ _ _ _ _ Hl Hb). now apply check_ret_lit.
  - (* body *) intros r G lam name ps ret body body' catches call G' Hf _ IH H.
    rewrite tc_fdef_eq in H |- *. destruct (sig_wf R ps ret); [|discriminate].
    rewrite Hf in H |- *. cbn [bind] in H |- *.
    destruct (tc_catches tce tcf G' ret catches) as [[]|]; cbn [bind] in H |- *; [|discriminate].
    destruct (match call with None => Ok tt | Some b => check_ret ret (tcb G' b) end) as [[]|];
      cbn [bind] in H |- *; [|discriminate].
    destruct (check_ret_inv _ _ H) as [b Hb]. unfold tc_block in *. apply check_ret_err. eauto.
  - (* catch *) intros r G lam name ps ret body c1 ex h h' c2 call G' Hf _ IH H.
    rewrite tc_fdef_eq in H |- *. destruct (sig_wf R ps ret); [|discriminate].
    rewrite Hf in H |- *. cbn [bind] in H |- *.
    destruct (tc_catches tce tcf G' ret (c1 ++ (ex, h) :: c2)) as [[]|] eqn:Ec; cbn [bind] in H; [|discriminate].
    pose proof (tc_catches_in _ _ _ _ _ _ Ec) as Hh. destruct (check_ret_inv _ _ Hh) as [b Hb].
    rewrite (tc_catches_replace_err _ _ _ _ _ h' _ r Ec); [reflexivity|].
    unfold tc_block in *. apply check_ret_err. eauto.
  - (* catch-all *) intros r G lam name ps ret body catches h h' G' Hf _ IH H.
    rewrite tc_fdef_eq in H |- *. destruct (sig_wf R ps ret); [|discriminate].
    rewrite Hf in H |- *. cbn [bind] in H |- *.
    destruct (tc_catches tce tcf G' ret catches) as [[]|]; cbn [bind] in H |- *; [|discriminate].
    destruct (check_ret ret (tcb G' h)) as [[]|] eqn:Eh; cbn [bind] in H; [|discriminate].
    destruct (check_ret_inv _ _ Eh) as [b Hb]. unfold tc_block in *.
    rewrite (check_ret_err ret _ r (IH _ Hb)). reflexivity.
Qed.

Lemma tc_funcs_replace_err : forall G f1 fd fd' f2 r,
  tc_funcs R G (f1 ++ fd :: f2) = Ok tt -> tcf G false fd' = Err r ->
  tc_funcs R G (f1 ++ fd' :: f2) = Err r.
Proof.
  induction f1 as [|x f1 IH]; cbn; intros fd fd' f2 r H Hf.
  - now rewrite Hf.
  - destruct (tcf G false x); cbn in *; [|discriminate]. eauto.
Qed.

Lemma tc_funcs_mid : forall G f1 fd f2, tc_funcs R G (f1 ++ fd :: f2) = Ok tt -> tcf G false fd = Ok tt.
Proof.
  induction f1 as [|x f1 IH]; cbn; intros fd f2 H.
  - destruct (tcf G false fd) as [[]|]; cbn in *; [reflexivity|discriminate].
  - destruct (tcf G false x); cbn in *; [|discriminate]. eauto.
Qed.

End Mut.

(* ---- programs -------------------------------------------------------------------------------- *)
Inductive MutP : rule -> program -> program -> Prop :=
| MP r p f1 fd fd' f2 G :
    p_funcs p = f1 ++ fd :: f2 ->
    fd_sig fd = fd_sig fd' ->
    declare_all (top_sigs (p_funcs p)) [[]] = Ok G ->
    MutF (p_recs p) r G false fd fd' ->
    MutP r p {| p_recs := p_recs p; p_funcs := f1 ++ fd' :: f2; p_main := p_main p |}.

Lemma top_sigs_sig : forall f1 fd fd' f2, fd_sig fd = fd_sig fd' ->
  top_sigs (f1 ++ fd' :: f2) = top_sigs (f1 ++ fd :: f2).
Proof.
  intros f1 fd fd' f2 H. unfold top_sigs. rewrite !map_app. cbn. f_equal. f_equal.
  unfold fd_sig in H. inversion H as [[H1 H2 H3]]. unfold fd_cty. now rewrite H1, H2, H3.
Qed.

(* every single-fault mutant of a well-typed program is rejected, with the operator's rule *)
Theorem mutant_rejected : forall r p p', WellTyped p -> MutP r p p' -> tc_program p' = Error r.
Proof.
  intros r p p' HW HM. apply typecheck_complete in HW. destruct HM as [r p f1 fd fd' f2 G Hp Hsig HG HF].
  unfold tc_program in *. cbn [p_recs p_funcs].
  destruct (recs_ok (p_recs p) (p_recs p) []) as [[]|]; cbn [bind] in HW |- *; [|discriminate].
  rewrite (top_sigs_sig _ _ _ _ Hsig). rewrite <- Hp. rewrite HG in HW |- *. cbn [bind] in HW |- *.
  rewrite Hp in HW.
  destruct (tc_funcs (p_recs p) G (f1 ++ fd :: f2)) as [[]|] eqn:E; [|discriminate].
  pose proof (tc_funcs_mid _ _ _ _ _ E) as Hfd.
  pose proof (proj2 (proj2 (mut_rejected_all (p_recs p))) _ _ _ _ _ HF Hfd) as Herr.
  now rewrite (tc_funcs_replace_err _ _ _ _ _ _ _ E Herr).
Qed.

(* constness at any site: assigning to a visible name that is not VAR is rejected *)
Lemma assign_to_const_rejected : forall R G x t k inrun last rest,
  lookup x G = Some (t, k) -> k <> KVar ->
  tc_items (tc_expr R) (tc_fdef R) G inrun last (IExpr (EAssign (EVar x) (EVar x)) :: rest) = Err RAssignConst.
Proof.
  intros R G x t k inrun last rest H1 H2.
  exact (baseI_rejected R _ _ _ (BI_assign_const G x t k H1 H2) inrun last rest).
Qed.
