From Coq Require Import ExtrOcamlBasic.
From NV Require Import Gen.Opcodes Verifier.Shape Verifier.Effect Verifier.Verify Verifier.Refs.
Extraction "verifmodel.ml" opcode_of_N decode check_all first_bad check_at step init handler np is_entry cert check_refs ref_ok_at nbuiltin.
