"""C14 — exhausting the stack or the heap is reported, not suffered.

Decided by: coq/Properties/Properties_C14.v over the write-plan model coq/VM/StackBound.v
(every handler of back/vmexec.c, libvm.c, vmffi.c as the ordered list of its sp movements,
slot writes and vm_check_stack call; five handlers in two forms, write-first as pinned and
check-first) plus GC/GCProofs (out of memory exactly when no cell is free, before any write).

Tie to /repo's current tree:
 (a) static: the stack skeleton of all handlers and of every builtin case is regenerated from
     the C sources and compared with the shape the model gives to the opcode;
 (b) which of the two forms the tree has is decided by PROBING the real VM (ASan build): per
     irregular handler a witness program is run at the stack size where that handler executes
     at the top of the stack; overflow report = write-first (VIOLATION
     stack-write-before-check:<opcode>), "stack too large" = check-first;
 (c) programs straddling the limits: for every program the extracted model predicts from the
     trace under a big stack, for every stack size tried, whether the run completes or at which
     dispatched instruction the limit is reported; the real VM must agree exactly (diagnostic
     on stderr, status 1, instruction count, printed text a prefix of the full run, no
     sanitizer report), complete identically from the demand upward, and the demand computed
     by the model must be the smallest size that completes;
 (d) heap: allocation-volume programs over heap sizes from 1 upward: normal identical result
     or "out of memory"/status 1 with the heap really full and cell 0 untouched; never a
     sanitizer report, assert or signal.
 (e) entry functions with 0..k parameters (nev_prepare_argc_argv; PUSH_PARAM pushes k slots, the
     only handler whose slot count is chosen by the embedder): they go through (c) like every other
     program (model prediction, ASan on the exact malloc(stack_size * sizeof(gc_stack)) of vm_new,
     whose byte size every run audits) and, independently of the model, through EVERY stack size
     0..peak+7 with guard slots on both sides of the configured stack (limrun --redzone): the run
     completes like the reference or stops with 'stack too large'/exit 1, and no guard slot
     changed.  Properties_C14b.v (VM/StackBoundParam.v) states what a check hoisted behind the
     push loop does to the model: it differs exactly on the window sp < size <= sp + k, by storing
     to slots size..sp+k — the sizes this sweep covers.
 (e') peak probes: a push can only be seen at the limit where it sets a new running maximum of sp (at
     any smaller size an earlier instruction reports first).  Generated programs put one construct at
     the unique deepest point: typed handler entry (CLEAR_STACK; INT; PUSH_EXCEPT) after a fault with
     one temporary — single/several clauses, catch-all, unmatched clauses, nested handlers, rethrow
     chains, unhandled, handlers of nested functions — every literal class, nil, globals, captured
     variables; and per pushing opcode the smallest /repo/sample programs in which it sets a new
     maximum (all samples are traced once).  They go through (c) and through the guard-slot sweep of
     (e).  The evidence lists opcode-at-the-peak x programs, opcode-reporting-the-limit x programs and
     the pushing opcodes that never reported the limit.
 (f) the command-line tool (main.c -> nev_compile_*_and_exec -> vm_new): probe programs whose stack
     demand and heap boundary are measured through the API are run by the tree's `never` with
     -s S -m M | -m M -s S | -s S | -m M | nothing (and -f first / -sN attached / -e text), S and M
     around the measured needs and the tool's defaults; every run must equal the API run with
     stack S (default if absent) and heap M (default if absent): same status and text, or the same
     diagnostic with status 1 and, in the `machine:` dump, the configured stack_size/mem_size.
"""
import collections
import os
import re
import resource
import shutil
import subprocess
import sys
import tempfile
from concurrent.futures import ThreadPoolExecutor

from lib import common, vmcheck

sys.path.insert(0, os.path.join(common.VERIF, "harness", "c14"))
import progs as c14progs          # noqa: E402
import skeleton as c14skel        # noqa: E402

LEVEL = "proof"

CORPUS = os.path.join(common.VERIF, "corpus", "C14")
ENV = dict(os.environ, ASAN_OPTIONS="detect_leaks=0:abort_on_error=0:allocator_may_return_null=1",
           UBSAN_OPTIONS="print_stacktrace=1",
           NEVER_PATH="%s/sample/lib:%s/sample" % (common.REPO, common.REPO))
MEM_BIG, STACK_BIG = 200000, 60000
IRR = ["mark", "dup", "alloc", "record_unpack", "builtin-read"]          # order of the variant bits
IRR_OPNAME = {"mark": "BYTECODE_MARK", "dup": "BYTECODE_DUP", "alloc": "BYTECODE_ALLOC",
              "record_unpack": "BYTECODE_RECORD_UNPACK", "builtin-read": "BYTECODE_BUILD_IN"}
WITNESS = {"mark": "w_mark.nev", "dup": "w_dup.nev", "alloc": "w_alloc.nev",
           "record_unpack": "w_record_unpack.nev", "builtin-read": "w_read.nev"}


def _big_stack():
    try:
        resource.setrlimit(resource.RLIMIT_STACK, (resource.RLIM_INFINITY, resource.RLIM_INFINITY))
    except Exception:
        pass


class Tools:
    def __init__(self):
        self.lib = common.repobuild("asan")
        self.limrun = common.cc_driver("limrun", ["c14/limrun.c"], self.lib)
        ok, log = common.ocaml_build("stackbound")
        if not ok:
            raise common.BuildError("ocaml build of the stackbound engine failed:\n" + log[-3000:])
        self.tmp = tempfile.mkdtemp(prefix="c14.", dir="/var/tmp")
        # private copy: another check may rebuild the engine (new .vo time stamps) while this one runs
        self.sbrun = os.path.join(self.tmp, "sbrun")
        shutil.copy2(os.path.join(common.BUILD, "ocaml", "stackbound", "run"), self.sbrun)
        self.names = [n.split("=")[0].strip() for n in vmcheck.opcode_names()]
        self.runs = 0
        self.extent_bad = []      # (program, record, array, allocated bytes, configured bytes)
        self.extent_checked = 0

    def close(self):
        shutil.rmtree(self.tmp, ignore_errors=True)

    def opname(self, num):
        return self.names[num] if 0 <= num < len(self.names) else "op%d" % num

    def path(self, pid, suffix):
        return os.path.join(self.tmp, re.sub(r"[^A-Za-z0-9_.-]", "_", pid) + suffix)

    def lim(self, src, pairs, stdin=None, trace=None, dump=None, timeout=40, max_steps=3000000, opts=None, redzone=0):
        """run limrun; returns (compile_rc, [records]).  opts = {"entry": name, "args": [words]} selects the
        entry function and its parameters (nev_prepare_argc_argv); redzone = guard slots on both sides of
        the configured stack"""
        recs = []
        comp = None
        for k in range(0, max(len(pairs), 1), 120):
            chunk = pairs[k:k + 120]
            cmd = [self.limrun, "--timeout", "20", "--max-steps", str(max_steps)]
            if stdin:
                cmd += ["--stdin", stdin]
            if k == 0 and trace:
                cmd += ["--trace", trace]
            if k == 0 and dump:
                cmd += ["--dump", dump]
            if opts and opts.get("entry"):
                cmd += ["--entry", opts["entry"]]
            for a in (opts or {}).get("args", []):
                cmd += ["--arg", a]
            if redzone:
                cmd += ["--redzone", str(redzone)]
            cmd += [src] + ["%d:%d" % p for p in chunk]
            try:
                p = subprocess.run(cmd, stdout=subprocess.PIPE, stderr=subprocess.PIPE, env=ENV,
                                   timeout=timeout + 25 * len(chunk), cwd=os.path.dirname(src))
                out = p.stdout.decode(errors="replace")
            except subprocess.TimeoutExpired:
                out = ""
            for l in out.splitlines():
                if l.startswith("COMPILE"):
                    comp = int(l.split()[1])
                elif l.startswith("PREPARE"):
                    comp = 1000 + int(l.split()[1])
                elif l.startswith("R "):
                    r = parse_rec(l)
                    recs.append(r)
                    for nm, got, want in r["extent"]:
                        self.extent_checked += 1
                        if got != want and not (want == 0 and 0 <= got <= 1):      # malloc(0)
                            self.extent_bad.append((src, r, nm, got, want))
        self.runs += len(recs)
        return comp, recs

    def predict(self, dump, trace, bits, sizes):
        cmd = [self.sbrun, "predict", dump, trace, "--variant", bits, "--sizes", ",".join(str(s) for s in sizes)]
        p = subprocess.run(cmd, stdout=subprocess.PIPE, stderr=subprocess.PIPE, timeout=600, preexec_fn=_big_stack)
        res = {"steps": 0, "consistent": None, "demand": None, "pred": {}, "stderr": p.stderr.decode(errors="replace")[-500:]}
        for l in p.stdout.decode(errors="replace").splitlines():
            q = l.split()
            if not q:
                continue
            if q[0] == "STEPS":
                res["steps"] = int(q[1])
            elif q[0] == "CONSISTENT":
                res["consistent"] = True
            elif q[0] == "INCONSISTENT":
                res["consistent"] = l
            elif q[0] == "DEMAND":
                res["demand"] = int(q[1])
            elif q[0] == "PRED":
                s = int(q[1])
                if q[2] == "done":
                    res["pred"][s] = ("done",)
                elif q[2] == "limit":
                    res["pred"][s] = ("limit", int(q[3]), int(q[4]), int(q[5]))
                elif q[2] == "oob":
                    res["pred"][s] = ("oob", int(q[3]), int(q[5]), int(q[6]), int(q[4]))
        return res

    def table(self):
        p = subprocess.run([self.sbrun, "table"], stdout=subprocess.PIPE, stderr=subprocess.PIPE, timeout=60)
        shapes, bshapes = {}, {}
        for l in p.stdout.decode().splitlines():
            q = l.split()
            if q and q[0] == "SHAPE" and q[2] != "BUILTIN":
                shapes[int(q[1])] = q[2]
            elif q and q[0] == "BUILTIN":
                bshapes[int(q[1])] = q[2]
        return shapes, bshapes


def parse_rec(line):
    f = {}
    for tok in re.findall(r"(\w+)=((?:exit|signal) -?\d+|[^ ]*)", line):
        f[tok[0]] = tok[1]
    r = {"mem": int(f.get("mem", -1)), "stack": int(f.get("stack", -1)), "status": f.get("status", "?"),
         "steps": int(f.get("steps", 0)), "peak": int(f.get("peak", -1)),
         "ret": None if f.get("ret", "-") == "-" else int(f["ret"]),
         "result": f.get("result", "-"), "nilcell": int(f.get("nilcell", 0)),
         "heap": tuple(int(x) for x in f.get("heap", "0,0,0").split(","))}
    r["rz"] = None
    if f.get("rz", "-") != "-":
        r["rz"] = tuple(int(x) for x in f["rz"].split(","))       # front guard, back guard, first index >= size
    r["extent"] = []
    if f.get("extent", "-") != "-":
        for nm, pair in zip(("machine->stack", "collector->mem", "collector->wb_list[0]", "collector->wb_list[1]"),
                            f["extent"].split(",")):
            got, want = pair.split("/")
            r["extent"].append((nm, int(got), int(want)))
    ip, sp, op = (f.get("last", "-1,-1,-1").split(",") + ["-1", "-1"])[:3]
    r["last_ip"], r["last_sp"], r["last_op"] = int(ip), int(sp), int(op)
    try:
        r["out"] = norm_dump(bytes.fromhex(f.get("out", "")))
        r["err"] = bytes.fromhex(f.get("err", ""))
    except ValueError:
        r["out"], r["err"] = b"?", b"?"
    r["kind"] = classify(r)
    return r


def classify(r):
    e = r["err"]
    if b"AddressSanitizer" in e:
        return "asan"
    if b"runtime error" in e:
        return "ubsan"
    if b"Assertion" in e or b"assert" in e.lower() and r["status"].startswith("signal"):
        return "assert"
    if r["status"].startswith("signal"):
        return "signal"
    if r["status"] in ("timeout", "budget"):
        return r["status"]
    if r["status"] == "exit 0" and r["ret"] is not None:
        return "complete"
    # the diagnostic is the LAST thing on stderr; text before it (the message of a language exception raised earlier)
    # must be what the full run prints too: limit_text_ok
    for kind, msg in (("stack-limit", b"stack too large\n"), ("oom", b"out of memory\n")):
        if r["status"] == "exit 1" and e.endswith(msg) and e.count(msg) == 1 and b"stack too large" not in e[:-len(msg)] \
                and b"out of memory" not in e[:-len(msg)]:
            r["err_before"] = e[:-len(msg)]
            return kind
    if r["status"] == "exit 1" and b"stack too large" in e:
        return "stack-limit-dirty"
    if r["status"] == "exit 1" and b"out of memory" in e:
        return "oom-dirty"
    return "other"


def norm_dump(out):
    """vm_print (reported limit, unhandled exception) prints the configured sizes: not part of the program's text"""
    if b"machine:\n" not in out:
        return out
    return re.sub(rb"\t(stack_size|mem_size): \d+\n", rb"\t\1: <configured>\n", out)


def limit_text_ok(r, ref):
    """stdout and stderr of a run stopped at a limit are what the full run printed up to there"""
    return ref["out"].startswith(strip_machine_dump(r["out"])) and ref["err"].startswith(r.get("err_before", b""))


def strip_machine_dump(out):
    """vm_print writes a `machine:` block to stdout when the limit is reported"""
    k = out.rfind(b"machine:\n")
    return out[:k] if k >= 0 else out


def replay_opts(opts):
    if not opts:
        return ""
    return "".join(["--entry %s " % opts["entry"]] + ["--arg %s " % a for a in opts.get("args", [])])


def first_line(err, pat):
    for l in err.decode(errors="replace").splitlines():
        if pat in l:
            return l.strip()
    return ""


def brief(r):
    return {"mem": r["mem"], "stack": r["stack"], "kind": r["kind"], "status": r["status"], "steps": r["steps"],
            "last_ip": r["last_ip"], "last_sp": r["last_sp"], "last_op": r["last_op"],
            "stderr": r["err"].decode(errors="replace")[:1500], "stdout_tail": r["out"].decode(errors="replace")[-300:]}


PUSH_SHAPES = ("ShPush1", "ShPushN", "ShPopPush", "ShMark", "ShDup", "ShAlloc", "ShUnpack", "ShRead")


def sample_probes(T, tier, rng, pushers):
    """Trace every program of /repo/sample once under big limits; per pushing opcode keep the smallest deterministic
    programs in which that opcode sets a new running maximum of sp (only there can its limit check fire).
    Returns (programs, info)."""
    import glob
    quick = tier == "quick"
    files = sorted(glob.glob(os.path.join(common.REPO, "sample", "*.nev")))
    runs0 = T.runs

    def scan(f):
        pid = "sample/" + os.path.basename(f)[:-4]
        dump, trace = T.path(pid, ".scan.code"), T.path(pid, ".scan.trace")
        try:
            comp, recs = T.lim(f, [(MEM_BIG, STACK_BIG), (MEM_BIG, STACK_BIG - 1)], trace=trace, dump=dump, max_steps=60000, timeout=30)
        except Exception:       # noqa
            return None
        try:
            if comp != 0 or len(recs) != 2 or any(r["kind"] != "complete" for r in recs):
                return None
            a, b = recs
            if (a["out"], a["result"], a["steps"]) != (b["out"], b["result"], b["steps"]) or a["peak"] > 400:
                return None
            code = {}
            with open(dump) as fh:
                for l in fh:
                    if l.startswith("I "):
                        q = l.split()
                        code[int(q[1])] = int(q[2])
            setters, mx, prev = set(), -1, None
            with open(trace) as fh:
                for l in fh:
                    if l.startswith("t "):
                        q = l.split()
                        ip, sp = int(q[1]), int(q[2])
                        if prev is not None and sp > mx:
                            setters.add(T.opname(code.get(prev, -1)))
                        mx = max(mx, sp)
                        prev = ip
            return (pid, f, a["steps"], a["peak"], setters)
        finally:
            for x in (dump, trace):
                try:
                    os.unlink(x)
                except OSError:
                    pass

    scanned = [x for x in vmcheck.pmap(scan, files, workers=16) if x]
    scan_runs = T.runs - runs0
    T.runs = runs0                                  # tracing is selection, not an evaluation of the property
    per = 2 if quick else 6
    chosen, by_op = {}, {}
    for op in sorted(pushers):
        cand = sorted((x for x in scanned if op in x[4]), key=lambda x: (x[3] + x[2] // 50, x[0]))
        pick = cand[:per - 1] + (rng.sample(cand[per - 1:per + 5], 1) if len(cand) >= per else [])
        by_op[op] = {"samples_where_it_sets_a_new_maximum": len(cand), "taken": [x[0] for x in pick]}
        for x in pick:
            chosen[x[0]] = x
    progs = []
    for pid, f, steps, peak, setters in sorted(chosen.values()):
        progs.append((pid, open(f, errors="replace").read(), None, ["sample", "peak"]))
    return progs, {"samples": len(files), "traced_complete_deterministic": len(scanned), "scan_runs": scan_runs,
                   "programs_taken": len(progs), "per_pushing_opcode": by_op}


def macro_number(txt, name, depth=0):
    """value of `#define <name> <number>`; follows `#define A B` chains and parentheses down to a decimal literal; anything else
    (an expression, an undefined name, a cycle) -> None, which the caller reports"""
    m = re.search(r"^[ \t]*#[ \t]*define[ \t]+%s[ \t]+(.+?)[ \t]*(?:/\*.*|//.*)?$" % re.escape(name), txt, re.M)
    if not m or depth > 8:
        return None
    v = m.group(1).strip()
    while v.startswith("(") and v.endswith(")"):
        v = v[1:-1].strip()
    if re.fullmatch(r"\d+[uUlL]*", v):
        return int(re.match(r"\d+", v).group(0))
    if re.fullmatch(r"[A-Za-z_]\w*", v):
        return macro_number(txt, v, depth + 1)
    return None


def tool_defaults():
    """DEFAULT_VM_MEM_SIZE, DEFAULT_VM_STACK_SIZE of the tree under check (include/nev.h)"""
    txt = open(os.path.join(common.REPO, "include", "nev.h")).read()
    return (macro_number(txt, "DEFAULT_VM_MEM_SIZE"), macro_number(txt, "DEFAULT_VM_STACK_SIZE"))


def cli_kind(rc, err):
    if b"AddressSanitizer" in err:
        return "asan"
    if b"runtime error" in err:
        return "ubsan"
    if rc < 0:
        return "signal"
    if b"Assertion" in err:
        return "assert"
    if rc == 1 and err.endswith(b"stack too large\n") and err.count(b"stack too large") == 1 and b"out of memory" not in err:
        return "stack-limit"
    if rc == 1 and err.endswith(b"out of memory\n") and err.count(b"out of memory") == 1 and b"stack too large" not in err:
        return "oom"
    if b"stack too large" in err:
        return "stack-limit-dirty"
    if b"out of memory" in err:
        return "oom-dirty"
    return "complete"


def dump_sizes(out):
    """(stack_size, mem_size) printed by vm_print in the `machine:` block of a reported limit"""
    k = out.rfind(b"machine:\n")
    if k < 0:
        return None
    a = re.search(rb"stack_size:\s*(\d+)", out[k:])
    b = re.search(rb"mem_size:\s*(\d+)", out[k:])
    return (int(a.group(1)) if a else None, int(b.group(1)) if b else None)


def cli_family(ctx, T, stats, nontrivial):
    """The tool's configuration path (main.c -> nev_compile_*_and_exec -> vm_new).  Probe programs whose stack
    demand D and heap boundary (Hlo = out of memory, Hhi = Hlo+1 completes) are MEASURED through the API
    (limrun = vm_new(M, S) + nev_execute).  For a grid of S and M around D, Hlo/Hhi and the tool's defaults the
    tool is run with  -s S -m M | -m M -s S | -s S | -m M | nothing  (plus -f first, attached -sS -mM, -e text on
    a seeded subset) and must behave exactly like the API run with stack S (default when -s is absent) and heap M
    (default when -m is absent): same result status and text, or the same diagnostic with status 1."""
    import random
    never = os.path.join(T.lib, "never")
    dm, ds = tool_defaults()
    info = {"defaults": {"mem": dm, "stack": ds}, "probes": [], "unfilled_roles": []}
    if not os.path.exists(never) or not dm or not ds:
        ctx.correspondence_broken("cli:tool-or-defaults-missing", {"never": never, "defaults": [dm, ds]})
        return info
    # the usage text prints the defaults the binary was built with
    try:
        u = subprocess.run([never], stdout=subprocess.PIPE, stderr=subprocess.STDOUT, env=ENV, timeout=30).stdout.decode(errors="replace")
    except Exception as e:      # noqa
        u = ""
    mu = re.search(r"memory size \(default: (\d+)\).*stack size \(default: (\d+)\)", u)
    info["usage_defaults"] = [int(mu.group(1)), int(mu.group(2))] if mu else None

    cands = c14progs.cli_candidates(ctx.tier, ctx.rng)
    role_seed = {role: ctx.rng.randrange(1 << 30) for role in sorted(cands)}

    def section(path, opts, lo, hi, axis):
        """lo does not complete, hi completes: smallest completing size in (lo, hi] assuming an upward closed set
        near the boundary; returns (hi, runs)"""
        runs = 0
        while hi - lo > 1:
            pts = sorted({lo + (hi - lo) * k // 9 for k in range(1, 9)} - {lo, hi})
            pairs = [(MEM_BIG, x) for x in pts] if axis == "stack" else [(x, STACK_BIG) for x in pts]
            _, rr = T.lim(path, pairs, opts=opts, timeout=120)
            runs += len(rr)
            if len(rr) != len(pts):
                return None, runs
            ok = [r[axis if axis == "stack" else "mem"] for r in rr if r["kind"] == "complete"]
            if ok:
                hi = min(ok)
            bad = [r[axis if axis == "stack" else "mem"] for r in rr if r["kind"] != "complete" and r[axis if axis == "stack" else "mem"] < hi]
            if bad:
                lo = max(bad)
        return hi, runs

    def measure(p):
        pid, src = p[0], p[1]
        opts = p[4] if len(p) > 4 else None
        path = T.path("cli_" + pid, ".nev")
        with open(path, "w") as f:
            f.write(src)
        comp, recs = T.lim(path, [(MEM_BIG, STACK_BIG)], opts=opts, timeout=120)
        if comp != 0 or not recs or recs[0]["kind"] != "complete":
            return None
        ref = recs[0]
        D, _ = section(path, opts, 0, ref["peak"] + 8, "stack")
        Hhi, _ = section(path, opts, 1, MEM_BIG, "heap")
        if D is None or Hhi is None:
            return None
        return {"id": pid, "src": src, "opts": opts, "path": path, "ref": ref, "D": D, "Hhi": Hhi, "Hlo": Hhi - 1}

    def fits(role, m):
        D, Hhi = m["D"], m["Hhi"]
        near = (3 * ds) // 4 < D <= ds
        return {"stack-near-default": near and Hhi <= dm,
                "stack-over-default": D > ds and Hhi <= dm,
                "heap-light": near and Hhi < D - 5,
                "heap-heavy": D <= (3 * ds) // 4 and ds + 20 < Hhi <= dm,
                "heap-over-default": D <= ds and Hhi > dm}.get(role, True)

    def pick(role):
        tried = []
        for p in cands[role]:
            m = measure(p)
            tried.append({"id": p[0], "stack_demand": m["D"] if m else None, "smallest_completing_heap": m["Hhi"] if m else None})
            if m and fits(role, m):
                m["role"], m["tried"] = role, tried
                return m
        return {"role": role, "tried": tried, "id": None}

    probes = vmcheck.pmap(pick, sorted(cands), workers=8)
    jobs = []
    for m in probes:
        if m["id"] is None:
            info["unfilled_roles"].append({"role": m["role"], "tried": m["tried"]})
            continue
        rng = random.Random(role_seed[m["role"]])
        D, Hlo, Hhi = m["D"], m["Hlo"], m["Hhi"]
        svals = sorted({x for x in (D - 1, D, D + 7, Hlo, Hhi, 4 * ds, (3 * ds) // 4) if x >= 1}) + [None]
        mvals = sorted({x for x in (Hlo, Hhi, Hhi + 50, D - 1, D, 2 * dm, (3 * ds) // 4) if x >= 1}) + [None]
        pairs = [(M, S) for M in mvals for S in svals]
        _, recs = T.lim(m["path"], [(M or dm, S or ds) for M, S in pairs], opts=m["opts"], timeout=300)
        api = {(r["mem"], r["stack"]): r for r in recs}
        m["pairs"] = len(pairs)
        words = list((m["opts"] or {}).get("args", []))
        oneline = "\"" not in m["src"] and not words
        for (M, S) in pairs:
            exp = api.get((M or dm, S or ds))
            if exp is None:
                ctx.correspondence_broken("cli:api-run-missing:%s" % m["id"], {"mem": M, "stack": S})
                continue
            forms = []
            fopt = ["-f", m["path"]]
            if S is not None and M is not None:
                forms += [("-s,-m", ["-s", str(S), "-m", str(M)] + fopt), ("-m,-s", ["-m", str(M), "-s", str(S)] + fopt)]
                extra = [("-f,-s,-m", fopt + ["-s", str(S), "-m", str(M)]), ("-f,-m,-s", fopt + ["-m", str(M), "-s", str(S)]),
                         ("-sN,-mN", ["-s%d" % S, "-m%d" % M] + fopt), ("-mN,-sN", ["-m%d" % M, "-s%d" % S] + fopt),
                         ("-s,-f,-m", ["-s", str(S)] + fopt + ["-m", str(M)]), ("-m,-f,-s", ["-m", str(M)] + fopt + ["-s", str(S)])]
                if oneline:
                    extra += [("-s,-m,-e", ["-s", str(S), "-m", str(M), "-e", m["src"]]), ("-m,-s,-e", ["-m", str(M), "-s", str(S), "-e", m["src"]])]
                forms += rng.sample(extra, 2)
            elif S is not None:
                forms += [("-s", ["-s", str(S)] + fopt), ("-f,-s", fopt + ["-s", str(S)])]
                if oneline:
                    forms += [("-s,-e", ["-s", str(S), "-e", m["src"]])]
            elif M is not None:
                forms += [("-m", ["-m", str(M)] + fopt), ("-f,-m", fopt + ["-m", str(M)])]
                if oneline:
                    forms += [("-m,-e", ["-m", str(M), "-e", m["src"]])]
            else:
                forms += [("none", list(fopt))] + ([("-e", ["-e", m["src"]])] if oneline else [])
            for form, argv in forms:
                jobs.append((m, M, S, exp, form, argv + words))

    def run_cli(job):
        m, M, S, exp, form, argv = job
        try:
            p = subprocess.run([never] + argv, stdin=subprocess.DEVNULL, stdout=subprocess.PIPE, stderr=subprocess.PIPE,
                               env=ENV, timeout=120, cwd=T.tmp)
            return p.returncode, p.stdout, p.stderr
        except subprocess.TimeoutExpired:
            return None, b"", b"timeout"

    outs = vmcheck.pmap(run_cli, jobs, workers=16)
    per_form = collections.Counter()
    kinds = collections.Counter()
    for (m, M, S, exp, form, argv), (rc, out, err) in zip(jobs, outs):
        stats["cli_runs"] += 1
        per_form[form] += 1
        obs = "timeout" if rc is None else cli_kind(rc, err)
        if exp["kind"] not in ("complete", "stack-limit", "oom"):
            stats["cli_runs_without_api_verdict"] += 1       # reported by the API families
            continue
        kinds[exp["kind"]] += 1
        # stable key: which of the two options are given and in which order (the position of -f, the attached
        # spelling -sN and -e are variations of the same configuration path)
        order = ("-s,-m" if form.replace("N", "").find("-s") < form.replace("N", "").find("-m") else "-m,-s") if (S is not None and M is not None) \
            else "-s" if S is not None else "-m" if M is not None else "none"
        shown = ["never"] + [a if a != m["src"] else "<program text>" for a in argv]
        shown = [("<program>" if a == m["path"] else a) for a in shown]
        rep = {"program": m["src"], "argv": shown, "role": m["role"], "stack_option": S, "mem_option": M,
               "tool_defaults": {"mem": dm, "stack": ds}, "measured_through_the_api": {"stack_demand": m["D"], "largest_heap_out_of_memory": m["Hlo"],
                                                                                 "smallest_heap_completing": m["Hhi"]},
               "api_run": dict(brief(exp), result=exp["result"]), "tool_run": {"status": rc, "kind": obs, "stderr": err.decode(errors="replace")[:1200],
                                                                                 "stdout_tail": out.decode(errors="replace")[-400:]},
               "replay": "%s   vs   limrun %s<program> %d:%d" % (" ".join(shown), replay_opts(m["opts"]), M or dm, S or ds)}
        want = {"complete": "result %s, the same text, no diagnostic" % exp["result"],
                "stack-limit": "'stack too large' and status 1", "oom": "'out of memory' and status 1"}[exp["kind"]]
        eff = "stack %s, heap %s" % ("%d" % S if S is not None else "%d (default)" % ds, "%d" % M if M is not None else "%d (default)" % dm)
        if obs != exp["kind"]:
            ds_ = dump_sizes(out)
            rep["sizes_in_the_machine_dump_of_the_tool_run"] = ds_
            cls = ("limit-not-enforced" if obs == "complete" else "spurious-limit" if exp["kind"] == "complete" and obs in ("stack-limit", "oom")
                   else "wrong-limit" if obs in ("stack-limit", "oom") else obs)
            ctx.violation("cli:%s:%s" % (order, cls),
                          "C14: `%s` (%s: stack demand %d, heap %d cells) must give %s as vm_new(%d, %d) does through the API (%s); the tool %s%s"
                          % (" ".join(shown), m["id"], m["D"], m["Hhi"], want, M or dm, S or ds, eff,
                             {"complete": "runs to completion with status %s" % rc, "stack-limit": "stops with 'stack too large'",
                              "oom": "stops with 'out of memory'"}.get(obs, "ends as %s (status %s)" % (obs, rc)),
                             " (machine dump: stack_size %s, mem_size %s)" % ds_ if ds_ else ""), rep)
            continue
        if exp["kind"] == "complete":
            t, v = exp["result"].split(":")
            want_rc = int(v) & 0xFF if t == "1" else None           # OBJECT_INT: the status is the result
            if norm_dump(out) != exp["out"] or err != exp["err"] or (want_rc is not None and rc != want_rc):
                ctx.violation("cli:%s:size-changes-result" % order,
                              "C14: `%s` fits its limits (%s) but prints/returns something else than the API run (status %s, expected %s)"
                              % (" ".join(shown), eff, rc, want_rc), rep)
                continue
        else:
            if rc == 0 or strip_machine_dump(out) != strip_machine_dump(exp["out"]) or err != exp["err"]:
                ctx.violation("cli:%s:limit-output" % order,
                              "C14: `%s`: the limit is reported but status/text differ from the API run (status %s)" % (" ".join(shown), rc), rep)
                continue
            dsz = dump_sizes(out)
            if dsz and dsz != (S or ds, M or dm):
                rep["sizes_in_the_machine_dump_of_the_tool_run"] = dsz
                ctx.violation("cli:%s:enforced-sizes" % order,
                              "C14: `%s`: the limit was reported by a machine with stack_size %s and mem_size %s; configured are %s"
                              % (" ".join(shown), dsz[0], dsz[1], eff), rep)
                continue
        nontrivial.add(("cli", m["id"], form, exp["kind"]))
    for m in probes:
        if m["id"] is not None:
            info["probes"].append({"role": m["role"], "program": m["id"], "stack_demand": m["D"], "largest_heap_out_of_memory": m["Hlo"],
                                   "smallest_heap_completing": m["Hhi"], "size_pairs": m.get("pairs"), "entry_args": (m["opts"] or {}).get("args")})
    info["runs_per_form"] = dict(per_form)
    info["expected_kinds"] = dict(kinds)
    if not info["probes"]:
        ctx.correspondence_broken("cli:no-probe-program", info["unfilled_roles"])
    elif info["probes"]:
        p0 = [q for q in info["probes"] if q["role"] in ("heap-light", "stack-near-default")][:1] or info["probes"][:1]
        ctx.sample(dict(p0[0], kind="command-line tool", forms=sorted(per_form)))
    return info


# =================================================================================================

def run(ctx):
    from gen import gen_opcodes
    g = gen_opcodes.main()
    ctx.proofs()
    ctx.obligation("Gen/Opcodes.v regenerated from back/bytecode.h; vm_execute_op[] pairing",
                   not g["problems"], g["problems"])
    T = Tools()
    try:
        _run(ctx, T)
    finally:
        T.close()


def _run(ctx, T):
    quick = ctx.tier == "quick"
    stats = collections.Counter()
    limit_ops = collections.Counter()
    nontrivial = set()

    # ---- (a) static tie: handler skeletons vs model shapes --------------------------------------
    shapes, bshapes = T.table()
    mism, static_variant, skst = c14skel.compare(common.REPO, shapes, bshapes, T.names)
    ctx.notes["static_tie"] = {"handlers_parsed": skst["handlers"], "builtin_cases": skst["builtin_cases"],
                               "opcodes_compared": len(shapes), "mismatches": len(mism),
                               "variant_by_source": static_variant}
    ctx.obligation("handler skeletons regenerated from back/vmexec.c, libvm.c, vmffi.c agree with shape_of",
                   True, None)
    # A skeleton mismatch is held back until the dynamic tie has run: the source text of a handler can
    # change shape harmlessly (e.g. a check that can never fire is dropped).  suspects: (opcode
    # number, builtin id | None) -> mismatch; the stack search below adds, for every program that
    # executes a suspect, the stack sizes at which it runs at sp = size-1 and size-2.
    suspects = {}
    for m in mism:
        nm = m["opcode"]
        mb = re.match(r"BUILD_IN (\d+)", nm)
        if mb and "BYTECODE_BUILD_IN" in T.names:
            suspects[(T.names.index("BYTECODE_BUILD_IN"), int(mb.group(1)))] = m
        elif nm in T.names:
            suspects[(T.names.index(nm), None)] = m
        else:
            ctx.correspondence_broken("handler-skeleton:%s:%s" % (m.get("handler"), nm), m)
    op_build_in = T.names.index("BYTECODE_BUILD_IN") if "BYTECODE_BUILD_IN" in T.names else -1

    def suspect_steps(dump, trace):
        """suspect -> [(step, sp before)] along the trace"""
        code = []
        with open(dump) as f:
            for l in f:
                if l.startswith("I "):
                    q = l.split()
                    code.append((int(q[2]), int(q[3])))
        out = {}
        steps = []
        with open(trace) as f:
            for l in f:
                if l.startswith("t "):
                    q = l.split()
                    steps.append((int(q[1]), int(q[2])))
        for k, (ip, sp) in enumerate(steps):
            if 0 <= ip < len(code):
                op, w0 = code[ip]
                key = (op, w0 if op == op_build_in else None)
                if key in suspects:
                    # a handler that pushes a run-time number of slots (PUSH_PARAM: the parameters of the
                    # entry function) is only exercised by an execution that pushes something
                    if suspects[key].get("model_shape") == "ShPushN" and not (k + 1 < len(steps) and steps[k + 1][1] > sp):
                        continue
                    out.setdefault(key, []).append((k, sp))
        return out

    # ---- corpus witnesses: traces under a big stack -----------------------------------------------
    def prepare(pid, path, stdin):
        d = {"id": pid, "src": path, "stdin": stdin, "dump": T.path(pid, ".code"), "trace": T.path(pid, ".trace")}
        comp, recs = T.lim(path, [(MEM_BIG, STACK_BIG)], stdin=stdin, trace=d["trace"], dump=d["dump"])
        d["compile"] = comp
        d["ref"] = recs[0] if recs else None
        return d

    wit = {}
    for key in IRR:
        p = os.path.join(CORPUS, WITNESS[key])
        sin = p.replace(".nev", ".stdin")
        wit[key] = prepare("corpus/" + WITNESS[key], p, sin if os.path.exists(sin) else None)
        if wit[key]["compile"] != 0 or not wit[key]["ref"] or wit[key]["ref"]["kind"] != "complete":
            ctx.correspondence_broken("witness-program:" + key, {"program": p, "compile": wit[key]["compile"],
                                                                   "run": brief(wit[key]["ref"]) if wit[key]["ref"] else None})

    # ---- control: a regular push at sp = size-1 must report the limit -------------------------
    control_ok = True
    w = wit["mark"]
    if w["ref"] and w["ref"]["kind"] == "complete":
        pr = T.predict(w["dump"], w["trace"], "11111", list(range(0, w["ref"]["peak"] + 3)))
        cand = [(s, v) for s, v in sorted(pr["pred"].items()) if v[0] == "limit" and shapes.get(v[3]) == "ShPush1"]
        ctl = []
        for s, v in cand[-3:]:
            _, recs = T.lim(w["src"], [(MEM_BIG, s)])
            r = recs[0]
            ok = r["kind"] == "stack-limit" and r["steps"] == v[1] + 1
            ctl.append({"stack": s, "step": v[1], "op": T.opname(v[3]), "ok": ok})
            if not ok:
                control_ok = False
                ctx.violation("stack-limit-boundary:%s" % T.opname(v[3]).replace("BYTECODE_", "").lower(),
                              "C14: a push that makes sp == stack_size is not stopped with 'stack too large' (%s at sp = stack_size-1, %s)"
                              % (T.opname(v[3]), r["kind"]),
                              {"program": open(w["src"]).read(), "stack_size": s, "mem_size": MEM_BIG,
                               "expected": "stderr 'stack too large', exit 1 after %d dispatched instructions" % (v[1] + 1),
                               "observed": brief(r), "replay": "limrun %s %d:%d" % (w["src"], MEM_BIG, s)})
        ctx.notes["control_probe"] = ctl

    # ---- (b) probes: which form of the five irregular handlers does the tree have -----------------
    variant = {}
    probes = {}
    for key in IRR:
        w = wit[key]
        if not (w["ref"] and w["ref"]["kind"] == "complete"):
            variant[key] = static_variant.get(key, "unknown")
            continue
        sizes = list(range(0, w["ref"]["peak"] + 3))
        pin = T.predict(w["dump"], w["trace"], "00000", sizes)
        chk = T.predict(w["dump"], w["trace"], "11111", sizes)
        opnum = T.names.index(IRR_OPNAME[key])
        cands = []
        for s in sizes:
            a, b = pin["pred"].get(s), chk["pred"].get(s)
            if a and b and a[0] == "oob" and a[3] == opnum and b[0] == "limit" and b[1] == a[1]:
                if key == "builtin-read":
                    pass
                cands.append((s, a))
        # prefer the size where the first write is adjacent to the end of the array (ASan sees it
        # for certain), then one where the final sp exceeds the size by more than one
        cands.sort(key=lambda c: (c[1][4] - c[0], -c[0]))
        tried = []
        verdict = None
        for s, a in (cands[:1] + cands[-1:] if len(cands) > 1 else cands):
            _, recs = T.lim(w["src"], [(MEM_BIG, s)], stdin=w["stdin"])
            r = recs[0]
            tried.append({"stack": s, "step": a[1], "first_write": a[4], "kind": r["kind"], "steps": r["steps"],
                          "asan": first_line(r["err"], "ERROR: AddressSanitizer"),
                          "frame0": first_line(r["err"], "#0 "), "summary": first_line(r["err"], "SUMMARY")})
            if r["kind"] == "asan" and r["steps"] == a[1] + 1 and r["last_op"] == opnum:
                verdict = "pinned"
                if control_ok:
                    ctx.violation("stack-write-before-check:" + key,
                                  "C14: %s writes stack slot %d of a %d-slot stack before the limit is checked (%s)"
                                  % (IRR_OPNAME[key], a[4], s, first_line(r["err"], "SUMMARY")),
                                  {"program": open(w["src"]).read(), "stdin": open(w["stdin"]).read() if w["stdin"] else None,
                                   "stack_size": s, "mem_size": MEM_BIG, "step": a[1], "sp_before": r["last_sp"],
                                   "expected": "stderr 'stack too large', exit 1, no write outside the stack",
                                   "observed": brief(r), "replay": "limrun %s %d:%d" % (w["src"], MEM_BIG, s)})
                break
            if r["kind"] == "stack-limit" and r["steps"] == a[1] + 1:
                verdict = verdict or "checked"
            else:
                verdict = verdict or ("undetermined:%s" % r["kind"])
        if not cands:
            # the handler never runs at the top of the stack in this program: no stack size makes its
            # write the first one outside (e.g. the read builtin only occurs in its stdlib wrapper,
            # where it re-uses the slot the popped function value occupied).  The form is then read
            # off the source skeleton; write-first is latent, no input shows it.
            verdict = "unreachable-at-top-of-stack"
        probes[key] = {"verdict": verdict, "tried": tried}
        if verdict in ("pinned", "checked") and control_ok:
            variant[key] = verdict
        else:
            variant[key] = static_variant.get(key, "unknown")
            if verdict not in ("pinned", "checked", "unreachable-at-top-of-stack"):
                ctx.correspondence_broken("variant-probe:" + key, probes[key])
            if verdict == "unreachable-at-top-of-stack" and variant[key] == "pinned":
                ctx.notes.setdefault("latent_write_before_check", []).append(
                    {"handler": key, "source_form": "write-first", "why_not_a_violation":
                     "no program/stack size found where this handler's write is the first to leave the stack"})
        sv = static_variant.get(key)
        if control_ok and verdict in ("pinned", "checked") and sv in ("pinned", "checked") and sv != verdict:
            ctx.correspondence_broken("variant-probe-vs-source:" + key, {"probe": probes[key], "source": sv})
    bits = "".join("0" if variant[k] == "pinned" else "1" for k in IRR)
    ctx.notes["variant"] = variant
    ctx.notes["variant_probes"] = probes
    pinned_any = "0" in bits
    ctx.notes["applicable_theorems"] = (
        ["no_write_outside_stack_refuted", "no_write_outside_stack_partial", "no_write_outside_stack_variant"]
        if pinned_any else ["no_write_outside_stack"]) + [
        "run_plans_monotone", "run_plans_demand", "run_plans_fires_iff_needed", "limit_monotone_stack",
        "limit_monotone_completes", "limit_fires_iff_needed", "limited_run_never_oob", "oom_reported",
        "every_write_below_checked_bound", "written_in_range", "push_param_plan", "pushn_checked_outcome",
        "pushn_hoisted_outcome", "pushn_hoisted_differs_iff_window"]

    # ---- (c) stack: programs straddling the limit ------------------------------------------------
    P = [("corpus/" + WITNESS[k], open(os.path.join(CORPUS, WITNESS[k])).read(),
          open(wit[k]["stdin"]).read() if wit[k]["stdin"] else None, ["corpus", k]) for k in IRR]
    P += c14progs.stack_programs(ctx.tier, ctx.rng)
    P += c14progs.twod_programs(ctx.tier, ctx.rng)
    EP = c14progs.entry_programs(ctx.tier, ctx.rng)          # entry functions with 0..k parameters (PUSH_PARAM pushes k slots)
    P += EP
    # peak probes: one pushing construct at the unique deepest point of the run (typed/catch-all/nested/rethrowing
    # exception handlers, each literal class, nil, globals, captured variables, closures at function entry, ...);
    # plus, per pushing opcode, the smallest programs of /repo/sample in which that opcode sets a new maximum of sp
    PP = c14progs.peak_programs(ctx.tier, ctx.rng)
    pushers = {T.opname(num): sh for num, sh in shapes.items() if sh in PUSH_SHAPES}
    SP, scan_info = sample_probes(T, ctx.tier, ctx.rng, pushers)
    ctx.notes["sample_scan"] = scan_info
    P += PP + [q for q in SP if q[0] not in {x[0] for x in P}]
    exhaustive_upto = 140 if quick else 700
    rnd_sizes = 10 if quick else 60
    seeds = {p[0]: ctx.rng.randrange(1 << 30) for p in P}

    def stack_case(p):
        pid, src, stdin, tags = p[:4]
        opts = p[4] if len(p) > 4 else None
        import random
        rng = random.Random(seeds[pid])
        res = {"id": pid, "tags": tags, "events": [], "runs": 0, "limit_ops": collections.Counter(), "nontrivial": False}
        path = T.path(pid, ".nev")
        with open(path, "w") as f:
            f.write(src)
        sin = None
        if stdin is not None:
            sin = T.path(pid, ".stdin")
            with open(sin, "w") as f:
                f.write(stdin)
        dump, trace = T.path(pid, ".code"), T.path(pid, ".trace")
        comp, recs = T.lim(path, [(MEM_BIG, STACK_BIG)], stdin=sin, trace=trace, dump=dump, opts=opts)
        res["runs"] += len(recs)
        if comp != 0 or not recs:
            res["events"].append(("skip", "does not compile/prepare (%s)" % comp, None))
            return res
        ref = recs[0]
        if ref["kind"] != "complete":
            res["events"].append(("skip", "reference run under a big stack is %s" % ref["kind"], brief(ref)))
            return res
        peak = ref["peak"]
        if peak + 8 <= exhaustive_upto:
            sizes = list(range(0, peak + 6))
            res["exhaustive"] = True
        else:
            base = {0, 1, 2, 5, 6, 29, 30, 31, 32, 35, 36, 37}
            base |= set(range(max(0, peak - 7), peak + 6))
            base |= {rng.randrange(33, max(34, peak - 7)) for _ in range(rnd_sizes)}
            sizes = sorted(base)
            res["exhaustive"] = False
        susp = suspect_steps(dump, trace) if suspects else {}
        for key, lst in susp.items():
            for k, sp in lst[:12] + lst[-4:]:
                sizes = sorted(set(sizes) | {sp + 1, sp + 2})
        pr = T.predict(dump, trace, bits, sizes)
        if pr["consistent"] is not True:
            res["events"].append(("broken", "plan-table-vs-trace", {"program": src, "detail": pr["consistent"] or pr["stderr"]}))
            res["suspect"] = {key: {"executed": len(lst), "boundary_runs": 0, "clean": False} for key, lst in susp.items()}
            return res
        D = pr["demand"]
        res["demand"], res["peak"], res["steps"] = D, peak, ref["steps"]
        res["path"], res["sin"], res["ref"], res["src"], res["opts"] = path, sin, ref, src, opts
        if not {max(0, D - 1), D} <= set(sizes):
            sizes = sorted(set(sizes) | {max(0, D - 1), D, D + 1})
            pr = T.predict(dump, trace, bits, sizes)
        ep = pr["pred"].get(D - 1)
        res["peak_op"] = T.opname(ep[3]) if ep and ep[0] in ("limit", "oob") else None     # instruction at the unique peak
        # a broken tree produces a sanitizer report (slow: symbolised) at most sizes: run the sizes in
        # ascending chunks and stop once a few unexpected reports are in hand; of the sizes where the
        # model itself predicts a write outside (write-first variant) a handful is enough
        oob_sizes = [s for s in sizes if pr["pred"].get(s, ("?",))[0] == "oob"]
        skip_oob = set(oob_sizes[3:-3]) if len(oob_sizes) > 6 else set()
        todo = [s for s in sizes if s not in skip_oob]
        got = {}
        unexpected = 0
        for k in range(0, len(todo), 48):
            _, recs = T.lim(path, [(MEM_BIG, s) for s in todo[k:k + 48]], stdin=sin, opts=opts)
            res["runs"] += len(recs)
            for r in recs:
                got[r["stack"]] = r
                if r["kind"] in ("asan", "ubsan", "signal", "assert") and pr["pred"].get(r["stack"], ("?",))[0] != "oob":
                    unexpected += 1
            if unexpected >= 4:
                res["truncated_after"] = todo[min(len(todo), k + 48) - 1]
                break
        sizes = [s for s in todo if s in got]
        res["sizes_run"] = list(sizes)
        res["pred"] = pr["pred"]
        ref_out = ref["out"]
        completes = []
        fired = False
        for s in sizes:
            r, e = got.get(s), pr["pred"].get(s)
            if r is None or e is None:
                res["events"].append(("broken", "missing-run", {"program": src, "stack": s}))
                continue
            rep = {"program": src, "stdin": stdin, "stack_size": s, "mem_size": MEM_BIG, "model": e,
                   "model_demand": D, "observed": brief(r), "replay": "limrun %s<program> %d:%d" % (replay_opts(opts), MEM_BIG, s)}
            if opts:
                rep["entry"], rep["entry_args"] = opts.get("entry"), opts.get("args")
            opn = T.opname(r["last_op"]).replace("BYTECODE_", "").lower()
            if r["kind"] in ("asan", "ubsan", "signal", "assert"):
                irr = [k for k in IRR if T.names.index(IRR_OPNAME[k]) == r["last_op"] and variant[k] == "pinned"
                       and (k != "builtin-read" or e[0] == "oob")]
                if e[0] == "oob" and irr and r["steps"] == e[1] + 1:
                    res["events"].append(("violation", "stack-write-before-check:" + irr[0],
                                          "C14: %s writes outside a %d-slot stack before the limit is checked" % (IRR_OPNAME[irr[0]], s), rep))
                else:
                    rep["expected"] = "complete identically" if e[0] == "done" else "stderr 'stack too large', exit 1 at step %d" % e[1]
                    res["events"].append(("violation", "stack-oob-write:" + opn,
                                          "C14: %s at stack size %d: %s in %s instead of %s (%s)"
                                          % (pid, s, r["kind"], T.opname(r["last_op"]), "completing" if e[0] == "done" else "'stack too large'",
                                             first_line(r["err"], "SUMMARY") or r["status"]), rep))
                continue
            if r["kind"] == "complete":
                completes.append(s)
                same = (r["out"] == ref_out and r["err"] == ref["err"] and r["result"] == ref["result"] and r["ret"] == ref["ret"]
                        and r["steps"] == ref["steps"])
                if e[0] != "done":
                    res["events"].append(("violation", "stack-limit-missed:" + T.opname(e[3]).replace("BYTECODE_", "").lower(),
                                          "C14: %s needs %d stack slots but runs to completion with %d (no 'stack too large')" % (pid, D, s), rep))
                elif not same:
                    rep["reference"] = brief(ref)
                    res["events"].append(("violation", "stack-size-changes-result",
                                          "C14: %s gives a different result/output/instruction count with stack size %d than with %d" % (pid, s, STACK_BIG), rep))
                continue
            if r["kind"] == "stack-limit":
                fired = True
                body = strip_machine_dump(r["out"])
                if e[0] == "done":
                    res["events"].append(("violation", "stack-limit-early:" + opn,
                                          "C14: %s fits %d stack slots (demand %d) but is stopped with 'stack too large'" % (pid, s, D), rep))
                elif e[0] == "oob":
                    res["events"].append(("broken", "model-predicts-oob-but-limit-reported", rep))
                elif r["steps"] != e[1] + 1 or r["last_op"] != e[3]:
                    res["events"].append(("broken", "limit-step", rep))
                elif not limit_text_ok(r, ref):
                    res["events"].append(("violation", "stack-limit-output",
                                          "C14: %s at stack size %d printed text that the full run does not print before the limit" % (pid, s), rep))
                else:
                    res["limit_ops"][T.opname(e[3])] += 1
                continue
            # anything else: wrong diagnostic / status
            res["events"].append(("violation", "stack-limit-diagnostic:" + r["kind"],
                                  "C14: %s at stack size %d ends as %s (%s) instead of %s" % (
                                      pid, s, r["kind"], r["status"], "completing" if e[0] == "done" else "'stack too large'/exit 1"), rep))
        if completes:
            if min(completes) != D and not any(ev[0] == "violation" for ev in res["events"]) and "truncated_after" not in res:
                res["events"].append(("broken", "demand", {"program": src, "model_demand": D, "smallest_completing": min(completes)}))
            res["nontrivial"] = fired
        # independent bisection of the smallest completing size for the big ones
        if not res["exhaustive"] and not any(ev[0] != "skip" for ev in res["events"]):
            lo, hi = 0, peak + 6            # lo fails (ALLOC 30 on an empty stack), hi completes
            while hi - lo > 1:
                pts = sorted({lo + (hi - lo) * k // 9 for k in range(1, 9)} - {lo, hi})
                _, rr = T.lim(path, [(MEM_BIG, s) for s in pts], stdin=sin, opts=opts)
                res["runs"] += len(rr)
                for r in rr:
                    if r["kind"] == "complete":
                        hi = min(hi, r["stack"])
                for r in rr:
                    if r["kind"] != "complete" and r["stack"] < hi:
                        lo = max(lo, r["stack"])
                    elif r["kind"] != "complete":
                        res["events"].append(("violation", "stack-limit-not-monotone",
                                              "C14: %s completes with stack size %d but not with %d" % (pid, hi, r["stack"]),
                                              {"program": src, "observed": brief(r), "completes_at": hi}))
                        lo = hi - 1
            res["bisect"] = hi
            if hi != D and not any(ev[0] == "violation" for ev in res["events"]):
                res["events"].append(("broken", "demand-bisect", {"program": src, "model_demand": D, "bisected": hi}))
        clean = not any(ev[0] in ("broken", "violation") for ev in res["events"]) and "truncated_after" not in res
        res["suspect"] = {}
        for key, lst in susp.items():
            hits = 0
            for k, sp in lst:
                for S in (sp + 1, sp + 2):
                    e = pr["pred"].get(S)
                    if e is not None and S in got and (e[0] == "done" or (e[0] == "limit" and e[1] >= k)):
                        hits += 1           # the real run at size S dispatched this step with sp >= S-2
            res["suspect"][key] = {"executed": len(lst), "boundary_runs": hits, "clean": clean}
        return res

    results = vmcheck.pmap(stack_case, P, workers=16)
    samples = 0
    for res in results:
        stats["stack_programs"] += 1
        stats["stack_runs"] += res["runs"]
        if res.get("exhaustive"):
            stats["stack_programs_all_sizes"] += 1
        for ev in res["events"]:
            if ev[0] == "skip":
                stats["skipped"] += 1
                ctx.notes.setdefault("skipped", []).append({"id": res["id"], "why": ev[1]})
            elif ev[0] == "broken":
                ctx.correspondence_broken("stack:%s:%s" % (ev[1], res["id"]), ev[2])
            elif ev[0] == "violation":
                ctx.violation(ev[1], ev[2], ev[3])
        limit_ops.update(res["limit_ops"])
        if res["nontrivial"] and not any(ev[0] in ("broken", "violation") for ev in res["events"]):
            nontrivial.add((res["id"], "stack"))
            if samples < 1 or (samples < 2 and not res.get("exhaustive")):
                samples += 1
                ctx.sample({"program": res["id"], "kind": "stack", "model_demand": res.get("demand"),
                            "peak_sp": res.get("peak"), "instructions": res.get("steps"),
                            "all_sizes_0..demand+": bool(res.get("exhaustive")), "bisected": res.get("bisect"),
                            "limit_hit_in": dict(res["limit_ops"])})

    # ---- (c') both limits at once: heap size BELOW the stack size, stack just above the demand -------
    # (one-dimensional sweeps keep the other limit huge and cannot see a size used for the wrong array)
    def twod_case(res):
        out = {"id": res["id"], "events": [], "runs": 0, "points": 0}
        if "path" not in res or any(ev[0] in ("broken", "violation") for ev in res["events"]):
            return out
        D, ref = res["demand"], res["ref"]
        mems = sorted({m for m in (D - 1, (3 * D) // 4, D // 2, D // 3, 100, 130) if 2 <= m < D})
        pairs = [(m, D + 2) for m in mems] + [(m, D) for m in mems[-1:]]
        _, recs = T.lim(res["path"], pairs, stdin=res["sin"], opts=res.get("opts"))
        out["runs"] = len(recs)
        for r in recs:
            rep = {"program": res["src"], "mem_size": r["mem"], "stack_size": r["stack"], "model_demand": D,
                   "observed": brief(r), "replay": "limrun <program> %d:%d   (never -m %d -s %d -f <program>)" % (
                       r["mem"], r["stack"], r["mem"], r["stack"])}
            opn = T.opname(r["last_op"]).replace("BYTECODE_", "").lower()
            if r["kind"] == "complete":
                if not (r["out"] == ref["out"] and r["result"] == ref["result"] and r["steps"] == ref["steps"]):
                    out["events"].append(("violation", "grid2d:size-changes-result",
                                          "C14: %s differs at mem=%d stack=%d from the run under big limits" % (res["id"], r["mem"], r["stack"]), rep))
                else:
                    out["points"] += 1          # used more stack slots than there are heap cells, and completed
            elif r["kind"] == "oom" and not r["nilcell"] and r["heap"][0] == 0 and r["heap"][1] == r["heap"][2] - 1 \
                    and limit_text_ok(r, ref):
                pass
            else:
                out["events"].append(("violation", "grid2d:%s:%s" % (r["kind"], opn),
                                      "C14: %s needs %d stack slots; with heap size %d and stack size %d: %s in %s at sp=%d (%s) instead of "
                                      "a result or 'out of memory'" % (res["id"], D, r["mem"], r["stack"], r["kind"], T.opname(r["last_op"]),
                                                                       r["last_sp"], first_line(r["err"], "SUMMARY") or r["status"]), rep))
        return out

    tres = vmcheck.pmap(twod_case, results, workers=16)
    for o in tres:
        stats["grid2d_runs"] += o["runs"]
        stats["grid2d_points_completed_with_mem_below_stack_demand"] += o["points"]
        if o["points"]:
            nontrivial.add((o["id"], "mem<stack"))
        for ev in o["events"]:
            ctx.violation(ev[1], ev[2], ev[3])

    # ---- (e) entry functions with parameters: every stack size, guard slots around the configured stack ----
    # PUSH_PARAM pushes the k parameters of the entry function: the only handler whose slot count is
    # chosen at nev_prepare time.  Independent of the model: for EVERY size the run either completes like
    # the reference or stops with 'stack too large'/exit 1, and no slot outside [0, size) was stored to
    # (limrun --redzone: guard slots before slot 0 and from slot `size` on, compared at exit).
    RZ = 64
    op_push_param = T.names.index("BYTECODE_PUSH_PARAM") if "BYTECODE_PUSH_PARAM" in T.names else -1
    entry_ids = {p[0] for p in EP}
    guard_ids = entry_ids | {p[0] for p in PP} | {p[0] for p in SP}

    def entry_case(res):
        out = {"id": res["id"], "events": [], "runs": 0, "window": 0, "sizes": 0, "k": len((res.get("opts") or {}).get("args", [])),
               "limit_ops": collections.Counter()}
        if res["id"] not in guard_ids or "path" not in res:
            return out
        ref, opts, src = res["ref"], res["opts"] or {}, res["src"]
        if res["peak"] + 8 <= max(exhaustive_upto, 0) or res["id"] in entry_ids:
            sizes = list(range(0, res["peak"] + 8))
        else:
            sizes = sorted(set(res.get("sizes_run", [])) | set(range(max(0, res["demand"] - 3), res["demand"] + 3)))
        _, recs = T.lim(res["path"], [(MEM_BIG, s_) for s_ in sizes], stdin=res["sin"], opts=opts, redzone=RZ)
        out["runs"] = len(recs)
        got = {r["stack"]: r for r in recs}
        completes = []
        for s_ in sizes:
            r = got.get(s_)
            if r is None:
                out["events"].append(("broken", "entry-missing-run", {"program": src, "stack": s_}))
                continue
            out["sizes"] += 1
            opn = T.opname(r["last_op"]).replace("BYTECODE_", "").lower()
            rep = {"program": src, "entry": opts.get("entry"), "entry_args": opts.get("args"), "stack_size": s_,
                   "mem_size": MEM_BIG, "guard_slots_each_side": RZ, "observed": brief(r),
                   "replay": "limrun --redzone %d %s<program> %d:%d  -> rz=<front guard slots changed>,<back guard slots changed>,<first index>"
                             % (RZ, replay_opts(opts), MEM_BIG, s_)}
            if r["rz"] is None:
                out["events"].append(("broken", "entry-no-guard-report", rep))
                continue
            front, back, first = r["rz"]
            if front or back:
                # the guard slots tell that a store happened, not where: when the run went on, name the instruction the
                # model expects to report the limit at this size
                e = (res.get("pred") or {}).get(s_)
                culprit = r["last_op"] if r["kind"] in ("stack-limit", "stack-limit-dirty") or not (e and e[0] in ("limit", "oob")) else e[3]
                opn = T.opname(culprit).replace("BYTECODE_", "").lower()
                rep["model"] = e
                rep["slots_written_before_slot_0"], rep["slots_written_at_or_after_stack_size"], rep["first_slot_outside"] = front, back, first
                rep["expected"] = "no store outside slots 0..%d; 'stack too large' + exit 1, or the reference result" % (s_ - 1)
                out["events"].append(("violation", "stack-write-outside:" + opn,
                                      "C14: %s with stack size %d: %s stored to %d slot(s) outside the configured stack (first: slot %d) "
                                      "before the run ended as %s%s" % (
                                          "%s(%s)" % (opts.get("entry"), ", ".join(opts.get("args", []))) if opts else res["id"], s_,
                                          T.opname(culprit), front + back, first if back else -1, r["kind"],
                                          "" if r["kind"] != "complete" else " (model demand %d: must be 'stack too large')" % res["demand"]), rep))
                continue
            if r["kind"] == "complete":
                completes.append(s_)
                if not (r["out"] == ref["out"] and r["result"] == ref["result"] and r["ret"] == ref["ret"] and r["steps"] == ref["steps"]):
                    rep["reference"] = brief(ref)
                    out["events"].append(("violation", "stack-size-changes-result",
                                          "C14: %s gives a different result with stack size %d than with %d" % (res["id"], s_, STACK_BIG), rep))
            elif r["kind"] == "stack-limit":
                if not limit_text_ok(r, ref):
                    out["events"].append(("violation", "stack-limit-output",
                                          "C14: %s at stack size %d printed text that the full run does not print before the limit" % (res["id"], s_), rep))
                else:
                    out["limit_ops"][T.opname(r["last_op"])] += 1
                    if r["last_op"] == op_push_param:
                        out["window"] += 1
            else:
                out["events"].append(("violation", "stack-limit-diagnostic:" + r["kind"],
                                      "C14: %s at stack size %d ends as %s (%s) instead of completing or 'stack too large'/exit 1"
                                      % (res["id"], s_, r["kind"], r["status"]), rep))
        if completes and [x for x in sizes if x >= min(completes)] != completes and not out["events"]:
            bad = [x for x in sizes if x >= min(completes) and x not in completes]
            out["events"].append(("violation", "stack-limit-not-monotone",
                                  "C14: %s completes with stack size %d but not with %d" % (res["id"], min(completes), bad[0]),
                                  {"program": src, "entry": opts.get("entry"), "entry_args": opts.get("args"), "completes_at": min(completes),
                                   "observed": brief(got[bad[0]])}))
        if completes and not out["events"] and not any(ev[0] in ("broken", "violation") for ev in res["events"]) \
                and min(completes) != res["demand"]:
            out["events"].append(("broken", "entry-demand", {"program": src, "model_demand": res["demand"], "smallest_completing": min(completes)}))
        return out

    eres = vmcheck.pmap(entry_case, results, workers=16)
    es = 0
    guard_limit_ops = collections.Counter()
    for o in eres:
        guard_limit_ops.update(o["limit_ops"])
        if o["id"] not in entry_ids:
            stats["peak_probe_runs_with_guard_slots"] += o["runs"]
            if o["runs"] and not o["events"] and o["limit_ops"]:
                nontrivial.add((o["id"], "guarded-peak"))
            for ev in o["events"]:
                if ev[0] == "broken":
                    ctx.correspondence_broken("guard:%s:%s" % (ev[1], o["id"]), ev[2])
                else:
                    ctx.violation(ev[1], ev[2], ev[3])
            continue
        stats["entry_runs_with_guard_slots"] += o["runs"]
        stats["entry_sizes_where_limit_fires_in_push_param"] += o["window"]
        for ev in o["events"]:
            if ev[0] == "broken":
                ctx.correspondence_broken("entry:%s:%s" % (ev[1], o["id"]), ev[2])
            else:
                ctx.violation(ev[1], ev[2], ev[3])
        if o["window"] and not o["events"]:
            nontrivial.add((o["id"], "entry-window"))
            if es < 1 and o["k"] >= 3:
                es += 1
                ctx.sample({"program": o["id"], "kind": "entry-parameters", "parameters": o["k"], "stack_sizes_run": o["sizes"],
                            "sizes_where_PUSH_PARAM_reports_the_limit": o["window"], "guard_slots_changed": 0})

    # ---- (f) the command-line tool: -s and -m in every order and combination, and their absence ----------
    cli = cli_family(ctx, T, stats, nontrivial)
    ctx.notes["cli"] = cli

    # ---- (d) heap ----------------------------------------------------------------------------------
    H = c14progs.heap_programs(ctx.tier, ctx.rng)
    mems = [1, 2, 3, 4, 5, 6, 7, 8, 9, 10, 12, 14, 16, 20, 24, 28, 30, 31, 32, 33, 34, 35, 36, 38, 40, 45, 50, 56, 64, 72, 80,
            90, 100, 115, 128, 150, 175, 200, 230, 256, 300, 350, 400, 512, 640, 800, 1000, 1300, 1700, 2200, 3000, 4000,
            5000, 7000, 10000, 15000, 25000]
    if not quick:
        mems = sorted(set(mems) | set(range(1, 130)) | {ctx.rng.randrange(130, 20000) for _ in range(40)})

    def heap_case(p):
        pid, src, stdin, tags = p
        res = {"id": pid, "events": [], "runs": 0, "oom": 0, "complete": 0}
        path = T.path(pid, ".nev")
        with open(path, "w") as f:
            f.write(src)
        comp, recs = T.lim(path, [(MEM_BIG, STACK_BIG)])
        res["runs"] += len(recs)
        if comp != 0 or not recs or recs[0]["kind"] != "complete":
            res["events"].append(("skip", "reference run: compile=%s %s" % (comp, recs[0]["kind"] if recs else "-"), None))
            return res
        ref = recs[0]
        _, recs = T.lim(path, [(m, STACK_BIG) for m in mems])
        res["runs"] += len(recs)
        comp_sizes = []
        for r in recs:
            m = r["mem"]
            rep = {"program": src, "mem_size": m, "stack_size": STACK_BIG, "observed": brief(r),
                   "replay": "limrun <program> %d:%d" % (m, STACK_BIG)}
            if r["nilcell"]:
                res["events"].append(("violation", "heap:write-before-oom-check",
                                      "C14: with heap size %d the reserved cell 0 holds an object at exit (%s): gc_alloc_any wrote before testing the free list"
                                      % (m, r["kind"]), rep))
                continue
            if r["kind"] == "complete":
                comp_sizes.append(m)
                res["complete"] += 1
                if not (r["out"] == ref["out"] and r["result"] == ref["result"] and r["steps"] == ref["steps"]):
                    rep["reference"] = brief(ref)
                    res["events"].append(("violation", "heap:size-changes-result",
                                          "C14: %s gives a different result with heap size %d than with %d" % (pid, m, MEM_BIG), rep))
            elif r["kind"] == "oom":
                res["oom"] += 1
                free, used, size = r["heap"]
                if not limit_text_ok(r, ref):
                    res["events"].append(("violation", "heap:oom-output",
                                          "C14: %s at heap size %d printed text the full run does not print before 'out of memory'" % (pid, m), rep))
                elif not (free == 0 and used == size - 1):
                    rep["heap_at_exit"] = {"free_list_head": free, "cells_in_use": used, "mem_size": size}
                    res["events"].append(("violation", "heap:oom-while-cells-free",
                                          "C14: 'out of memory' reported with heap size %d while %d of %d cells are in use" % (m, used, size - 1), rep))
            else:
                key = "heap:mem-size-1" if m == 1 else "heap:%s:%s" % (r["kind"], T.opname(r["last_op"]).replace("BYTECODE_", "").lower())
                res["events"].append(("violation", key,
                                      "C14: heap size %d: %s (%s) instead of a result or 'out of memory'/exit 1"
                                      % (m, r["kind"], first_line(r["err"], "SUMMARY") or r["status"]), rep))
        res["min_complete"] = min(comp_sizes) if comp_sizes else None
        res["non_monotone"] = [m for m in mems if comp_sizes and m > min(comp_sizes) and m not in comp_sizes]
        return res

    hres = vmcheck.pmap(heap_case, H, workers=16)
    hs = 0
    for res in hres:
        stats["heap_programs"] += 1
        stats["heap_runs"] += res["runs"]
        for ev in res["events"]:
            if ev[0] == "skip":
                ctx.notes.setdefault("skipped", []).append({"id": res["id"], "why": ev[1]})
            elif ev[0] == "violation":
                ctx.violation(ev[1], ev[2], ev[3])
        if res["oom"] and res["complete"]:
            nontrivial.add((res["id"], "heap"))
            if hs < 2:
                hs += 1
                ctx.sample({"program": res["id"], "kind": "heap", "heap_sizes_tried": len(mems),
                            "out_of_memory_at": res["oom"], "completed_at": res["complete"],
                            "smallest_completing_heap": res["min_complete"], "non_monotone_sizes": res.get("non_monotone")})
        if res.get("non_monotone"):
            ctx.notes.setdefault("heap_non_monotone", []).append({"id": res["id"], "sizes": res["non_monotone"][:10]})

    # ---- minimal usable sizes: both limits tiny ---------------------------------------------------
    grid = [(m, s) for m in (1, 2, 3, 5, 10, 31, 32, 33, 34, 40, 64, 5000) for s in (0, 1, 2, 5, 6, 29, 30, 31, 32, 35, 36, 37, 38, 45, 60, 200)]
    for key in ("alloc", "mark"):
        w = wit[key]
        if not w["ref"]:
            continue
        _, recs = T.lim(w["src"], grid)
        stats["grid_runs"] += len(recs)
        for r in recs:
            if r["kind"] in ("complete", "stack-limit", "oom") and not r["nilcell"]:
                if r["kind"] == "complete" and not (r["out"] == w["ref"]["out"] and r["result"] == w["ref"]["result"]):
                    ctx.violation("grid:size-changes-result", "C14: %s differs at mem=%d stack=%d" % (WITNESS[key], r["mem"], r["stack"]),
                                  {"program": open(w["src"]).read(), "observed": brief(r)})
                continue
            if r["nilcell"]:
                k = "heap:write-before-oom-check"
            elif r["mem"] == 1:
                k = "heap:mem-size-1"
            elif r["last_op"] >= 0 and any(T.names.index(IRR_OPNAME[i]) == r["last_op"] and variant[i] == "pinned" for i in IRR):
                k = "stack-write-before-check:" + [i for i in IRR if T.names.index(IRR_OPNAME[i]) == r["last_op"]][0]
            else:
                k = "grid:%s:%s" % (r["kind"], T.opname(r["last_op"]).replace("BYTECODE_", "").lower())
            ctx.violation(k, "C14: heap size %d, stack size %d: %s (%s) instead of a result or a reported limit"
                          % (r["mem"], r["stack"], r["kind"], first_line(r["err"], "SUMMARY") or r["status"]),
                          {"program": open(w["src"]).read(), "mem_size": r["mem"], "stack_size": r["stack"], "observed": brief(r),
                           "replay": "limrun %s %d:%d   (or: never -m %d -s %d -f <program>)" % (w["src"], r["mem"], r["stack"], r["mem"], r["stack"])})

    # skeleton mismatches: harmless when the opcode was executed at the top of the stack (sp = size-1 /
    # size-2) in real runs and every prediction of every program executing it matched; otherwise the
    # correspondence is reported broken (bin/check prints `no-failing-input-found` if no input failed)
    for key, m in suspects.items():
        executed = boundary = progs_n = 0
        dirty = []
        for res in results:
            st = res.get("suspect", {}).get(key)
            if st:
                progs_n += 1
                executed += st["executed"]
                boundary += st["boundary_runs"]
                if not st["clean"]:
                    dirty.append(res["id"])
        info = dict(m, programs_executing_it=progs_n, executions_traced=executed,
                    real_runs_with_it_at_sp_ge_size_minus_2=boundary, programs_with_failed_predictions=dirty[:10])
        if boundary > 0 and not dirty:
            ctx.notes.setdefault("skeleton_mismatch_dynamically_confirmed_harmless", []).append(info)
        else:
            ctx.correspondence_broken("handler-skeleton:%s:%s" % (m.get("handler"), m["opcode"]), info)

    # ---- vm_new really allocates what was configured (every run above was audited; plus a direct grid) ----
    api = [(m, s_) for m in (1, 2, 3, 7, 50, 199, 200, 201, 1000, 5000) for s_ in (0, 1, 2, 36, 37, 199, 200, 201, 999, 5000, 20000)]
    _, recs = T.lim(wit["alloc"]["src"], api)
    stats["vm_new_extent_pairs"] = len(recs)
    seen = set()
    for src_, r, nm, got, want in T.extent_bad:
        kind = "stack" if nm == "machine->stack" else "heap"
        if kind in seen:
            continue
        seen.add(kind)
        ctx.violation("vm_new:%s-array-extent" % kind,
                      "C14: vm_new(%d, %d) allocates %d bytes for %s, configured are %d: the %s limit checked at run time is not the size of the array"
                      % (r["mem"], r["stack"], got, nm, want, kind),
                      {"program": open(src_).read(), "mem_size": r["mem"], "stack_size": r["stack"], "array": nm,
                       "allocated_bytes": got, "configured_bytes": want, "mismatching_runs": len(T.extent_bad),
                       "replay": "limrun <program> %d:%d  -> extent=<allocated>/<configured> for stack, mem, wb_list[0], wb_list[1]" % (r["mem"], r["stack"])})
    ctx.notes["vm_new_extent_audited_arrays"] = T.extent_checked

    ctx.assumptions.append("heap size 0 / vm_new(0, ...) is outside the configured sizes: main.c maps -m 0 and -s 0 to the "
                           "defaults (5000 cells, 200 slots); heap sizes are tried from 1 (one cell = only nil: every program "
                           "must report out of memory), stack sizes from 0")
    ctx.count(evaluations=T.runs, nontrivial=len(nontrivial))
    ctx.coverage["rule"] = (
        "programs generated per knob (recursion depth, aggregate width, nested calls in arguments, expression depth, live bindings, "
        "closures, match/if-let, tuple pipes, exceptions, read, loops; allocation volume for the heap) + the corpus witnesses; "
        "stack: every size 0..demand+5 when the demand is <= %d, else minimum sizes + demand-7..demand+5 + %d seeded sizes + an independent "
        "bisection; heap: %d sizes from 1 upward; each run is compared with the extracted model's prediction (completes / limit at "
        "instruction i) and with the run under mem=%d stack=%d.  non-trivial = distinct (program, limit kind) where the limit fired at "
        "least once AND the program completed at a larger size; two-dimensional points: heap size below the stack demand, stack = demand+2, on "
        "every program, incl. a family that pushes one shared cell many times (completes with ~130 cells and hundreds of slots); every run audits "
        "the byte size of the four arrays vm_new allocated against the configured sizes.  entry functions with 0..10 parameters of type "
        "int/float/string/[string] (main and other entry names, seeded mixes): all of the above plus every stack size 0..peak+7 with %d guard "
        "slots on each side of the configured stack; non-trivial there = the limit is reported inside PUSH_PARAM for at least one size and no "
        "guard slot changed.  peak probes (generated per construct + the smallest samples per pushing opcode that set a new maximum of sp "
        "there): same two sweeps; non-trivial = some size reports the limit and no guard slot changed; see opcode_at_the_peak_x_programs.  command-line tool: one probe per role (demand near/over the default stack, heap-light, heap-heavy, heap over the "
        "default, entry arguments, exit status) chosen by MEASURING demand and heap boundary through the API; sizes {D-1, D, D+7, Hlo, Hhi, "
        "3/4 and 4x default stack} x {Hlo, Hhi, Hhi+50, D-1, D, 2x default heap, 3/4 default stack} and absent, both option orders + 2 seeded "
        "spellings; non-trivial = distinct (probe, spelling, expected outcome) that agreed with the API run"
        % (exhaustive_upto, rnd_sizes, len(mems), MEM_BIG, STACK_BIG, RZ))
    # which instruction is at the unique peak (the one reporting the limit at demand-1), and which instructions report the
    # limit at some size (they set a new maximum of sp there), per program: a pushing opcode absent from the second table
    # was never observable at the limit in this run
    at_peak, at_limit = {}, {}
    for res in results:
        if any(ev[0] in ("broken", "violation", "skip") for ev in res["events"]):
            continue
        if res.get("peak_op"):
            at_peak.setdefault(res["peak_op"], []).append(res["id"])
        for opn_ in res["limit_ops"]:
            at_limit.setdefault(opn_, []).append(res["id"])

    def table(d):
        return {k: {"programs": len(v), "e.g.": sorted(v, key=len)[:3]} for k, v in sorted(d.items(), key=lambda kv: -len(kv[1]))}
    gaps = {o: sh for o, sh in sorted(pushers.items()) if o not in at_limit}
    ctx.coverage["opcode_at_the_peak_x_programs"] = table(at_peak)
    ctx.coverage["opcode_reporting_the_limit_x_programs"] = table(at_limit)
    ctx.coverage["pushing_opcodes_never_reporting_the_limit"] = {
        "opcodes": gaps,
        "note": "ShPopPush handlers pop their operands before they push one slot: they can only set a new maximum of sp with zero operands; "
                "the read builtin is reached through its library wrapper only, below the wrapper's own peak; OP_DUP_INT, REWRITE and "
                "ID_DIM_SLICE follow deeper pushes of the same construct.  A handler that never sets a new maximum reports no limit at any size: "
                "an earlier instruction does",
        "limit_reported_under_guard_slots_in_opcode": dict(guard_limit_ops.most_common())}
    ctx.coverage["distribution"] = {
        "stack_limit_reported_in_opcode": dict(limit_ops.most_common()),
        "counts": dict(stats),
        "nontrivial_stack": len([1 for x in nontrivial if x[1] == "stack"]),
        "nontrivial_heap": len([1 for x in nontrivial if x[1] == "heap"]),
        "nontrivial_entry_window": len([1 for x in nontrivial if x[1] == "entry-window"]),
        "nontrivial_guarded_peak": len([1 for x in nontrivial if x[1] == "guarded-peak"]),
        "nontrivial_cli": len([1 for x in nontrivial if x[0] == "cli"]),
    }
