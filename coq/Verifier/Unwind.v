(* Exception delivery in verified bytecode (property C03, bytecode level).

   Everything here is a corollary of the frame-chain invariant `Inv` of Verifier/VerifySound.v
   (initially true, preserved by every step of the shape machine Verifier/Shape.v along EVERY
   observation sequence), for EVERY module accepted by the certificate checker
   Verifier/Verify.v and EVERY reachable state: any call depth, any number of frames under
   construction (open MARKs), any resolution of the data-dependent choices.

     fault_lands_in_own_handler    a fault goes to a handler entry of the SAME function, after
                                   the faulting address; P, F, cur and everything below the
                                   popped operands are kept
     handler_chain_finite          following handler links strictly increases the address: the
                                   clauses of a function are tried in address (= source) order,
                                   finitely many, ending at its RETHROW (top level: at
                                   UNHANDLED_EXCEPTION)
     clear_stack_restores_frame    CLEAR_STACK at a handler entry: F = P, sp = P + nparams,
                                   the parameter slots untouched, locals and partial frames gone
     rethrow_pops_partial_frame /  RETHROW pops exactly one frame: the innermost frame under
     rethrow_returns_to_caller     construction (same function, same P), or else the running
                                   function's own frame (P, F, cur restored from its header) and
                                   lands in a handler entry of the function it continues in
     unhandled_only_at_top_level   UNHANDLED_EXCEPTION is certified only for the top-level code
                                   and executed only with no frame left (P = 0)

   No axioms. *)
From Coq Require Import List Arith Bool Lia Sorted.
From NV Require Import Gen.Opcodes Verifier.Shape Verifier.Effect Verifier.Verify
                       Verifier.VerifyInv Verifier.VerifySound.
Import ListNotations.

Section Unwind.
Variable prog : list rinstr.
Variable exct : list (nat * nat).
Variable metas : list fmeta.
Variable entry : nat.
Variable certs : list acert.
Hypothesis CHK : check_all prog exct metas entry certs = true.

Local Notation cert := (Verify.cert certs).
Local Notation code := (Verify.code prog).
Local Notation np := (Verify.np metas).
Local Notation base := (Verify.base metas).
Local Notation is_ffi := (Verify.is_ffi metas).
Local Notation is_entry := (Verify.is_entry metas).
Local Notation handler := (Verify.handler exct).
Local Notation handler_ok := (Verify.handler_ok exct certs).
Local Notation check_norm := (Verify.check_norm prog exct metas entry certs).
Local Notation check_exc := (Verify.check_exc exct metas certs).
Local Notation cert_at := (VerifyInv.cert_at certs).
Local Notation frame_ok := (VerifyInv.frame_ok exct metas certs).
Local Notation chain := (VerifyInv.chain exct metas certs).
Local Notation Inv := (VerifySound.Inv exct metas certs).
Local Notation stepm := (Shape.step code handler np is_entry entry).
Local Notation runm := (Shape.run code handler np is_entry entry).

(* states reached from the initial state along some observation sequence *)
Definition reachable (s : st) : Prop := exists obs, runm init obs = Next s.

Lemma reachable_Inv s : reachable s -> Inv s.
Proof.
  intros (obs & E).
  pose proof (run_good prog exct metas entry certs CHK obs init
                (Inv_init prog exct metas entry certs CHK)) as G.
  rewrite E in G. exact G.
Qed.

Lemma reachable_step s ip' len' s' : reachable s -> stepm s ip' len' = Next s' -> reachable s'.
Proof.
  intros (obs & E) Hs. exists (obs ++ [(ip', len')]).
  revert E. generalize init. induction obs as [|[a b] obs IH]; intros s0 E; cbn [run app] in *.
  - inversion E; subst. rewrite Hs. reflexivity.
  - destruct (stepm s0 a b); try discriminate. now apply IH.
Qed.

(* ------------------------------------------------------------------ static facts *)

Lemma cert_lt_len a : cert a <> CNone -> a < length prog.
Proof.
  intros H. destruct (chk_parts prog exct metas entry certs CHK) as (_ & _ & Hl & _).
  destruct (Nat.lt_ge_cases a (length certs)) as [Hlt|Hge]; [lia|].
  exfalso. apply H. unfold Verify.cert. now apply nth_overflow.
Qed.

(* instructions through which a fault can be raised *)
Definition can_fault (i : ainstr) : bool :=
  match i with AOp _ _ _ | ACall | AFfi _ => true | _ => false end.

(* the handler of every certified address at which a fault can be raised is a handler entry of
   the SAME function lying strictly AFTER that address *)
Theorem handler_link_increases a f d os i :
  cert a = CNorm f d os -> code a = Some i -> can_fault i = true ->
  exists h, handler a = Some h /\ a < h /\ cert h = CExc f.
Proof.
  intros Hc Hi Hf. destruct (cert_norm_code prog exct metas entry certs CHK _ _ _ _ Hc) as (i' & Hi' & HC).
  rewrite Hi in Hi'. inversion Hi'; subst i'. clear Hi'.
  unfold Verify.check_norm in HC. apply andb_true_iff in HC. destruct HC as [_ HC].
  apply (handler_ok_lt exct certs).
  destruct i; try discriminate.
  - band4 HC H1 H2 H3 H4. exact H4.
  - apply andb_true_iff in HC. destruct HC as [HC _]. band3 HC H1 H2 H3. exact H2.
  - band6 HC H1 H2 H3 H4 H5 H6. exact H6.
Qed.

(* the call site of every MARKed call: the handler the caller is resumed at by a RETHROW *)
Theorem mark_return_handler a f d os r :
  cert a = CNorm f d os -> code a = Some (AMark r) ->
  1 <= r /\ exists h, handler (r - 1) = Some h /\ r - 1 < h /\ cert h = CExc f.
Proof.
  intros Hc Hi. destruct (cert_norm_code prog exct metas entry certs CHK _ _ _ _ Hc) as (i' & Hi' & HC).
  rewrite Hi in Hi'. inversion Hi'; subst i'. clear Hi'.
  unfold Verify.check_norm in HC. apply andb_true_iff in HC. destruct HC as [_ HC].
  band4 HC H1 H2 H3 H4. apply Nat.leb_le in H3. split; [exact H3|].
  apply (handler_ok_lt exct certs). exact H4.
Qed.

(* where the search goes on from a handler-entry address *)
Definition hnext (x : nat) : option nat :=
  match code x with
  | Some (AOp [] 0 0) => Some (S x)        (* LABEL: falls through *)
  | Some (AClear _) => handler x           (* a clause: its own handler is the next one *)
  | _ => None                              (* RETHROW / UNHANDLED_EXCEPTION: end of the chain *)
  end.

Definition chain_end (f z : nat) : Prop :=
  (code z = Some ARethrow /\ is_entry f = true) \/ (code z = Some AUnhandled /\ f = 0).

Lemma hnext_spec x f :
  cert x = CExc f ->
  match hnext x with
  | Some y => x < y /\ cert y = CExc f
  | None => chain_end f x
  end.
Proof.
  intros Hc. destruct (cert_exc_code prog exct metas entry certs CHK _ _ Hc) as (i & Hi & HC).
  unfold hnext. rewrite Hi. unfold Verify.check_exc in HC.
  destruct i; try discriminate.
  - destruct reads; [|discriminate]. destruct pops; [|discriminate]. destruct pushes; [|discriminate].
    band2 HC H1 H2. unfold exc_ok in H1.
    destruct (cert (S x)) as [|f' d' os'|f'] eqn:Ec; try discriminate.
    apply Nat.eqb_eq in H1. subst f'. split; [lia|reflexivity].
  - left. split; [exact Hi|exact HC].
  - band5 HC H1 H2 H3 H4 H5.
    destruct (handler_ok_lt exct certs _ _ H5) as (h & Eh & Hlt & Ech). rewrite Eh. auto.
  - right. split; [exact Hi|now apply Nat.eqb_eq].
Qed.

(* the chain of clauses of function f from handler entry x: l = the clause entry addresses
   (CLEAR_STACK) in the order in which they are tried, z = where the chain ends *)
Inductive hpath (f : nat) : nat -> list nat -> nat -> Prop :=
| hp_end x : cert x = CExc f -> hnext x = None -> chain_end f x -> hpath f x [] x
| hp_label x l z :
    cert x = CExc f -> code x = Some (AOp [] 0 0) -> hpath f (S x) l z -> hpath f x l z
| hp_clause x n h l z :
    cert x = CExc f -> code x = Some (AClear n) -> n = np f ->
    handler x = Some h -> x < h -> hpath f h l z -> hpath f x (x :: l) z.

Lemma hpath_bounds f x l z : hpath f x l z -> x <= z /\ Forall (fun c => x <= c /\ c < z) l.
Proof.
  induction 1 as [x Hc Hn He | x l z Hc Hi Hp IH | x n h l z Hc Hi Hn Hh Hlt Hp IH].
  - split; [lia|constructor].
  - destruct IH as [IH1 IH2]. split; [lia|].
    eapply Forall_impl; [|exact IH2]. cbn. intros c Hcz. lia.
  - destruct IH as [IH1 IH2]. split; [lia|]. constructor; [lia|].
    eapply Forall_impl; [|exact IH2]. cbn. intros c Hcz. lia.
Qed.

Lemma hpath_sorted f x l z : hpath f x l z -> StronglySorted lt l.
Proof.
  induction 1 as [x Hc Hn He | x l z Hc Hi Hp IH | x n h l z Hc Hi Hn Hh Hlt Hp IH].
  - constructor.
  - exact IH.
  - constructor; [exact IH|]. destruct (hpath_bounds _ _ _ _ Hp) as [_ Hb].
    eapply Forall_impl; [|exact Hb]. cbn. intros c Hcz. lia.
Qed.

(* every handler entry starts a FINITE chain of clauses, tried in strictly increasing address
   order, each clause being `CLEAR_STACK nparams` with a later handler, ending at the
   function's RETHROW or (top level only) at UNHANDLED_EXCEPTION *)
Theorem handler_chain_finite x f :
  cert x = CExc f ->
  exists l z, hpath f x l z /\ x <= z /\ z < length prog /\ chain_end f z /\
              StronglySorted lt l /\ Forall (fun c => x <= c /\ c < z) l /\
              length l <= length prog - x.
Proof.
  intros Hc.
  assert (G : forall n x, length prog - x <= n -> cert x = CExc f ->
              exists l z, hpath f x l z /\ z < length prog /\ chain_end f z /\ length l <= length prog - x).
  { induction n as [|n IH]; intros y Hn Hy.
    - assert (y < length prog) by (apply cert_lt_len; congruence). lia.
    - assert (Hlt : y < length prog) by (apply cert_lt_len; congruence).
      pose proof (hnext_spec y f Hy) as Hs.
      destruct (cert_exc_code prog exct metas entry certs CHK _ _ Hy) as (i & Hi & HC).
      destruct (hnext y) as [y'|] eqn:En.
      + destruct Hs as [Hlt' Hy'].
        destruct (IH y' ltac:(lia) Hy') as (l & z & Hp & Hz & He & Hl).
        unfold hnext in En. rewrite Hi in En.
        destruct i; try discriminate.
        * destruct reads; [|discriminate]. destruct pops; [|discriminate]. destruct pushes; [|discriminate].
          inversion En; subst y'. exists l, z. split; [eapply hp_label; eauto|]. split; [auto|]. split; [auto|]. lia.
        * unfold Verify.check_exc in HC. band5 HC H1 H2 H3 H4 H5. apply Nat.eqb_eq in H1.
          exists (y :: l), z. split; [eapply hp_clause; eauto|]. split; [auto|]. split; [auto|]. cbn. lia.
      + exists [], y. split; [apply hp_end; auto|]. split; [auto|]. split; [auto|]. cbn. lia. }
  destruct (G (length prog - x) x (le_n _) Hc) as (l & z & Hp & Hz & He & Hl).
  destruct (hpath_bounds _ _ _ _ Hp) as [Hxz Hb].
  exists l, z. split; [exact Hp|]. split; [exact Hxz|]. split; [exact Hz|]. split; [exact He|].
  split; [eapply hpath_sorted; eauto|]. split; [exact Hb|exact Hl].
Qed.

(* ... in particular from every address at which a fault can be raised *)
Corollary fault_chain_finite a f d os i :
  cert a = CNorm f d os -> code a = Some i -> can_fault i = true ->
  exists h l z, handler a = Some h /\ a < h /\ hpath f h l z /\ chain_end f z /\
                StronglySorted lt l /\ Forall (fun c => a < c /\ c < z) l.
Proof.
  intros Hc Hi Hf. destruct (handler_link_increases _ _ _ _ _ Hc Hi Hf) as (h & Eh & Hlt & Ech).
  destruct (handler_chain_finite _ _ Ech) as (l & z & Hp & _ & _ & He & Hs & Hb & _).
  exists h, l, z. do 5 (split; [auto|]).
  eapply Forall_impl; [|exact Hb]. cbn. intros c Hcz. lia.
Qed.

(* UNHANDLED_EXCEPTION belongs to the top-level code only *)
Theorem unhandled_only_at_top_level a :
  code a = Some AUnhandled ->
  match cert a with
  | CNorm f _ _ => f = 0
  | CExc f => f = 0
  | CNone => True
  end.
Proof.
  intros Hi. destruct (cert a) as [|f d os|f] eqn:Hc; [exact I| |].
  - destruct (cert_norm_code prog exct metas entry certs CHK _ _ _ _ Hc) as (i' & Hi' & HC).
    rewrite Hi in Hi'. inversion Hi'; subst i'.
    unfold Verify.check_norm in HC. apply andb_true_iff in HC. destruct HC as [_ HC]. now apply Nat.eqb_eq.
  - destruct (cert_exc_code prog exct metas entry certs CHK _ _ Hc) as (i' & Hi' & HC).
    rewrite Hi in Hi'. inversion Hi'; subst i'. now apply Nat.eqb_eq.
Qed.

(* ------------------------------------------------------------------ faults *)

(* the step (s, observed ip', len') is a fault of the instruction at ip s; Some n = the number
   of operands the C handler may have popped before raising *)
Definition fault_pops (s : st) (ip' len' : nat) : option nat :=
  match code (ip s) with
  | Some (AOp _ pops _) => if ip' =? S (ip s) then None else Some pops
  | Some ACall => if is_entry ip' && (len' =? length (stk s) - 1) then None else Some 1
  | Some (AFfi r) => if (ip' =? r) && (len' =? P s + 1) then None else Some (np (cur s))
  | _ => None
  end.

Lemma fault_step s ip' len' pops s' :
  fault_pops s ip' len' = Some pops -> stepm s ip' len' = Next s' ->
  fault handler s pops ip' len' = Next s' /\ pops <= length (stk s) - F s.
Proof.
  unfold fault_pops, step. cbv zeta. destruct (code (ip s)) as [i|]; [|discriminate].
  destruct i; try discriminate.
  - destruct (negb (forallb (read_ok (stk s) (P s)) reads)); [discriminate|].
    destruct (length (stk s) - F s <? pops0) eqn:E1; [discriminate|]. apply Nat.ltb_ge in E1.
    destruct (ip' =? S (ip s)); [discriminate|]. intros E H. inversion E; subst pops0. split; [exact H|lia].
  - destruct (length (stk s) - F s <? 1) eqn:E1; [discriminate|]. apply Nat.ltb_ge in E1.
    destruct (negb (top_is_val (stk s))); [discriminate|].
    destruct (is_entry ip' && (len' =? length (stk s) - 1)); [discriminate|].
    intros E H. inversion E; subst pops. split; [exact H|lia].
  - destruct (negb (F s =? P s)) eqn:E0; [discriminate|].
    apply negb_false_iff in E0. apply Nat.eqb_eq in E0.
    destruct (negb (length (stk s) =? P s + np (cur s))) eqn:E1; [discriminate|].
    apply negb_false_iff in E1. apply Nat.eqb_eq in E1.
    destruct ((ip' =? retaddr) && (len' =? P s + 1)); [discriminate|].
    intros E H. inversion E; subst pops. split; [exact H|lia].
Qed.

(* the address the machine is at is certified for the running function, and if a fault can be
   raised there its handler is a handler entry of that function, not before it *)
Lemma inv_handler s ip' len' pops :
  Inv s -> fault_pops s ip' len' = Some pops ->
  exists h, handler (ip s) = Some h /\ ip s <= h /\ cert h = CExc (cur s) /\
            (forall f d os, cert (ip s) = CNorm f d os -> ip s < h).
Proof.
  intros (d & os & cs & [Hc|Hc] & HF) Hf; unfold fault_pops in Hf.
  - destruct (code (ip s)) as [i|] eqn:Hi; [|discriminate].
    assert (Hcf : can_fault i = true) by (destruct i; try discriminate; reflexivity).
    destruct (handler_link_increases _ _ _ _ _ Hc Hi Hcf) as (h & Eh & Hlt & Ech).
    exists h. split; [auto|]. split; [lia|]. split; [auto|]. intros; exact Hlt.
  - destruct (cert_exc_code prog exct metas entry certs CHK _ _ Hc) as (i & Hi & HC).
    rewrite Hi in Hf. unfold Verify.check_exc in HC.
    destruct i; try discriminate.
    destruct reads; [|discriminate]. destruct pops0; [|discriminate]. destruct pushes; [|discriminate].
    band2 HC H1 H2. destruct (handler_ok_le_inv exct certs _ _ H2) as (h & Eh & Hle & Ech).
    exists h. split; [auto|]. split; [auto|]. split; [auto|]. intros f d' os' E. congruence.
Qed.

Theorem fault_lands_in_own_handler_inv s ip' len' pops s' :
  Inv s -> fault_pops s ip' len' = Some pops -> stepm s ip' len' = Next s' ->
  exists h,
    handler (ip s) = Some h /\ ip s <= h /\
    (forall f d os, cert (ip s) = CNorm f d os -> ip s < h) /\
    ip s' = h /\ cert h = CExc (cur s) /\
    cur s' = cur s /\ P s' = P s /\ F s' = F s /\
    length (stk s) - pops <= len' /\ len' <= length (stk s) /\ F s <= len' /\
    stk s' = firstn len' (stk s).
Proof.
  intros HI Hf Hs. destruct (inv_handler _ _ _ _ HI Hf) as (h & Eh & Hle & Ech & Hlt).
  destruct (fault_step _ _ _ _ _ Hf Hs) as [Hfa Hroom].
  assert (HFl : F s <= length (stk s)).
  { destruct HI as (d & os & cs & _ & HF). pose proof (frame_F_le _ _ _ _ _ _ _ _ _ _ HF). lia. }
  unfold fault in Hfa. rewrite Eh in Hfa.
  destruct ((h =? ip') && (length (stk s) - pops <=? len') && (len' <=? length (stk s))) eqn:E; [|discriminate].
  band3 E E1 E2 E3. apply Nat.eqb_eq in E1. apply Nat.leb_le in E2, E3.
  inversion Hfa; subst s'. cbn [setip ip stk P F cur].
  exists h. do 11 (split; [auto; try lia|]). reflexivity.
Qed.

(* ------------------------------------------------------------------ CLEAR_STACK *)

Theorem clear_stack_restores_frame_inv s ip' len' n s' :
  Inv s -> code (ip s) = Some (AClear n) -> stepm s ip' len' = Next s' ->
  cert (ip s) = CExc (cur s) /\ n = np (cur s) /\ is_ffi (cur s) = false /\
  ip s' = S (ip s) /\ cur s' = cur s /\ P s' = P s /\ F s' = P s /\
  P s + np (cur s) <= length (stk s) /\
  stk s' = firstn (P s + np (cur s)) (stk s) /\ length (stk s') = P s + np (cur s) /\
  (forall i, i < P s + np (cur s) -> nth_error (stk s') i = nth_error (stk s) i) /\
  (forall i, P s <= i -> i < P s + np (cur s) -> nth_error (stk s') i = Some SVal) /\
  cert_at (S (ip s)) (cur s) 0 [].
Proof.
  intros (d & os & cs & Hc & HF) Hi Hs.
  assert (Hce : cert (ip s) = CExc (cur s)).
  { destruct Hc as [Hc|Hc]; [|exact Hc]. exfalso.
    destruct (cert_norm_code prog exct metas entry certs CHK _ _ _ _ Hc) as (i' & Hi' & HC).
    rewrite Hi in Hi'. inversion Hi'; subst i'.
    unfold Verify.check_norm in HC. apply andb_true_iff in HC. destruct HC as [_ HC]. discriminate. }
  destruct (cert_exc_code prog exct metas entry certs CHK _ _ Hce) as (i' & Hi' & HC).
  rewrite Hi in Hi'. inversion Hi'; subst i'. clear Hi'.
  unfold Verify.check_exc in HC. band5 HC H1 H2 H3 H4 H5.
  apply Nat.eqb_eq in H1. apply negb_true_iff in H2.
  assert (Hb : base (cur s) = np (cur s)) by (unfold Verify.base; now rewrite H2).
  pose proof (frame_len _ _ _ _ _ _ _ _ _ _ HF) as Hlen.
  pose proof (frame_clear _ _ _ _ _ _ _ _ _ _ HF) as HF'. rewrite Hb in HF'.
  unfold step in Hs. cbv zeta in Hs. rewrite Hi in Hs. subst n.
  destruct (length (stk s) <? P s + np (cur s)) eqn:E1; [discriminate|]. apply Nat.ltb_ge in E1.
  destruct ((ip' =? S (ip s)) && (len' =? P s + np (cur s))); [|discriminate].
  inversion Hs; subst s'. cbn [ip stk P F cur].
  do 8 (split; [auto|]). split; [reflexivity|].
  split; [rewrite firstn_length; lia|].
  split; [intros i Hlt; now apply nth_firstn|].
  split; [|now apply succ_ok_at].
  intros i Hi1 Hi2. destruct HF' as (_ & Hl' & _ & _ & Hv & _).
  destruct (Hv i Hi1 ltac:(rewrite firstn_length; lia)) as [(o & [] & _)|E]. exact E.
Qed.

(* ------------------------------------------------------------------ RETHROW *)

Lemma rethrow_cert s :
  Inv s -> code (ip s) = Some ARethrow -> cert (ip s) = CExc (cur s) /\ is_entry (cur s) = true.
Proof.
  intros (d & os & cs & Hc & HF) Hi.
  assert (Hce : cert (ip s) = CExc (cur s)).
  { destruct Hc as [Hc|Hc]; [|exact Hc]. exfalso.
    destruct (cert_norm_code prog exct metas entry certs CHK _ _ _ _ Hc) as (i' & Hi' & HC).
    rewrite Hi in Hi'. inversion Hi'; subst i'.
    unfold Verify.check_norm in HC. apply andb_true_iff in HC. destruct HC as [_ HC]. discriminate. }
  split; [exact Hce|].
  destruct (cert_exc_code prog exct metas entry certs CHK _ _ Hce) as (i' & Hi' & HC).
  rewrite Hi in Hi'. inversion Hi'; subst i'. exact HC.
Qed.

(* RETHROW with a frame under construction (F <> P): pops exactly that frame -- its header is
   the five slots below F, written by a MARK of the running function --, replaces it by one
   value slot, and lands in a handler entry of the SAME function, P unchanged, F restored from
   the header.  Everything below the header is kept. *)
Theorem rethrow_pops_partial_frame_inv s ip' len' s' :
  Inv s -> code (ip s) = Some ARethrow -> F s <> P s -> stepm s ip' len' = Next s' ->
  exists Fprev r h,
    5 <= F s /\ hdr (stk s) (F s - 5) (P s) Fprev r (cur s) /\
    P s + base (cur s) <= F s - 5 /\ P s <= Fprev /\ Fprev <= F s - 5 /\
    1 <= r /\ handler (r - 1) = Some h /\ r - 1 < h /\ cert h = CExc (cur s) /\
    ip s' = h /\ cur s' = cur s /\ P s' = P s /\ F s' = Fprev /\
    stk s' = firstn (F s - 5) (stk s) ++ [SVal].
Proof.
  intros HI Hi HFP Hs. destruct HI as (d & os & cs & Hc & HF).
  destruct os as [|o os'].
  { exfalso. apply HFP. eapply frame_F_nil; eauto. }
  pose proof HF as HF0. destruct HF0 as (Hos & Hlen & Ho & _).
  cbn [VerifyInv.opens_ok] in Ho. destruct Ho as (HFc & Fp0 & r0 & Hh0 & Hle0 & _ & _ & _ & Ho').
  pose proof (opens_P_le_F _ _ _ _ _ _ _ _ Ho') as HPFp.
  destruct (frame_pop_open _ _ _ _ _ _ _ _ _ _ _ HF) as (Fp & r & H5 & Hh & H1 & Hk & HF').
  destruct (handler_ok_lt exct certs _ _ Hk) as (h & Eh & Hlt & Ech).
  unfold step in Hs. cbv zeta in Hs. rewrite Hi in Hs.
  rewrite (unwind_hdr _ _ _ _ _ _ _ H5 Hh) in Hs. rewrite Eh in Hs.
  destruct ((1 <=? r) && (ip' =? h) && (len' =? length (firstn (F s - 5) (stk s) ++ [SVal]))); [|discriminate].
  inversion Hs; subst s'. cbn [ip stk P F cur].
  assert (Fp = Fp0).
  { replace (F s - 5) with (P s + base (cur s) + o) in Hh by lia.
    destruct Hh as (_ & _ & _ & A & _). destruct Hh0 as (_ & _ & _ & B & _). congruence. }
  subst Fp0.
  exists Fp, r, h. do 13 (split; [auto; try lia|]). reflexivity.
Qed.

(* RETHROW with no frame under construction (F = P): leaves the running function through its
   own header (the five slots below P): P, F and the running function are restored from it,
   the frame is replaced by one value slot, and control lands in a handler entry of the function
   that made the call -- the handler of the CALL instruction (return address - 1) -- which lies
   after the call.  The caller's frame is strictly below: one function left per RETHROW. *)
Theorem rethrow_returns_to_caller_inv s ip' len' s' :
  Inv s -> code (ip s) = Some ARethrow -> F s = P s -> stepm s ip' len' = Next s' ->
  exists p0 f0 r c h dr osr,
    5 <= P s /\ hdr (stk s) (P s - 5) p0 f0 r c /\
    p0 <= f0 /\ f0 <= P s - 5 /\
    1 <= r /\ cert r = CNorm c dr osr /\
    handler (r - 1) = Some h /\ r - 1 < h /\ cert h = CExc c /\
    ip s' = h /\ cur s' = c /\ P s' = p0 /\ F s' = f0 /\
    stk s' = firstn (P s - 5) (stk s) ++ [SVal].
Proof.
  intros HI Hi HFP Hs. destruct (rethrow_cert _ HI Hi) as [_ He].
  destruct HI as (d & os & cs & Hc & HF).
  destruct os as [|o os'].
  2:{ exfalso. destruct HF as (_ & _ & Ho & _). cbn [VerifyInv.opens_ok] in Ho. destruct Ho as (HFc & _). lia. }
  destruct HF as (_ & Hlen & _ & Hch & _ & Hne & _).
  destruct cs as [|c cs']; [exfalso; now apply Hne|].
  cbn [VerifyInv.chain] in Hch.
  destruct Hch as (H5 & Hh & HPF & HFle & H1 & Hcr & Hk & _).
  destruct (handler_ok_lt exct certs _ _ Hk) as (h & Eh & Hlt & Ech).
  unfold step in Hs. cbv zeta in Hs. rewrite Hi, HFP in Hs.
  rewrite (unwind_hdr _ _ _ _ _ _ _ H5 Hh) in Hs. rewrite Eh in Hs.
  destruct ((1 <=? cr c) && (ip' =? h) && (len' =? length (firstn (P s - 5) (stk s) ++ [SVal]))); [|discriminate].
  inversion Hs; subst s'. cbn [ip stk P F cur].
  exists (cP0 c), (cF0 c), (cr c), (cg c), h, (cd c), (cos c).
  do 13 (split; [auto|]). reflexivity.
Qed.

(* ------------------------------------------------------------------ UNHANDLED_EXCEPTION *)

(* the unhandled stub is executed only by the top-level code with every frame left: P = 0 (no
   header below), no frame under construction above the globals' base is required by the stub;
   the machine stops there *)
Theorem unhandled_reached_only_at_top_inv s ip' len' :
  Inv s -> code (ip s) = Some AUnhandled ->
  cur s = 0 /\ P s = 0 /\ stepm s ip' len' = Stop.
Proof.
  intros (d & os & cs & Hc & HF) Hi.
  pose proof (unhandled_only_at_top_level _ Hi) as Hu.
  assert (H0 : cur s = 0) by (destruct Hc as [Hc|Hc]; rewrite Hc in Hu; exact Hu).
  destruct HF as (_ & _ & _ & _ & _ & _ & Ht). destruct (Ht H0) as [HP _].
  split; [exact H0|]. split; [exact HP|].
  unfold step. cbv zeta. rewrite Hi. reflexivity.
Qed.

(* ------------------------------------------------------------------ the same, for reachable states *)

Theorem fault_lands_in_own_handler s ip' len' pops s' :
  reachable s -> fault_pops s ip' len' = Some pops -> stepm s ip' len' = Next s' ->
  exists h,
    handler (ip s) = Some h /\ ip s <= h /\
    (forall f d os, cert (ip s) = CNorm f d os -> ip s < h) /\
    ip s' = h /\ cert h = CExc (cur s) /\
    cur s' = cur s /\ P s' = P s /\ F s' = F s /\
    length (stk s) - pops <= len' /\ len' <= length (stk s) /\ F s <= len' /\
    stk s' = firstn len' (stk s).
Proof. intros H. apply fault_lands_in_own_handler_inv. now apply reachable_Inv. Qed.

Theorem clear_stack_restores_frame s ip' len' n s' :
  reachable s -> code (ip s) = Some (AClear n) -> stepm s ip' len' = Next s' ->
  cert (ip s) = CExc (cur s) /\ n = np (cur s) /\ is_ffi (cur s) = false /\
  ip s' = S (ip s) /\ cur s' = cur s /\ P s' = P s /\ F s' = P s /\
  P s + np (cur s) <= length (stk s) /\
  stk s' = firstn (P s + np (cur s)) (stk s) /\ length (stk s') = P s + np (cur s) /\
  (forall i, i < P s + np (cur s) -> nth_error (stk s') i = nth_error (stk s) i) /\
  (forall i, P s <= i -> i < P s + np (cur s) -> nth_error (stk s') i = Some SVal) /\
  cert_at (S (ip s)) (cur s) 0 [].
Proof. intros H. apply clear_stack_restores_frame_inv. now apply reachable_Inv. Qed.

Theorem rethrow_pops_partial_frame s ip' len' s' :
  reachable s -> code (ip s) = Some ARethrow -> F s <> P s -> stepm s ip' len' = Next s' ->
  exists Fprev r h,
    5 <= F s /\ hdr (stk s) (F s - 5) (P s) Fprev r (cur s) /\
    P s + base (cur s) <= F s - 5 /\ P s <= Fprev /\ Fprev <= F s - 5 /\
    1 <= r /\ handler (r - 1) = Some h /\ r - 1 < h /\ cert h = CExc (cur s) /\
    ip s' = h /\ cur s' = cur s /\ P s' = P s /\ F s' = Fprev /\
    stk s' = firstn (F s - 5) (stk s) ++ [SVal].
Proof. intros H. apply rethrow_pops_partial_frame_inv. now apply reachable_Inv. Qed.

Theorem rethrow_returns_to_caller s ip' len' s' :
  reachable s -> code (ip s) = Some ARethrow -> F s = P s -> stepm s ip' len' = Next s' ->
  exists p0 f0 r c h dr osr,
    5 <= P s /\ hdr (stk s) (P s - 5) p0 f0 r c /\
    p0 <= f0 /\ f0 <= P s - 5 /\
    1 <= r /\ cert r = CNorm c dr osr /\
    handler (r - 1) = Some h /\ r - 1 < h /\ cert h = CExc c /\
    ip s' = h /\ cur s' = c /\ P s' = p0 /\ F s' = f0 /\
    stk s' = firstn (P s - 5) (stk s) ++ [SVal].
Proof. intros H. apply rethrow_returns_to_caller_inv. now apply reachable_Inv. Qed.

(* the table covers every address at which a fault can be observed, and every call site an
   exception can be rethrown to: the machine never looks up an address that lies in no block
   (exception_tab_search returning NULL: assert / NULL dereference in the VM) *)
Theorem every_fault_has_a_handler s ip' len' c :
  reachable s -> stepm s ip' len' <> Crash c.
Proof.
  intros H E. pose proof (step_ok prog exct metas entry certs CHK s ip' len' (reachable_Inv _ H)) as G.
  rewrite E in G. exact G.
Qed.

Theorem unhandled_reached_only_at_top s ip' len' :
  reachable s -> code (ip s) = Some AUnhandled ->
  cur s = 0 /\ P s = 0 /\ stepm s ip' len' = Stop.
Proof. intros H. apply unhandled_reached_only_at_top_inv. now apply reachable_Inv. Qed.

End Unwind.
