(* Model of ranges and slices (definitions only, executable).

   Mirrors back/vmexec.c:
     vm_get_slice_range        the four direction cases of [a..b][c..d]
     vm_execute_slice_range    range  [ range ]   (SLICE_RANGE)
     vm_execute_slice_slice    slice  [ range ]   (SLICE_SLICE; same per-dimension loop)
     vm_execute_slice_array    array  [ range ]   (SLICE_ARRAY: pairs array and range, no check)
     vm_execute_range_deref    range  [ i, j ]    (RANGE_DEREF)
     vm_execute_slice_deref    slice  [ i, j ]    (SLICE_DEREF)

   All range bounds are C `int`.  Since fix acecad0 vm_get_slice_range forms `a + c` etc. in
   `long long`: for int operands the 64-bit sum is the mathematical sum (|a +- c| < 2^32), which
   is what the model writes; the bounds are tested on these exact values and the results are
   narrowed to int -- s32 -- only when no oob is reported. *)
From Coq Require Import ZArith List Bool.
From NV Require Import Index.W32 Index.ArrIndex.
Import ListNotations.
Local Open Scope Z_scope.

(* a range value: one (from, to) pair per dimension, both ends inclusive *)
Definition range := list (Z * Z).

(* vm_get_slice_range(range1_from=a, range1_to=b, range2_from=c, range2_to=d, &res_from,
   &res_to, &oob): returns (res_from, res_to, oob).
     if (range2_from < 0 || range2_to < 0) { *oob = 1; return; }     (fix bf51841)
     from = (long long)a +- c;  to = (long long)a +- d;              (fix acecad0)
     the bound test on from/to:  { *oob = 1; return; }
     *res_from = (int)from;  *res_to = (int)to;
   res_from/res_to are written only when no oob is reported: every caller presets them to 0,
   which is what the model returns on every oob path; oob is only ever set (callers clear it
   before the call). *)
Definition get_slice_range (a b c d : Z) : Z * Z * bool :=
  if (c <? 0) || (d <? 0) then (0, 0, true)
  else if a <? b then
    let from := a + c in
    let to := a + d in
    if c <? d then
      if b <? to then (0, 0, true)        (* C: to   > range1_to  =>  oob *)
      else (s32 from, s32 to, false)
    else
      if b <? from then (0, 0, true)      (* C: from > range1_to  =>  oob *)
      else (s32 from, s32 to, false)
  else
    let from := a - c in
    let to := a - d in
    if c <? d then
      if to <? b then (0, 0, true)        (* C: to   < range1_to  =>  oob *)
      else (s32 from, s32 to, false)
    else
      if from <? b then (0, 0, true)      (* C: from < range1_to  =>  oob *)
      else (s32 from, s32 to, false).

(* per-dimension loop shared by vm_execute_slice_range and vm_execute_slice_slice
   (d < code->mk_slice.dims; both vectors hold 2*dims ints) *)
Fixpoint compose_ranges (r1 r2 : range) : result range :=
  match r1, r2 with
  | (a, b) :: t1, (c, d) :: t2 =>
      let '(rf, rt, oob) := get_slice_range a b c d in
      if oob then Exc (IndexOob (-1))
      else match compose_ranges t1 t2 with
           | Ok t => Ok ((rf, rt) :: t)
           | Exc e => Exc e
           end
  | _, _ => Ok []
  end.

(* SLICE_RANGE: range1[range2]; None = nil reference *)
Definition slice_range (r1 r2 : option range) : result range :=
  match r1, r2 with
  | Some r1, Some r2 => compose_ranges r1 r2
  | _, _ => Exc NilPointer
  end.

(* a slice value = (array, range) vector; the array is identified by its dimension vector
   here, the handlers never copy it (SLICE_ARRAY stores the array pointer itself) *)
Record slice := { sl_arr : option dimv; sl_range : option range }.

(* SLICE_ARRAY: array[range] *)
Definition slice_array (arr : option dimv) (r : option range) : result slice :=
  match arr, r with
  | Some _, Some _ => Ok {| sl_arr := arr; sl_range := r |}
  | _, _ => Exc NilPointer
  end.

(* SLICE_SLICE: slice[range]; the array pointer is carried over unchanged *)
Definition slice_slice (s : option slice) (r : option range) : result slice :=
  match s, r with
  | Some s, Some r2 =>
      match sl_range s with
      | None => Exc NilPointer
      | Some r1 =>
          match compose_ranges r1 r2 with
          | Ok r => Ok {| sl_arr := sl_arr s; sl_range := Some r |}
          | Exc e => Exc e
          end
      end
  | _, _ => Exc NilPointer
  end.

(* RANGE_DEREF: range[i, j, ...] -> array of the selected values, one per dimension.
   Per dimension d: pop index; `if (range_indx < 0)` oob d; get_slice_range(from, to, i, i);
   `if (oob)` oob d; value = res_from. *)
Fixpoint range_deref_loop (d : Z) (r : range) (idx : list Z) : result (list Z) :=
  match r, idx with
  | (a, b) :: tr, i :: ti =>
      if i <? 0 then Exc (IndexOob d)
      else
        let '(rf, _, oob) := get_slice_range a b i i in
        if oob then Exc (IndexOob d)
        else match range_deref_loop (d + 1) tr ti with
             | Ok l => Ok (rf :: l)
             | Exc e => Exc e
             end
  | _, _ => Ok []
  end.

Definition range_deref (r : option range) (idx : list Z) : result (list Z) :=
  match r with
  | None => Exc NilPointer
  | Some r => range_deref_loop 0 r idx
  end.

(* SLICE_DEREF: slice[i, j, ...].
   loop 1: pop dims ints, `if (e < 0)` oob d, addr[d].mult = e           (pop_indices)
   nil checks on slice, array, range
   loop 2: get_slice_range(from, to, addr[d].mult, addr[d].mult) -- the unsigned field is
           converted to the int parameter (s32 i): same value since 0 <= e <= INT_MAX --;
           `if (oob)` oob d; addr[d].mult = res_from (int -> unsigned)
   then object_arr_dim_addr on the underlying array. *)
Fixpoint slice_positions (d : Z) (r : range) (addr : list Z) : result (list Z) :=
  match r, addr with
  | (a, b) :: tr, i :: ti =>
      let '(rf, _, oob) := get_slice_range a b (s32 i) (s32 i) in
      if oob then Exc (IndexOob d)
      else match slice_positions (d + 1) tr ti with
           | Ok l => Ok (u32 rf :: l)
           | Exc e => Exc e
           end
  | _, _ => Ok []
  end.

Definition slice_deref (s : option slice) (idx : list Z) : result Z :=
  match pop_indices 0 idx with
  | inl d => Exc (IndexOob d)
  | inr addr =>
      match s with
      | None => Exc NilPointer
      | Some s =>
          match sl_arr s, sl_range s with
          | Some dv, Some r =>
              match slice_positions 0 r addr with
              | Exc e => Exc e
              | Ok addr' =>
                  let '(k, oob) := dim_addr dv addr' in
                  if 0 <=? oob then Exc (IndexOob oob) else Ok k
              end
          | _, _ => Exc NilPointer
          end
      end
  end.

(* ---- the layout of range vectors -------------------------------------------------------------
   A range value is a gc vector of 2*dims ints [from0; to0; from1; to1; ...] (MK_RANGE writes
   them in that order; a slice is the 2-vector (array, range vector)).  Every handler runs
     for (d = 0; d < dims; d++) { from = vec[d * 2]; to = vec[d * 2 + 1]; ... }
   with dims taken from the instruction (code->mk_slice.dims / code->array_deref.dims), and
   SLICE_RANGE / SLICE_SLICE write res[2 * d], res[2 * d + 1].  The models above work on the list
   of pairs; here the layout is explicit and the handlers are restated on flat vectors.
   SliceRangeProofs.v: the two views coincide (vec_layout, vec_dims_flatten, *_vec_spec). *)
Fixpoint flatten (r : range) : list Z :=
  match r with
  | [] => []
  | (a, b) :: t => a :: b :: flatten t
  end.

Fixpoint unflatten (v : list Z) : range :=
  match v with
  | a :: b :: t => (a, b) :: unflatten t
  | _ => []
  end.

(* gc_get_int (gc_get_vec (vec, k)) *)
Definition vec_get (v : list Z) (k : nat) : Z := nth k v 0.

(* what the loop `for d in [d0, d0 + n)` reads: (vec[d*2], vec[d*2+1]) per dimension *)
Fixpoint vec_dims_from (n d : nat) (v : list Z) : range :=
  match n with
  | O => []
  | S n' => (vec_get v (d * 2), vec_get v (d * 2 + 1)) :: vec_dims_from n' (S d) v
  end.

Definition vec_dims (dims : nat) (v : list Z) : range := vec_dims_from dims 0 v.

Definition lift_flatten (x : result range) : result (list Z) :=
  match x with Ok r => Ok (flatten r) | Exc e => Exc e end.

(* SLICE_RANGE on vectors: dims = code->mk_slice.dims *)
Definition slice_range_vec (dims : nat) (v1 v2 : option (list Z)) : result (list Z) :=
  match v1, v2 with
  | Some v1, Some v2 => lift_flatten (compose_ranges (vec_dims dims v1) (vec_dims dims v2))
  | _, _ => Exc NilPointer
  end.

(* a slice value on vectors: (array, range vector) *)
Record slice_v := { slv_arr : option dimv; slv_range : option (list Z) }.

(* SLICE_SLICE on vectors *)
Definition slice_slice_vec (dims : nat) (s : option slice_v) (v2 : option (list Z)) : result slice_v :=
  match s, v2 with
  | Some s, Some v2 =>
      match slv_range s with
      | None => Exc NilPointer
      | Some v1 =>
          match compose_ranges (vec_dims dims v1) (vec_dims dims v2) with
          | Ok r => Ok {| slv_arr := slv_arr s; slv_range := Some (flatten r) |}
          | Exc e => Exc e
          end
      end
  | _, _ => Exc NilPointer
  end.

(* RANGE_DEREF on a vector: dims = code->array_deref.dims *)
Definition range_deref_vec (dims : nat) (v : option (list Z)) (idx : list Z) : result (list Z) :=
  match v with
  | None => Exc NilPointer
  | Some v => range_deref_loop 0 (vec_dims dims v) idx
  end.

(* SLICE_DEREF on a slice holding a vector *)
Definition slice_deref_vec (dims : nat) (s : option slice_v) (idx : list Z) : result Z :=
  match s with
  | None => slice_deref None idx
  | Some s =>
      slice_deref (Some {| sl_arr := slv_arr s;
                           sl_range := match slv_range s with
                                       | Some v => Some (vec_dims dims v)
                                       | None => None
                                       end |}) idx
  end.

(* ---- names of the bounds of a slice / range parameter ------------------------------------------
   `func f(s[n0 .. n1, n2 .. n3] : int)`: the name at position dim_index of the bound list is
   compiled to ID_DIM_SLICE (vm_execute_id_dim_slice):
       if (dim % 2 == 0) value = 0;
       else { from = range[dim - 1]; to = range[dim];
              value = (to > from) ? to - from : from - to; }                 (int arithmetic)
   i.e. the lower name of every dimension is 0 and the upper name is the last valid index of that
   dimension of the slice, whatever part of the array it covers and whichever way it runs.
   `func f(r[n0 .. n1, ..] : range)`: the name is compiled to VECREF_VEC_DEREF with index =
   dim_index: the bound itself. *)
Definition slice_dim_name (v : list Z) (dim : nat) : Z :=
  if Nat.even dim then 0
  else
    let from := vec_get v (dim - 1) in
    let to := vec_get v dim in
    if from <? to then s32 (to - from) else s32 (from - to).

Definition range_dim_name (v : list Z) (dim : nat) : Z := vec_get v dim.
