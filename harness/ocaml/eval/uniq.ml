(* uniq — name resolution following the scoping rules of Src/Eval.v, and the two renamings used
   for property C08:

     uniquify p          every binder (top-level function, parameter, let, var, nested function)
                         gets a globally unique new name; every use is renamed to the binder it
                         resolves to *lexically*.  If the compiler resolved some use to another
                         binding of the same name, the uniquified program behaves differently.
     rename_injective    one random injective map applied to all names (shadowing structure kept,
                         spelling / hash buckets / lengths changed).

   Scoping (Eval.v): top-level functions are mutually visible and are the outermost scope; a
   parameter scopes over the body and the catch clauses; `let/var x = e` scopes over the items
   after it in the same block (not over e); a nested `func f` scopes over its own body and the
   items after it; catch clauses see the parameters and the definition environment, not the
   locals of the body. *)
open Evalmodel
open Conv

module IM = Map.Make (Int)
module IS = Set.Make (Int)

(* the maximal run of adjacent function items at the head of an item list, and what follows it *)
let rec split_run (items : item list) : fdef list * item list =
  match items with
  | IFunc fd :: t -> let run, rest = split_run t in (fd :: run, rest)
  | _ -> ([], items)

(* ---- free variables -------------------------------------------------------------------- *)
let rec fv_expr (bound : IS.t) (acc : IS.t ref) (e : expr) : unit =
  let go = fv_expr bound acc in
  match e with
  | EInt _ | EBool _ | ERecNil _ -> ()
  | EVar x -> let k = int_of_n x in if not (IS.mem k bound) then acc := IS.add k !acc
  | ENeg a | ENot a | EBNot a | EPrint a | EField (a, _, _) -> go a
  | EBin (_, a, b) | EIf (a, b) | EAssign (a, b) | EWhile (a, b) | EDoWhile (a, b) | EIndex (a, b) -> go a; go b
  | ECond (a, b, c) -> go a; go b; go c
  | EFor (a, b, c, d) -> go a; go b; go c; go d
  | EForInRange (x, a, b, body) -> go a; go b; fv_expr (IS.add (int_of_n x) bound) acc body
  | EForInArr (x, a, body) -> go a; fv_expr (IS.add (int_of_n x) bound) acc body
  | ECall (f, args) -> go f; List.iter go args
  | EArrLit (es, _) | ERecNew (_, es) -> List.iter go es
  | EBlock items -> fv_items bound acc items
  | ELambda fd -> fv_fdef ~named:false bound acc fd
and fv_items bound acc items =
  match items with
  | [] -> ()
  | ILet (x, e) :: t | IVar (x, e) :: t -> fv_expr bound acc e; fv_items (IS.add (int_of_n x) bound) acc t
  | IFunc _ :: _ ->
    let run, rest = split_run items in
    let b = List.fold_left (fun b fd -> IS.add (int_of_n (fd_name fd)) b) bound run in
    List.iter (fun fd -> fv_fdef ~named:true b acc fd) run; fv_items b acc rest
  | IExpr e :: t -> fv_expr bound acc e; fv_items bound acc t
and fv_fdef ~named bound acc (FDef (name, params, _, body, catches, call)) =
  let b = if named then IS.add (int_of_n name) bound else bound in
  let b = List.fold_left (fun b ((x, _), _) -> IS.add (int_of_n x) b) b params in
  fv_items b acc body;
  List.iter (fun (_, h) -> fv_items b acc h) catches;
  (match call with Some h -> fv_items b acc h | None -> ())

let free_of_fdef ~named fd = let acc = ref IS.empty in fv_fdef ~named IS.empty acc fd; !acc
let free_of_expr e = let acc = ref IS.empty in fv_expr IS.empty acc e; !acc

(* names captured by the closures (lambdas, nested functions) occurring anywhere in e *)
let rec closure_free_expr (acc : IS.t ref) (e : expr) : unit =
  let go = closure_free_expr acc in
  match e with
  | EInt _ | EBool _ | ERecNil _ | EVar _ -> ()
  | ENeg a | ENot a | EBNot a | EPrint a | EField (a, _, _) -> go a
  | EBin (_, a, b) | EIf (a, b) | EAssign (a, b) | EWhile (a, b) | EDoWhile (a, b) | EIndex (a, b) -> go a; go b
  | ECond (a, b, c) -> go a; go b; go c
  | EFor (a, b, c, d) -> go a; go b; go c; go d
  | EForInRange (_, a, b, body) -> go a; go b; go body
  | EForInArr (_, a, body) -> go a; go body
  | ECall (f, args) -> go f; List.iter go args
  | EArrLit (es, _) | ERecNew (_, es) -> List.iter go es
  | EBlock items -> List.iter (closure_free_item acc) items
  | ELambda fd -> acc := IS.union (free_of_fdef ~named:false fd) !acc
and closure_free_item acc = function
  | ILet (_, e) | IVar (_, e) | IExpr e -> closure_free_expr acc e
  | IFunc fd -> acc := IS.union (free_of_fdef ~named:true fd) !acc

let closure_free_of_item it = let acc = ref IS.empty in closure_free_item acc it; !acc

(* ---- generic renaming with an environment ------------------------------------------------ *)
type renamer = {
  bind : int -> int;                 (* new name for a binder occurrence of the given old name *)
}

let rec rn_expr (r : renamer) (env : int IM.t) (e : expr) : expr =
  let go = rn_expr r env in
  match e with
  | EInt _ | EBool _ | ERecNil _ -> e
  | EVar x -> (match IM.find_opt (int_of_n x) env with Some k -> EVar (n_of_int k) | None -> e)
  | ENeg a -> ENeg (go a) | ENot a -> ENot (go a) | EBNot a -> EBNot (go a) | EPrint a -> EPrint (go a)
  | EField (a, rr, p) -> EField (go a, rr, p)
  | EBin (op, a, b) -> EBin (op, go a, go b)
  | EIf (a, b) -> EIf (go a, go b)
  | EAssign (a, b) -> EAssign (go a, go b)
  | EWhile (a, b) -> EWhile (go a, go b)
  | EDoWhile (a, b) -> EDoWhile (go a, go b)
  | EIndex (a, b) -> EIndex (go a, go b)
  | ECond (a, b, c) -> ECond (go a, go b, go c)
  | EFor (a, b, c, d) -> EFor (go a, go b, go c, go d)
  | EForInRange (x, a, b, body) ->
    let a' = go a in let b' = go b in
    let k = r.bind (int_of_n x) in
    EForInRange (n_of_int k, a', b', rn_expr r (IM.add (int_of_n x) k env) body)
  | EForInArr (x, a, body) ->
    let a' = go a in
    let k = r.bind (int_of_n x) in
    EForInArr (n_of_int k, a', rn_expr r (IM.add (int_of_n x) k env) body)
  | ECall (f, args) -> let args' = List.map go args in ECall (go f, args')
  | EArrLit (es, t) -> EArrLit (List.map go es, t)
  | ERecNew (rr, es) -> ERecNew (rr, List.map go es)
  | EBlock items -> EBlock (rn_items r env items)
  | ELambda fd -> ELambda (rn_fdef r env ~named:false fd)
and rn_items r env = function
  | [] -> []
  | ILet (x, e) :: t ->
    let e' = rn_expr r env e in
    let k = r.bind (int_of_n x) in
    ILet (n_of_int k, e') :: rn_items r (IM.add (int_of_n x) k env) t
  | IVar (x, e) :: t ->
    let e' = rn_expr r env e in
    let k = r.bind (int_of_n x) in
    IVar (n_of_int k, e') :: rn_items r (IM.add (int_of_n x) k env) t
  | (IFunc _ :: _) as items ->
    let run, rest = split_run items in
    let env' = List.fold_left (fun env fd ->
        let x = int_of_n (fd_name fd) in IM.add x (r.bind x) env) env run in
    let run' = List.map (fun fd -> IFunc (rn_fdef r env' ~named:true fd)) run in
    run' @ rn_items r env' rest
  | IExpr e :: t -> let e' = rn_expr r env e in IExpr e' :: rn_items r env t
(* for named functions the caller has already put name -> new name into env *)
and rn_fdef r env ~named (FDef (name, params, ret, body, catches, call)) =
  let name' = if named then (match IM.find_opt (int_of_n name) env with Some k -> n_of_int k | None -> name)
    else n_of_int (r.bind (int_of_n name)) in
  let env', params' =
    List.fold_left (fun (env, acc) ((x, v), t) ->
        let k = r.bind (int_of_n x) in
        (IM.add (int_of_n x) k env, ((n_of_int k, v), t) :: acc)) (env, []) params in
  let params' = List.rev params' in
  let body' = rn_items r env' body in
  let catches' = List.map (fun (ex, h) -> (ex, rn_items r env' h)) catches in
  let call' = match call with Some h -> Some (rn_items r env' h) | None -> None in
  FDef (name', params', ret, body', catches', call')

let rn_program (r : renamer) (p : program) : program =
  let env = List.fold_left (fun env fd ->
      let x = int_of_n (fd_name fd) in IM.add x (r.bind x) env) IM.empty p.p_funcs in
  let funcs = List.map (fun fd -> rn_fdef r env ~named:true fd) p.p_funcs in
  let main = match IM.find_opt (int_of_n p.p_main) env with Some k -> n_of_int k | None -> p.p_main in
  { p_recs = p.p_recs; p_funcs = funcs; p_main = main }

(* all idents occurring in a program (binders and uses) *)
let all_names (p : program) : IS.t =
  let acc = ref IS.empty in
  let r = { bind = (fun x -> acc := IS.add x !acc; x) } in
  ignore (rn_program r p);
  let fv = ref IS.empty in
  List.iter (fun fd -> fv_fdef ~named:true IS.empty fv fd) p.p_funcs;
  IS.union !acc !fv

let uniquify (p : program) : program =
  let next = ref (IS.fold max (all_names p) 0) in
  rn_program { bind = (fun _ -> incr next; !next) } p

(* records are a separate name space of the AST; renamed by their own injective map *)
let rec map_rec_ty f = function
  | TInt -> TInt | TBool -> TBool
  | TFun (a, r) -> TFun (List.map (map_rec_ty f) a, map_rec_ty f r)
  | TArr t -> TArr (map_rec_ty f t)
  | TRec r -> TRec (f r)

let rec map_rec_expr f e =
  let go = map_rec_expr f in
  match e with
  | EInt _ | EBool _ | EVar _ -> e
  | ERecNil r -> ERecNil (f r)
  | ENeg a -> ENeg (go a) | ENot a -> ENot (go a) | EBNot a -> EBNot (go a) | EPrint a -> EPrint (go a)
  | EField (a, r, p) -> EField (go a, f r, p)
  | EBin (op, a, b) -> EBin (op, go a, go b)
  | EIf (a, b) -> EIf (go a, go b)
  | EAssign (a, b) -> EAssign (go a, go b)
  | EWhile (a, b) -> EWhile (go a, go b)
  | EDoWhile (a, b) -> EDoWhile (go a, go b)
  | EIndex (a, b) -> EIndex (go a, go b)
  | ECond (a, b, c) -> ECond (go a, go b, go c)
  | EFor (a, b, c, d) -> EFor (go a, go b, go c, go d)
  | EForInRange (x, a, b, body) -> EForInRange (x, go a, go b, go body)
  | EForInArr (x, a, body) -> EForInArr (x, go a, go body)
  | ECall (g, args) -> ECall (go g, List.map go args)
  | EArrLit (es, t) -> EArrLit (List.map go es, map_rec_ty f t)
  | ERecNew (r, es) -> ERecNew (f r, List.map go es)
  | EBlock items -> EBlock (List.map (map_rec_item f) items)
  | ELambda fd -> ELambda (map_rec_fdef f fd)
and map_rec_item f = function
  | ILet (x, e) -> ILet (x, map_rec_expr f e)
  | IVar (x, e) -> IVar (x, map_rec_expr f e)
  | IFunc fd -> IFunc (map_rec_fdef f fd)
  | IExpr e -> IExpr (map_rec_expr f e)
and map_rec_fdef f (FDef (name, params, ret, body, catches, call)) =
  FDef (name, List.map (fun (xv, t) -> (xv, map_rec_ty f t)) params, map_rec_ty f ret,
        List.map (map_rec_item f) body,
        List.map (fun (ex, h) -> (ex, List.map (map_rec_item f) h)) catches,
        (match call with Some h -> Some (List.map (map_rec_item f) h) | None -> None))

let rename_injective (rng : Rng.t) (p : program) : program =
  let names = IS.elements (all_names p) in
  let used = Hashtbl.create 64 in
  let fresh () =
    let rec go () =
      (* a mix of short and long spellings *)
      let k = match Rng.int rng 3 with
        | 0 -> 1000 + Rng.int rng 700
        | 1 -> 1000 + Rng.int rng 500000
        | _ -> 1000 + Rng.int rng 400000000 in
      if Hashtbl.mem used k then go () else (Hashtbl.add used k (); k) in
    go () in
  let m = List.fold_left (fun m x -> IM.add x (fresh ()) m) IM.empty names in
  let p' = rn_program { bind = (fun x -> IM.find x m) } p in
  let rm = List.fold_left (fun m (r, _) -> IM.add (int_of_n r) (fresh ()) m) IM.empty p.p_recs in
  let f r = match IM.find_opt (int_of_n r) rm with Some k -> n_of_int k | None -> r in
  { p_recs = List.map (fun (r, tys) -> (f r, List.map (map_rec_ty f) tys)) p'.p_recs;
    p_funcs = List.map (map_rec_fdef f) p'.p_funcs;
    p_main = p'.p_main }
