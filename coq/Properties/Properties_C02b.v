(* C02 (part b) — compiler correctness for a core fragment: the code that the model of the real
   emitter (Src/Compile.v, tied instruction by instruction to front/emit.c by
   checks/parts/compiletie.py) produces, run on the value-level VM model (VM/ValueVM.v, tied to
   back/vmexec.c by the same check), computes what the reference evaluator (Src/Eval.v) computes.
   Only statements here; every proof is `exact <lemma>` into Src/CompileCorrect*.v.

   Fragments (boolean predicates of Src/Compile.v; `in_F lv scope e`, `func_in_F lv fd`):
   F1 = level 1: int/bool expressions over parameters and let/var names — literals, names, unary -
        and !, the binary operators + - * / % < <= > >= == != &&& ||| ^^^ <<< >>>, ?: / if-else,
        assignment to a name, blocks of let / var / expression items ending with an expression;
        literals fit 32 bits, no operator has only literal operands (front/constred.c would fold
        it), shift counts are literals 0..31, names are in scope; functions without catch clauses.
   F2 = level 2: F1 + && || (short-circuit jumps) + while / do-while / for (let/var inside loop
        bodies: per-iteration SLIDE) + print(e).  The call of the stdlib function `print`
        (MARK … CALL, callee FUNC_DEF; ID_LOCAL; BUILD_IN print; RET) is ONE abstract step of the
        VM model at the CALL instruction (VM/ValueVM.v says how). *)
From Coq Require Import ZArith List Bool.
From NV Require Import Gen.Opcodes Verifier.Effect Src.Syntax Src.Eval Src.EvalLemmas
  VM.ValueVM Src.Compile Src.CompileCorrectBase Src.CompileCorrect.
Import ListNotations.
Local Open Scope Z_scope.

(* ---- expressions: code embedded at any offset of any program, any related states ----------- *)

Theorem compile_expr_correct : forall genv lv fuel e env st r st' sc,
  eval genv fuel env st e = (r, st') -> in_F lv sc e = true ->
  forall prog pc L ce s m,
    code_at prog pc (compile_expr L ce e) -> v_ip s = pc ->
    MS m st (v_heap s) -> v_out s = out st -> env_match m env ce sc L (v_stk s) ->
    match r with
    | ROk c =>
      exists s' m' a, star prog s s' /\ v_ip s' = (pc + length (compile_expr L ce e))%nat /\
        v_stk s' = a :: v_stk s /\ nth_error m' c = Some (Some a) /\
        MS m' st' (v_heap s') /\ ext m m' /\ v_out s' = out st'
    | RExc ex =>
      ex = ExDivision /\
      exists s', star prog s s' /\ step prog s' = SExc ExDivision s' /\
                 (pc <= v_ip s' < pc + length (compile_expr L ce e))%nat /\ v_out s' = out st'
    | _ => True
    end.
Proof. exact CompileCorrect.compile_expr_correct. Qed.
Print Assumptions compile_expr_correct.

Theorem compile_expr_correct_F1 : forall genv fuel e env st c st' sc,
  eval genv fuel env st e = (ROk c, st') -> in_F1 sc e = true ->
  forall prog pc L ce s m,
    code_at prog pc (compile_expr L ce e) -> v_ip s = pc ->
    MS m st (v_heap s) -> v_out s = out st -> env_match m env ce sc L (v_stk s) ->
    exists s' m' a, star prog s s' /\ v_ip s' = (pc + length (compile_expr L ce e))%nat /\
      v_stk s' = a :: v_stk s /\ nth_error m' c = Some (Some a) /\
      MS m' st' (v_heap s') /\ ext m m' /\ v_out s' = out st'.
Proof. exact (fun genv fuel e env st c st' sc He HF =>
                CompileCorrect.compile_expr_correct genv 1 fuel e env st (ROk c) st' sc He HF). Qed.
Print Assumptions compile_expr_correct_F1.

(* ---- a function body, from its entry (FUNC_DEF) to RET ---------------------------------------- *)

Theorem compile_func_correct_F : forall genv lv fuel fd cs penv st r st' prog entry m stk h,
  func_in_F lv fd = true ->
  bind_params (fd_params fd) cs = Some penv ->
  eval_items genv fuel penv st (fd_body fd) None = (r, st') ->
  code_at prog entry (compile_func fd) ->
  MS m st h -> Forall2 (fun c a => nth_error m c = Some (Some a)) cs stk ->
  match r with
  | ROk c =>
    exists s' a z v, star prog (mkst entry stk h (out st)) s' /\ step prog s' = SRet a s' /\
      nth_error (v_heap s') a = Some z /\ get_cell st' c = Some v /\ val_rel v z /\
      v_out s' = out st'
  | RExc ex =>
    ex = ExDivision /\
    exists s', star prog (mkst entry stk h (out st)) s' /\ step prog s' = SExc ExDivision s' /\
               v_out s' = out st'
  | _ => True
  end.
Proof. exact CompileCorrect.compile_func_correct_F. Qed.
Print Assumptions compile_func_correct_F.

(* ---- whole programs of one function: run_vm (compile p) = observe (run_program p) -------------
   result payload, printed numbers and the unhandled exception agree *)

Theorem compile_program_correct_F1 : forall fuel fd args,
  func_in_F1 fd = true ->
  match run_program fuel (single fd) args with
  | OResult v printed =>
      exists k z, run_func (compile_func fd) 0 k args = VRet z printed /\ val_rel v z
  | OUnhandled ex printed =>
      exists k, run_func (compile_func fd) 0 k args = VExc ex printed
  | OFuel | OStuck => True
  end.
Proof. exact (CompileCorrect.compile_program_correct_F 1). Qed.
Print Assumptions compile_program_correct_F1.

Theorem compile_program_correct_F2 : forall fuel fd args,
  func_in_F2 fd = true ->
  match run_program fuel (single fd) args with
  | OResult v printed =>
      exists k z, run_func (compile_func fd) 0 k args = VRet z printed /\ val_rel v z
  | OUnhandled ex printed =>
      exists k, run_func (compile_func fd) 0 k args = VExc ex printed
  | OFuel | OStuck => True
  end.
Proof. exact (CompileCorrect.compile_program_correct_F 2). Qed.
Print Assumptions compile_program_correct_F2.

(* ---- the hypotheses are satisfiable: concrete programs of the fragments ------------------------
   func main(v1 : int, var v2 : int) -> int
   { let v3 = v1 + 1;  var v4 = v2;                       (v4 aliases the cell of v2)
     v4 = (v2 / v1) * 2;
     (v3 < v4) ? { let v5 = 7; v5 - v1 } : (-v2);
     v2 + (v3 <<< 4) } *)
Definition ex_fd : fdef := FDef 0%N [(1%N, false, TInt); (2%N, true, TInt)] TInt
  [ ILet 3%N (EBin Add (EVar 1%N) (EInt 1));
    IVar 4%N (EVar 2%N);
    IExpr (EAssign (EVar 4%N) (EBin Mul (EBin Div (EVar 2%N) (EVar 1%N)) (EInt 2)));
    IExpr (ECond (EBin Lt (EVar 3%N) (EVar 4%N))
                 (EBlock [ILet 5%N (EInt 7); IExpr (EBin Sub (EVar 5%N) (EVar 1%N))])
                 (ENeg (EVar 2%N)));
    IExpr (EBin Add (EVar 2%N) (EBin Shl (EVar 3%N) (EInt 4))) ] [] None.

Example ex_in_F1 : func_in_F1 ex_fd = true.
Proof. vm_compute. reflexivity. Qed.

(* 39 instructions; on (3, 17): v4 = v2 = 10 through the alias, result 10 + (4 <<< 4) = 74 *)
Example ex_runs :
  run_func (compile_func ex_fd) 0 200 [3; 17] = VRet 74 [] /\
  run_program 50 (single ex_fd) [3; 17] = OResult (CInt 74) [].
Proof. vm_compute. split; reflexivity. Qed.

(* on (0, 5) the division handler raises, as the evaluator says *)
Example ex_raises :
  run_func (compile_func ex_fd) 0 200 [0; 5] = VExc ExDivision [] /\
  run_program 50 (single ex_fd) [0; 5] = OUnhandled ExDivision [].
Proof. vm_compute. split; reflexivity. Qed.

(* func main(v1 : int) -> int
   { var v2 = 0;  var v3 = 1;
     while (v2 < v1 && v3 != 0) { let v4 = v3 * 2; print(v4); v3 = v4; v2 = v2 + 1 };
     for (v2 = 0; v2 < 2 || v3 < 0; v2 = v2 + 1) { v3 = v3 - v2 };
     do { v3 = v3 / v2 } while (print(v3) > 100);
     v3 } *)
Definition ex2_fd : fdef := FDef 0%N [(1%N, false, TInt)] TInt
  [ IVar 2%N (EInt 0);
    IVar 3%N (EInt 1);
    IExpr (EWhile (EBin And (EBin Lt (EVar 2%N) (EVar 1%N)) (EBin Ne (EVar 3%N) (EInt 0)))
             (EBlock [ILet 4%N (EBin Mul (EVar 3%N) (EInt 2));
                      IExpr (EPrint (EVar 4%N));
                      IExpr (EAssign (EVar 3%N) (EVar 4%N));
                      IExpr (EAssign (EVar 2%N) (EBin Add (EVar 2%N) (EInt 1)))]));
    IExpr (EFor (EAssign (EVar 2%N) (EInt 0))
                (EBin Or (EBin Lt (EVar 2%N) (EInt 2)) (EBin Lt (EVar 3%N) (EInt 0)))
                (EAssign (EVar 2%N) (EBin Add (EVar 2%N) (EInt 1)))
                (EBlock [IExpr (EAssign (EVar 3%N) (EBin Sub (EVar 3%N) (EVar 2%N)))]));
    IExpr (EDoWhile (EBlock [IExpr (EAssign (EVar 3%N) (EBin Div (EVar 3%N) (EVar 2%N)))])
                    (EBin Gt (EPrint (EVar 3%N)) (EInt 100)));
    IExpr (EVar 3%N) ] [] None.

Example ex2_in_F2 : func_in_F2 ex2_fd = true /\ func_in_F1 ex2_fd = false.
Proof. vm_compute. split; reflexivity. Qed.

(* 110 instructions; on 10: the while loop prints 2 … 1024, the for loop leaves v3 = 1023, v2 = 2,
   the do-while prints 511 255 127 63; both sides agree on result and printed numbers *)
Example ex2_runs :
  run_func (compile_func ex2_fd) 0 2000 [10]
    = VRet 63 [2; 4; 8; 16; 32; 64; 128; 256; 512; 1024; 511; 255; 127; 63] /\
  run_program 200 (single ex2_fd) [10]
    = OResult (CInt 63) [2; 4; 8; 16; 32; 64; 128; 256; 512; 1024; 511; 255; 127; 63].
Proof. vm_compute. split; reflexivity. Qed.

(* ==== stage 3: the machine with frames, calls of top-level functions (fragment F3) ===============
   Model: Src/Compile3.v (`cexpr`: calls MARK / args right to left / GLOBAL_VEC 0; ID_FUNC_ADDR f /
   CALL / LABEL, self tail calls `args; f; SLIDE (L+v) (v+1); CALL`; `compile_program`: the whole
   module image — global prelude, entry stub, stdlib bodies, the program's bodies — and `exc_table`)
   and VM/ValueVM3.v (MARK pushes the five header words, CALL / RET / RETHROW move the frame,
   registers fp / exception / the suspended activations, exception dispatch through the exception
   table, HALT / UNHANDLED_EXCEPTION).  Tied by checks/parts/compiletie.py level 3: the model image
   = the real module's whole code array and exception table, ValueVM3 = the real VM (result,
   prints, exception, peak sp, instruction count), ValueVM3 = the evaluator, on generated F3
   programs (several functions, recursion to depth 300, self tail calls, faults in callees).

   F3 (`Compile3.prog_in_F3 p = true`): F2 + calls f(a1, …, an) of the program's top-level
   functions with n = the number of parameters of f (recursion, mutual calls, self tail calls
   included); functions with pairwise different names, parameters and let/var names different from
   every function name, no catch clauses, the entry function among them.  Out of F3: closures /
   nested functions, function values other than a called name, catch clauses, non-int data.

   ValueVM3's stack is unbounded: the theorems are about the machine without vm_check_stack.  The
   real VM additionally stops with "stack too large" when the flat stack (`ValueVM3.flat_len`)
   reaches its size; the tie compares the peak of `flat_len` with the real VM's peak sp on every
   generated program (equal on all).  A bound of flat_len in terms of the evaluator's call depth
   (30 + n + d·(5 + parameters + locals + temporaries)) is NOT proved. *)
From NV Require Import VM.ValueVM3 Src.Compile3 Src.CompileCorrect3Base Src.CompileCorrect3
  Src.CompileCorrect3Prog.

(* whole programs: ValueVM3 on the module image, from the entry stub to HALT / UNHANDLED_EXCEPTION,
   returns / prints / raises exactly what the evaluator says — for every evaluator fuel that gives an
   outcome there is a VM fuel.  Calls, recursion, self tail calls (frame reuse), faults inside
   callees (RETHROW chain to the stub's UNHANDLED_EXCEPTION) included. *)
Theorem compile_program_correct_F3 : forall fuel p args,
  Compile3.prog_in_F3 p = true ->
  match run_program fuel p args with
  | OResult v printed =>
      exists k z, Compile3.run_vm p k args = ValueVM3.VRet z printed /\ CompileCorrect3Base.val_rel v z
  | OUnhandled ex printed =>
      exists k, Compile3.run_vm p k args = ValueVM3.VExc ex printed
  | OFuel | OStuck => True
  end.
Proof. exact (fun fuel p args H => CompileCorrect3Prog.compile_program_correct_F p args 3 H fuel). Qed.
Print Assumptions compile_program_correct_F3.

(* ==== stage 5: catch clauses (fragment F5 = F3 + `catch (name) { … }` / `catch { … }`) =============
   Model: Compile3.compile_func lays a function out in segments — FUNC_DEF body LINE RET LABEL, then
   per clause CLEAR_STACK nparams; [INT no; PUSH_EXCEPT; OP_EQ_INT; JUMPZ next;] block; RET; LABEL —
   followed by RETHROW; `exc_table` has one entry per segment (its addresses -> its LABEL).
   ValueVM3: a fault is dispatched to the handler of its address; CLEAR_STACK drops pending MARK
   headers, temporaries and locals and keeps the parameters; PUSH_EXCEPT pushes machine->exception;
   a clause that does not match jumps to the next one, a fault inside a clause goes to the next
   clause, after the last one RETHROW re-raises at the caller's CALL.  (level 5 of the tie.)
   F5 (`Compile3.prog_in_F5`): F3 + functions with catch clauses whose blocks are in the fragment
   over the parameters only; a function WITH catch clauses has no self call in tail position (for a
   clause that faults in a later iteration Src/Eval.v, which has no tail-call elimination, would run
   the clauses of the replaced activations; the implementation does not).  Closures (stage 4) are
   not part of F5.
   The theorem carries property C03 (a fault reaches the first matching catch clause of the
   innermost active function that has one, an exception raised inside a clause is offered to the
   later clauses of the same function only, an uncaught one to the caller) from the evaluator
   (Src/Eval.v `handlers`, Src/EvalCatch.v) down to the machine code. *)
Theorem compile_program_correct_F5 : forall fuel p args,
  Compile3.prog_in_F5 p = true ->
  match run_program fuel p args with
  | OResult v printed =>
      exists k z, Compile3.run_vm p k args = ValueVM3.VRet z printed /\ CompileCorrect3Base.val_rel v z
  | OUnhandled ex printed =>
      exists k, Compile3.run_vm p k args = ValueVM3.VExc ex printed
  | OFuel | OStuck => True
  end.
Proof. exact (fun fuel p args H => CompileCorrect3Prog.compile_program_correct_F p args 5 H fuel). Qed.
Print Assumptions compile_program_correct_F5.

(* expression level, all levels: code embedded in a program laid out as the function table says
   (pcode_at), any related states, any frame registers.  On a fault the exception has been dispatched
   (ip = the handler of the faulting address, stores still related); fp is the one of the start
   state when the handler is a bare LABEL; RETHROW, otherwise (a catch clause follows: CLEAR_STACK
   resets it) a MARK may still be pending.  Hypotheses on the
   program: its functions are in the fragment and have pairwise different names. *)
Theorem compile_expr_correct_frames : forall (X : xinfo) (G : ginfo) (lv : nat),
  (forall fd, In fd (g_funcs G) -> Compile3.func_in_F (g_sigs G) lv fd = true) ->
  (forall kidx fd, nth_error (g_funcs G) kidx = Some fd ->
     find_func (fd_name fd) (g_funcs G) = Some fd) ->
  forall fuel e env st r st' sc,
  eval (g_genv G) fuel env st e = (r, st') ->
  Compile3.in_F (g_sigs G) lv sc e = true ->
  forall prog pc L ce s m,
    pcode_at X G prog pc (Compile3.compile_expr (map fd_name (g_funcs G)) L ce e) ->
    ValueVM3.v_ip s = pc ->
    CompileCorrect3Base.MS m st (ValueVM3.v_heap s) -> ValueVM3.v_out s = out st ->
    CompileCorrect3Base.env_match G m env ce sc L (ValueVM3.v_stk s) ->
    match r with
    | ROk c =>
      exists s' m' a, ValueVM3.star X prog s s' /\
        ValueVM3.v_ip s' = (pc + length (Compile3.compile_expr (map fd_name (g_funcs G)) L ce e))%nat /\
        ValueVM3.v_stk s' = a :: ValueVM3.v_stk s /\ nth_error m' c = Some (MA a) /\
        CompileCorrect3Base.MS m' st' (ValueVM3.v_heap s') /\ CompileCorrect3Base.ext m m' /\
        ValueVM3.v_out s' = out st' /\ v_fr s' = v_fr s
    | RExc ex =>
      ex = ExDivision /\
      exists s' fip m' fp', ValueVM3.star X prog s s' /\
        (pc <= fip < pc + length (Compile3.compile_expr (map fd_name (g_funcs G)) L ce e))%nat /\
        ValueVM3.v_ip s' = hsearch (x_tab X) fip 0 /\
        v_fr s' = set_exc (set_fp (v_fr s) fp') ExDivision /\
        (is_rethrow prog (ValueVM3.v_ip s') = true -> fp' = r_fp (v_fr s)) /\
        (exists t top, ValueVM3.v_stk s' = t :: top ++ ValueVM3.v_stk s) /\
        ValueVM3.v_out s' = out st' /\
        CompileCorrect3Base.MS m' st' (ValueVM3.v_heap s') /\ CompileCorrect3Base.ext m m'
    | _ => True
    end.
Proof. exact CompileCorrect3.compile_expr_correct_frames. Qed.
Print Assumptions compile_expr_correct_frames.

(* a concrete recursive program of F3:
     func fact(n : int) -> int { (n <= 0) ? 1 : (n * fact(n - 1)) }           (recursion, not tail)
     func sum(n : int, acc : int) -> int { (n <= 0) ? acc : sum(n - 1, acc + n) }   (self tail call)
     func dv(a : int, b : int) -> int { print(a); a / b }                      (may fault)
     func main(x : int, var y : int) -> int
     { let t = fact(x) + sum(y, 0); print(t); dv(print(1), print(2) - x) + fact(2) } *)
Definition fact_fd : fdef := FDef 1%N [(2%N, false, TInt)] TInt
  [IExpr (ECond (EBin Le (EVar 2%N) (EInt 0)) (EInt 1)
                (EBin Mul (EVar 2%N) (ECall (EVar 1%N) [EBin Sub (EVar 2%N) (EInt 1)])))] [] None.
Definition sum_fd : fdef := FDef 3%N [(4%N, false, TInt); (5%N, false, TInt)] TInt
  [IExpr (ECond (EBin Le (EVar 4%N) (EInt 0)) (EVar 5%N)
                (ECall (EVar 3%N) [EBin Sub (EVar 4%N) (EInt 1); EBin Add (EVar 5%N) (EVar 4%N)]))] [] None.
Definition dv_fd : fdef := FDef 6%N [(7%N, false, TInt); (8%N, false, TInt)] TInt
  [IExpr (EPrint (EVar 7%N)); IExpr (EBin Div (EVar 7%N) (EVar 8%N))] [] None.
Definition main3_fd : fdef := FDef 0%N [(9%N, false, TInt); (10%N, true, TInt)] TInt
  [ILet 11%N (EBin Add (ECall (EVar 1%N) [EVar 9%N]) (ECall (EVar 3%N) [EVar 10%N; EInt 0]));
   IExpr (EPrint (EVar 11%N));
   IExpr (EBin Add (ECall (EVar 6%N) [EPrint (EInt 1); EBin Sub (EPrint (EInt 2)) (EVar 9%N)])
                   (ECall (EVar 1%N) [EInt 2]))] [] None.
Definition ex3 : program :=
  {| p_recs := []; p_funcs := [fact_fd; sum_fd; dv_fd; main3_fd]; p_main := 0%N |}.

Example ex3_in_F3 : Compile3.prog_in_F3 ex3 = true.
Proof. vm_compute. reflexivity. Qed.

(* the module image has 457 instructions (the real compiler's module for this source has 457 too);
   on (3, 4): t = 6 + 10 is printed, the arguments of dv are evaluated right to left (2 then 1 are
   printed), dv prints 1 and returns 1 / -1, the result is -1 + 2; the evaluator says the same *)
Example ex3_runs :
  Compile3.run_vm ex3 2000 [3; 4] = ValueVM3.VRet 1 [16; 2; 1; 1] /\
  run_program 200 ex3 [3; 4] = OResult (CInt 1) [16; 2; 1; 1].
Proof. vm_compute. split; reflexivity. Qed.

(* on (2, 4) the callee dv divides by 0: the exception leaves dv and main through their
   LABEL; RETHROW and reaches UNHANDLED_EXCEPTION of the entry stub *)
Example ex3_raises :
  Compile3.run_vm ex3 2000 [2; 4] = ValueVM3.VExc ExDivision [12; 2; 1; 1] /\
  run_program 200 ex3 [2; 4] = OUnhandled ExDivision [12; 2; 1; 1].
Proof. vm_compute. split; reflexivity. Qed.

(* ex3 contains a self tail call (sum): `no_self_tail` is false for it, the theorem covers it *)
Example ex3_has_tail_call : Compile3.no_self_tail ex3 = false.
Proof. vm_compute. reflexivity. Qed.

(* a program of F5:
     func dv(a : int, b : int) -> int { let t = a * 2; print(t / b) + 1 }
       catch (division_by_zero) { print(a); let u = a + 100; u / (b - b) }    (the clause faults itself)
       catch (index_out_of_bounds) { 7 }                                       (never matches)
       catch { print(b); -1 }
     func main(v : int) -> int { dv(v, 2) + dv(v, 0) } catch (division_by_zero) { print(v + 1000); -5 } *)
Definition dv5_fd : fdef := FDef 1%N [(2%N, false, TInt); (3%N, false, TInt)] TInt
  [ILet 4%N (EBin Mul (EVar 2%N) (EInt 2));
   IExpr (EBin Add (EPrint (EBin Div (EVar 4%N) (EVar 3%N))) (EInt 1))]
  [(ExDivision, [IExpr (EPrint (EVar 2%N)); ILet 5%N (EBin Add (EVar 2%N) (EInt 100));
                 IExpr (EBin Div (EVar 5%N) (EBin Sub (EVar 3%N) (EVar 3%N)))]);
   (ExIndexOob, [IExpr (EInt 7)])]
  (Some [IExpr (EPrint (EVar 3%N)); IExpr (EInt (-1))]).
Definition main5_fd : fdef := FDef 0%N [(6%N, false, TInt)] TInt
  [IExpr (EBin Add (ECall (EVar 1%N) [EVar 6%N; EInt 2]) (ECall (EVar 1%N) [EVar 6%N; EInt 0]))]
  [(ExDivision, [IExpr (EPrint (EBin Add (EVar 6%N) (EInt 1000))); IExpr (EInt (-5))])] None.
Definition ex5 : program := {| p_recs := []; p_funcs := [dv5_fd; main5_fd]; p_main := 0%N |}.

Example ex5_in_F5 : Compile3.prog_in_F5 ex5 = true /\ Compile3.prog_in_F3 ex5 = false.
Proof. vm_compute. split; reflexivity. Qed.

(* 429 instructions, like the real module.  On 4: dv(4, 2) prints 4 and gives 5; in dv(4, 0) the body
   faults, the first clause prints 4 and faults itself (u / 0), the second clause names another
   exception, the catch-all prints 0 and gives -1; 5 + -1 = 4.  The evaluator says the same. *)
Example ex5_runs :
  Compile3.run_vm ex5 3000 [4] = ValueVM3.VRet 4 [4; 4; 0] /\
  run_program 300 ex5 [4] = OResult (CInt 4) [4; 4; 0].
Proof. vm_compute. split; reflexivity. Qed.
