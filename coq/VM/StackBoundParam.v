(* Multi-slot pushes and the place of vm_check_stack (property C14, continuation).

   A handler that pushes k slots (PUSH_PARAM: the k parameters of the entry function; ALLOC k) is
   mirrored in VM/StackBound.v as  rep k push1 = k times (sp++; vm_check_stack; stack[sp] = e).
   This file states, about the write-plan model:

   every_write_below_checked_bound   every opcode of the check-first tree: each slot index the
                                     handler writes is at most a value that was below the
                                     configured size when it was last looked at (the sp on entry
                                     or an sp that passed vm_check_stack) — the "checked bound";
   written_in_range                  hence the list of indices a handler actually stores to,
                                     under any configured size, lies inside [0, size);
   pushn_*                           the k-slot push: completes with sp + k when that is below
                                     the size, reports the limit otherwise, writes exactly the
                                     slots sp+1 .. min(sp+k, size-1);
   pushn_hoisted_*                   the same loop with ONE check after it
                                     (k times (sp++; stack[sp] = e); vm_check_stack)
                                     is not guarded for k >= 1 and, exactly on the window
                                     sp < size <= sp + k, writes slot `size` (and all of
                                     size .. sp+k) before the limit is reported, where the
                                     modelled handler reports the limit with no write outside.
                                     Outside the window the two forms are indistinguishable.
   So a tree whose PUSH_PARAM/ALLOC checks once after its loop disagrees with the model on that
   window and nowhere else; checks/c14.py sweeps every stack size over entry functions with
   0..k parameters with a write detector behind the configured stack to tie this.
   No axioms. *)
From Coq Require Import ZArith List Bool Lia.
From NV Require Import Gen.Opcodes Verifier.Effect VM.StackBound VM.StackBoundProofs VM.StackBoundSound.
Import ListNotations.
Local Open Scope Z_scope.

(* ---- the checked bound, for every opcode --------------------------------------------------- *)

Theorem every_write_below_checked_bound :
  forall (v : variant) i fault delta sp,
    (forall c, irregular_of i = Some c -> v c = true) ->
    shape_delta_ok (shape_at i fault delta) = true ->
    guarded sp sp (plan v i fault delta).
Proof.
  intros v i fault delta sp HV D. unfold plan.
  assert (H : disciplined (shape_plan v (shape_at i fault delta))).
  { apply shape_disciplined; [|exact D]. intros c Hc. apply HV. eapply shape_at_irr; eauto. }
  exact (proj1 (H sp)).
Qed.

(* slot indices a plan stores to under a configured size, in program order; the run of the
   handler ends at a reported limit; a store outside the array is listed (it happens) *)
Fixpoint written (size sp : Z) (p : list act) : list Z :=
  match p with
  | [] => []
  | Bump d :: r => written size (sp + d) r
  | Check :: r => if size <=? sp then [] else written size sp r
  | Write o :: r => (sp + o) :: written size sp r
  end.

Lemma guarded_written : forall p g sp S, guarded g sp p -> g < S -> no_underflow sp p = true ->
  Forall (fun idx => 0 <= idx < S) (written S sp p).
Proof.
  induction p as [|a p IH]; intros g sp S G Hg U; cbn in *; [constructor|].
  destruct a; cbn in *.
  - eapply IH; eauto.
  - destruct (S <=? sp) eqn:E; [constructor|]. apply Z.leb_gt in E. eapply IH; eauto. lia.
  - destruct G as [G1 G2]. apply andb_true_iff in U. destruct U as [U1 U2]. apply Z.leb_le in U1.
    constructor; [lia|]. eapply IH; eauto.
Qed.

Theorem written_in_range :
  forall (v : variant) i fault delta S sp,
    (forall c, irregular_of i = Some c -> v c = true) ->
    -1 <= sp < S ->
    no_underflow sp (plan v i fault delta) = true ->
    shape_delta_ok (shape_at i fault delta) = true ->
    Forall (fun idx => 0 <= idx < S) (written S sp (plan v i fault delta)).
Proof.
  intros v i fault delta S sp HV Hsp U D.
  eapply guarded_written; [apply every_write_below_checked_bound; eauto| lia | exact U].
Qed.

(* `written` and `exec_writes` tell the same story: an index outside is written iff OobWrite *)
Lemma written_oob_iff : forall p S sp,
  (exists idx, exec_writes S sp p = OobWrite idx) <->
  Exists (fun idx => ~ (0 <= idx < S)) (written S sp p).
Proof.
  induction p as [|a p IH]; intros S sp; cbn.
  - split; [intros [idx H]; discriminate | intros H; inversion H].
  - destruct a; cbn.
    + apply IH.
    + destruct (S <=? sp); [split; [intros [idx H]; discriminate | intros H; inversion H]|apply IH].
    + destruct ((0 <=? sp + off) && (sp + off <? S)) eqn:E.
      * apply andb_true_iff in E. destruct E as [E1 E2]. apply Z.leb_le in E1. apply Z.ltb_lt in E2.
        rewrite IH. split; [intros H; apply Exists_cons_tl; exact H|].
        intros H. inversion H; subst; [lia|assumption].
      * split; [|intros _; eexists; reflexivity].
        intros _. apply Exists_cons_hd. intros [H1 H2].
        assert ((0 <=? sp + off) = true) by (apply Z.leb_le; lia).
        assert ((sp + off <? S) = true) by (apply Z.ltb_lt; lia).
        rewrite H, H0 in E. discriminate.
Qed.

(* ---- the k-slot push as modelled: check inside the loop ------------------------------------- *)

Definition up1 : list act := [Bump 1; Write 0].

(* k times (sp++; stack[sp] = e), then one vm_check_stack: the hoisted form *)
Definition pushn_hoisted (k : nat) : list act := rep k up1 ++ [Check].

Lemma push_param_plan : forall v w0 k,
  plan v (ri BYTECODE_PUSH_PARAM w0) false (Z.of_nat k) = rep k push1.
Proof.
  intros v w0 k. unfold plan, shape_at, shape_of, ri. cbn [r_op linear andb shape_plan].
  unfold unat. rewrite Z.max_r by lia. rewrite Nat2Z.id. reflexivity.
Qed.

Lemma exec_rep_push1_fits : forall k S sp q, -1 <= sp -> sp + Z.of_nat k < S ->
  exec_writes S sp (rep k push1 ++ q) = exec_writes S (sp + Z.of_nat k) q.
Proof.
  induction k as [|k IH]; intros S sp q H1 H2.
  - cbn [rep app]. f_equal. cbn. lia.
  - cbn [rep app push1]. cbn [exec_writes].
    assert (E1 : (S <=? sp + 1) = false) by (apply Z.leb_gt; lia). rewrite E1.
    assert (E2 : ((0 <=? sp + 1 + 0) && (sp + 1 + 0 <? S)) = true).
    { apply andb_true_iff. split; [apply Z.leb_le|apply Z.ltb_lt]; lia. }
    rewrite E2. fold push1. rewrite IH by lia. f_equal. lia.
Qed.

Lemma exec_rep_push1_limit : forall k S sp q, -1 <= sp < S -> S <= sp + Z.of_nat k ->
  exec_writes S sp (rep k push1 ++ q) = LimitReported.
Proof.
  induction k as [|k IH]; intros S sp q H1 H2.
  - cbn in H2. lia.
  - cbn [rep app push1]. cbn [exec_writes].
    destruct (S <=? sp + 1) eqn:E1; [reflexivity|]. apply Z.leb_gt in E1.
    assert (E2 : ((0 <=? sp + 1 + 0) && (sp + 1 + 0 <? S)) = true).
    { apply andb_true_iff. split; [apply Z.leb_le|apply Z.ltb_lt]; lia. }
    rewrite E2. fold push1. apply IH; lia.
Qed.

Lemma exec_rep_up_fits : forall k S sp q, -1 <= sp -> sp + Z.of_nat k < S ->
  exec_writes S sp (rep k up1 ++ q) = exec_writes S (sp + Z.of_nat k) q.
Proof.
  induction k as [|k IH]; intros S sp q H1 H2.
  - cbn [rep app]. f_equal. cbn. lia.
  - cbn [rep app up1]. cbn [exec_writes].
    assert (E2 : ((0 <=? sp + 1 + 0) && (sp + 1 + 0 <? S)) = true).
    { apply andb_true_iff. split; [apply Z.leb_le|apply Z.ltb_lt]; lia. }
    rewrite E2. fold up1. rewrite IH by lia. f_equal. lia.
Qed.

Lemma exec_rep_up_oob : forall k S sp q, -1 <= sp < S -> S <= sp + Z.of_nat k ->
  exec_writes S sp (rep k up1 ++ q) = OobWrite S.
Proof.
  induction k as [|k IH]; intros S sp q H1 H2.
  - cbn in H2. lia.
  - cbn [rep app up1]. cbn [exec_writes].
    destruct ((0 <=? sp + 1 + 0) && (sp + 1 + 0 <? S)) eqn:E2.
    + apply andb_true_iff in E2. destruct E2 as [_ E2]. apply Z.ltb_lt in E2.
      fold up1. apply IH; lia.
    + f_equal. apply andb_false_iff in E2. destruct E2 as [E2|E2].
      * apply Z.leb_gt in E2. lia.
      * apply Z.ltb_ge in E2. lia.
Qed.

(* the modelled handler: completes or reports, never writes outside *)
Theorem pushn_checked_outcome : forall k S sp, -1 <= sp < S ->
  exec_writes S sp (rep k push1) =
  if sp + Z.of_nat k <? S then Ok (sp + Z.of_nat k) else LimitReported.
Proof.
  intros k S sp H. rewrite <- (app_nil_r (rep k push1)).
  destruct (sp + Z.of_nat k <? S) eqn:E.
  - apply Z.ltb_lt in E. rewrite exec_rep_push1_fits by lia. reflexivity.
  - apply Z.ltb_ge in E. apply exec_rep_push1_limit; lia.
Qed.

(* the hoisted form: on the window it stores to slot `size` before anything is reported *)
Theorem pushn_hoisted_outcome : forall k S sp, -1 <= sp < S ->
  exec_writes S sp (pushn_hoisted k) =
  if sp + Z.of_nat k <? S then Ok (sp + Z.of_nat k) else OobWrite S.
Proof.
  intros k S sp H. unfold pushn_hoisted.
  destruct (sp + Z.of_nat k <? S) eqn:E.
  - apply Z.ltb_lt in E. rewrite exec_rep_up_fits by lia. cbn.
    assert (E1 : (S <=? sp + Z.of_nat k) = false) by (apply Z.leb_gt; lia). rewrite E1. reflexivity.
  - apply Z.ltb_ge in E. apply exec_rep_up_oob; lia.
Qed.

(* the two forms differ exactly on the window  sp < size <= sp + k *)
Theorem pushn_hoisted_differs_iff_window : forall k S sp, -1 <= sp < S ->
  (exec_writes S sp (pushn_hoisted k) <> exec_writes S sp (rep k push1) <-> S <= sp + Z.of_nat k).
Proof.
  intros k S sp H. rewrite pushn_checked_outcome, pushn_hoisted_outcome by exact H.
  destruct (sp + Z.of_nat k <? S) eqn:E.
  - apply Z.ltb_lt in E. split; [intros C; exfalso; apply C; reflexivity|lia].
  - apply Z.ltb_ge in E. split; [intros _; exact E|intros _; discriminate].
Qed.

(* the hoisted form violates the checked-bound discipline as soon as it pushes anything *)
Theorem pushn_hoisted_not_guarded : forall k sp, (1 <= k)%nat -> ~ guarded sp sp (pushn_hoisted k).
Proof.
  intros k sp Hk. destruct k as [|k]; [lia|].
  unfold pushn_hoisted. cbn [rep app up1]. cbn [guarded]. intros [H _]. lia.
Qed.

(* how many slots past the end the hoisted form stores to on the window: all of size .. sp+k *)
Lemma written_rep_up : forall k S sp q,
  written S sp (rep k up1 ++ q) =
  map (fun j => sp + 1 + Z.of_nat j) (seq 0 k) ++ written S (sp + Z.of_nat k) q.
Proof.
  induction k as [|k IH]; intros S sp q.
  - cbn [rep app seq map]. f_equal. cbn. lia.
  - cbn [rep app up1]. cbn [written]. fold up1. rewrite IH. cbn [seq map app].
    apply f_equal2; [cbn; lia|]. rewrite <- seq_shift, map_map. apply f_equal2.
    + apply map_ext. intros j. lia.
    + apply f_equal2; [lia|reflexivity].
Qed.

Theorem pushn_hoisted_written : forall k S sp,
  written S sp (pushn_hoisted k) = map (fun j => sp + 1 + Z.of_nat j) (seq 0 k).
Proof.
  intros k S sp. unfold pushn_hoisted. rewrite written_rep_up. cbn [written].
  destruct (S <=? sp + Z.of_nat k); apply app_nil_r.
Qed.

Lemma written_rep_push1_fits : forall k S sp q, -1 <= sp -> sp + Z.of_nat k < S ->
  written S sp (rep k push1 ++ q) =
  map (fun j => sp + 1 + Z.of_nat j) (seq 0 k) ++ written S (sp + Z.of_nat k) q.
Proof.
  induction k as [|k IH]; intros S sp q H1 H2.
  - cbn [rep app seq map]. f_equal. cbn. lia.
  - cbn [rep app push1]. cbn [written].
    assert (E1 : (S <=? sp + 1) = false) by (apply Z.leb_gt; lia). rewrite E1.
    fold push1. rewrite IH by lia. cbn [seq map app].
    apply f_equal2; [cbn; lia|]. rewrite <- seq_shift, map_map. apply f_equal2.
    + apply map_ext. intros j. lia.
    + apply f_equal2; [lia|reflexivity].
Qed.

(* the modelled handler on the window writes exactly the slots that exist: sp+1 .. size-1 *)
Theorem pushn_checked_written_on_window : forall k S sp, -1 <= sp < S -> S <= sp + Z.of_nat k ->
  written S sp (rep k push1) = map (fun j => sp + 1 + Z.of_nat j) (seq 0 (Z.to_nat (S - 1 - sp))).
Proof.
  intros k S sp H1 H2.
  set (m := Z.to_nat (S - 1 - sp)).
  assert (Hm : (m <= k)%nat) by (unfold m; lia).
  assert (Hk : k = (m + (k - m))%nat) by lia.
  rewrite Hk.
  assert (R : forall a b p, rep (a + b) p = rep a p ++ rep b p).
  { induction a; intros b p; cbn [rep Nat.add app]; [reflexivity|]. rewrite IHa, app_assoc. reflexivity. }
  rewrite R. rewrite written_rep_push1_fits by (unfold m; lia).
  destruct (k - m)%nat as [|r] eqn:Er; [lia|].
  cbn [rep app push1]. cbn [written].
  assert (E1 : (S <=? sp + Z.of_nat m + 1) = true) by (apply Z.leb_le; unfold m; lia).
  rewrite E1. apply app_nil_r.
Qed.
