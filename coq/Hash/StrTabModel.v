(* Model of the string table back/strtab.c (definitions only, executable) — the open-addressing
   table of OpenTabModel.v with the *dedup* add: strtab_entry_add_string returns the stored order
   when it meets an equal string on the probe path.  Payload of a slot = its `order`.

   strtab_new(size):          size, count = 1 (order 0 means "not found"), empty entries.
   strtab_add_string(tab, s): order = strtab_entry_add_string(entries, size, s, tab->count);
                              if (order == tab->count) { tab->count++; strtab_resize(tab); }
                              return order;
   strtab_lookup_string:      order of the entry found, 0 for NULL.
   strtab_to_array:           strings = malloc(count); strings[0] = NULL;
                              for every slot: strings[entries[i].order] = entries[i].string.
     (an order >= count would write outside the malloc'ed array: the model answers None.)
   strtab_entry_add_string's give-up is `assert(0)` WITHOUT a return: under NDEBUG the loop would
   spin forever on a full table without the string; StrTabProofs shows it is unreachable.

   Used by front/emit.c for every string literal and every extern library / function name;
   the VM indexes module->strtab_array with the orders stored in the bytecode. *)
From Coq Require Import List Arith NArith Bool.
From NV Require Import Hash.OpenTabModel Hash.DlCacheModel.
Import ListNotations.

Section StrTab.
  Variable name : Type.
  Variable name_eqb : name -> name -> bool.
  Variable hash : name -> N.

  Definition strtab := tab name nat.

  Definition strtab_new (size : nat) : strtab := mk_tab size 1 (entry_new name nat size).

  Definition order_at (es : entries name nat) (i : nat) : nat :=
    match slot_at name nat es i with Some (_, o) => o | None => 0 end.

  Definition strtab_bump (t : strtab) (order : nat) : res (strtab * nat) :=
    match tab_resize name name_eqb hash nat true t with
    | Ok t' => Ok (t', order)
    | Abort => Abort | DivZero => DivZero | Fuel => Fuel
    end.

  Definition strtab_add_string (t : strtab) (s : name) : res (strtab * nat) :=
    match entry_add name name_eqb hash nat true (t_entries t) (t_size t) s (t_count t) with
    | AddOk e => strtab_bump (mk_tab (t_size t) (S (t_count t)) e) (t_count t)
    | AddExisting i =>
        let order := order_at (t_entries t) i in
        if order =? t_count t
        then strtab_bump (mk_tab (t_size t) (S (t_count t)) (t_entries t)) order
        else Ok (t, order)
    | AddAbort => Abort
    | AddDivZero => DivZero
    | AddOutOfFuel => Fuel
    end.

  Definition strtab_lookup_string (t : strtab) (s : name) : res nat :=
    match entry_lookup name name_eqb hash nat (t_entries t) (t_size t) s with
    | Hit i => Ok (order_at (t_entries t) i)
    | Miss | MissGiveUp => Ok 0
    | LDivZero => DivZero
    | LOutOfFuel => Fuel
    end.

  (* arr[i] = a; None if i is outside the array *)
  Fixpoint set_nth {A : Type} (l : list A) (i : nat) (a : A) : option (list A) :=
    match l, i with
    | [], _ => None
    | _ :: t, O => Some (a :: t)
    | x :: t, S j => match set_nth t j a with Some t' => Some (x :: t') | None => None end
    end.

  Fixpoint fill_array (es : entries name nat) (arr : list (option name)) : option (list (option name)) :=
    match es with
    | [] => Some arr
    | None :: t => fill_array t arr
    | Some (s, o) :: t =>
        match set_nth arr o (Some s) with
        | Some arr' => fill_array t arr'
        | None => None
        end
    end.

  Definition strtab_to_array (t : strtab) : option (list (option name)) :=
    fill_array (t_entries t) (repeat None (t_count t)).

  (* ---- operation sequences and the abstract list of distinct strings ------------------------- *)
  Inductive sop := SAdd (s : name) | SLookup (s : name).

  Definition sstep (t : strtab) (o : sop) : res (strtab * nat) :=
    match o with
    | SAdd s => strtab_add_string t s
    | SLookup s => match strtab_lookup_string t s with
                   | Ok r => Ok (t, r)
                   | Abort => Abort | DivZero => DivZero | Fuel => Fuel
                   end
    end.

  Fixpoint srun (t : strtab) (ops : list sop) : res (strtab * list nat) :=
    match ops with
    | [] => Ok (t, [])
    | o :: rest =>
        match sstep t o with
        | Ok (t', r) =>
            match srun t' rest with
            | Ok (t'', rs) => Ok (t'', r :: rs)
            | Abort => Abort | DivZero => DivZero | Fuel => Fuel
            end
        | Abort => Abort | DivZero => DivZero | Fuel => Fuel
        end
    end.

  Fixpoint index_of (l : list name) (s : name) : option nat :=
    match l with
    | [] => None
    | x :: t => if name_eqb x s then Some 0 else option_map S (index_of t s)
    end.

  Definition alookup (l : list name) (s : name) : nat :=
    match index_of l s with Some i => S i | None => 0 end.

  Definition asstep (l : list name) (o : sop) : list name * nat :=
    match o with
    | SAdd s => match index_of l s with
                | Some i => (l, S i)
                | None => (l ++ [s], S (length l))
                end
    | SLookup s => (l, alookup l s)
    end.

  Fixpoint asrun (l : list name) (ops : list sop) : list name * list nat :=
    match ops with
    | [] => (l, [])
    | o :: rest =>
        let (l', r) := asstep l o in
        let (l'', rs) := asrun l' rest in
        (l'', r :: rs)
    end.
End StrTab.

Arguments SAdd {name} s.
Arguments SLookup {name} s.

(* the instance run by the extracted driver *)
Definition str_new (size : nat) : tab cname nat := strtab_new cname size.
Definition str_add := strtab_add_string cname cname_eqb hash_string.
Definition str_lookup := strtab_lookup_string cname cname_eqb hash_string.
Definition str_to_array := strtab_to_array cname.
