(* Function table back/functab.c — statements in the style of coq/Properties/*.v, kept here because
   the property it serves (C15 "the embedding API ... any mix of its entry points": nev_prepare /
   nev_prepare_argc_argv find the entry point by functab_lookup) belongs to another check.
   checks/parts/hashtab.py run_functab(ctx) compiles this file and registers every theorem as an
   obligation of the calling check.  To adopt: copy to Properties_<id>x.v. *)
From Coq Require Import List Arith NArith Bool Permutation.
From NV Require Import Hash.OpenTabModel Hash.DlCacheModel Hash.FuncTabModel Hash.FuncTabProofs.
Import ListNotations.

(* From functab_new(size), size >= 1 (back/module.c uses 8), for EVERY hash function and any list
   of functab_add_func calls: no abort (assert(0) unreachable), every pair stored, count = number of
   adds <= size*3/4 (C integer arithmetic), a lookup yields one of the payloads added under that id
   and NULL exactly for ids never added. *)
Theorem functab_add_sequences :
  forall (name : Type) (name_eqb : name -> name -> bool) (hash : name -> N) (V : Type),
    (forall a b, name_eqb a b = true <-> a = b) ->
    forall (size : nat) (l : list (name * V)),
      1 <= size ->
      exists t,
        functab_add_all name name_eqb hash V (functab_new name V size) l = Ok t /\
        Permutation (contents name V (t_entries t)) l /\
        t_count t = length l /\ t_count t <= t_size t * 3 / 4 /\
        forall id, match functab_lookup name name_eqb hash V t id with
                   | Some v => In (id, v) l
                   | None => ~ In id (map fst l)
                   end.
Proof. exact FuncTabProofs.functab_add_sequences. Qed.
Print Assumptions functab_add_sequences.

(* pairwise different ids (top-level function names of one module): the table is the association list *)
Theorem functab_distinct_refines_map :
  forall (name : Type) (name_eqb : name -> name -> bool) (hash : name -> N) (V : Type),
    (forall a b, name_eqb a b = true <-> a = b) ->
    forall (size : nat) (l : list (name * V)),
      1 <= size -> NoDup (map fst l) ->
      exists t,
        functab_add_all name name_eqb hash V (functab_new name V size) l = Ok t /\
        forall id, functab_lookup name name_eqb hash V t id = afind name name_eqb V l id.
Proof. exact FuncTabProofs.functab_distinct_refines_map. Qed.
Print Assumptions functab_distinct_refines_map.
