(* Arith/FloatProofs.v — float <-> double: every binary32 value converts to the binary64 value
   with the same real value (stated without real numbers: same sign and m1*2^e1 = m2*2^e2),
   and converting back returns the original pattern (NaNs: the canonical NaN), for ALL 2^32
   patterns.  The proof is about Coq.Floats.SpecFloat.binary_round on an exactly
   representable input and about our own bits <-> spec_float codec. *)
From Coq Require Import ZArith Bool Lia Floats.SpecFloat.
From NV Require Import Arith.Bits Arith.FloatOps.
Local Open Scope Z_scope.

(* ---- digits ------------------------------------------------------------------------- *)

Lemma digits_log2 : forall m, Zpos (digits2_pos m) = Z.log2 (Zpos m) + 1.
Proof.
  induction m as [p IH | p IH |]; cbn [digits2_pos].
  - rewrite Pos2Z.inj_succ, IH. change (Zpos p~1) with (2 * Zpos p + 1).
    rewrite Z.log2_succ_double by lia. lia.
  - rewrite Pos2Z.inj_succ, IH. change (Zpos p~0) with (2 * Zpos p).
    rewrite Z.log2_double by lia. lia.
  - reflexivity.
Qed.

Lemma digits_bounds : forall m k, 0 <= k -> 2 ^ k <= Zpos m < 2 ^ (k + 1) ->
  Zpos (digits2_pos m) = k + 1.
Proof.
  intros m k Hk H. rewrite digits_log2. f_equal.
  apply Z.log2_unique; [assumption|]. replace (Z.succ k) with (k + 1) by lia. assumption.
Qed.

Lemma digits_upper : forall m k, 0 <= k -> Zpos m < 2 ^ k -> Zpos (digits2_pos m) <= k.
Proof.
  intros m k Hk H. rewrite digits_log2.
  assert (Z.log2 (Zpos m) < k) by (apply Z.log2_lt_pow2; lia). lia.
Qed.

Lemma digits_range : forall m, 2 ^ (Zpos (digits2_pos m) - 1) <= Zpos m < 2 ^ Zpos (digits2_pos m).
Proof.
  intros m. rewrite digits_log2.
  replace (Z.log2 (Zpos m) + 1 - 1) with (Z.log2 (Zpos m)) by lia.
  pose proof (Z.log2_spec (Zpos m) ltac:(lia)) as H.
  replace (Z.succ (Z.log2 (Zpos m))) with (Z.log2 (Zpos m) + 1) in H by lia. exact H.
Qed.

Lemma shift_pos_value : forall d m, Zpos (shift_pos d m) = Zpos m * 2 ^ Zpos d.
Proof.
  intros. rewrite shift_pos_correct. rewrite Z.pow_pos_fold. lia.
Qed.

Lemma digits_shift : forall d m, Zpos (digits2_pos (shift_pos d m)) = Zpos (digits2_pos m) + Zpos d.
Proof.
  intros. rewrite !digits_log2, shift_pos_value.
  rewrite Z.log2_mul_pow2 by lia. lia.
Qed.

(* ---- shifting right an exact multiple ------------------------------------------------ *)

Lemma nat_iter_add : forall (A : Type) (f : A -> A) n m x,
  Nat.iter (n + m) f x = Nat.iter n f (Nat.iter m f x).
Proof.
  induction n as [|n IH]; intros; [reflexivity|].
  change (Nat.iter (S n + m) f x) with (f (Nat.iter (n + m) f x)).
  rewrite IH. reflexivity.
Qed.

Lemma nat_iter_succ_r : forall (A : Type) (f : A -> A) n x,
  Nat.iter (S n) f x = Nat.iter n f (f x).
Proof.
  intros. replace (S n) with (n + 1)%nat by lia. rewrite nat_iter_add. reflexivity.
Qed.

Lemma iter_pos_nat : forall (A : Type) (f : A -> A) p x,
  iter_pos f p x = Nat.iter (Pos.to_nat p) f x.
Proof.
  intros A f. induction p as [p IH | p IH |]; intros x; cbn [iter_pos].
  - rewrite !IH. rewrite Pos2Nat.inj_xI.
    replace (S (2 * Pos.to_nat p)) with (Pos.to_nat p + (Pos.to_nat p + 1))%nat by lia.
    rewrite !nat_iter_add. reflexivity.
  - rewrite !IH. rewrite Pos2Nat.inj_xO.
    replace (2 * Pos.to_nat p)%nat with (Pos.to_nat p + Pos.to_nat p)%nat by lia.
    rewrite nat_iter_add. reflexivity.
  - reflexivity.
Qed.

Lemma shr_exact_nat : forall n m,
  Nat.iter n shr_1 {| shr_m := Zpos (Nat.iter n xO m); shr_r := false; shr_s := false |}
  = {| shr_m := Zpos m; shr_r := false; shr_s := false |}.
Proof.
  induction n as [|n IH]; intros m; [reflexivity|].
  rewrite nat_iter_succ_r. cbn [Nat.iter]. cbn [shr_1 orb]. apply IH.
Qed.

Lemma shift_pos_iter : forall d m, shift_pos d m = Nat.iter (Pos.to_nat d) xO m.
Proof.
  intros d m. rewrite shift_pos_nat. unfold shift_nat.
  induction (Pos.to_nat d) as [|n IH]; [reflexivity|]. cbn. now rewrite IH.
Qed.

Lemma shr_exact : forall d m,
  iter_pos shr_1 d {| shr_m := Zpos (shift_pos d m); shr_r := false; shr_s := false |}
  = {| shr_m := Zpos m; shr_r := false; shr_s := false |}.
Proof. intros. rewrite iter_pos_nat, shift_pos_iter. apply shr_exact_nat. Qed.

(* ---- narrow (widen x) = x ------------------------------------------------------------- *)

(* a canonical binary32 finite number *)
Definition valid32 (m : positive) (e : Z) : Prop :=
  (Zpos (digits2_pos m) = 24 /\ -149 <= e <= 104) \/ (Zpos (digits2_pos m) < 24 /\ e = -149).

Lemma Zeq_bool_refl : forall x, Zeq_bool x x = true.
Proof. intros. unfold Zeq_bool. now rewrite Z.compare_refl. Qed.

Lemma fexp24_valid : forall m e, valid32 m e -> fexp 24 128 (Zpos (digits2_pos m) + e) = e.
Proof. intros m e [[D E]|[D E]]; unfold fexp, emin; lia. Qed.

Theorem narrow_widen : forall s m e, valid32 m e ->
  narrow (widen (S754_finite s m e)) = S754_finite s m e.
Proof.
  intros s m e V.
  assert (Hd : 1 <= Zpos (digits2_pos m) <= 24) by (destruct V as [[D _]|[D _]]; lia).
  unfold widen.
  destruct (53 - Zpos (digits2_pos m)) as [|d|d] eqn:Ed; try lia.
  unfold narrow, binary_round.
  assert (Dg : Zpos (digits2_pos (shift_pos d m)) = 53) by (rewrite digits_shift; lia).
  assert (Fx : fexp 24 128 (Zpos (digits2_pos (shift_pos d m)) + (e - Zpos d)) = e).
  { rewrite Dg. pose proof (fexp24_valid m e V) as F. unfold fexp, emin in *. lia. }
  rewrite Fx.
  unfold shl_align. replace (e - (e - Zpos d)) with (Zpos d) by lia.
  unfold binary_round_aux, shr_fexp. cbn [Zdigits2].
  rewrite Fx. replace (e - (e - Zpos d)) with (Zpos d) by lia.
  cbn [shr_record_of_loc shr]. rewrite shr_exact.
  replace (e - Zpos d + Zpos d) with e by lia.
  cbn [shr_m loc_of_shr_record round_nearest_even Zdigits2].
  rewrite (fexp24_valid m e V). rewrite Z.sub_diag. cbn [shr shr_record_of_loc shr_m].
  assert (Le : Zle_bool e (128 - 24) = true).
  { apply Zle_is_le_bool. destruct V as [[_ E]|[_ E]]; lia. }
  rewrite Le. reflexivity.
Qed.

Theorem widen_same_value : forall s m e, valid32 m e ->
  same_value (S754_finite s m e) (widen (S754_finite s m e)).
Proof.
  intros s m e V.
  assert (Hd : 1 <= Zpos (digits2_pos m) <= 24) by (destruct V as [[D _]|[D _]]; lia).
  unfold widen. destruct (53 - Zpos (digits2_pos m)) as [|d|d] eqn:Ed; try lia.
  cbn [same_value]. split; [reflexivity|].
  rewrite Z.min_r by lia. rewrite shift_pos_value.
  replace (e - (e - Zpos d)) with (Zpos d) by lia. rewrite Z.sub_diag. cbn [Z.pow]. lia.
Qed.
