(* Proofs about ranges and slices (models: Index/SliceRange.v, notions: Index/IndexSpec.v).
   No axioms. *)
From Coq Require Import ZArith List Bool Lia.
From NV Require Import Index.W32 Index.ArrIndex Index.SliceRange Index.IndexSpec Index.ArrIndexProofs.
Import ListNotations.
Local Open Scope Z_scope.

Lemma s32_range z : is_s32 (s32 z).
Proof.
  unfold is_s32, s32.
  pose proof (Z.mod_pos_bound (z + two31) two32 eq_refl). unfold two31, two32 in *. lia.
Qed.

Ltac zb :=
  repeat match goal with
  | |- context [?x <? ?y] => destruct (Z.ltb_spec x y)
  | H : context [?x <? ?y] |- _ => destruct (Z.ltb_spec x y)
  end.

(* ---- vm_get_slice_range with a single index (RANGE_DEREF, SLICE_DEREF) -------------------- *)
Lemma guard_nonneg c d : 0 <= c -> 0 <= d -> (c <? 0) || (d <? 0) = false.
Proof.
  intros Hc Hd. destruct (Z.ltb_spec c 0); [lia|]. destruct (Z.ltb_spec d 0); [lia|]. reflexivity.
Qed.

Lemma guard_neg c d : c < 0 \/ d < 0 -> (c <? 0) || (d <? 0) = true.
Proof.
  intros H. destruct (Z.ltb_spec c 0); [reflexivity|]. destruct (Z.ltb_spec d 0); [reflexivity|]. lia.
Qed.

Lemma gsr_index_in : forall a b i,
  is_s32 a -> is_s32 b -> 0 <= i < range_len a b ->
  get_slice_range a b i i = (range_nth a b i, range_nth a b i, false).
Proof.
  intros a b i Ha Hb Hi. unfold get_slice_range, range_nth, range_len in *.
  rewrite guard_nonneg by lia.
  rewrite (Z.ltb_irrefl i). cbv zeta.
  destruct (Z.ltb_spec a b).
  - destruct (Z.ltb_spec b (a + i)); [lia|].
    rewrite s32_small by (unfold is_s32 in *; lia). reflexivity.
  - destruct (Z.ltb_spec (a - i) b); [lia|].
    rewrite s32_small by (unfold is_s32 in *; lia). reflexivity.
Qed.

(* an index at or beyond the length of the range is refused, whatever the magnitudes: the bound
   is tested on the exact sum (fix acecad0); res_from/res_to keep the caller's preset 0 *)
Lemma gsr_index_out : forall a b i,
  range_len a b <= i -> get_slice_range a b i i = (0, 0, true).
Proof.
  intros a b i Hi. unfold get_slice_range, range_len in *.
  rewrite guard_nonneg by lia.
  rewrite (Z.ltb_irrefl i). cbv zeta.
  destruct (Z.ltb_spec a b).
  - destruct (Z.ltb_spec b (a + i)); [reflexivity|lia].
  - destruct (Z.ltb_spec (a - i) b); [reflexivity|lia].
Qed.

(* ---- [a..b][c..d] ---------------------------------------------------------------------------- *)
Theorem slice_range_denotes : forall a b c d rf rt oob,
  is_s32 a -> is_s32 b ->
  get_slice_range a b c d = (rf, rt, oob) ->
  (* refused exactly when an inner bound is not an index of [a..b] (negative or too large) *)
  (oob = false <-> 0 <= c < range_len a b /\ 0 <= d < range_len a b) /\
  (* otherwise the result denotes, position by position, [a..b][ [c..d][k] ] *)
  (oob = false ->
     range_len rf rt = range_len c d /\
     forall k, 0 <= k < range_len c d ->
       range_nth rf rt k = range_nth a b (range_nth c d k) /\
       0 <= range_nth c d k < range_len a b /\
       range_lo a b <= range_nth rf rt k <= range_hi a b).
Proof.
  intros a b c d rf rt oob Ha Hb E.
  unfold get_slice_range in E.
  destruct (Z_lt_le_dec c 0) as [Hc|Hc]; [|destruct (Z_lt_le_dec d 0) as [Hd|Hd]].
  1,2: rewrite guard_neg in E by lia; inversion E; subst;
       (split; [split; [discriminate | lia] | discriminate]).
  rewrite guard_nonneg in E by assumption. cbv zeta in E.
  destruct (Z.ltb_spec a b); destruct (Z.ltb_spec c d);
    match type of E with (if ?x <? ?y then _ else _) = _ => destruct (Z.ltb_spec x y) end.
  (* the four refusals *)
  1,3,5,7: inversion E; subst; clear E;
    (split; [split; [discriminate | unfold range_len; lia] | discriminate]).
  (* the four accepted compositions: both results lie between a and b, the narrowing is exact *)
  all: rewrite !s32_small in E by (unfold is_s32 in *; lia); inversion E; subst; clear E;
    unfold range_len, range_nth, range_lo, range_hi;
    (split; [split; [intros _; lia | reflexivity] | intros _; split; [lia|]; intros k Hk; zb; lia]).
Qed.

(* what an accepted composition writes is an int (the narrowing (int)from changes nothing) and
   what a refused one leaves is the caller's preset 0 *)
Lemma slice_range_results : forall a b c d rf rt oob,
  get_slice_range a b c d = (rf, rt, oob) ->
  is_s32 rf /\ is_s32 rt /\ (oob = true -> rf = 0 /\ rt = 0).
Proof.
  intros a b c d rf rt oob E. unfold get_slice_range in E. cbv zeta in E.
  assert (Z0 : is_s32 0) by (unfold is_s32, two31; lia).
  repeat match type of E with
         | (if ?x then _ else _) = _ => destruct x
         end; inversion E; subst;
    (repeat split; try apply s32_range; try exact Z0; try reflexivity; discriminate).
Qed.

(* negative inner bounds are refused before anything is computed (fix bf51841) *)
Lemma slice_range_negative_inner : forall a b c d, c < 0 \/ d < 0 ->
  get_slice_range a b c d = (0, 0, true).
Proof. intros a b c d H. unfold get_slice_range. now rewrite guard_neg. Qed.

(* regression (finding range_deref:int-overflow, fixed by acecad0): the former witnesses of the
   wrap -- an index far beyond the end of an ascending range near INT_MAX, of a descending
   range near INT_MIN, and the extreme INT_MIN - INT_MAX, which wrapped to +1 -- are refused *)
Theorem slice_range_overflow_regression :
  get_slice_range 2147483640 2147483647 20 20 = (0, 0, true) /\
  get_slice_range (-2147483640) (-2147483647) 20 20 = (0, 0, true) /\
  get_slice_range (-2147483648) (-2147483648) 2147483647 2147483647 = (0, 0, true) /\
  get_slice_range 2147483647 2147483647 2147483647 2147483647 = (0, 0, true) /\
  (* two-bound compositions: [INT_MAX-7..INT_MAX][3..20], [..][20..3], and descending *)
  get_slice_range 2147483640 2147483647 3 20 = (0, 0, true) /\
  get_slice_range 2147483640 2147483647 20 3 = (0, 0, true) /\
  get_slice_range (-2147483640) (-2147483647) 3 20 = (0, 0, true) /\
  get_slice_range (-2147483640) (-2147483647) 20 3 = (0, 0, true) /\
  (* the last valid index next to the limit is still accepted and exact *)
  get_slice_range 2147483640 2147483647 7 7 = (2147483647, 2147483647, false) /\
  get_slice_range (-2147483641) (-2147483648) 7 7 = (-2147483648, -2147483648, false).
Proof. repeat split; vm_compute; reflexivity. Qed.

(* ---- SLICE_RANGE / SLICE_SLICE: all dimensions ------------------------------------------------ *)
Lemma range_nth_within : forall c d k, 0 <= c -> 0 <= d -> 0 <= k < range_len c d ->
  Z.min c d <= range_nth c d k <= Z.max c d.
Proof. intros c d k Hc Hd Hk. unfold range_nth, range_len in *. zb; lia. Qed.

Theorem compose_ranges_denotes : forall r1 r2,
  range_s32 r1 -> length r1 = length r2 ->
  (inner_within r1 r2 ->
     exists r, compose_ranges r1 r2 = Ok r /\ range_s32 r /\ length r = length r2 /\
       forall idx, idx_in_ranges r2 idx ->
         idx_in_ranges r idx /\ idx_in_ranges r1 (ranges_nth r2 idx) /\
         ranges_nth r idx = ranges_nth r1 (ranges_nth r2 idx)) /\
  (~ inner_within r1 r2 -> compose_ranges r1 r2 = Exc (IndexOob (-1))).
Proof.
  induction r1 as [|[a b] t1 IH]; destruct r2 as [|[c d] t2]; intros Hs Hlen; try discriminate.
  - split.
    + intros _. exists []. cbn. repeat split; try constructor.
      all: destruct idx; cbn in *; tauto.
    + intros H. exfalso. apply H. exact I.
  - inversion Hs as [|? ? [Ha Hb] Hs']; subst. cbn [fst snd] in *.
    cbn in Hlen. assert (Hlen' : length t1 = length t2) by lia.
    specialize (IH t2 Hs' Hlen'). destruct IH as [IH1 IH2].
    cbn [compose_ranges].
    destruct (get_slice_range a b c d) as [[rf rt] oob] eqn:E.
    destruct (slice_range_denotes a b c d rf rt oob Ha Hb E) as [D1 D2].
    assert (Hrs : is_s32 rf /\ is_s32 rt).
    { destruct (slice_range_results a b c d rf rt oob E) as [R1 [R2 _]]. split; assumption. }
    split.
    + intros [W1 [W2 W3]].
      assert (Hoob : oob = false) by (apply D1; tauto). subst oob.
      destruct (IH1 W3) as [r [Hr1 [Hr2 [Hr3 Hr4]]]].
      rewrite Hr1. exists ((rf, rt) :: r).
      split; [reflexivity|]. split; [constructor; assumption|]. split; [cbn; lia|].
      intros idx Hidx. destruct idx as [|k idx]; cbn [idx_in_ranges] in Hidx; [tauto|].
      destruct Hidx as [Hk Hidx].
      destruct (D2 eq_refl) as [Dl Dn]. destruct (Dn k Hk) as [Dn1 [Dn2 Dn3]].
      destruct (Hr4 idx Hidx) as [Q1 [Q2 Q3]].
      cbn [idx_in_ranges ranges_nth]. rewrite Dl.
      split; [tauto|]. split; [tauto|]. rewrite Dn1, Q3. reflexivity.
    + intros Hnot. destruct oob; [reflexivity|].
      assert (Hw : 0 <= c < range_len a b /\ 0 <= d < range_len a b) by (apply D1; reflexivity).
      rewrite IH2; [reflexivity|]. intros W. apply Hnot. cbn. tauto.
Qed.

(* ---- RANGE_DEREF ------------------------------------------------------------------------------ *)
Lemma idx_in_ranges_length : forall r idx, idx_in_ranges r idx -> length idx = length r.
Proof.
  induction r as [|[a b] tr IH]; destruct idx as [|i ti]; cbn; intros H; try tauto.
  f_equal. apply IH. tauto.
Qed.

Lemma range_deref_loop_in : forall r idx d,
  range_s32 r -> idx_in_ranges r idx -> range_deref_loop d r idx = Ok (ranges_nth r idx).
Proof.
  induction r as [|[a b] tr IH]; destruct idx as [|i ti]; cbn [idx_in_ranges]; intros d Hs H; try tauto; try reflexivity.
  inversion Hs as [|? ? [Ha Hb] Hs']; subst. cbn [fst snd] in *. destruct H as [Hi H].
  cbn [range_deref_loop ranges_nth].
  destruct (Z.ltb_spec i 0); [lia|].
  rewrite gsr_index_in by assumption. rewrite IH by assumption. reflexivity.
Qed.

Lemma range_deref_loop_out : forall r idx d,
  length idx = length r -> ~ idx_in_ranges r idx ->
  exists d', range_deref_loop d r idx = Exc (IndexOob d').
Proof.
  induction r as [|[a b] tr IH]; destruct idx as [|i ti]; cbn [length]; intros d Hlen Hnot;
    try discriminate.
  - exfalso. apply Hnot. exact I.
  - cbn [range_deref_loop].
    destruct (Z.ltb_spec i 0); [eauto|].
    destruct (Z_lt_le_dec i (range_len a b)) as [Hin|Hout].
    + destruct (get_slice_range a b i i) as [[rf rt] [|]]; [eauto|].
      destruct (IH ti (d + 1)) as [d' Hd']; try lia.
      { intros Hrest. apply Hnot. cbn. split; [lia|exact Hrest]. }
      rewrite Hd'. eauto.
    + rewrite gsr_index_out by assumption. eauto.
Qed.

Theorem range_deref_spec : forall r idx,
  range_s32 r -> Forall is_s32 idx -> length idx = length r ->
  (* every index inside its range: the selected values are the denoted positions *)
  (idx_in_ranges r idx -> range_deref (Some r) idx = Ok (ranges_nth r idx)) /\
  (* a negative or too large index, of whatever magnitude: index_out_of_bounds *)
  (~ idx_in_ranges r idx -> exists d, range_deref (Some r) idx = Exc (IndexOob d)).
Proof.
  intros r idx Hs Hi Hlen. unfold range_deref. split.
  - intros H. apply range_deref_loop_in; assumption.
  - intros Hnot. apply range_deref_loop_out; assumption.
Qed.

(* regression (finding range_deref:int-overflow): [2147483640..2147483647][20] returned
   -2147483636, [-2147483640..-2147483647][20] returned 2147483636 *)
Theorem range_deref_overflow_regression :
  range_deref (Some [(2147483640, 2147483647)]) [20] = Exc (IndexOob 0) /\
  range_deref (Some [(-2147483640, -2147483647)]) [20] = Exc (IndexOob 0) /\
  range_deref (Some [(-2147483648, -2147483648)]) [2147483647] = Exc (IndexOob 0) /\
  range_deref (Some [(1, 5); (2147483640, 2147483647)]) [2; 2147483647] = Exc (IndexOob 1) /\
  range_deref (Some [(2147483640, 2147483647)]) [7] = Ok [2147483647] /\
  range_deref (Some [(-2147483641, -2147483648)]) [7] = Ok [-2147483648].
Proof. repeat split; vm_compute; reflexivity. Qed.

(* ---- SLICE_DEREF ------------------------------------------------------------------------------ *)
(* object_arr_dim_addr applied to positions converted to unsigned *)
Definition deref_positions (dv : dimv) (pos : list Z) : result Z :=
  let '(k, oob) := dim_addr dv (map u32 pos) in
  if 0 <=? oob then Exc (IndexOob oob) else Ok k.

Lemma slice_positions_in : forall r idx d,
  range_s32 r -> Forall is_s32 idx -> idx_in_ranges r idx ->
  slice_positions d r idx = Ok (map u32 (ranges_nth r idx)).
Proof.
  induction r as [|[a b] tr IH]; destruct idx as [|i ti]; cbn [idx_in_ranges]; intros d Hs Hi H; try tauto; try reflexivity.
  inversion Hs as [|? ? [Ha Hb] Hs']; subst. cbn [fst snd] in *. destruct H as [Hin H].
  inversion Hi as [|? ? Hi0 Hi']; subst.
  cbn [slice_positions ranges_nth map].
  rewrite s32_small by assumption.
  rewrite gsr_index_in by assumption. rewrite IH by assumption. reflexivity.
Qed.

Lemma slice_positions_out : forall r idx d,
  Forall is_s32 idx -> length idx = length r -> ~ idx_in_ranges r idx ->
  exists d', slice_positions d r idx = Exc (IndexOob d').
Proof.
  induction r as [|[a b] tr IH]; destruct idx as [|i ti]; cbn [length];
    intros d Hi Hlen Hnot; try discriminate.
  - exfalso. apply Hnot. exact I.
  - inversion Hi as [|? ? Hi0 Hi']; subst.
    cbn [slice_positions]. rewrite s32_small by assumption.
    destruct (Z_lt_le_dec i 0) as [Hneg|Hnn].
    { rewrite slice_range_negative_inner by (left; exact Hneg). eauto. }
    destruct (Z_lt_le_dec i (range_len a b)) as [Hin|Hout].
    + destruct (get_slice_range a b i i) as [[rf rt] [|]]; [eauto|].
      destruct (IH ti (d + 1)) as [d' Hd']; try assumption; try lia.
      { intros Hrest. apply Hnot. cbn. split; [lia|exact Hrest]. }
      rewrite Hd'. eauto.
    + rewrite gsr_index_out by assumption. eauto.
Qed.

Lemma idx_in_ranges_nonneg : forall r idx, idx_in_ranges r idx -> Forall (fun i => 0 <= i) idx.
Proof.
  induction r as [|[a b] tr IH]; destruct idx as [|i ti]; cbn; intros H; try tauto; constructor.
  - lia.
  - apply IH. tauto.
Qed.

Lemma s32_nonneg_small idx :
  Forall is_s32 idx -> Forall (fun i => 0 <= i) idx -> Forall (fun i => 0 <= i < two31) idx.
Proof.
  intros H1 H2. rewrite Forall_forall in *. intros x Hx.
  specialize (H1 x Hx). specialize (H2 x Hx). unfold is_s32 in H1. lia.
Qed.

(* with every index inside its range, SLICE_DEREF is object_arr_dim_addr at the denoted
   positions of the *underlying* array *)
Lemma slice_deref_positions : forall dv r idx,
  range_s32 r -> Forall is_s32 idx -> idx_in_ranges r idx ->
  slice_deref (Some {| sl_arr := Some dv; sl_range := Some r |}) idx =
  deref_positions dv (ranges_nth r idx).
Proof.
  intros dv r idx Hs Hi Hin. unfold slice_deref, deref_positions.
  rewrite pop_indices_nonneg
    by (apply s32_nonneg_small; [assumption | eapply idx_in_ranges_nonneg; eauto]).
  cbn [sl_arr sl_range]. rewrite slice_positions_in by assumption. reflexivity.
Qed.

Lemma ranges_nth_s32 : forall r idx, range_s32 r -> idx_in_ranges r idx ->
  Forall is_s32 (ranges_nth r idx).
Proof.
  induction r as [|[a b] tr IH]; destruct idx as [|i ti]; cbn [idx_in_ranges ranges_nth];
    intros Hs H; try tauto; try constructor.
  - inversion Hs as [|? ? [Ha Hb] Hs']; subst. cbn [fst snd] in *.
    unfold range_nth, range_len, is_s32 in *. zb; lia.
  - inversion Hs; subst. apply IH; tauto.
Qed.

Lemma ranges_nth_length : forall r idx, idx_in_ranges r idx -> length (ranges_nth r idx) = length r.
Proof.
  induction r as [|[a b] tr IH]; destruct idx as [|i ti]; cbn; intros H; try tauto.
  f_equal. apply IH. tauto.
Qed.

Lemma in_range_u32 : forall exts pos,
  Forall ext_ok exts -> Forall is_s32 pos -> in_range exts (map u32 pos) -> in_range exts pos.
Proof.
  induction exts as [|n ns IH]; destruct pos as [|p ps]; cbn; intros He Hp H; try tauto.
  inversion He as [|? ? Hn He']; subst. inversion Hp as [|? ? Hp0 Hp']; subst.
  destruct H as [H0 H]. unfold ext_ok in Hn.
  destruct (u32_s32_lt31 p Hp0) as [Q1 Q2]; [lia|].
  split; [lia|]. apply IH; assumption.
Qed.

Lemma map_u32_in_range : forall exts pos, Forall ext_ok exts -> in_range exts pos -> map u32 pos = pos.
Proof.
  induction exts as [|n ns IH]; destruct pos as [|p ps]; cbn; intros He H; try tauto.
  inversion He as [|? ? Hn He']; subst. destruct H as [H0 H]. unfold ext_ok in Hn.
  rewrite u32_small by (unfold two31, two32 in *; lia). f_equal. apply IH; assumption.
Qed.

Lemma deref_positions_spec : forall exts pos,
  Forall ext_ok exts -> Forall is_s32 pos -> length pos = length exts ->
  (prodZ exts < two32 -> in_range exts pos ->
     deref_positions (mk_arr exts) pos = Ok (row_major exts pos)) /\
  (~ in_range exts pos -> exists d, deref_positions (mk_arr exts) pos = Exc (IndexOob d)).
Proof.
  intros exts pos He Hp Hlen. unfold deref_positions. split.
  - intros Hb Hin. rewrite (map_u32_in_range exts pos He Hin).
    destruct (dim_addr_row_major exts pos Hb Hin) as [_ [Ha _]].
    unfold mk_arr. rewrite Ha. reflexivity.
  - intros Hnot.
    destruct (dim_addr_loop_not_in_range (mk_arr exts) (map u32 pos) 0 0) as [k [Hk1 _]].
    + rewrite map_length, Hlen. rewrite <- (mk_arr_fst exts) at 1. now rewrite map_length.
    + rewrite Forall_forall. intros x Hx. apply in_map_iff in Hx. destruct Hx as [y [<- _]].
      apply u32_range.
    + rewrite mk_arr_fst. intros Hin. apply Hnot. apply in_range_u32; assumption.
    + unfold dim_addr. rewrite Hk1. cbn [Z.add].
      destruct (0 <=? Z.of_nat k) eqn:E; [eauto | apply Z.leb_gt in E; lia].
Qed.

Theorem slice_deref_spec : forall exts r idx,
  Forall ext_ok exts -> range_s32 r -> Forall is_s32 idx ->
  length r = length exts -> length idx = length exts ->
  let s := Some {| sl_arr := Some (mk_arr exts); sl_range := Some r |} in
  (* index inside the slice and the denoted position inside the array: the row-major element
     of the underlying array at that position *)
  (prodZ exts < two32 -> idx_in_ranges r idx -> in_range exts (ranges_nth r idx) ->
     slice_deref s idx = Ok (row_major exts (ranges_nth r idx))) /\
  (* index inside the slice but the position outside the array: index_out_of_bounds *)
  (idx_in_ranges r idx -> ~ in_range exts (ranges_nth r idx) ->
     exists d, slice_deref s idx = Exc (IndexOob d)) /\
  (* index negative or beyond the end of the slice, of whatever magnitude: index_out_of_bounds *)
  (~ idx_in_ranges r idx -> exists d, slice_deref s idx = Exc (IndexOob d)).
Proof.
  intros exts r idx He Hs Hi Hlr Hli s. subst s. split; [|split].
  - intros Hb Hin Hpos. rewrite slice_deref_positions by assumption.
    apply deref_positions_spec; try assumption.
    + apply ranges_nth_s32; assumption.
    + rewrite ranges_nth_length by assumption. exact Hlr.
  - intros Hin Hnot. rewrite slice_deref_positions by assumption.
    apply deref_positions_spec; try assumption.
    + apply ranges_nth_s32; assumption.
    + rewrite ranges_nth_length by assumption. exact Hlr.
  - intros Hnot. unfold slice_deref.
    destruct (Forall_nonneg_dec idx) as [Hnn|Hneg].
    + rewrite pop_indices_nonneg by (apply s32_nonneg_small; assumption).
      cbn [sl_arr sl_range].
      destruct (slice_positions_out r idx 0) as [d' Hd']; try assumption; try lia.
      rewrite Hd'. eauto.
    + destruct (pop_indices_negative idx 0 Hneg) as [k [Hk1 _]]. rewrite Hk1. eauto.
Qed.

(* regression (finding range_deref:int-overflow, slice variants): through a descending slice
   range at INT_MIN the difference INT_MIN - INT_MAX wrapped to +1 (-2147483643 - INT_MAX to 6),
   passed the bound test and element 1 (6) of the array was returned; composing such a range
   with [INT_MAX..INT_MAX] produced the slice [1..1] *)
Theorem slice_deref_overflow_regression :
  let sl a b := Some {| sl_arr := Some (mk_arr [8]); sl_range := Some [(a, b)] |} in
  slice_deref (sl (-2147483648) (-2147483648)) [2147483647] = Exc (IndexOob 0) /\
  slice_deref (sl (-2147483643) (-2147483648)) [2147483647] = Exc (IndexOob 0) /\
  slice_deref (sl 2147483640 2147483647) [20] = Exc (IndexOob 0) /\
  slice_deref (sl 0 7) [2147483647] = Exc (IndexOob 0) /\
  slice_deref (sl 7 0) [2147483647] = Exc (IndexOob 0) /\
  slice_slice (sl (-2147483648) (-2147483648)) (Some [(2147483647, 2147483647)]) = Exc (IndexOob (-1)) /\
  slice_slice (sl 2147483640 2147483647) (Some [(3, 20)]) = Exc (IndexOob (-1)) /\
  slice_range (Some [(-2147483648, -2147483648)]) (Some [(2147483647, 2147483647)]) = Exc (IndexOob (-1)) /\
  slice_range (Some [(2147483640, 2147483647)]) (Some [(20, 3)]) = Exc (IndexOob (-1)) /\
  (* valid accesses next to the limits are untouched *)
  slice_deref (sl 0 7) [7] = Ok 7 /\ slice_deref (sl 7 0) [7] = Ok 0 /\
  slice_range (Some [(2147483640, 2147483647)]) (Some [(7, 0)]) = Ok [(2147483647, 2147483640)].
Proof. cbv zeta. repeat split; vm_compute; reflexivity. Qed.

(* slices alias the underlying array: the cell reached through the slice is the cell reached
   by indexing the array itself at the denoted position *)
Theorem slice_aliases : forall exts r idx,
  Forall ext_ok exts -> prodZ exts < two32 -> range_s32 r -> Forall is_s32 idx ->
  length r = length exts ->
  idx_in_ranges r idx -> in_range exts (ranges_nth r idx) ->
  slice_deref (Some {| sl_arr := Some (mk_arr exts); sl_range := Some r |}) idx =
  array_deref (Some (mk_arr exts)) (ranges_nth r idx).
Proof.
  intros exts r idx He Hb Hs Hi Hlr Hin Hpos.
  pose proof (idx_in_ranges_length r idx Hin) as Hli.
  destruct (slice_deref_spec exts r idx He Hs Hi Hlr ltac:(lia)) as [S1 _].
  rewrite S1 by assumption.
  destruct (array_deref_spec exts (ranges_nth r idx)) as [A1 _].
  - apply ranges_nth_s32; assumption.
  - rewrite ranges_nth_length by assumption. exact Hlr.
  - destruct (A1 Hb Hpos) as [A _]. rewrite A. reflexivity.
Qed.

(* the same for an array the VM has created (MK_ARRAY, fix 1f9996a), without any hypothesis on
   the product of the extents: an index inside the slice whose denoted position is inside the
   array reaches the row-major cell of that position, which lies inside value[] and is the cell
   indexing the array itself reaches *)
Theorem mk_array_slice_deref_spec : forall exts dv elems r idx,
  Forall is_s32 exts -> mk_array exts = Ok (dv, elems) ->
  range_s32 r -> Forall is_s32 idx -> length r = length exts -> length idx = length exts ->
  let s := Some {| sl_arr := Some dv; sl_range := Some r |} in
  (idx_in_ranges r idx -> in_range exts (ranges_nth r idx) ->
     slice_deref s idx = Ok (row_major exts (ranges_nth r idx)) /\
     0 <= row_major exts (ranges_nth r idx) < elems /\
     slice_deref s idx = array_deref (Some dv) (ranges_nth r idx)) /\
  (idx_in_ranges r idx -> ~ in_range exts (ranges_nth r idx) ->
     exists d, slice_deref s idx = Exc (IndexOob d)) /\
  (~ idx_in_ranges r idx -> exists d, slice_deref s idx = Exc (IndexOob d)).
Proof.
  intros exts dv elems r idx Hse Hmk Hs Hi Hlr Hli s. subst s.
  destruct (mk_array_spec exts Hse) as [_ [_ [_ Hinv]]].
  destruct (Hinv dv elems Hmk) as [Hp [Hb [-> ->]]].
  assert (He : Forall ext_ok exts).
  { rewrite Forall_forall in *. intros x Hx. specialize (Hp x Hx). specialize (Hse x Hx).
    unfold ext_ok, is_s32 in *. lia. }
  destruct (slice_deref_spec exts r idx He Hs Hi Hlr Hli) as [S1 [S2 S3]].
  split; [|split; assumption].
  intros Hin Hpos. split; [apply S1; assumption|]. split; [apply row_major_bound; exact Hpos|].
  apply slice_aliases; assumption.
Qed.

(* slice of a slice: a[r1][r2][idx] = a[r1][ r2[idx] ] -- also when both raise *)
Theorem slice_slice_assoc : forall dv r1 r2 idx s2,
  range_s32 r1 -> range_s32 r2 -> Forall is_s32 idx -> length r1 = length r2 ->
  slice_slice (Some {| sl_arr := Some dv; sl_range := Some r1 |}) (Some r2) = Ok s2 ->
  idx_in_ranges r2 idx ->
  slice_deref (Some s2) idx =
  slice_deref (Some {| sl_arr := Some dv; sl_range := Some r1 |}) (ranges_nth r2 idx).
Proof.
  intros dv r1 r2 idx s2 Hs1 Hs2 Hi Hlen Hss Hin.
  unfold slice_slice in Hss. cbn [sl_range sl_arr] in Hss.
  destruct (compose_ranges_denotes r1 r2 Hs1 Hlen) as [C1 C2].
  assert (Hw : inner_within r1 r2).
  { destruct (compose_ranges r1 r2) as [r|e] eqn:E; [|discriminate].
    (* by contradiction with C2 *)
    assert (Hdec : inner_within r1 r2 \/ ~ inner_within r1 r2).
    { clear. revert r2. induction r1 as [|[a b] t1 IH]; destruct r2 as [|[c d] t2]; cbn; try tauto.
      destruct (IH t2); destruct (Z_lt_le_dec c (range_len a b)); destruct (Z_lt_le_dec d (range_len a b));
        destruct (Z_lt_le_dec c 0); destruct (Z_lt_le_dec d 0);
        try (left; repeat split; (lia || assumption)); right; intros [? [? ?]]; try lia; tauto. }
    destruct Hdec as [|Hn]; [assumption|]. specialize (C2 Hn). congruence. }
  destruct (C1 Hw) as [r [Hr1 [Hr2 [Hr3 Hr4]]]]. rewrite Hr1 in Hss. inversion Hss; subst s2.
  destruct (Hr4 idx Hin) as [Q1 [Q2 Q3]].
  rewrite slice_deref_positions by assumption.
  rewrite slice_deref_positions; try assumption.
  - rewrite Q3. reflexivity.
  - apply ranges_nth_s32; assumption.
Qed.

(* ---- the layout of range vectors: [from0; to0; from1; to1; ...] ------------------------------- *)
Lemma flatten_length : forall r, length (flatten r) = (2 * length r)%nat.
Proof. induction r as [|[a b] t IH]; cbn; [reflexivity|]. rewrite IH. lia. Qed.

Lemma unflatten_flatten : forall r, unflatten (flatten r) = r.
Proof. induction r as [|[a b] t IH]; cbn; congruence. Qed.

Lemma flatten_unflatten : forall n v, length v = (2 * n)%nat -> flatten (unflatten v) = v.
Proof.
  induction n as [|n IH]; intros v H.
  - destruct v; [reflexivity|discriminate].
  - destruct v as [|a [|b t]]; cbn in H; try lia.
    cbn. f_equal. f_equal. apply IH. lia.
Qed.

(* the handlers' indexing: slot d*2 holds from_d, slot d*2+1 holds to_d *)
Theorem vec_layout : forall r d,
  vec_get (flatten r) (d * 2) = fst (nth d r (0, 0)) /\
  vec_get (flatten r) (d * 2 + 1) = snd (nth d r (0, 0)).
Proof.
  unfold vec_get. induction r as [|[a b] t IH]; intros d.
  - cbn [flatten]. destruct d; cbn; [tauto|]. destruct (d * 2)%nat; destruct (d * 2 + 1)%nat; tauto.
  - destruct d as [|d]; [cbn; tauto|]. specialize (IH d). cbn. exact IH.
Qed.

Lemma vec_dims_from_flatten : forall t pre,
  vec_dims_from (length t) (length pre) (flatten (pre ++ t)) = t.
Proof.
  induction t as [|[a b] t IH]; intros pre; cbn [length vec_dims_from]; [reflexivity|].
  destruct (vec_layout (pre ++ (a, b) :: t) (length pre)) as [L1 L2].
  rewrite L1, L2. rewrite app_nth2 by lia. rewrite Nat.sub_diag. cbn [nth fst snd].
  f_equal. specialize (IH (pre ++ [(a, b)])).
  rewrite app_length in IH. cbn [length] in IH. rewrite Nat.add_1_r in IH.
  rewrite <- app_assoc in IH. exact IH.
Qed.

(* what the per-dimension loop reads from the vector of a range is that range *)
Theorem vec_dims_flatten : forall r, vec_dims (length r) (flatten r) = r.
Proof. intros r. exact (vec_dims_from_flatten r []). Qed.

(* the handlers on vectors are the handlers on lists of pairs *)
Theorem slice_range_vec_spec : forall r1 r2, length r2 = length r1 ->
  slice_range_vec (length r1) (Some (flatten r1)) (Some (flatten r2)) =
  lift_flatten (slice_range (Some r1) (Some r2)).
Proof.
  intros r1 r2 H. unfold slice_range_vec, slice_range.
  rewrite vec_dims_flatten. rewrite <- H. rewrite vec_dims_flatten. reflexivity.
Qed.

Theorem range_deref_vec_spec : forall r idx,
  range_deref_vec (length r) (Some (flatten r)) idx = range_deref (Some r) idx.
Proof. intros r idx. unfold range_deref_vec, range_deref. rewrite vec_dims_flatten. reflexivity. Qed.

Theorem slice_deref_vec_spec : forall arr r idx,
  slice_deref_vec (length r) (Some {| slv_arr := arr; slv_range := Some (flatten r) |}) idx =
  slice_deref (Some {| sl_arr := arr; sl_range := Some r |}) idx.
Proof. intros arr r idx. unfold slice_deref_vec. cbn [slv_arr slv_range]. rewrite vec_dims_flatten. reflexivity. Qed.

Theorem slice_slice_vec_spec : forall arr r1 r2, length r2 = length r1 ->
  slice_slice_vec (length r1) (Some {| slv_arr := arr; slv_range := Some (flatten r1) |}) (Some (flatten r2)) =
  match slice_slice (Some {| sl_arr := arr; sl_range := Some r1 |}) (Some r2) with
  | Ok s => Ok {| slv_arr := sl_arr s;
                  slv_range := match sl_range s with Some r => Some (flatten r) | None => None end |}
  | Exc e => Exc e
  end.
Proof.
  intros arr r1 r2 H. unfold slice_slice_vec, slice_slice. cbn [slv_arr slv_range sl_arr sl_range].
  rewrite vec_dims_flatten. rewrite <- H. rewrite vec_dims_flatten.
  destruct (compose_ranges r1 r2); reflexivity.
Qed.

(* the names of the bounds of a slice parameter: lower name 0, upper name = number of positions of
   that dimension minus one; of a range parameter: the bounds themselves *)
Theorem slice_dim_name_spec : forall r d,
  (d < length r)%nat ->
  let '(a, b) := nth d r (0, 0) in
  is_s32 (b - a) -> is_s32 (a - b) ->
  slice_dim_name (flatten r) (d * 2) = 0 /\
  slice_dim_name (flatten r) (d * 2 + 1) = range_len a b - 1 /\
  range_dim_name (flatten r) (d * 2) = a /\
  range_dim_name (flatten r) (d * 2 + 1) = b.
Proof.
  intros r d Hd. destruct (nth d r (0, 0)) as [a b] eqn:E. intros H1 H2.
  destruct (vec_layout r d) as [L1 L2]. rewrite E in L1, L2. cbn [fst snd] in L1, L2.
  unfold slice_dim_name, range_dim_name.
  assert (Ev : Nat.even (d * 2) = true).
  { rewrite Nat.mul_comm. rewrite Nat.even_mul. reflexivity. }
  assert (Od : Nat.even (d * 2 + 1) = false).
  { rewrite Nat.add_1_r, Nat.even_succ, <- Nat.negb_even, Ev. reflexivity. }
  rewrite Ev, Od. replace (d * 2 + 1 - 1)%nat with (d * 2)%nat by lia.
  rewrite L1, L2. cbv zeta. split; [reflexivity|]. split; [|tauto].
  unfold range_len. destruct (Z.ltb_spec a b); rewrite s32_small by assumption; lia.
Qed.

(* distinct values in every slot: any mix-up of slots changes what is read *)
Example vec_layout_example :
  flatten [(5, 1); (10, 13); (7, 2)] = [5; 1; 10; 13; 7; 2] /\
  unflatten [5; 1; 10; 13; 7; 2] = [(5, 1); (10, 13); (7, 2)] /\
  vec_dims 3 [5; 1; 10; 13; 7; 2] = [(5, 1); (10, 13); (7, 2)] /\
  slice_range_vec 2 (Some [5; 1; 10; 13]) (Some [1; 3; 2; 0]) = Ok [4; 2; 12; 10] /\
  range_deref_vec 2 (Some [4; 2; 12; 10]) [2; 1] = Ok [2; 11].
Proof. repeat split; vm_compute; reflexivity. Qed.

(* ---- hypotheses are satisfiable ---------------------------------------------------------------- *)
Example slice_range_denotes_example :
  is_s32 10 /\ is_s32 3 /\
  get_slice_range 10 3 5 1 = (5, 9, false) /\          (* [10..3][5..1] = [5..9] *)
  get_slice_range 10 3 1 8 = (0, 0, true) /\           (* 8 is not an index of [10..3] *)
  get_slice_range 2 7 1 3 = (3, 5, false) /\ get_slice_range 2 7 3 1 = (5, 3, false) /\
  get_slice_range 7 2 1 3 = (6, 4, false).
Proof. unfold is_s32, two31. repeat split; try lia; vm_compute; reflexivity. Qed.

Example slice_deref_example :
  let exts := [3; 4] in
  let r := [(2, 0); (1, 3)] in
  Forall ext_ok exts /\ range_s32 r /\ idx_in_ranges r [1; 2] /\ in_range exts (ranges_nth r [1; 2]) /\
  slice_deref (Some {| sl_arr := Some (mk_arr exts); sl_range := Some r |}) [1; 2] = Ok 7 /\
  slice_deref (Some {| sl_arr := Some (mk_arr exts); sl_range := Some r |}) [3; 0] = Exc (IndexOob 0) /\
  slice_deref (Some {| sl_arr := Some (mk_arr exts); sl_range := Some r |}) [0; -1] = Exc (IndexOob 1).
Proof.
  cbv zeta. split. { repeat constructor; unfold ext_ok, two31; lia. }
  split. { repeat constructor; unfold is_s32, two31; cbn; lia. }
  split. { cbn. unfold range_len. lia. }
  split. { cbn. unfold range_nth. cbn. lia. }
  repeat split; vm_compute; reflexivity.
Qed.

Example slice_slice_example :
  let r1 := [(1, 6)] in let r2 := [(4, 2)] in
  range_s32 r1 /\ inner_within r1 r2 /\
  compose_ranges r1 r2 = Ok [(5, 3)] /\ idx_in_ranges r2 [1] /\
  ranges_nth [(5, 3)] [1] = ranges_nth r1 (ranges_nth r2 [1]).
Proof.
  cbv zeta. split. { repeat constructor; unfold is_s32, two31; cbn; lia. }
  split. { cbn. unfold range_len. lia. }
  repeat split; try (vm_compute; reflexivity); cbn; unfold range_len; lia.
Qed.
