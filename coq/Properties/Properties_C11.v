(* C11 — int and long are 32- and 64-bit two's complement with wrap-around and truncating
   division, float and double are IEEE single and double; a mixed binary operation promotes
   along int -> long -> float -> double, an assignment converts the right side to the left
   side's type; comparison, bitwise and shift operators give the corresponding C results.

   Only statements here; every proof is `exact <lemma>`.
   Part 1 (typing, opcode selection): theorems over Gen/ConvTables.v and Gen/OpSelect.v,
   REGENERATED from the tree's compiler on every run and completely enumerated.
   Part 2 (values): theorems for all operand values about the operations the VM model uses
   (Arith/IntOps.v; floating operations are Coq.Floats.SpecFloat, whose IEEE conformance is
   Flocq's theorem, cited in Arith/FloatOps.v).
   `_refuted` = the statement fails on the tree, with the witness;
   `_partial` = the statement restricted to the cells/values where it holds. *)
From Coq Require Import ZArith Bool List.
From NV Require Import Arith.NumTy Arith.Bits Arith.BitsProofs Arith.IntOps Arith.IntOpsProofs
  Arith.FloatOps Arith.FloatProofs Arith.Promote Arith.PromoteProofs Gen.ConvTables Gen.OpSelect.
Local Open Scope Z_scope.

(* ---- part 1: tables ---- *)

(* every operator, every pair of numeric types it admits: both operands are converted to the
   join in int < long < float < double and the result has that type (bool for comparisons) *)
Theorem binary_result_is_join :
  forall x, In x binary_table -> admits (br_op x) (br_l x) (br_r x) = true ->
    let j := join (br_l x) (br_r x) in
    br_accepted x = true /\
    apply_conv (br_l x) (br_cl x) = j /\ apply_conv (br_r x) (br_cr x) = j /\
    br_res x = Some (result_ty (br_op x) j).
Proof. exact PromoteProofs.binary_result_is_join. Qed.
Print Assumptions binary_result_is_join.

Theorem binary_table_covers_numeric_pairs :
  forall o l r, admits o l r = true ->
    exists x, In x binary_table /\ br_op x = o /\ br_l x = l /\ br_r x = r.
Proof. exact PromoteProofs.binary_table_covers_numeric_pairs. Qed.
Print Assumptions binary_table_covers_numeric_pairs.

(* an assignment converts the right side to the left type and stores it with the left type's
   opcode: all 16 numeric pairs *)
Theorem assignment_converts_to_left :
  forall l r, is_num l = true -> is_num r = true -> ass_cell_ok l r = true.
Proof. exact PromoteProofs.assignment_converts_to_left. Qed.
Print Assumptions assignment_converts_to_left.

(* the opcode is the operator's own at the common operand type (bool and item-enum operands
   are ints at run time): every cell for which an opcode is emitted *)
Theorem opcode_matches_type : forall y, In y binop_table -> opcode_cell_ok y = true.
Proof. exact PromoteProofs.opcode_matches_type. Qed.
Print Assumptions opcode_matches_type.

Theorem unary_opcode_matches_type :
  forall y v, In y unop_table -> uo_emit y = EmitOp v -> v = VUn (uo_op y) (runtime_ty (uo_t y)).
Proof. exact PromoteProofs.unary_opcode_matches_type. Qed.
Print Assumptions unary_opcode_matches_type.

(* every accepted operator application has an opcode (true since /repo 2ca194c: an item
   enumerator operand is typed int; before, < <= > >= % == != with an enum operand passed the
   typechecker and aborted in front/emit.c, and the statement was refuted / proved only for
   the cells without enum operand) *)
Theorem accepted_cells_are_emitted :
  forall y, In y binop_table -> bo_emit y <> EmitAbort.
Proof. exact PromoteProofs.accepted_cells_are_emitted. Qed.
Print Assumptions accepted_cells_are_emitted.

(* ---- part 2: values ---- *)

(* + - * and unary - are the operations of Z / 2^n (n = 32, 64): whole expressions evaluate
   modulo 2^n *)
Theorem wrap_ring_hom : forall n a b, 0 < n ->
  (in_range n (iadd n a b) /\ (iadd n a b) mod modulus n = (a + b) mod modulus n) /\
  (in_range n (isub n a b) /\ (isub n a b) mod modulus n = (a - b) mod modulus n) /\
  (in_range n (imul n a b) /\ (imul n a b) mod modulus n = (a * b) mod modulus n) /\
  (in_range n (ineg n a) /\ (ineg n a) mod modulus n = (- a) mod modulus n) /\
  iadd n (wrap n a) (wrap n b) = wrap n (a + b) /\
  isub n (wrap n a) (wrap n b) = wrap n (a - b) /\
  imul n (wrap n a) (wrap n b) = wrap n (a * b) /\
  ineg n (wrap n a) = wrap n (- a).
Proof. exact IntOpsProofs.wrap_ring_hom. Qed.
Print Assumptions wrap_ring_hom.

Theorem arith_exact_when_fits : forall n a b, 0 < n ->
  (in_range n (a + b) -> iadd n a b = a + b) /\
  (in_range n (a - b) -> isub n a b = a - b) /\
  (in_range n (a * b) -> imul n a b = a * b).
Proof. exact IntOpsProofs.arith_exact_when_fits. Qed.
Print Assumptions arith_exact_when_fits.

(* / and % never trap: for every non-zero divisor the quotient is the truncated quotient
   brought to n bits, the remainder is the truncated remainder *)
Theorem div_never_traps : forall n a b, 0 < n -> b <> 0 ->
  idiv n a b = IVal (wrap n (Z.quot a b)) /\ imod n a b = IVal (Z.rem a b) /\
  in_range n (wrap n (Z.quot a b)) /\
  (in_range n b -> in_range n (Z.rem a b)).
Proof. exact IntOpsProofs.div_never_traps. Qed.
Print Assumptions div_never_traps.

(* INT_MIN / -1 = wrap(2^(n-1)) = INT_MIN, INT_MIN % -1 = 0 *)
Theorem div_overflow_wraps : forall n, 0 < n ->
  idiv n (int_min n) (-1) = IVal (int_min n) /\ imod n (int_min n) (-1) = IVal 0.
Proof. exact IntOpsProofs.div_overflow_wraps. Qed.
Print Assumptions div_overflow_wraps.

(* on every other pair / truncates toward zero exactly, % has the sign of the dividend *)
Theorem div_truncates : forall n a b, 0 < n -> in_range n a -> in_range n b ->
  b <> 0 -> div_overflows n a b = false ->
  exists q r, idiv n a b = IVal q /\ imod n a b = IVal r /\
    a = b * q + r /\ Z.abs r < Z.abs b /\ (r = 0 \/ Z.sgn r = Z.sgn a) /\
    in_range n q /\ in_range n r.
Proof. exact IntOpsProofs.div_truncates. Qed.
Print Assumptions div_truncates.

Theorem div_by_zero_faults : forall n a, idiv n a 0 = IDivZero /\ imod n a 0 = IDivZero.
Proof. exact IntOpsProofs.div_by_zero_faults. Qed.
Print Assumptions div_by_zero_faults.

Theorem compare_total_int : forall a b,
  ilt a b + ieq a b + igt a b = 1 /\
  ile a b = ilt a b + ieq a b /\ ige a b = igt a b + ieq a b /\
  ine a b = 1 - ieq a b /\
  (ilt a b = 1 <-> a < b) /\ (ieq a b = 1 <-> a = b) /\ (igt a b = 1 <-> b < a).
Proof. exact IntOpsProofs.compare_total_int. Qed.
Print Assumptions compare_total_int.

(* & | ^ ~ on the n-bit patterns are Z.land Z.lor Z.lxor Z.lnot of the integers themselves *)
Theorem bitops_are_two_complement : forall n a b, 0 < n -> in_range n a -> in_range n b ->
  iand n a b = Z.land a b /\ ior n a b = Z.lor a b /\ ixor n a b = Z.lxor a b /\
  ibnot n a = Z.lnot a /\
  in_range n (iand n a b) /\ in_range n (ior n a b) /\ in_range n (ixor n a b) /\
  in_range n (ibnot n a).
Proof. exact IntOpsProofs.bitops_are_two_complement. Qed.
Print Assumptions bitops_are_two_complement.

(* shifts by 0 <= k < n: << is multiplication by 2^k modulo 2^n, >> is floor division *)
Theorem shift_in_range : forall n a k, 0 < n -> in_range n a -> shift_ok n k = true ->
  ishl n a k = wrap n (a * 2 ^ k) /\
  ishr n a k = a / 2 ^ k /\
  in_range n (ishl n a k) /\ in_range n (ishr n a k).
Proof. exact IntOpsProofs.shift_in_range. Qed.
Print Assumptions shift_in_range.

Theorem conv_int_long_exact : forall a,
  (in_range 32 a -> in_range 64 (i2l a) /\ l2i (i2l a) = a) /\
  (in_range 32 (l2i a) /\ (l2i a) mod 2 ^ 32 = a mod 2 ^ 32) /\
  (in_range 32 a -> l2i a = a).
Proof. exact IntOpsProofs.conv_int_long_exact. Qed.
Print Assumptions conv_int_long_exact.

(* every binary32 value converts to the binary64 value with the same real value, and back *)
Theorem conv_float_double_exact : forall a, fvalid b32 a ->
  same_value (decode b32 a) (decode b64 (f2d a)) /\ d2f (f2d a) = canon b32 a.
Proof. exact FloatProofs.conv_float_double_exact. Qed.
Print Assumptions conv_float_double_exact.
