"""C09, VM level: "a program whose live data stays bounded runs indefinitely in a fixed heap".

Metamorphic oracle on the real VM (no model needed): for loop-shaped programs whose live data is
bounded, the smallest heap that completes N iterations must also complete 10*N iterations (the
heap need is independent of the iteration count) — for every loop form: for / while / do-while,
self tail calls through ?:, if/else and blocks, closures called in a loop, strings and records
built and dropped per iteration, closures that are called as temporaries (callee of the
iteration's call is the result of a call / a lambda applied in place / a curried call) and allocate
before they read their captured variables.  A loop form in which collections never get a chance
to run (or garbage is never reclaimed) needs a heap proportional to N; a loop form in which a
collection frees something still in use crashes (or gives another result) once the heap is small
enough for collections to happen.
"""
import os

from lib import nevrun, vmcheck

SHAPES = {
    "for-int": "func main() -> int { var s = 0; var i = 0; for (i = 0; i < %N%; i = i + 1) { s = (s + i * 3) %% 1000 }; s }",
    "while-int": "func main() -> int { var s = 0; var i = 0; while (i < %N%) { s = (s + i * 3) %% 1000; i = i + 1 }; s }",
    "dowhile-int": "func main() -> int { var s = 0; var i = 0; do { s = (s + i * 3) %% 1000; i = i + 1 } while (i < %N%); s }",
    "tail-cond": "func loop(n : int, acc : int) -> int { n == 0 ? acc : loop(n - 1, (acc + n * 3) %% 1000) }\nfunc main() -> int { loop(%N%, 0) }",
    "tail-ifelse": "func loop(n : int, acc : int) -> int { if (n == 0) { acc } else { loop(n - 1, (acc + n * 3) %% 1000) } }\nfunc main() -> int { loop(%N%, 0) }",
    "tail-block": "func loop(n : int, acc : int) -> int { let k = n * 3; n == 0 ? acc : { let m = k + 1; loop(n - 1, (acc + m) %% 1000) } }\nfunc main() -> int { loop(%N%, 0) }",
    "tail-3params": "func loop(n : int, a : int, b : int) -> int { n == 0 ? a + b : loop(n - 1, b %% 1000, (a + b) %% 1000) }\nfunc main() -> int { loop(%N%, 0, 1) }",
    "call-in-loop": "func f(x : int) -> int { x * 2 + 1 }\nfunc main() -> int { var s = 0; var i = 0; while (i < %N%) { s = (s + f(i)) %% 1000; i = i + 1 }; s }",
    "closure-in-loop": "func mk(k : int) -> (int) -> int { let func (x : int) -> int { x + k } }\nfunc main() -> int { var s = 0; var i = 0; while (i < %N%) { let g = mk(i); s = (s + g(1)) %% 1000; i = i + 1 }; s }",
    "record-per-iter": "record P { x : int; y : int; }\nfunc main() -> int { var s = 0; var i = 0; while (i < %N%) { let p = P(i, i + 1); s = (s + p.x + p.y) %% 1000; i = i + 1 }; s }",
    "array-per-iter": "func main() -> int { var s = 0; var i = 0; while (i < %N%) { let t = [ i, i + 1, i + 2 ] : int; s = (s + t[1]) %% 1000; i = i + 1 }; s }",
    "string-per-iter": "func main() -> int { var s = 0; var i = 0; while (i < %N%) { let t = \"ab\" + i; s = (s + length(t)) %% 1000; i = i + 1 }; s }",
    # the callee of every iteration is a TEMPORARY closure (nothing but the call refers to it) that first calls something
    # which allocates and only then reads its captured variables: its environment is reachable only through the saved
    # environment pointer of the callee's frame while collections run
    "temp-closure-callee": "func step(s : int, i : int) -> int { s + i * 2 - i }\nfunc churn(n : int) -> int { var i = 0; var s = 0; for (i = 0; i < n; i = i + 1) { s = step(s, i) }; s }\nfunc mk(a : int, b : int, c : int) -> (int) -> int { let func (n : int) -> int { (churn(n) &&& 1) * 0 + a * 100 + b * 10 + c } }\nfunc main() -> int { var s = 0; var i = 0; while (i < %N%) { s = (s + mk(i %% 7, 2, 3)(12)) %% 1000; i = i + 1 }; s }",
    "temp-closure-record-callee": "record P { x : int; y : int; }\nfunc build(n : int) -> int { var i = 0; var s = 0; while (i < n) { let p = P(i, s); s = (p.x + p.y) %% 100; i = i + 1 }; s }\nfunc mk(a : int, t[D] : int) -> (int) -> int { var d = a * 2; let func (n : int) -> int { d = d + build(n) * 0; d + t[1] + a } }\nfunc main() -> int { var s = 0; var i = 0; while (i < %N%) { s = (s + mk(i %% 5, [ 1, 2, 3 ] : int)(10)) %% 1000; i = i + 1 }; s }",
    "temp-lambda-callee": "func grow(n : int) -> int { n <= 0 ? 0 : grow(n - 1) + n %% 3 }\nfunc main() -> int { var s = 0; var i = 0; while (i < %N%) { let u = i %% 9; let v = [ u, u + 1 ] : int; s = (s + let func (n : int) -> int { grow(n) * 0 + u * 10 + v[1] }(14)) %% 1000; i = i + 1 }; s }",
    "temp-curried-callee": "func step(s : int, i : int) -> int { s + i * 2 - i }\nfunc churn(n : int) -> int { var i = 0; var s = 0; while (i < n) { s = step(s, i); i = i + 1 }; s }\nfunc mk(a : int) -> (int) -> (int) -> int { let func (b : int) -> (int) -> int { let func (n : int) -> int { churn(n) * 0 + a * 10 + b } } }\nfunc main() -> int { var s = 0; var i = 0; while (i < %N%) { s = (s + mk(i %% 7)(3)(12)) %% 1000; i = i + 1 }; s }",
    "tail-with-record": "record P { x : int; }\nfunc loop(n : int, p : P) -> int { n == 0 ? p.x : loop(n - 1, P((p.x + n) %% 1000)) }\nfunc main() -> int { loop(%N%, P(0)) }",
}


def _outcome(drv, src, mem, stack=400, timeout=20):
    r = nevrun.run_batch(drv, [{"id": "x", "src": src, "mem": mem, "stack": stack}], timeout_per=timeout)
    rec = r.get("x")
    if rec is None:
        return "none", ""
    return nevrun.classify(rec), rec.get("detail", "")


def _need(drv, src, lo=40, hi=60000):
    """smallest heap size (cells) with which the program returns a result; None if not even hi"""
    cls, det = _outcome(drv, src, hi)
    if cls != "result":
        return None, cls, det
    ref = det
    while lo < hi:
        mid = (lo + hi) // 2
        c, d = _outcome(drv, src, mid)
        if c == "result" and d == ref:
            hi = mid
        else:
            lo = mid + 1
    return lo, "result", ref


def run_boundedlive(ctx, drv):
    n1 = 400 if ctx.tier == "quick" else 2000
    factor = 10 if ctx.tier == "quick" else 25
    names = sorted(SHAPES)

    def one(name):
        tmpl = SHAPES[name].replace("%%", "%")
        a = _need(drv, tmpl.replace("%N%", str(n1)))
        if a[0] is None:
            return name, a, None, None
        # the heap that suffices for n1 iterations (+ a small margin for rounding of the 0.8 trigger)
        m = a[0] + 8
        big = tmpl.replace("%N%", str(n1 * factor))
        cls, det = _outcome(drv, big, m, timeout=60)
        return name, a, (m, cls, det), big

    res = vmcheck.pmap(one, names, workers=min(20, len(names)))
    table = {}
    for name, a, b, big in res:
        if a[0] is None:
            if a[1].startswith("CRASH"):
                src = SHAPES[name].replace("%%", "%").replace("%N%", str(n1))
                ctx.violation("bounded-live:crash:%s" % name, "loop form `%s` (%d iterations) at heap 60000: %s" % (name, n1, a[1]),
                              {"program": src, "mem": 60000, "class": a[1]})
            else:
                ctx.correspondence_broken("boundedlive:%s" % name, {"what": "does not complete even with a 60000-cell heap", "class": a[1]})
            continue
        m, cls, det = b
        table[name] = {"need_at_%d" % n1: a[0], "heap_used_for_%dx" % factor: m, "outcome": cls}
        ctx.count(evaluations=2, nontrivial=1)
        if cls.startswith("limit:heap"):
            ctx.violation("bounded-live:heap-grows-with-iterations:%s" % name,
                          "loop form `%s`: %d iterations complete in a %d-cell heap but %d iterations of the same bounded-live "
                          "loop run out of memory in %d cells: garbage is not reclaimed (or no collection ever runs) in this loop form"
                          % (name, n1, a[0], n1 * factor, m),
                          {"program": big, "mem": m, "iterations": n1 * factor, "need_for_%d_iterations" % n1: a[0]})
        elif cls.startswith("CRASH"):
            ctx.violation("bounded-live:crash:%s" % name, "loop form `%s` at heap %d: %s" % (name, m, cls),
                          {"program": big, "mem": m, "class": cls})
        elif cls != "result":
            ctx.correspondence_broken("boundedlive:%s" % name, {"outcome": cls, "mem": m})
    ctx.notes["bounded_live"] = table
    return table
