(* VM/ApiGlobal.v — the PROCESS-GLOBAL state that the embedding API threads through nev_compile_* and
   nev_execute, at the level where the isolation half of property C15 lives.  Definitions only
   (proofs: VM/ApiGlobalProofs.v).  No axioms.

   VM/Api.v models what belongs to ONE VM (sp, initialized, globals).  Two pieces of state belong to
   the PROCESS and survive program_delete / vm_delete:

   (1) the IEEE-754 status word (fenv.h).  Float + - * / executed by the VM's dispatch loop
       (back/vmexec.c) and by the constant folder (front/constred.c) raise flags and never look at them
       (`Arith`).  A built-in function (back/libvm.c libvm_execute_build_in) does
           feclearexcept(CLEARED);  <the function>;  if (fetestexcept(TESTED)) raise an exception
       (`Builtin`).  The policy (CLEARED, TESTED) is a parameter; checks/c15.py reads the two masks from
       the tree's back/libvm.c.  Pinned tree: CLEARED = FE_ALL_EXCEPT,
       TESTED = FE_DIVBYZERO|FE_INVALID|FE_OVERFLOW|FE_UNDERFLOW.

   (2) the scanner's pending string buffer (front/scanner.l `string * string_value`, a file-level
       static).  The opening quote allocates it, characters are appended, the closing quote hands it to
       the token and sets it to NULL, every error rule inside a literal frees it and sets it to NULL —
       but the end of the input may do nothing: then a compile whose input ends inside a literal leaves
       the text behind.  The start condition itself is reset (scanner_destroy -> yylex_destroy) so the
       next compile starts outside a literal.  Policy: does the opening-quote rule allocate ALWAYS or
       only `if (string_value == NULL)` (alloc_always), and is there a <C_STRING><<EOF>> rule that frees
       the buffer (eof_frees: no before /repo a3bcc72, yes since)?

   The theorems (ApiGlobalProofs.v) say: the outcomes of compiles and calls do not depend on this state
   PROVIDED each operation re-initialises what it reads — TESTED ⊆ CLEARED; allocate always, or never
   leave a buffer pending — and that these hypotheses are necessary.  The correspondence run of checks/c15.py checks exactly them on
   the real code: the host raises each flag (`fpraise`) / a compile ends inside a literal, then the
   observers run and are compared with a fresh process. *)
From Coq Require Import List Bool.
Import ListNotations.

(* ---- (1) the floating-point status word ------------------------------------------------------- *)
Record flags := mkflags { f_divbyzero : bool; f_invalid : bool; f_overflow : bool; f_underflow : bool; f_inexact : bool }.

Definition fl_none : flags := mkflags false false false false false.
Definition fl_all : flags := mkflags true true true true true.
Definition fl_or (a b : flags) : flags :=
  mkflags (f_divbyzero a || f_divbyzero b) (f_invalid a || f_invalid b) (f_overflow a || f_overflow b)
          (f_underflow a || f_underflow b) (f_inexact a || f_inexact b).
Definition fl_and (a b : flags) : flags :=
  mkflags (f_divbyzero a && f_divbyzero b) (f_invalid a && f_invalid b) (f_overflow a && f_overflow b)
          (f_underflow a && f_underflow b) (f_inexact a && f_inexact b).
Definition fl_minus (a b : flags) : flags :=
  mkflags (f_divbyzero a && negb (f_divbyzero b)) (f_invalid a && negb (f_invalid b))
          (f_overflow a && negb (f_overflow b)) (f_underflow a && negb (f_underflow b))
          (f_inexact a && negb (f_inexact b)).
Definition fl_any (a : flags) : bool :=
  f_divbyzero a || f_invalid a || f_overflow a || f_underflow a || f_inexact a.
(* a ⊆ b *)
Definition fl_sub (a b : flags) : bool := negb (fl_any (fl_minus a b)).

Record fp_policy := { cleared : flags; tested : flags }.

Definition fe_div_inv_ovf_unf : flags := mkflags true true true true false.
Definition pinned_fp : fp_policy := {| cleared := fl_all; tested := fe_div_inv_ovf_unf |}.
(* the narrowed mask of seeded change C15-5: FE_UNDERFLOW is still tested but no longer cleared *)
Definition narrowed_fp : fp_policy :=
  {| cleared := mkflags true true true false false; tested := fe_div_inv_ovf_unf |}.

Inductive step :=
| Arith (raises : flags)      (* float arithmetic in the VM loop or in the constant folder *)
| Builtin (raises : flags).   (* a built-in function whose own computation raises `raises` *)

(* what the program sees of a built-in call: it returns, or the VM raises the exception selected by the
   flags found set *)
Inductive bres := BReturns | BThrows (found : flags).

Definition builtin (pol : fp_policy) (p : flags) (raises : flags) : bres * flags :=
  let p1 := fl_or (fl_minus p (cleared pol)) raises in
  let found := fl_and p1 (tested pol) in
  (if fl_any found then BThrows found else BReturns, p1).

Fixpoint run_steps (pol : fp_policy) (p : flags) (ss : list step) : list bres * flags :=
  match ss with
  | [] => ([], p)
  | Arith r :: ss' => run_steps pol (fl_or p r) ss'
  | Builtin r :: ss' =>
      let '(b, p1) := builtin pol p r in
      let '(bs, p2) := run_steps pol p1 ss' in (b :: bs, p2)
  end.

(* ---- (2) the scanner's pending string buffer -------------------------------------------------- *)
(* the input of one compile, as the C_STRING machinery of scanner.l sees it; the end of the list is the
   end of the input *)
Inductive ev :=
| Quote               (* the double-quote character *)
| Ch (c : nat)        (* any other character *)
| Abandon.            (* newline or illegal escape inside a literal: the error rules free the buffer
                         and leave the literal; ignored outside a literal *)

Definition buffer := option (list nat).      (* string_value: NULL or the text collected so far *)

Record scan_policy := { alloc_always : bool; eof_frees : bool }.
Definition pinned_scan := {| alloc_always := true; eof_frees := false |}.    (* the tree before a3bcc72 *)
Definition current_scan := {| alloc_always := true; eof_frees := true |}.    (* ... since a3bcc72 *)
Definition guarded_scan := {| alloc_always := false; eof_frees := false |}.  (* seeded change C15-6 on the former *)
Definition guarded_eof_scan := {| alloc_always := false; eof_frees := true |}. (* ... on the latter: harmless *)

(* one compile: pending buffer on entry -> (the string literals handed to the parser, pending buffer at
   the end).  `inlit` is the start condition; it starts false in every compile (yylex_destroy). *)
Fixpoint scan (pol : scan_policy) (pend : buffer) (inlit : bool) (evs : list ev) : list (list nat) * buffer :=
  match evs with
  | [] => ([], if inlit && eof_frees pol then None else pend)     (* <<EOF>> / <C_STRING><<EOF>> *)
  | Quote :: evs' =>
      if inlit then
        let '(ls, q) := scan pol None false evs' in
        ((match pend with Some t => t | None => [] end) :: ls, q)
      else
        scan pol (if alloc_always pol then Some []
                  else match pend with Some t => Some t | None => Some [] end) true evs'
  | Ch c :: evs' =>
      if inlit then scan pol (match pend with Some t => Some (t ++ [c]) | None => None end) true evs'
      else scan pol pend false evs'
  | Abandon :: evs' =>
      if inlit then scan pol None false evs' else scan pol pend false evs'
  end.

Definition compile_literals (pol : scan_policy) (pend : buffer) (src : list ev) : list (list nat) * buffer :=
  scan pol pend false src.

(* ---- the process: both pieces, threaded through a history of API operations ------------------- *)
Record process := mkproc { fpsw : flags; strbuf : buffer }.
Definition fresh_process : process := mkproc fl_none None.

Inductive gop :=
| GCompile (src : list ev) (folds : list flags)   (* nev_compile_*: the scanner sees src; the folder raises folds *)
| GCall (ss : list step)                          (* nev_execute of any program on any VM *)
| GHost (raises : flags).                         (* float arithmetic of the embedding application itself *)

Inductive gobs :=
| OCompiled (literals : list (list nat))
| OCalled (builtins : list bres)
| OHost.

Definition gstep (fp : fp_policy) (sp : scan_policy) (p : process) (o : gop) : gobs * process :=
  match o with
  | GCompile src folds =>
      let '(ls, b) := compile_literals sp (strbuf p) src in
      (OCompiled ls, mkproc (fold_left fl_or folds (fpsw p)) b)
  | GCall ss =>
      let '(bs, f) := run_steps fp (fpsw p) ss in
      (OCalled bs, mkproc f (strbuf p))
  | GHost r => (OHost, mkproc (fl_or (fpsw p) r) (strbuf p))
  end.

Fixpoint grun (fp : fp_policy) (sp : scan_policy) (p : process) (os : list gop) : list gobs * process :=
  match os with
  | [] => ([], p)
  | o :: os' =>
      let '(ob, p1) := gstep fp sp p o in
      let '(obs, p2) := grun fp sp p1 os' in (ob :: obs, p2)
  end.

(* the hypothesis under which the process state cannot be observed *)
Definition reinitialises (fp : fp_policy) (sp : scan_policy) : bool :=
  fl_sub (tested fp) (cleared fp) && (alloc_always sp || eof_frees sp).
