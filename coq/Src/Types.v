(* Types, constness and environments of the model typechecker (property C06).

   Mirrors front/typecheck.c of never-lang/never for the core of Src/Syntax.v:
     - `cty`  : what the C code keeps in expr->comb (comb_type + the param it points to).  A function
                type carries, per parameter, whether the parameter was declared `var`
                (param->const_type == PARAM_CONST_TYPE_VAR): param_cmp/func_cmp compare it.
                CNil is COMB_TYPE_NIL (the literal `nil`).
     - `cst`  : comb_const_type  { TEMP, CONST, VAR }  (front/expr.h).
     - `rule` : the kind of the diagnostic (one constructor per family of print_error_msg texts).
   No axioms. *)
From Coq Require Import NArith List Bool.
From NV Require Import Src.Syntax.
Import ListNotations.

Inductive cst := KTemp | KConst | KVar.

Inductive cty :=
| CInt | CBool
| CFun (ps : list (bool * cty)) (r : cty)     (* (declared var?, type) per parameter *)
| CArr (e : cty)
| CRec (r : ident)
| CNil.

(* the rule catalogue: what the diagnostic names *)
Inductive rule :=
| RAssignConst      (* "cannot assign to const|temp T"                         expr_ass_check_type *)
| RAssignType       (* "cannot assign different types"                         expr_ass_check_type *)
| RVarInitConst     (* "cannot assign const T to var"                          bind_check_type *)
| RArgs             (* "function call type mismatch" (count, kinds, const->var) expr_call_check_type *)
| RNotCallable      (* "cannot execute function on type T"                     expr_call_check_type *)
| RUndefined        (* "cannot find identifier x"                              expr_id_check_type *)
| RAttr             (* "cannot find attribute" / "cannot get record attribute"  expr_attr_check_type *)
| ROperator         (* "cannot exec arithmetic operation" / "cannot compare types" / ... *)
| RCond             (* non-bool condition of ?: if while do for *)
| RBranches         (* "types on conditional expression do not match" *)
| RReturn           (* "incorrect return type in function f" (body or catch clause) *)
| RRecordArgs       (* "record create type mismatch" *)
| RArray            (* "array is not well formed" / "incorrect types in array" *)
| RIndex            (* "cannot deref T" / "incorrect types ... passed to deref array" *)
| RRedefined        (* "... already defined at line n" *)
| RSeq              (* "last item in sequence should be expression" / "no type in sequence" *)
| RUnknownType      (* "cannot find record or enum R" *)
| RMatch            (* "match is not exhaustive" (surface model, TypecheckMatch.v) *)
| RException        (* "unknown exception e"      (surface model, TypecheckMatch.v) *)
| RForIn.           (* "for in loop expression is not of one dimensional array, slice or range" /
                       "expected range from|to of type int"          tcforin.c, expr_range_check_type *)

Inductive res (A : Type) :=
| Ok (a : A)
| Err (r : rule).
Arguments Ok {A} a.
Arguments Err {A} r.

Definition bind {A B} (x : res A) (f : A -> res B) : res B :=
  match x with Ok a => f a | Err r => Err r end.

(* ---- types ------------------------------------------------------------------------ *)

Fixpoint cty_of (t : ty) : cty :=
  match t with
  | TInt => CInt
  | TBool => CBool
  | TFun args r => CFun (map (fun a => (false, cty_of a)) args) (cty_of r)
  | TArr e => CArr (cty_of e)
  | TRec r => CRec r
  end.

(* structural equality (param_cmp with const_cmp: the var flags of function parameters count;
   front/param.c param_cmp compares param_one->func.ret with itself at nested function types --
   the model compares the two return types, as the rule demands) *)
Fixpoint cty_eqb (a b : cty) {struct a} : bool :=
  match a, b with
  | CInt, CInt => true
  | CBool, CBool => true
  | CFun ps r, CFun qs s =>
      (fix go (l : list (bool * cty)) (m : list (bool * cty)) {struct l} : bool :=
         match l, m with
         | [], [] => true
         | (v, t) :: l', (w, u) :: m' => Bool.eqb v w && cty_eqb t u && go l' m'
         | _, _ => false
         end) ps qs && cty_eqb r s
  | CArr e, CArr f => cty_eqb e f
  | CRec r, CRec s => N.eqb r s
  | CNil, CNil => true
  | _, _ => false
  end.

(* param_expr_cmp (without the constness part): can a value of type `a` be passed / assigned /
   returned where declared type `p` is expected.  Identical to the type part of
   expr_ass_check_type for the core. *)
Definition accepts (p a : cty) : bool :=
  match p, a with
  | CRec _, CNil => true
  | _, CNil => false
  | CNil, _ => false
  | _, _ => cty_eqb p a
  end.

(* expr_comb_cmp_and_set: both branches of ?: *)
Definition merge (a b : cty) : bool :=
  match a with
  | CNil => false
  | _ => cty_eqb a b
  end.

(* expr_eq_check_type *)
Definition eq_comparable (a b : cty) : bool :=
  match a, b with
  | CInt, CInt | CBool, CBool | CNil, CNil => true
  | CArr _, CNil | CNil, CArr _ => true
  | CRec _, CNil | CNil, CRec _ => true
  | CFun _ _, CNil | CNil, CFun _ _ => true
  | _, _ => false
  end.

Definition is_int (t : cty) : bool := match t with CInt => true | _ => false end.
Definition is_bool (t : cty) : bool := match t with CBool => true | _ => false end.

(* result type of a binary operator on the core types; None = the operator rejects the operands *)
Definition binop_type (op : binop) (a b : cty) : option cty :=
  match op with
  | Add | Sub | Mul | Div | Mod | BAnd | BOr | BXor | Shl | Shr =>
      if is_int a && is_int b then Some CInt else None
  | Lt | Le | Gt | Ge => if is_int a && is_int b then Some CBool else None
  | Eq | Ne => if eq_comparable a b then Some CBool else None
  | And | Or => if is_bool a && is_bool b then Some CBool else None
  end.

(* ---- environments: a stack of scopes (symtab chain), innermost first ----------------- *)

Definition binding := (cty * cst)%type.
Definition scope := list (ident * binding).
Definition env := list scope.

Fixpoint lookup_scope (x : ident) (s : scope) : option binding :=
  match s with
  | [] => None
  | (y, b) :: t => if N.eqb x y then Some b else lookup_scope x t
  end.

(* symtab_lookup SYMTAB_LOOKUP_GLOBAL *)
Fixpoint lookup (x : ident) (G : env) : option binding :=
  match G with
  | [] => None
  | s :: G' => match lookup_scope x s with Some b => Some b | None => lookup x G' end
  end.

(* symtab_add_* : a name may be bound once per scope (SYMTAB_LOOKUP_BLOCK) *)
Definition declare (x : ident) (b : binding) (G : env) : res env :=
  match G with
  | [] => Ok [[(x, b)]]
  | s :: G' => match lookup_scope x s with
               | Some _ => Err RRedefined
               | None => Ok (((x, b) :: s) :: G')
               end
  end.

(* ---- record declarations ------------------------------------------------------------ *)

Fixpoint find_rec (r : ident) (R : list recdecl) : option (list ty) :=
  match R with
  | [] => None
  | (n, fs) :: t => if N.eqb r n then Some fs else find_rec r t
  end.

(* param_check_type / param_enum_record_check_type: every record named in a type exists *)
Fixpoint ty_wf (R : list recdecl) (t : ty) : bool :=
  match t with
  | TInt | TBool => true
  | TFun args r => forallb (ty_wf R) args && ty_wf R r
  | TArr e => ty_wf R e
  | TRec r => match find_rec r R with Some _ => true | None => false end
  end.

(* type of a function as a value: parameters with their var flags *)
Definition sig_cty (ps : list (ident * bool * ty)) (ret : ty) : cty :=
  CFun (map (fun p => (snd (fst p), cty_of (snd p))) ps) (cty_of ret).

Definition fd_cty (fd : fdef) : cty := sig_cty (fd_params fd) (fd_ret fd).
