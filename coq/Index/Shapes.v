(* Model of shape conformance for element-wise and matrix arithmetic (definitions only).

   Mirrors back/object.c object_arr_can_add, object_arr_can_mult and the operand checks and
   element accesses of back/vmexec.c vm_execute_op_add_arr_<t>, vm_execute_op_sub_arr_<t>,
   vm_execute_op_mul_arr_arr_<t> (one macro each for int/long/float/double; the accesses do
   not depend on the element type). *)
From Coq Require Import ZArith List Bool.
From NV Require Import Index.W32 Index.ArrIndex.
Import ListNotations.
Local Open Scope Z_scope.

(* object_arr: dims = length of dv, dv, elems (value[] has `elems` entries) *)
Record arr := { a_dv : dimv; a_elems : Z }.

Definition a_dims (a : arr) : Z := Z.of_nat (length (a_dv a)).
Definition dv_elems (dv : dimv) (d : nat) : Z := fst (nth d dv (0, 0)).

(* gc_alloc_arr / object_new_arr *)
Definition new_arr (exts : list Z) : arr :=
  let '(dv, e) := dim_mult exts in {| a_dv := dv; a_elems := e |}.

(* object_arr_can_add: for (d = 0; d < arr1->dims; d++) if (dv1[d].elems != dv2[d].elems) return 0 *)
Fixpoint can_add_loop (d1 d2 : dimv) : bool :=
  match d1, d2 with
  | (n1, _) :: t1, (n2, _) :: t2 => if negb (n1 =? n2) then false else can_add_loop t1 t2
  | _, _ => true
  end.

Definition can_add (a1 a2 : option arr) : bool :=
  match a1, a2 with
  | Some a1, Some a2 =>
      if negb (a_dims a1 =? a_dims a2) then false
      else can_add_loop (a_dv a1) (a_dv a2)
  | _, _ => false
  end.

(* object_arr_can_mult *)
Definition can_mult (a1 a2 : option arr) : bool :=
  match a1, a2 with
  | Some a1, Some a2 =>
      if negb (a_dims a1 =? 2) || negb (a_dims a2 =? 2) then false
      else if dv_elems (a_dv a1) 1 =? dv_elems (a_dv a2) 0 then true
      else false
  | _, _ => false
  end.

(* object_arr_dim_copy: for d < dims: dv[d].elems = value[d].elems; dv[d].mult = value[d].mult *)
Fixpoint dim_copy (value : dimv) : dimv :=
  match value with
  | [] => []
  | (n, mu) :: t => (n, mu) :: dim_copy t
  end.

(* object_arr_copy (gc_copy_arr): dims, elems copied, dv = object_arr_dim_copy, fresh value[] *)
Definition arr_copy (a : arr) : arr := {| a_dv := dim_copy (a_dv a); a_elems := a_elems a |}.

(* what an arithmetic handler does with value[]: the shape and the dimension vector (extents
   and multipliers) of the result and, per result element, the element numbers read from the
   left and right operand *)
Record access := { acc_shape : list Z; acc_dv : dimv;
                   acc_reads : list (Z * Z * Z) (* (write, read1, read2) *) }.

Fixpoint upto (n : nat) : list Z :=
  match n with O => [] | S k => upto k ++ [Z.of_nat k] end.

(* vm_execute_op_add_arr_<t> and vm_execute_op_sub_arr_<t>:
     nil operand -> NIL_POINTER; !can_add -> "improper array size", WRONG_ARRAY_SIZE;
     mres = copy of the right operand; for (e = 0; e < m1->elems; e++) mres[e] = m1[e] op m2[e] *)
Definition arr_addsub (a1 a2 : option arr) : result access :=
  match a1, a2 with
  | Some m1, Some m2 =>
      if negb (can_add a1 a2) then Exc WrongArraySize
      else Ok {| acc_shape := map fst (a_dv m2);
                 acc_dv := a_dv (arr_copy m2);
                 acc_reads := map (fun e => (e, e, e)) (upto (Z.to_nat (a_elems m1))) |}
  | _, _ => Exc NilPointer
  end.

(* vm_execute_op_neg_arr_<t> (-a) and vm_execute_op_mul_arr_<t> (scalar * a):
     nil -> NIL_POINTER; mres = copy of the operand; for (e = 0; e < m1->elems; e++) mres[e] = f(m1[e]) *)
Definition arr_unary (a : option arr) : result access :=
  match a with
  | Some m1 =>
      Ok {| acc_shape := map fst (a_dv m1);
            acc_dv := a_dv (arr_copy m1);
            acc_reads := map (fun e => (e, e, e)) (upto (Z.to_nat (a_elems m1))) |}
  | None => Exc NilPointer
  end.

(* vm_execute_op_mul_arr_arr_<t>:
     nil -> NIL_POINTER; !can_mult -> WRONG_ARRAY_SIZE;
     dv = { m1->dv[0].elems, m2->dv[1].elems };
     !object_arr_dim_fits(2, dv) -> "improper array size", WRONG_ARRAY_SIZE          (fix 1f9996a)
     for i < m1->dv[0].elems, j < m2->dv[1].elems, k < m1->dv[1].elems:
        sum += m1->value[i * m1->dv[1].elems + k] * m2->value[k * m2->dv[1].elems + j]
     mres[i * dv[1].elems + j] = sum                       (all indices unsigned int) *)
Definition matmul_reads (n0 n1 p1 : Z) : list (Z * Z * Z) :=
  flat_map (fun i =>
    flat_map (fun j =>
      map (fun k => (u32 (i * p1 + j), u32 (i * n1 + k), u32 (k * p1 + j)))
          (upto (Z.to_nat n1)))
      (upto (Z.to_nat p1)))
    (upto (Z.to_nat n0)).

Definition arr_matmul (a1 a2 : option arr) : result access :=
  match a1, a2 with
  | Some m1, Some m2 =>
      if negb (can_mult a1 a2) then Exc WrongArraySize
      else
        let n0 := dv_elems (a_dv m1) 0 in
        let n1 := dv_elems (a_dv m1) 1 in
        let p1 := dv_elems (a_dv m2) 1 in
        if negb (dim_fits [n0; p1]) then Exc WrongArraySize else
        Ok {| acc_shape := [n0; p1]; acc_dv := fst (dim_mult [n0; p1]);
              acc_reads := matmul_reads n0 n1 p1 |}
  | _, _ => Exc NilPointer
  end.
