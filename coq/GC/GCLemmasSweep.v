(* gc_sweep_all: what the fold of sweep_one over the current list computes.  No axioms. *)
From Coq Require Import NArith List Bool Lia.
From NV Require Import Base.TMap GC.GCModel GC.GCSpec GC.GCLemmasBase.
Import ListNotations.
Local Open Scope N_scope.

Lemma sweep_one_unmarked s idx : tget (s_obj s) idx <> None -> tget (s_mark s) idx = false ->
  sweep_one s idx = {| s_free := idx; s_obj := tset (s_obj s) idx None;
                       s_next := tset (s_next s) idx (s_free s); s_mark := s_mark s;
                       s_out := s_out s |}.
Proof.
  intros Ho Hm. unfold sweep_one. rewrite Hm. destruct (tget (s_obj s) idx); [reflexivity|congruence].
Qed.

Lemma sweep_one_marked s idx : tget (s_mark s) idx = true ->
  sweep_one s idx = {| s_free := s_free s; s_obj := s_obj s; s_next := s_next s;
                       s_mark := tset (s_mark s) idx false; s_out := s_out s ++ [idx] |}.
Proof. intros Hm. unfold sweep_one. rewrite Hm. reflexivity. Qed.

Lemma sweep_fold (M : N -> bool) : forall l s fl,
  NoDup l ->
  chain (s_next s) (s_free s) fl ->
  (forall a, In a l -> ~ In a fl) ->
  (forall a, In a l -> a <> 0) ->
  (forall a, In a l -> tget (s_obj s) a <> None) ->
  (forall a, In a l -> tget (s_mark s) a = M a) ->
  let s' := fold_left sweep_one l s in
  chain (s_next s') (s_free s') (rev (filter (fun a => negb (M a)) l) ++ fl) /\
  s_out s' = s_out s ++ filter M l /\
  (forall a, In a l -> M a = false -> tget (s_obj s') a = None) /\
  (forall a, (~ In a l \/ M a = true) -> tget (s_obj s') a = tget (s_obj s) a) /\
  (forall a, In a l -> tget (s_mark s') a = false) /\
  (forall a, ~ In a l -> tget (s_mark s') a = tget (s_mark s) a).
Proof.
  induction l as [|idx l IH]; intros s fl Hnd Hch Hdis Hnz Hobj HM; cbn zeta.
  - cbn [fold_left filter rev app]. rewrite app_nil_r.
    split; [exact Hch|]. split; [reflexivity|]. split; [intros a []|].
    split; [reflexivity|]. split; [intros a []|reflexivity].
  - inversion Hnd as [|x l' Hidx Hnd']; subst.
    cbn [fold_left]. cbn [filter].
    assert (Hio : tget (s_obj s) idx <> None) by (apply Hobj; now left).
    assert (HiM : tget (s_mark s) idx = M idx) by (apply HM; now left).
    assert (Hi0 : idx <> 0) by (apply Hnz; now left).
    assert (Hifl : ~ In idx fl) by (apply Hdis; now left).
    destruct (M idx) eqn:EM.
    + (* marked: kept *)
      rewrite (sweep_one_marked s idx HiM). cbn [negb].
      set (s1 := {| s_free := s_free s; s_obj := s_obj s; s_next := s_next s;
                    s_mark := tset (s_mark s) idx false; s_out := s_out s ++ [idx] |}).
      destruct (IH s1 fl Hnd') as (C1 & C2 & C3 & C4 & C5 & C6).
      * exact Hch.
      * intros a Ha. apply Hdis. now right.
      * intros a Ha. apply Hnz. now right.
      * intros a Ha. apply Hobj. now right.
      * intros a Ha. subst s1. cbn [s_mark]. rewrite tget_set_other.
        -- apply HM. now right.
        -- intro E. subst. contradiction.
      * split; [exact C1|]. split.
        { rewrite C2. subst s1. cbn [s_out]. rewrite <- app_assoc. reflexivity. }
        split.
        { intros a [E|Ha] Hm; [congruence|]. apply C3; assumption. }
        split.
        { intros a Ha. rewrite C4; [reflexivity|].
          destruct Ha as [Ha|Ha]; [left; intro Hin; apply Ha; now right|now right]. }
        split.
        { intros a [E|Ha]; [|apply C5; exact Ha]. subst a.
          rewrite C6 by assumption. subst s1. cbn [s_mark]. apply tget_set_same. }
        { intros a Ha. rewrite C6 by (intro Hin; apply Ha; now right).
          subst s1. cbn [s_mark]. apply tget_set_other. intro E. apply Ha. now left. }
    + (* unmarked: freed *)
      rewrite (sweep_one_unmarked s idx Hio HiM). cbn [negb].
      set (s1 := {| s_free := idx; s_obj := tset (s_obj s) idx None;
                    s_next := tset (s_next s) idx (s_free s); s_mark := s_mark s;
                    s_out := s_out s |}).
      destruct (IH s1 (idx :: fl) Hnd') as (C1 & C2 & C3 & C4 & C5 & C6).
      * subst s1. cbn [s_next s_free]. constructor; [exact Hi0|].
        rewrite tget_set_same. apply chain_set_other; assumption.
      * intros a Ha [E|Hin]; [subst; contradiction|]. apply (Hdis a); [now right|exact Hin].
      * intros a Ha. apply Hnz. now right.
      * intros a Ha. subst s1. cbn [s_obj]. rewrite tget_set_other.
        -- apply Hobj. now right.
        -- intro E. subst. contradiction.
      * intros a Ha. subst s1. cbn [s_mark]. apply HM. now right.
      * split.
        { cbn [rev]. rewrite <- app_assoc. exact C1. }
        split; [exact C2|]. split.
        { intros a [E|Ha] Hm; [|apply C3; assumption]. subst a.
          rewrite C4 by (left; assumption). subst s1. cbn [s_obj]. apply tget_set_same. }
        split.
        { intros a Ha.
          assert (Hne : idx <> a).
          { intro E. subst a. destruct Ha as [Ha|Ha]; [apply Ha; now left|congruence]. }
          rewrite C4.
          - subst s1. cbn [s_obj]. apply tget_set_other. exact Hne.
          - destruct Ha as [Ha|Ha]; [left; intro Hin; apply Ha; now right|now right]. }
        split.
        { intros a [E|Ha]; [|apply C5; exact Ha]. subst a.
          rewrite C6 by assumption. subst s1. cbn [s_mark]. rewrite HiM. reflexivity. }
        { intros a Ha. rewrite C6 by (intro Hin; apply Ha; now right). reflexivity. }
Qed.
