(* C07 — emitted code is well-formed on every path, executed or not.
   Only statements here; every proof is `exact <lemma>` into Verifier/VerifySound.v. *)
From Coq Require Import List Arith Bool.
From Coq Require Import ZArith.
From NV Require Import Gen.Opcodes Verifier.Shape Verifier.Effect Verifier.Verify Verifier.VerifySound Verifier.Refs.
Import ListNotations.

(* Soundness of the verifier: if the certificate check accepts a module then, along EVERY
   sequence of observations — every resolution of the data-dependent choices: branch taken
   or not, which function a CALL reaches, whether and where an instruction faults, how many
   operands a faulting handler popped — the shape machine never reaches a Crash: no jump
   outside the code, no pop into or below a frame header, no sp-relative access outside the
   running function's own value slots, every RET finds its header with exactly the result
   above the parameters, every function value is built for a function entry. *)
Theorem verify_sound :
  forall prog exct metas entry certs,
    check_all prog exct metas entry certs = true ->
    forall obs c,
      run (code prog) (handler exct) (np metas) (is_entry metas) entry init obs <> Crash c.
Proof. exact VerifySound.verify_sound. Qed.
Print Assumptions verify_sound.

(* ... and every state reached has a certificate: its depth above the frame base is the
   statically computed one (this is what C13/C14 use to bound the stack) *)
Theorem verify_depth :
  forall prog exct metas entry certs,
    check_all prog exct metas entry certs = true ->
    forall obs s,
      run (code prog) (handler exct) (np metas) (is_entry metas) entry init obs = Next s ->
      match cert certs (ip s) with
      | CNorm f d os => cur s = f /\ length (stk s) = P s + base metas f + d
      | CExc f => cur s = f /\ P s + base metas f <= length (stk s)
      | CNone => False
      end.
Proof. exact VerifySound.verify_depth. Qed.
Print Assumptions verify_depth.

(* every constant / string / builtin / free-variable reference exists, every environment
   vector has the size its function expects, no placeholder instruction remains *)
Theorem references_exist : forall prog metas nstr nbuiltin,
  check_refs prog metas nstr nbuiltin = true ->
  forall a i, nth_error prog a = Some i ->
    (r_op i <> BYTECODE_UNKNOWN /\ r_op i <> BYTECODE_ID_FUNC_FUNC /\ r_op i <> BYTECODE_END) /\
    (r_op i = BYTECODE_STRING -> (0 <= r_w0 i < nstr)%Z) /\
    (r_op i = BYTECODE_BUILD_IN -> (1 <= r_w0 i <= nbuiltin)%Z) /\
    (r_op i = BYTECODE_ID_GLOBAL -> (0 <= r_w0 i < nfree_of metas (owner_upto metas a))%Z) /\
    (r_op i = BYTECODE_ID_FUNC_ADDR ->
       exists m, find_rmeta metas (Z.to_nat (r_w0 i)) = Some m /\
         exists a' j, a = S a' /\ nth_error prog a' = Some j /\
           ((r_op j = BYTECODE_GLOBAL_VEC /\ r_w0 j = rm_nfree m) \/
            (r_op j = BYTECODE_COPYGLOB /\
             (* the running function itself, or another emission of it: same environment size, same opcodes *)
             self_or_copy prog metas (Z.to_nat (r_w0 i)) (owner_upto metas a) = true))).
Proof. exact Refs.check_refs_sound. Qed.
Print Assumptions references_exist.
