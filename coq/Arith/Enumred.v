(* Arith/Enumred.v — the second constant evaluator of the front end, front/enumred.c, which
   reduces enumerator initialisers (`enum E { k = <expr> }`) to ints before typechecking of
   the bodies.  Written from front/enumred.c only; definitions only.

   It works on ints and bools exclusively: every arm tests EXPR_INT x EXPR_INT (arithmetic,
   comparisons < > <= >=, bit operations, shifts) or EXPR_BOOL x EXPR_BOOL (&& || == !=), a
   reference to another enumerator (EXPR_ENUMTYPE) is replaced by its int value, and a ?:
   with a literal condition is reduced AGAIN after the branch was selected (unlike
   constred.c).  == and != on two ints have no arm (the initialiser is then rejected with
   "could not reduce enumerator index").
   / and % are  (b == -1) ? -a : a / b  and  (b == -1) ? 0 : a % b  as in constred.c and the VM. *)
From Coq Require Import ZArith Bool.
From NV Require Import Arith.NumTy Arith.Bits Arith.IntOps Arith.Promote Arith.Constred.
Local Open Scope Z_scope.

Definition ered_bin (o : binop) (a b : lit) : lres :=
  match a, b with
  | LInt x, LInt y =>
      match o with
      | Add => LR (LInt (iadd 32 x y))
      | Sub => LR (LInt (isub 32 x y))
      | Mul => LR (LInt (imul 32 x y))
      | Div => of_ires32 (idiv 32 x y)
      | Mod => of_ires32 (imod 32 x y)
      | OLt | OGt | OLe | OGe => LR (LBool (cmp_int o x y))
      | BAnd => LR (LInt (iand 32 x y)) | BOr => LR (LInt (ior 32 x y))
      | BXor => LR (LInt (ixor 32 x y))
      | Shl => LR (LInt (ishl 32 x y)) | Shr => LR (LInt (ishr 32 x y))
      | OEq | ONe | And | Or => LKeep
      end
  | LBool x, LBool y =>
      match o with
      | OEq => LR (LBool (Bool.eqb x y))
      | ONe => LR (LBool (negb (Bool.eqb x y)))
      | And => LR (LBool (x && y))
      | Or => LR (LBool (x || y))
      | _ => LKeep
      end
  | _, _ => LKeep
  end.

Definition ered_un (o : unop) (a : lit) : lres :=
  match o, a with
  | Neg, LInt x => LR (LInt (ineg 32 x))
  | Not, LBool x => LR (LBool (negb x))
  | BNot, LInt x => LR (LInt (ibnot 32 x))
  | _, _ => LKeep
  end.

Definition enode_bin (o : binop) (a b : expr) : fres :=
  match a, b with
  | ELit la, ELit lb => of_lres (ered_bin o la lb) (EBin o a b)
  | _, _ => FOk (EBin o a b)
  end.

Definition enode_un (o : unop) (a : expr) : fres :=
  match a with
  | ELit la => of_lres (ered_un o la) (EUn o a)
  | _ => FOk (EUn o a)
  end.

(* expr_sup_enumred: only bool / int literals (and enumerator references) are unwrapped *)
Definition enode_sup (a : expr) : fres :=
  match a with
  | ELit (LBool b) => FOk (ELit (LBool b))
  | ELit (LInt z) => FOk (ELit (LInt z))
  | _ => FOk (ESup a)
  end.

(* expr_cond_enumred: the node becomes EXPR_SUP around the selected (reduced) branch and
   expr_enumred is called on it again: the parentheses disappear when the branch is a literal *)
Definition enode_cond (c a b : expr) : fres :=
  match c with
  | ELit (LBool true) => enode_sup a
  | ELit (LBool false) => enode_sup b
  | _ => FOk (ECond c a b)
  end.

Fixpoint efold (e : expr) : fres :=
  match e with
  | ELit (LEnum i) => FOk (ELit (LInt i))        (* expr_enumerator_enumred *)
  | ELit l => FOk (ELit l)
  | EUn o a => match efold a with FOk a' => enode_un o a' | r => r end
  | EBin o a b => fseq (efold a) (efold b) (enode_bin o)
  | EConv c a => FOk (EConv c a)      (* only CONV_ENUMTYPE_RECORD_TO_INT is looked into *)
  | ESup a => match efold a with FOk a' => enode_sup a' | r => r end
  | ECond c a b => fseq3 (efold c) (efold a) (efold b) enode_cond
  end.

(* the initialiser is accepted iff it reduces to an int literal: enumerator_index_enumred *)
Definition enum_index (e : expr) : option Z :=
  match efold e with FOk (ELit (LInt z)) => Some z | _ => None end.

(* trees over int and bool literals only, without ?:, conversions and == != : the fragment on
   which efold and Constred.fold are compared in EnumredProofs.v *)
Fixpoint int_only (e : expr) : bool :=
  match e with
  | ELit (LInt _) | ELit (LBool _) => true
  | ELit _ => false
  | EUn _ a | ESup a => int_only a
  | EBin o a b => int_only a && int_only b && negb (match o with OEq | ONe => true | _ => false end)
  | EConv _ _ | ECond _ _ _ => false
  end.
