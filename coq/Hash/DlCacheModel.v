(* Model of the library handle cache back/dlcache.c (definitions only, executable).

   The table itself is the generic open-addressing table of OpenTabModel.v with the *blind* add
   (dlcache_entry_add_dl does not look for an equal name).  This file adds the dlcache object
   (dlcache_new / dlcache_add_dl / dlcache_lookup / dlcache_get_handle / dlcache_resize), the
   operation sequences the theorems quantify over, the abstract association map they refine to,
   and the model of front/hash.c hash_string used by the extracted driver.

   Everything is parameterised by the hash function and the name equality (Section variables);
   the theorems of DlCacheProofs.v hold for every hash.

   dlcache_new(size):  entries = dlcache_entry_new(size); count = 0;
                       #ifndef NO_FFI   dlcache_add_dl(cache, "host", ffi_decl_get_handle("host"));
     `host : option (name * V)` is None for a NO_FFI build and Some ("host", h) otherwise; h is
     whatever dlopen(NULL) returned (cached even if NULL: handles are opaque here).
   dlcache_add_dl(cache, name, h):  if (name == NULL) return;   -- names of the model are non-NULL
                       dlcache_entry_add_dl; count++; dlcache_resize.
   dlcache_get_handle(cache, name): entry = lookup; if (entry) return entry->handle;
                       h = ffi_decl_get_handle(name); if (h == NULL) return NULL;   -- nothing cached
                       dlcache_add_dl(cache, name, h); return h;
     `dl : option V` is the (non-NULL) result dlopen would give for that name, None if it fails. *)
From Coq Require Import List Arith NArith Bool.
From NV Require Import Hash.OpenTabModel.
Import ListNotations.

Section DlCache.
  Variable name : Type.
  Variable name_eqb : name -> name -> bool.
  Variable hash : name -> N.
  Variable V : Type.

  Definition dlcache := tab name V.

  Definition dlcache_add_dl (c : dlcache) (n : name) (h : V) : res dlcache :=
    tab_add name name_eqb hash V c n h.

  Definition dlcache_new (size : nat) (host : option (name * V)) : res dlcache :=
    let c := mk_tab size 0 (entry_new name V size) in
    match host with
    | None => Ok c
    | Some (n, h) => dlcache_add_dl c n h
    end.

  Definition dlcache_lookup (c : dlcache) (n : name) : option V :=
    tab_lookup_val name name_eqb hash V c n.

  Definition dlcache_resize (c : dlcache) : res dlcache := tab_resize name name_eqb hash V false c.

  Definition dlcache_get_handle (c : dlcache) (n : name) (dl : option V) : res (dlcache * option V) :=
    match tab_lookup name name_eqb hash V c n with
    | Hit i => Ok (c, match slot_at name V (t_entries c) i with Some (_, h) => Some h | None => None end)
    | LDivZero => DivZero
    | LOutOfFuel => Fuel
    | Miss | MissGiveUp =>
        match dl with
        | None => Ok (c, None)
        | Some h =>
            match dlcache_add_dl c n h with
            | Ok c' => Ok (c', Some h)
            | Abort => Abort
            | DivZero => DivZero
            | Fuel => Fuel
            end
        end
    end.

  (* ---- operation sequences ---------------------------------------------------------------- *)
  Inductive op :=
  | OGet (n : name) (dl : option V)     (* dlcache_get_handle; dl = what dlopen gives for n *)
  | OLookup (n : name).                 (* dlcache_lookup *)

  Definition step (c : dlcache) (o : op) : res (dlcache * option V) :=
    match o with
    | OGet n dl => dlcache_get_handle c n dl
    | OLookup n => Ok (c, dlcache_lookup c n)
    end.

  Fixpoint run (c : dlcache) (ops : list op) : res (dlcache * list (option V)) :=
    match ops with
    | [] => Ok (c, [])
    | o :: rest =>
        match step c o with
        | Ok (c', r) =>
            match run c' rest with
            | Ok (c'', rs) => Ok (c'', r :: rs)
            | Abort => Abort | DivZero => DivZero | Fuel => Fuel
            end
        | Abort => Abort | DivZero => DivZero | Fuel => Fuel
        end
    end.

  (* direct use of dlcache_add_dl (duplicates allowed) *)
  Fixpoint run_adds (c : dlcache) (l : list (name * V)) : res dlcache :=
    match l with
    | [] => Ok c
    | (n, h) :: rest =>
        match dlcache_add_dl c n h with
        | Ok c' => run_adds c' rest
        | r => r
        end
    end.

  (* ---- the abstract association map --------------------------------------------------------- *)
  Definition amap := list (name * V).

  Fixpoint afind (m : amap) (n : name) : option V :=
    match m with
    | [] => None
    | (k, h) :: rest => if name_eqb k n then Some h else afind rest n
    end.

  Definition astep (m : amap) (o : op) : amap * option V :=
    match o with
    | OGet n dl =>
        match afind m n with
        | Some h => (m, Some h)
        | None => match dl with
                  | None => (m, None)
                  | Some h => (m ++ [(n, h)], Some h)
                  end
        end
    | OLookup n => (m, afind m n)
    end.

  Fixpoint arun (m : amap) (ops : list op) : amap * list (option V) :=
    match ops with
    | [] => (m, [])
    | o :: rest =>
        let (m', r) := astep m o in
        let (m'', rs) := arun m' rest in
        (m'', r :: rs)
    end.

  Definition amap_of_host (host : option (name * V)) : amap :=
    match host with None => [] | Some p => [p] end.

  (* names a sequence may have inserted *)
  Fixpoint added_names (ops : list op) : list name :=
    match ops with
    | [] => []
    | OGet n (Some _) :: rest => n :: added_names rest
    | _ :: rest => added_names rest
    end.

End DlCache.

Arguments OGet {name V} n dl.
Arguments OLookup {name V} n.

(* ---- front/hash.c ------------------------------------------------------------------------------
   unsigned int hash_string(const char * string)
   { char c; unsigned int val = 5381; while ((c = *string++) != 0) val = ((val << 5) + val) + c; }
   `char` is signed on the target (x86-64 SysV): a byte >= 128 is added as byte - 256 (mod 2^32).
   Compared with the C function on every name of the correspondence run (op H). *)
Definition cname := list N.           (* the bytes of a C string, each in 1..255 *)

Definition sx_char (c : N) : N := if N.ltb c 128 then c else (c + 4294967040)%N.

Definition hash_step (val c : N) : N := N.modulo (val * 33 + sx_char c) 4294967296.

Definition hash_string (s : cname) : N := fold_left hash_step s 5381%N.

Fixpoint cname_eqb (a b : cname) : bool :=
  match a, b with
  | [], [] => true
  | x :: a', y :: b' => N.eqb x y && cname_eqb a' b'
  | _, _ => false
  end.

(* the instance run by the extracted driver: real hash, handles are numbers *)
Definition dl_entry_new (size : nat) : entries cname N := entry_new cname N size.
Definition dl_entry_add (es : entries cname N) (size : nat) (n : cname) (h : N) : add_res cname N :=
  entry_add cname cname_eqb hash_string N false es size n h.
Definition dl_entry_lookup (es : entries cname N) (size : nat) (n : cname) : lres :=
  entry_lookup cname cname_eqb hash_string N es size n.
Definition dl_entry_resize (old es_new : entries cname N) (size_new : nat) : add_res cname N :=
  entry_resize cname cname_eqb hash_string N false old es_new size_new.
Definition dl_new (size : nat) (host : option (cname * N)) : res (tab cname N) :=
  dlcache_new cname cname_eqb hash_string N size host.
Definition dl_add_dl := dlcache_add_dl cname cname_eqb hash_string N.
Definition dl_lookup (c : tab cname N) (n : cname) : lres :=
  tab_lookup cname cname_eqb hash_string N c n.
Definition dl_get_handle := dlcache_get_handle cname cname_eqb hash_string N.
Definition dl_resize := dlcache_resize cname cname_eqb hash_string N.
