(* Static reference checks on a module (the second half of C07's statement): every string
   constant index exists in the string table, every builtin id is a known builtin, every free
   variable index lies inside the environment vector the owning function is created with,
   every environment built for a function has as many slots as the function expects, a
   function value built over the running function's own environment (COPYGLOB) is the running
   function itself, and no placeholder instruction is left.  Executable check + soundness. *)
From Coq Require Import ZArith List Bool Arith Lia.
From NV Require Import Gen.Opcodes Verifier.Effect.
Import ListNotations.
Local Open Scope Z_scope.

Record rmeta := { rm_addr : nat; rm_nfree : Z }.

Section Refs.
Variable prog : list rinstr.
Variable metas : list rmeta.
Variable nstr : Z.            (* size of the string table *)
Variable nbuiltin : Z.        (* highest builtin id (front/libmath.h) *)

Fixpoint find_rmeta (l : list rmeta) (g : nat) : option rmeta :=
  match l with
  | [] => None
  | m :: t => if Nat.eqb (rm_addr m) g then Some m else find_rmeta t g
  end.

(* the function region an address belongs to: the last function entry at or before it *)
Fixpoint owner_upto (a : nat) : nat :=
  match a with
  | O => O
  | S a' => match find_rmeta metas (S a') with Some _ => S a' | None => owner_upto a' end
  end.

Definition nfree_of (g : nat) : Z :=
  match find_rmeta metas g with Some m => rm_nfree m | None => 0 end.

(* the opcodes of the function entered at g, up to the next function entry *)
Fixpoint body_ops (l : list rinstr) (a : nat) : list N :=
  match l with
  | [] => []
  | i :: t => match find_rmeta metas a with Some _ => [] | None => N_of_opcode (r_op i) :: body_ops t (S a) end
  end.

Definition region_ops (g : nat) : list N :=
  match skipn g prog with [] => [] | i :: t => N_of_opcode (r_op i) :: body_ops t (S g) end.

Fixpoint ops_eqb (a b : list N) : bool :=
  match a, b with
  | [], [] => true
  | x :: a', y :: b' => N.eqb x y && ops_eqb a' b'
  | _, _ => false
  end.

(* COPYGLOB; ID_FUNC_ADDR g builds a function value over the RUNNING function's environment: g must be
   that function, or another emission of it (the emitter emits the body of a for-in over a range twice,
   ascending and descending half, and with it every function nested there; both copies get the address of
   the last one): the same environment size and the same opcode sequence *)
Definition self_or_copy (g owner : nat) : bool :=
  Nat.eqb g owner ||
  ((nfree_of g =? nfree_of owner) && ops_eqb (region_ops g) (region_ops owner)).

Definition ref_ok_at (a : nat) (i : rinstr) : bool :=
  match r_op i with
  | BYTECODE_UNKNOWN | BYTECODE_ID_FUNC_FUNC | BYTECODE_END => false
  | BYTECODE_STRING => (0 <=? r_w0 i) && (r_w0 i <? nstr)
  | BYTECODE_BUILD_IN => (1 <=? r_w0 i) && (r_w0 i <=? nbuiltin)
  | BYTECODE_ID_GLOBAL => (0 <=? r_w0 i) && (r_w0 i <? nfree_of (owner_upto a))
  | BYTECODE_ID_FUNC_ADDR =>
      (0 <=? r_w0 i) &&
      match find_rmeta metas (Z.to_nat (r_w0 i)) with
      | None => false
      | Some m =>
        match a with
        | O => false
        | S a' =>
          match nth_error prog a' with
          | Some j =>
            match r_op j with
            | BYTECODE_GLOBAL_VEC => r_w0 j =? rm_nfree m
            | BYTECODE_COPYGLOB => self_or_copy (Z.to_nat (r_w0 i)) (owner_upto a)
            | _ => false
            end
          | None => false
          end
        end
      end
  | _ => true
  end.

Fixpoint check_from (a : nat) (l : list rinstr) : bool :=
  match l with
  | [] => true
  | i :: t => ref_ok_at a i && check_from (S a) t
  end.

Definition check_refs : bool := check_from 0 prog.

Lemma check_from_sound : forall l a0 k i,
  check_from a0 l = true -> nth_error l k = Some i -> ref_ok_at (a0 + k) i = true.
Proof.
  induction l as [|x l IH]; intros a0 k i H Hn.
  - destruct k; discriminate.
  - cbn [check_from] in H. apply andb_true_iff in H. destruct H as [H1 H2].
    destruct k as [|k]; cbn in Hn.
    + inversion Hn; subst. now rewrite Nat.add_0_r.
    + replace (a0 + S k)%nat with (S a0 + k)%nat by lia. now apply IH.
Qed.

Theorem check_refs_sound : check_refs = true ->
  forall a i, nth_error prog a = Some i ->
    (* no placeholder / unknown instruction *)
    (r_op i <> BYTECODE_UNKNOWN /\ r_op i <> BYTECODE_ID_FUNC_FUNC /\ r_op i <> BYTECODE_END) /\
    (r_op i = BYTECODE_STRING -> 0 <= r_w0 i < nstr) /\
    (r_op i = BYTECODE_BUILD_IN -> 1 <= r_w0 i <= nbuiltin) /\
    (r_op i = BYTECODE_ID_GLOBAL -> 0 <= r_w0 i < nfree_of (owner_upto a)) /\
    (r_op i = BYTECODE_ID_FUNC_ADDR ->
       exists m, find_rmeta metas (Z.to_nat (r_w0 i)) = Some m /\
         exists a' j, a = S a' /\ nth_error prog a' = Some j /\
           ((r_op j = BYTECODE_GLOBAL_VEC /\ r_w0 j = rm_nfree m) \/
            (r_op j = BYTECODE_COPYGLOB /\ self_or_copy (Z.to_nat (r_w0 i)) (owner_upto a) = true))).
Proof.
  intros H a i Hn.
  pose proof (check_from_sound prog 0 a i H Hn) as R. cbn [Nat.add] in R.
  unfold ref_ok_at in R.
  destruct (r_op i) eqn:E;
    try (repeat split; try discriminate; intros E'; discriminate E').
  - (* STRING *)
    apply andb_true_iff in R. destruct R as [R1 R2].
    apply Z.leb_le in R1. apply Z.ltb_lt in R2.
    repeat split; try discriminate; try (intros E'; discriminate E'); lia.
  - (* ID_GLOBAL *)
    apply andb_true_iff in R. destruct R as [R1 R2].
    apply Z.leb_le in R1. apply Z.ltb_lt in R2.
    repeat split; try discriminate; try (intros E'; discriminate E'); lia.
  - (* ID_FUNC_ADDR *)
    apply andb_true_iff in R. destruct R as [_ R].
    repeat split; try discriminate; try (intros E'; discriminate E').
    intros _.
    destruct (find_rmeta metas (Z.to_nat (r_w0 i))) as [m|] eqn:Em; [|discriminate].
    exists m. split; [reflexivity|].
    destruct a as [|a']; [discriminate|].
    destruct (nth_error prog a') as [j|] eqn:Ej; [|discriminate].
    exists a', j. split; [reflexivity|]. split; [exact Ej|].
    destruct (r_op j) eqn:Eo; try discriminate.
    + left. split; [reflexivity|]. now apply Z.eqb_eq in R.
    + right. split; [reflexivity|]. exact R.
  - (* BUILD_IN *)
    apply andb_true_iff in R. destruct R as [R1 R2].
    apply Z.leb_le in R1. apply Z.leb_le in R2.
    repeat split; try discriminate; try (intros E'; discriminate E'); lia.
Qed.

End Refs.
