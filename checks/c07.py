"""C07 — emitted code is well-formed on every path, executed or not.

Decided by: Theorem verify_sound (Properties_C07.v): the certificate checker of
Verifier/Verify.v is sound for the stack-shape machine of Verifier/Shape.v along EVERY
observation sequence.  Tie to /repo: (i) opcode numbering regenerated from back/bytecode.h
(Gen/Opcodes.v), (ii) the extracted checker is run on the real module of every corpus
program compiled by the tree's compiler (hook H3 supplies per-function metadata),
(iii) the shape machine (with the decode/effect table) is run in lock-step along the real
register trace (hook H1) of every program that runs — every observed step must be a
successor in the model, (iv) static reference checks on the dumped module.
"""
import collections
import json
import os

from lib import common, vmcheck

LEVEL = "proof"


def ref_checks(d, names):
    """string / builtin / free-variable / global references exist; no placeholder left."""
    bad = []
    nstr = None
    funcs = {a: (np_, nf) for (a, np_, nf, ffi, nm) in d["funcs"]}
    starts = sorted(funcs)
    owner = 0
    # strtab size: count S lines was not kept; re-derive from max index used vs dump header
    for a, (op, w0, w1, w2) in enumerate(d["code"]):
        if a in funcs:
            owner = a
        n = names[op] if op < len(names) else "?"
        if n in ("BYTECODE_UNKNOWN", "BYTECODE_ID_FUNC_FUNC", "BYTECODE_END"):
            bad.append((a, n, "placeholder/unknown instruction left in the module"))
        elif n == "BYTECODE_STRING" and d.get("nstr") is not None and not (0 <= w0 < d["nstr"]):
            bad.append((a, n, "string index %d outside strtab of %d" % (w0, d["nstr"])))
        elif n == "BYTECODE_ID_GLOBAL" and owner in funcs and not (0 <= w0 < funcs[owner][1]):
            bad.append((a, n, "free variable index %d outside environment of %d" % (w0, funcs[owner][1])))
        elif n == "BYTECODE_BUILD_IN" and not (1 <= w0 <= 30):
            bad.append((a, n, "builtin id %d" % w0))
        elif n == "BYTECODE_ID_FUNC_ADDR":
            if w0 not in funcs:
                bad.append((a, n, "function address %d is not a function entry" % w0))
            elif a > 0:
                pop, pw0 = d["code"][a - 1][0], d["code"][a - 1][1]
                if names[pop] == "BYTECODE_GLOBAL_VEC" and pw0 != funcs[w0][1]:
                    bad.append((a, n, "environment of %d slots for a function with %d free variables" % (pw0, funcs[w0][1])))
                if names[pop] == "BYTECODE_COPYGLOB" and w0 != owner:
                    # COPYGLOB re-uses the running function's own environment vector: only a reference
                    # to the running function itself may be built from it
                    bad.append((a, n, "function %d built over the environment vector of function %d" % (w0, owner)))
    return bad


def _direct_arity(ver, d, names):
    """VERIFY fail at a CALL that directly follows ID_FUNC_ADDR g -> (addr, g, np g, cert text)"""
    import re
    m = re.match(r"VERIFY fail addr=(\d+) op=(\d+) .*?cert=(\S+)", ver)
    if not m:
        return None
    a, op = int(m.group(1)), int(m.group(2))
    if a < 1 or op >= len(names) or names[op] != "BYTECODE_CALL" or a >= len(d["code"]):
        return None
    prev = d["code"][a - 1]
    if names[prev[0]] != "BYTECODE_ID_FUNC_ADDR":
        return None
    g = prev[1]
    npg = [f[1] for f in d["funcs"] if f[0] == g]
    return a, g, (npg[0] if npg else "?"), m.group(3)


def run(ctx):
    from gen import gen_opcodes
    g = gen_opcodes.main()
    r = ctx.proofs()
    ctx.obligation("Gen/Opcodes.v regenerated from back/bytecode.h; vm_execute_op[] pairing",
                   not g["problems"], g["problems"])
    tools = vmcheck.VmTools("plain")
    names = vmcheck.opcode_names()
    progs = vmcheck.corpus_programs()
    # fresh programs from the E5 generator (all profiles): nested functions, closures, catch clauses,
    # loops, records, arrays, pipes — compiled by the tree's compiler and decided like the corpus
    gen = vmcheck.generated_programs(tools.tmp, ctx.seed, 25 if ctx.tier == "quick" else 400)
    progs += gen
    ctx.notes["generated_programs"] = len(gen)
    if ctx.tier == "quick":
        steps, vsteps = 60000, 20000
    else:
        steps, vsteps = 400000, 150000
    stats = collections.Counter()
    opseen = collections.Counter()
    shapes = set()

    def one(p):
        pid, path, cwd = p
        dump, rc, err = tools.dump(pid, path, cwd, trace=True, max_steps=steps)
        d = vmcheck.read_dump(dump)
        if d["compile"] != 0:
            return pid, "nocompile", None, d, err
        # strtab size
        nstr = 0
        with open(dump, errors="replace") as f:
            for l in f:
                if l.startswith("STRTAB "):
                    nstr = int(l.split()[1]); break
        d["nstr"] = nstr
        v = tools.verify(dump, max_steps=vsteps)
        try:
            os.unlink(dump)
        except OSError:
            pass
        return pid, "ok", v, d, err

    results = vmcheck.pmap(one, progs)
    tools.close()
    first_samples = []
    for pid, status, v, d, err in results:
        if status == "nocompile":
            stats["not_compiled"] += 1
            continue
        stats["programs"] += 1
        ctx.count(evaluations=1)
        for t in d["trace"][:vsteps]:
            if t and t[0] < len(d["code"]):
                opseen[d["code"][t[0]][0]] += 1
        sig = (len(d["code"]), len(d["funcs"]), tuple(sorted(collections.Counter(c[0] for c in d["code"]).items())))
        if sig not in shapes and len(d["funcs"]) > 30:
            shapes.add(sig)
        refs = v.get("refs", "")
        if not refs.startswith("REFS ok"):
            a = refs.split("addr=")[1].split()[0] if "addr=" in refs else "?"
            opn = refs.split("op=")[1].split()[0] if "op=" in refs else "?"
            opname = names[int(opn)] if opn.isdigit() and int(opn) < len(names) else opn
            ctx.violation("refs:%s:%s" % (pid, opname), "module of %s: reference check fails at address %s (%s): %s" % (
                pid, a, opname, refs), {"program": pid, "refs": refs,
                "meaning": "string index outside the table / unknown builtin / free-variable index outside the environment / environment of the wrong size / function value over a foreign environment / placeholder instruction"})
        ver, lock = v["verify"], v["lockstep"]
        if lock.startswith("LOCKSTEP crash"):
            ctx.violation("lockstep-crash:%s" % pid,
                          "real run of %s leaves the frame discipline: %s" % (pid, lock),
                          {"program": pid, "lockstep": lock, "verify": ver})
        elif lock.startswith("LOCKSTEP aritystuck"):
            # the real run executed a CALL with a number of argument slots above the frame header that
            # differs from the callee's parameter count (hook H3): the caller's code left an operand too
            # many / too few on the stack — ill-formed code on an executed path
            ctx.violation("lockstep-arity:%s" % pid,
                          "real run of %s executes a CALL whose argument slots do not match the callee's parameter count: %s" % (pid, lock),
                          {"program": pid, "lockstep": lock, "verify": ver,
                           "how": "bcdump --trace <program> | build/ocaml/verifier/run : the shape machine answers ArityStuck at that step"})
        elif lock.startswith("LOCKSTEP kinds"):
            stats["lockstep_mismatch"] += 1
            ctx.correspondence_broken("shape-machine-slot-kinds-vs-vm:%s" % pid,
                                      {"program": pid, "lockstep": lock,
                                       "meaning": "the VM tags a stack slot (GC_MEM_ADDR root / GC_MEM_STACK saved register / GC_MEM_IP) "
                                                  "differently from the frame layout of the shape machine; whether a live cell can be "
                                                  "reclaimed because of it is searched by C09's schedule family (checks/parts/gcschedule.py)"})
        elif lock.startswith("LOCKSTEP mismatch") or lock == "timeout":
            stats["lockstep_mismatch"] += 1
            ctx.correspondence_broken("shape-machine-vs-vm:%s" % pid, {"program": pid, "lockstep": lock})
        elif lock.startswith("LOCKSTEP ok"):
            stats["lockstep_ok"] += 1
        if not ver.startswith("VERIFY ok"):
            stats["verify_fail"] += 1
            wit = v.get("witness", "")
            if wit.startswith("WITNESS crash="):
                # a concrete static path of this program's compiled code on which the shape machine crashes
                kind = wit.split()[1]
                ctx.violation("static-path-%s:%s" % (kind, pid),
                              "compiled code of %s is ill-formed on a static path: %s; %s" % (pid, ver, wit[:300]),
                              {"program": pid, "verify": ver, "witness_path": wit, "lockstep": lock,
                               "how": "bcdump <program> | build/ocaml/verifier/run : the listed (ip:sp) path is a run of the shape machine over the real module ending in the crash"})
            elif _direct_arity(ver, d, names) is not None:
                a, g, npg, cert = _direct_arity(ver, d, names)
                ctx.violation("static-arity:%s" % pid,
                              "compiled code of %s is ill-formed: the CALL at address %d directly follows ID_FUNC_ADDR %d (a function of %s "
                              "parameters) but the certified stack depth there (%s) does not leave exactly that many argument slots above "
                              "the frame header (theorem direct_call_arity, Properties_C07b.v)" % (pid, a, g, npg, cert),
                              {"program": pid, "verify": ver, "call_address": a, "callee": g, "callee_params": npg, "certificate": cert,
                               "how": "bcdump <program> | build/ocaml/verifier/run"})
            else:
                ctx.correspondence_broken("verify(%s)" % pid, {"program": pid, "verify": ver, "witness": wit, "lockstep": lock,
                                                                "note": "the proved validator rejects this module; no crashing static path found"})
        else:
            stats["verify_ok"] += 1
        if len(first_samples) < 4 and ver.startswith("VERIFY ok"):
            first_samples.append({"program": pid, "module": v["module"], "verify": ver, "lockstep": lock})
    for s in first_samples:
        ctx.sample(s)
    # the string table the STRING / BUILD_IN / FFI operands index into (reference integrity needs
    # strtab_add_string to return the index under which strtab_to_array later finds the same string,
    # across collisions and growth): coq/Hash/StrTabStatements.v + correspondence with back/strtab.c
    try:
        from checks.parts import hashtab
        st = hashtab.run_strtab(ctx)
        ctx.notes["strtab"] = {k: v for k, v in st.items() if k in ("evaluations", "nontrivial", "size_used_by_module_new", "rule", "cases", "operations")}
    except common.BuildError:
        raise
    except Exception as ex:
        ctx.correspondence_broken("strtab-part-crashed", repr(ex)[:400])
    ctx.coverage["distinct_nontrivial"] = len(shapes)
    ctx.coverage["rule"] = ("every program of the fixed corpus (/repo/sample/*.nev + /verif/corpus/programs/*.nev) is compiled by "
                            "the tree's compiler; the extracted certificate checker decides each module (all static paths, "
                            "including exceptional edges and dynamic call targets); the shape machine is run in lock-step on the "
                            "real register trace; distinct_nontrivial = modules distinct by (size, #functions, opcode histogram) "
                            "with at least one user function")
    ctx.coverage["programs"] = stats["programs"]
    ctx.coverage["stats"] = dict(stats)
    ctx.coverage["opcodes_executed_in_lockstep"] = len(opseen)
    ctx.coverage["opcodes_total"] = len(names)
    ctx.coverage["opcodes_never_executed"] = [names[i] for i in range(len(names)) if i not in opseen][:80]
    ctx.coverage["exhaustive"] = False
    ctx.assumptions += [
        "operand kinds that flow through locals/parameters/calls are not in the (untyped) bytecode: covered by C01/C02",
        "a dynamic callee whose arity differs from the arguments pushed is outcome ArityStuck of the model (typechecker's obligation)",
        "ID_TOP (absolute global slot) is checked to exist, not to be initialised at the time of the read",
        "per-function metadata (entry, #params, #free variables) is reported by the emitter through hook H3",
    ]
