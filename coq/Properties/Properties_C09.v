(* C09 — the collector reclaims all garbage and keeps heap bookkeeping consistent.
   Only statements here; every proof is `exact <lemma>` into GC/GCProofs.v. *)
From Coq Require Import NArith List Bool.
From NV Require Import Base.TMap GC.GCModel GC.GCSpec GC.GCProofs.
Import ListNotations.
Local Open Scope N_scope.

(* a fresh heap is well-formed and closed *)
Theorem gc_new_wf : forall size, 2 <= size -> WF (gc_new size) /\ Closed (gc_new size).
Proof. exact GCProofs.gc_new_wf. Qed.
Print Assumptions gc_new_wf.

(* every operation of the mutator / collector interface preserves the invariants *)
Theorem gc_wf_step : forall g o g' r, WF g -> Closed g -> step g o = SOk g' r -> WF g' /\ Closed g'.
Proof. exact GCProofs.gc_wf_step. Qed.
Print Assumptions gc_wf_step.

(* ... hence over every finite history, every heap size, every object kind *)
Theorem gc_wf_history : forall size ops, 2 <= size ->
  WF (run_history size ops) /\ Closed (run_history size ops).
Proof. exact GCProofs.gc_wf_history. Qed.
Print Assumptions gc_wf_history.

(* a cell is never handed out while in use; nothing else changes *)
Theorem alloc_hands_out_a_free_cell : forall g o g' a, WF g -> gc_alloc_any g o = Some (g', a) ->
  in_range g a /\ ~ allocated g a /\ tget (g_obj g') a = Some o /\
  (forall b, b <> a -> tget (g_obj g') b = tget (g_obj g) b).
Proof. exact GCProofs.alloc_hands_out_a_free_cell. Qed.
Print Assumptions alloc_hands_out_a_free_cell.

(* out of memory is reported exactly when no cell is free *)
Theorem alloc_oom_iff_full : forall g o, WF g ->
  (gc_alloc_any g o = None <-> forall a, in_range g a -> allocated g a).
Proof. exact GCProofs.alloc_oom_iff_full. Qed.
Print Assumptions alloc_oom_iff_full.

(* no cell is lost: free cells + allocated cells = size - 1, in every well-formed state *)
Theorem cells_conserved : forall g, WF g ->
  exists fl, free_list g = Some fl /\
             N.of_nat (length fl) + N.of_nat (length (cur_list g)) = g_size g - 1.
Proof. exact GCProofs.cells_conserved. Qed.
Print Assumptions cells_conserved.

(* the fuel given to the recursive mark always suffices and no object is read through the
   wrong accessor *)
Theorem collect_total : forall g roots, WF g -> Closed g -> roots_ok g roots ->
  exists g', gc_collect g roots = COk g'.
Proof. exact GCProofs.collect_total. Qed.
Print Assumptions collect_total.

(* after a collection exactly the reachable cells are allocated, with their payload
   untouched; by WF of the result every other cell is on the free list *)
Theorem collect_exact : forall g roots g', WF g -> Closed g -> roots_ok g roots ->
  gc_collect g roots = COk g' ->
  (forall a, allocated g' a <-> reach g roots a) /\
  (forall a, reach g roots a -> tget (g_obj g') a = tget (g_obj g) a).
Proof. exact GCProofs.collect_exact. Qed.
Print Assumptions collect_exact.

(* the VM's entry point: nothing happens below the trigger; at or above it the roots are the
   stack slots plus the global vector *)
Theorem run_exact : forall g roots gv g', WF g -> Closed g -> roots_ok g (gv :: roots) ->
  gc_run g roots gv = COk g' ->
  (gc_trigger g = false /\ g' = g) \/
  (gc_trigger g = true /\
   (forall a, allocated g' a <-> reach g (gv :: roots) a) /\
   (forall a, reach g (gv :: roots) a -> tget (g_obj g') a = tget (g_obj g) a)).
Proof. exact GCProofs.run_exact. Qed.
Print Assumptions run_exact.

(* a program whose live data stays bounded runs indefinitely in a fixed heap: right after a
   collection that leaves `live` cells, any sequence of non-collecting operations containing
   at most size-1-live allocations never reports out of memory *)
Theorem bounded_live_never_oom : forall g roots g' ops, WF g -> Closed g -> roots_ok g roots ->
  gc_collect g roots = COk g' ->
  (forall o, In o ops -> match o with OpCollect _ | OpRun _ _ => False | _ => True end) ->
  N.of_nat (length (filter (fun o => match o with OpAlloc _ => true | _ => false end) ops))
     + N.of_nat (length (cur_list g')) <= g_size g - 1 ->
  forall pre o post, ops = pre ++ o :: post -> step (fold_left step_st pre g') o <> SOom.
Proof. exact GCProofs.bounded_live_never_oom. Qed.
Print Assumptions bounded_live_never_oom.

(* non-vacuity: a concrete history with a cycle, a closure and garbage *)
Example history_example :
  let g := run_history 8 [OpAlloc (OScalar 1 [5]); OpAlloc (OVec [1; 0]); OpSetVec 2 1 2;
                          OpAlloc (OFunc 2 7); OpAlloc (OScalar 1 [6]); OpCollect [3]] in
  cur_list g = [1; 2; 3] /\ free_list g = Some [4; 5; 6; 7].
Proof. vm_compute. split; reflexivity. Qed.
