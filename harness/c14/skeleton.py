"""Static tie for C14: the stack skeleton of every VM handler, regenerated from /repo's sources,
compared with the shape the Coq model (coq/VM/StackBound.v, `shape_of`) assigns to its opcode.

skeleton of a handler = its stack-relevant statements in textual order:
    U              machine->sp++
    D              machine->sp--  or a pop `machine->stack[machine->sp--]` (loops collapse: D D -> D)
    C              vm_check_stack(machine)
    W[<index>]     machine->stack[<index>] = ...
    S=(<expr>)     machine->sp = <expr>          B+=(<expr>)   machine->sp += <expr>
Early `return`s (fault paths) are dropped.  A handler that only forwards to another one
(vm_execute_mk_array_int -> vm_execute_mk_array_num, vm_execute_build_in -> libvm) takes the
callee's skeleton; the builtin switch of back/libvm.c is split per `case LIB_MATH_*`."""
import re


def strip_comments(t):
    return re.sub(r"/\*.*?\*/", lambda m: "\n" * m.group(0).count("\n"), t, flags=re.S)


def _body_at(text, start):
    i = start
    depth = 1
    while depth and i < len(text):
        c = text[i]
        if c == '{':
            depth += 1
        elif c == '}':
            depth -= 1
        i += 1
    return text[start:i - 1]


def bodies(text):
    out = {}
    for m in re.finditer(r"^(?:inline\s+|static\s+)*void\s+(vm_execute_[a-z0-9_]+|libvm_execute_build_in)\s*\(([^;{]*)\)\s*\{",
                         text, re.M):
        out[m.group(1)] = _body_at(text, m.end())
    return out


def macros(text):
    out = {}
    for m in re.finditer(r"^#define\s+(vm_execute_[a-z0-9_]+)\(([^)]*)\)((?:.*\\\n)*.*\n)", text, re.M):
        body = m.group(3).replace("\\\n", "\n")
        h = re.search(r"void\s+(vm_execute_[A-Za-z0-9_#]+)\s*\(", body)
        if h:
            out[m.group(1)] = ([p.strip() for p in m.group(2).split(",")], h.group(1), body[body.index("{", h.end()) + 1:])
    return out


TOK = re.compile(
    r"machine->stack\s*\[\s*machine->sp--\s*\]"
    r"|machine->stack\s*\[([^\]]*)\]\s*=(?!=)"
    r"|machine->sp\+\+|machine->sp--|\+\+machine->sp|--machine->sp"
    r"|machine->sp\s*\+=\s*([^;]+);|machine->sp\s*-=\s*([^;]+);"
    r"|(?:machine->fp\s*=\s*)?machine->sp\s*=\s*([^;=][^;]*);"
    r"|vm_check_stack\s*\(\s*machine\s*\)"
    r"|\b(vm_execute_[a-z0-9_]+|libvm_execute_build_in)\s*\(\s*machine\s*,")


def _clean(e):
    return re.sub(r"\s+", "", e).replace("machine->", "")


def tokens(body, known):
    toks = []
    for m in TOK.finditer(body):
        s = m.group(0)
        if m.group(5):
            toks.append(("CALL", m.group(5)))
        elif s.startswith("machine->stack") and m.group(1) is None:
            toks.append("D")
        elif s.startswith("machine->stack"):
            toks.append("W[%s]" % _clean(m.group(1)))
        elif s in ("machine->sp++", "++machine->sp"):
            toks.append("U")
        elif s in ("machine->sp--", "--machine->sp"):
            toks.append("D")
        elif m.group(2):
            toks.append("B+=(%s)" % _clean(m.group(2)))
        elif m.group(3):
            toks.append("B-=(%s)" % _clean(m.group(3)))
        elif s.startswith("vm_check_stack"):
            toks.append("C")
        else:
            toks.append("S=(%s)" % _clean(m.group(4)))
    return toks


def normalise(toks):
    out = []
    for t in toks:
        if t == "D" and out and out[-1] == "D":
            continue
        out.append(t)
    return " ".join(out)


def libmath_ids(repo):
    h = strip_comments(open(repo + "/front/libmath.h").read())
    m = re.search(r"typedef\s+enum\s+libmath_func\s*\{(.*?)\}", h, re.S) or re.search(r"enum[^{]*\{(\s*LIB_MATH_UNKNOWN.*?)\}", h, re.S)
    ids = {}
    n = 0
    for item in m.group(1).split(","):
        item = item.strip()
        if not item:
            continue
        if "=" in item:
            name, v = item.split("=")
            n = int(v.strip())
            ids[name.strip()] = n
        else:
            ids[item] = n
        n += 1
    return ids


def builtin_cases(repo):
    """builtin id -> normalised skeleton (case body + the common tail after the switch)"""
    text = strip_comments(open(repo + "/back/libvm.c").read())
    body = bodies(text)["libvm_execute_build_in"]
    sw = body.index("switch")
    start = body.index("{", sw) + 1
    inner = _body_at(body, start)
    tail = body[start + len(inner) + 1:]
    ids = libmath_ids(repo)
    cases = {}
    parts = re.split(r"\bcase\s+(LIB_MATH_[A-Z0-9_]+)\s*:", inner)
    tail_toks = tokens(tail, {})
    for k in range(1, len(parts), 2):
        name, seg = parts[k], parts[k + 1]
        # consecutive `case A: case B:` share the following segment
        j = k
        while not seg.strip() and j + 2 < len(parts):
            j += 2
            seg = parts[j + 1]
        if name in ids:
            cases[ids[name]] = (name, normalise(tokens(seg, {}) + tail_toks))
    return cases, ids


def handler_skeletons(repo):
    """handler name -> normalised skeleton"""
    raw = {}
    for f in ("back/vmexec.c", "back/vmffi.c", "back/libvm.c"):
        text = strip_comments(open(repo + "/" + f).read())
        for n, b in bodies(text).items():
            raw[n] = tokens(b, None)
        for mn, (params, tmpl, body) in macros(text).items():
            for inst in re.finditer(r"^%s\(([^)]*)\)\s*$" % re.escape(mn), text, re.M):
                args = [a.strip() for a in inst.group(1).split(",")]
                name = tmpl
                for p, a in zip(params, args):
                    name = re.sub(r"##\s*%s\b" % re.escape(p), a, name)
                    name = re.sub(r"\b%s\s*##" % re.escape(p), a, name)
                name = name.replace("##", "")
                raw[name] = tokens(body, None)

    def resolve(name, depth=0):
        out = []
        for t in raw.get(name, []):
            if isinstance(t, tuple):
                if depth < 4 and t[1] in raw and t[1] != name:
                    out += resolve(t[1], depth + 1)
            else:
                out.append(t)
        return out
    return {n: normalise(resolve(n)) for n in raw}


def optable(repo):
    text = open(repo + "/back/vmexec.c").read()
    m = re.search(r"vm_execute_op\[\]\s*=\s*\{(.*?)\n\};", text, re.S)
    return re.findall(r"\{\s*(BYTECODE_[A-Z0-9_]+)\s*,\s*(vm_execute_[a-z0-9_]+)\s*\}", m.group(1))


# shape of the Coq model -> skeletons of the C handler it mirrors
REGULAR = {
    "ShNone": {""},
    "ShPush1": {"U C W[sp]"},
    "ShTop": {"W[sp]"},
    "ShBinary": {"W[sp-1] D"},
    "ShPopTop": {"D W[sp]"},
    "ShPop": {"D"},
    "ShRewrite": {"D C"},
    "ShPopPush": {"D U C W[sp]"},
    "ShRangeDeref": {"D W[sp]"},
    "ShPushN": {"U C W[sp]"},
    "ShSlide": {"S=(sp-code->slide.q) S=(sp-code->slide.q-code->slide.m) U W[sp]"},
    "ShMove": {"D", "S=(fp+param_count)"},
    "ShRet": {"W[fp-4] S=(fp-4)"},
}
IRREGULAR = {   # shape -> (key, checked skeletons, pinned skeletons)
    "ShMark": ("mark", {"S=(sp+5) C W[sp] W[sp-1] W[sp-2] W[sp-3] W[sp-4]"},
               {"W[sp+5] W[sp+4] W[sp+3] W[sp+2] W[sp+1] S=(sp+5) C"}),
    "ShDup": ("dup", {"U C W[sp]"}, {"U W[sp]"}),
    "ShAlloc": ("alloc", {"U C W[sp]"}, {"U W[sp] C"}),
    "ShUnpack": ("record_unpack", {"B+=(size-1) C W[sp-(size-i)]"}, {"W[sp+(i-1)] B+=(size-1) C"}),
    "ShRead": ("builtin-read", {"U C W[sp]"}, {"U W[sp]"}),
}


def compare(repo, shapes, builtin_shapes, opnames):
    """shapes: opcode number -> shape name (from the extracted model); builtin_shapes: id -> shape.
    Returns (mismatches, static_variant) where static_variant maps irregular key -> 'checked' |
    'pinned' | 'unknown:<skeleton>' and mismatches is a list of dicts."""
    sk = handler_skeletons(repo)
    table = dict(optable(repo))
    mism = []
    variant = {}

    def judge(what, handler, shape, skel):
        if shape in REGULAR:
            if skel not in REGULAR[shape]:
                mism.append({"opcode": what, "handler": handler, "model_shape": shape,
                             "expected_skeleton": sorted(REGULAR[shape]), "source_skeleton": skel})
        elif shape in IRREGULAR:
            key, chk, pin = IRREGULAR[shape]
            if skel in chk:
                variant[key] = "checked"
            elif skel in pin:
                variant[key] = "pinned"
            else:
                variant[key] = "unknown:" + skel
                mism.append({"opcode": what, "handler": handler, "model_shape": shape,
                             "expected_skeleton": sorted(chk | pin), "source_skeleton": skel})
        else:
            mism.append({"opcode": what, "handler": handler, "model_shape": shape, "source_skeleton": skel,
                         "expected_skeleton": ["(shape unknown to the comparison table)"]})

    for num, shape in sorted(shapes.items()):
        name = (opnames[num] if num < len(opnames) else "?").split("=")[0].strip()
        if name in ("BYTECODE_BUILD_IN", "BYTECODE_END"):
            continue
        h = table.get(name)
        if h is None:
            mism.append({"opcode": name, "handler": None, "model_shape": shape, "source_skeleton": "(no handler)",
                         "expected_skeleton": []})
            continue
        if h not in sk:
            mism.append({"opcode": name, "handler": h, "model_shape": shape, "source_skeleton": "(handler not found)",
                         "expected_skeleton": []})
            continue
        judge(name, h, shape, sk[h])
    cases, ids = builtin_cases(repo)
    for bid, shape in sorted(builtin_shapes.items()):
        if bid not in cases:
            mism.append({"opcode": "BUILD_IN %d" % bid, "handler": "libvm_execute_build_in", "model_shape": shape,
                         "source_skeleton": "(no case for this id)", "expected_skeleton": []})
            continue
        nm, skel = cases[bid]
        judge("BUILD_IN %d %s" % (bid, nm), "libvm_execute_build_in", shape, skel)
    for nm, bid in ids.items():
        if bid != 0 and bid not in builtin_shapes:
            mism.append({"opcode": "BUILD_IN %d %s" % (bid, nm), "handler": "libvm_execute_build_in",
                         "model_shape": "(id outside the model's 1..30)", "source_skeleton": "", "expected_skeleton": []})
    return mism, variant, {"handlers": len(sk), "builtin_cases": len(cases)}
