(* Src/SyntaxDec.v — decidable equality of the abstract syntax (Src/Syntax.v): used by the proof's fragment
   predicate (Src/Compile4.v in_F) to test that a nested function definition is one of the program's.  No axioms. *)
From Coq Require Import ZArith List Bool.
From NV Require Import Src.Syntax.
Import ListNotations.

Lemma ty_eq_dec : forall a b : ty, {a = b} + {a <> b}.
Proof.
  fix IH 1. intros a b. decide equality; try apply N.eq_dec. apply list_eq_dec. exact IH.
Defined.

Lemma binop_eq_dec : forall a b : binop, {a = b} + {a <> b}.
Proof. decide equality. Defined.
Lemma exn_eq_dec : forall a b : exn, {a = b} + {a <> b}.
Proof. decide equality. Defined.

Fixpoint expr_eq_dec (a b : expr) {struct a} : {a = b} + {a <> b}
with item_eq_dec (a b : item) {struct a} : {a = b} + {a <> b}
with fdef_eq_dec (a b : fdef) {struct a} : {a = b} + {a <> b}.
Proof.
  - decide equality; try apply Z.eq_dec; try apply N.eq_dec; try apply bool_dec; try apply binop_eq_dec;
      try apply ty_eq_dec; try apply Nat.eq_dec; try (apply list_eq_dec; assumption).
  - decide equality; try apply N.eq_dec.
  - decide equality; try apply N.eq_dec; try apply ty_eq_dec.
    + decide equality. apply list_eq_dec. exact item_eq_dec.
    + apply list_eq_dec. decide equality. apply list_eq_dec. exact item_eq_dec. apply exn_eq_dec.
    + apply list_eq_dec. exact item_eq_dec.
    + apply list_eq_dec. decide equality. apply ty_eq_dec. decide equality. apply bool_dec. apply N.eq_dec.
Defined.
