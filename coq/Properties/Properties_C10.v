(* C10 — replacing a literal operand by a variable holding the same value never changes a
   program's outcome: an expression reduced by the compiler yields exactly the value the VM
   would compute, and an expression the compiler rejects as a constant division by zero is
   one the VM would fault on with division_by_zero.

   Only statements here; every proof is `exact <lemma>` into Arith/ConstredProofs.v.
   fold     = the reducer, written from front/constred.c        (Arith/Constred.v)
   rt_eval  = emitter + VM handlers, from front/emit.c, back/vmexec.c (Arith/RtEval.v)
   ty_of    = the typechecker's view of an elaborated tree       (Arith/Promote.v)
   All theorems quantify over ALL expression trees (operators, conversions, parentheses, ?:)
   and ALL literal values (bit patterns for float/double).
   `_refuted` = false on the faithful model of the tree, with the witness (each is replayed
   on the real code by checks/c10.py); `_partial` = proved for the trees that avoid the
   defective nodes:
     strict e      = no && || ?: and no enum operand under a bit operator
   Side conditions that disappeared with fixes of /repo:
     no_enum_div (no enum operand under / or %): since 355bd8f the enum arms of
       expr_div_constred / expr_mod_constred fold a / -1 as -a and a % -1 as 0 like the int
       arms, fold_never_crashes holds for all trees;
     emit_ok (every node has an opcode): since 2ca194c + 053e24b an item enumerator operand is
       typed int, < <= > >= % == != on enum operands have the int opcodes
       (well_typed_trees_are_emitted), so fold_agrees_with_runtime holds for every tree the
       typechecker accepts; its former refutation (E::C < 9 folded, the variable version
       aborting in front/emit.c) became the regression statement
       enum_compare_folds_like_runtime. *)
From Coq Require Import ZArith Bool List.
From NV Require Import Arith.NumTy Arith.VMOps Arith.Promote Arith.RtEval Arith.Constred
  Arith.ConstredProofs Arith.Enumred Arith.EnumredProofs.
Local Open Scope Z_scope.

(* every tree the typechecker accepts can be emitted: rt_eval never is Crash EmitAssert on it *)
Theorem well_typed_trees_are_emitted : forall e t, ty_of e = Some t -> emit_ok e = true.
Proof. exact ConstredProofs.well_typed_is_emitted. Qed.
Print Assumptions well_typed_trees_are_emitted.

Theorem fold_agrees_with_runtime : forall e t e',
  ty_of e = Some t -> fold e = FOk e' ->
  ty_of e' = Some t /\ rt_eval e' = rt_eval e.
Proof. exact ConstredProofs.fold_agrees_with_runtime. Qed.
Print Assumptions fold_agrees_with_runtime.

Theorem fold_literal_is_runtime_value : forall e t l,
  ty_of e = Some t -> fold e = FOk (ELit l) ->
  rt_eval e = Val (lit_val l) /\ lit_ty l = t.
Proof. exact ConstredProofs.fold_literal_is_runtime_value. Qed.
Print Assumptions fold_literal_is_runtime_value.

(* regression statement (/repo 2ca194c): E::C < 9 is folded to true and the same comparison on
   variables is the int comparison of the index — it used to make the emitter abort *)
Theorem enum_compare_folds_like_runtime :
  ty_of ex_enum_lt = Some TBool /\ fold ex_enum_lt = FOk (ELit (LBool true)) /\
  rt_eval ex_enum_lt = Val (VInt 1).
Proof. exact ConstredProofs.enum_compare_folds_like_runtime. Qed.
Print Assumptions enum_compare_folds_like_runtime.

(* regression statements for the defects fixed in the tree *)
Theorem long_mul_folds_like_runtime :
  fold ex_long_mul = FOk (ELit (LLong 10000000000)) /\ rt_eval ex_long_mul = Val (VLong 10000000000).
Proof. exact ConstredProofs.long_mul_folds_like_runtime. Qed.
Print Assumptions long_mul_folds_like_runtime.

Theorem bool_neq_folds_like_runtime :
  fold ex_bool_neq = FOk (ELit (LBool true)) /\ rt_eval ex_bool_neq = Val (VInt 1).
Proof. exact ConstredProofs.bool_neq_folds_like_runtime. Qed.
Print Assumptions bool_neq_folds_like_runtime.

Theorem int_min_div_wraps_both_sides :
  fold ex_int_min_div = FOk (ELit (LInt (-2147483648))) /\
  rt_eval ex_int_min_div = Val (VInt (-2147483648)) /\
  fold ex_int_min_mod = FOk (ELit (LInt 0)) /\ rt_eval ex_int_min_mod = Val (VInt 0).
Proof. exact ConstredProofs.int_min_div_wraps_both_sides. Qed.
Print Assumptions int_min_div_wraps_both_sides.

(* every eagerly evaluated tree folds completely *)
Theorem fold_total : forall e t,
  ty_of e = Some t -> strict e = true ->
  fold e = FReject \/ exists l, fold e = FOk (ELit l) /\ lit_ty l = t.
Proof. exact ConstredProofs.fold_total. Qed.
Print Assumptions fold_total.

Theorem fold_div0_is_runtime_fault_partial : forall e t,
  ty_of e = Some t -> strict e = true ->
  fold e = FReject -> rt_eval e = Fault DivisionByZero.
Proof. exact ConstredProofs.fold_div0_is_runtime_fault_partial. Qed.
Print Assumptions fold_div0_is_runtime_fault_partial.

Theorem fold_div0_is_runtime_fault_refuted :
  exists e t v, ty_of e = Some t /\ fold e = FReject /\ rt_eval e = Val v.
Proof. exact ConstredProofs.fold_div0_is_runtime_fault_refuted. Qed.
Print Assumptions fold_div0_is_runtime_fault_refuted.

Theorem cond_div0_is_rejected_but_runs :
  ty_of ex_cond_div0 = Some TInt /\ fold ex_cond_div0 = FReject /\ rt_eval ex_cond_div0 = Val (VInt 1).
Proof. exact ConstredProofs.cond_div0_is_rejected_but_runs. Qed.
Print Assumptions cond_div0_is_rejected_but_runs.

(* the reducer never traps, on any tree *)
Theorem fold_never_crashes : forall e, fold e <> FCrash.
Proof. exact ConstredProofs.fold_never_crashes. Qed.
Print Assumptions fold_never_crashes.

(* regression statement for the enum arms of expr_div_constred / expr_mod_constred (/repo
   355bd8f): E::M / -1 and E::M % E::N with M = INT_MIN, N = -1 fold to the wrapped values *)
Theorem enum_min_div_wraps_both_sides :
  ty_of ex_enum_min_div = Some TInt /\
  fold ex_enum_min_div = FOk (ELit (LInt (-2147483648))) /\
  rt_eval ex_enum_min_div = Val (VInt (-2147483648)) /\
  ty_of ex_enum_min_mod = Some TInt /\
  fold ex_enum_min_mod = FOk (ELit (LInt 0)) /\ rt_eval ex_enum_min_mod = Val (VInt 0).
Proof. exact ConstredProofs.enum_min_div_wraps_both_sides. Qed.
Print Assumptions enum_min_div_wraps_both_sides.

(* the VM never traps *)
Theorem run_never_traps : forall e, run e <> Crash SigFpe.
Proof. exact ConstredProofs.run_never_traps. Qed.
Print Assumptions run_never_traps.

(* ---- front/enumred.c (enumerator initialisers), Arith/Enumred.v -------------------------
   proved on trees over int and bool literals without ?:, == != and conversions (int_only);
   the rest of enumred.c (?: reduced again, enumerator references) is tied by the
   correspondence runs of checks/c10.py only *)
Theorem enumred_agrees_with_runtime_partial : forall e t e',
  ty_of e = Some t -> int_only e = true ->
  efold e = FOk e' -> ty_of e' = Some t /\ rt_eval e' = rt_eval e.
Proof. exact EnumredProofs.enumred_agrees_with_runtime_partial. Qed.
Print Assumptions enumred_agrees_with_runtime_partial.

Theorem enum_index_is_runtime_value : forall e z,
  ty_of e = Some TInt -> int_only e = true ->
  enum_index e = Some z -> rt_eval e = Val (VInt z).
Proof. exact EnumredProofs.enum_index_is_runtime_value. Qed.
Print Assumptions enum_index_is_runtime_value.

(* enumred.c never traps (expr_div_enumred / expr_mod_enumred use (b == -1) ? -a : a / b) *)
Theorem efold_never_crashes : forall e, efold e <> FCrash.
Proof. exact EnumredProofs.efold_never_crashes. Qed.
Print Assumptions efold_never_crashes.

(* ... and on the common fragment the two reducers are the same function *)
Theorem enumred_is_constred_on_int_trees : forall e, int_only e = true -> efold e = fold e.
Proof. exact EnumredProofs.efold_is_fold. Qed.
Print Assumptions enumred_is_constred_on_int_trees.

(* the theorems apply to everything the typechecker accepts *)
Theorem elab_well_typed : forall s e t, elab s = Some (e, t) -> ty_of e = Some t.
Proof. exact ConstredProofs.elab_well_typed. Qed.
Print Assumptions elab_well_typed.

(* hypotheses are satisfiable: a mixed, eagerly evaluated, clean tree *)
Example hypotheses_satisfiable :
  let e := EBin Add (EConv I2D (ELit (LInt 1))) (ELit (LDouble 4612811918334230528)) in
  ty_of e = Some TDouble /\ strict e = true /\
  fold e = FOk (ELit (LDouble 4615063718147915776)).
Proof. vm_compute. repeat split. Qed.
