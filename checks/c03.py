"""C03 — faults reach the right catch clause.

Decided by (coq/Properties/Properties_C03.v, all closed under the global context):
  table level     search_spec (the C binary search returns the unique block containing ip),
                  handler_is_search (the verifier's lookup = exception_tab_search on sorted tables)
  bytecode level  for every module accepted by the certificate checker and every reachable state
                  of the shape machine: fault_lands_in_own_handler, handler_link_increases,
                  handler_chain_finite, clear_stack_restores_frame, rethrow_pops_partial_frame,
                  rethrow_returns_to_caller, unhandled_only_at_top_level, unhandled_reached_only_at_top
  source level    for all programs of the reference evaluator: fault_result_unused_*,
                  first_matching_clause, clause_value_is_call_result, no_clause_propagates,
                  clause_exception_goes_to_later_clauses, catch_all_takes_the_rest, unhandled_at_top

Tie to /repo (built from its CURRENT tree, ASan+UBSan, asserts on):
  (1) exctab: direct-call correspondence of the extracted search with back/exctab.c
      (checks/parts/exctab.py), plus the property's own oracle;
  (2) module level: the extracted checker (VERIFY) and the emitter-layout facts the property needs,
      on every module of the fixed corpus (/repo/sample + /verif/corpus/programs) and of every
      generated program; shape machine in lock-step along the real register trace of every program
      that has catch clauses / is generated (every observed fault must land where the model's
      `fault` allows, CLEAR_STACK must leave sp = pp + nparams, RETHROW must pop one frame);
  (3) a generated family of fault programs (harness/c03/faultgen.py): every fault kind the core
      raises x k-th argument x nesting depth (0..3 frames under construction) x clause j levels
      up x clause order x faulting clauses x loops x closures x recursion; the expected markers,
      result and unhandled report are computed from the property (closed form), independently of
      the models;
  (3b) operation history x built-in (faultgen section 9): a prefix of float/double arithmetic that raises no
      exception of the language but sets the hardware status flags (overflow to inf by mul / add / double /
      array / loop / in a callee, underflow to 0 / denormal, inexact by division and conversions, nan from
      inf - inf, 0 * inf, inf / inf, nan comparison, earlier built-ins that failed and were caught, none)
      x every argument class of sqrt, log, exp, pow, sin, cos, tan (failing: which exception; non-failing:
      which value) and print*, str*, ord, chr, length, assert* (never fail), the prefix placed before / after
      the argument computation, at the start of main or in the caller, the call delivered through the same
      chain coordinates as (3) (clause j levels up incl. main, order, absent = unhandled, depth, position;
      loops, closures, recursion, module level).  Decision rule (harness/c03/faultgen.py HB_MATH): the outcome
      of a built-in call is a function of its own arguments - the expected exception / value never looks at
      the prefix, so "same outcome with any prefix" is what every program of the grid checks; the rows with
      the empty prefix confirm the table itself.
  (1c)/(3c) completeness over fault sites: harness/c03/faultsites.py enumerates every `machine->running = VM_EXCEPTION`
      of back/vmexec.c, libvm.c, vmffi.c (handler function, macro instantiations expanded, exception constant assigned
      in the same block, opcodes that dispatch to it, helpers through their callers).  A site that assigns no
      exception (other than RETHROW) is reported on the spot (`site-raises-without-exception:<site>`): the clause that
      takes such a fault depends on history.  faultgen SITE_PROBES (array / matrix operators per element kind with
      nil operands and mismatching sizes, matrix product, array creation with bad extents per element kind, range of
      range / slice of slice / slice of string / array, range, slice, string index per dimension and bound, nil
      record / array / string / function / range / slice per operation, string concatenation and comparison per kind,
      division and modulo per numeric kind, every failing class of the math built-ins, FFI) run (a) with the matching
      typed clause placed after a clause for ANOTHER exception that was raised and handled earlier in the same run,
      (b) with that stale clause + other non-matching clauses + catch-all, (c) without any clause (the report must
      name the exception), (d) as control with a non-zero trigger.  Which site a probe reaches is measured (opcode
      of the fault in the traced run): coverage.fault_sites.site_x_probe; sites without a probe are listed in the
      evidence (NOTE_uncovered_fault_sites), not reported as violations.
  (4) block-boundary test: the same programs with the exception-table block split right after
      the faulting address (harness/c03/excdump.c): the VM must look the handler up for ip-1.

  property fails on the real code  -> ctx.violation("delivery:<class>:<template coordinates>")
  model and code disagree          -> ctx.correspondence_broken(...)
"""
import collections
import glob
import json
import os
import re
import subprocess
import sys
import tempfile
import time

from lib import common, vmcheck
from checks.parts import exctab as exctab_part

sys.path.insert(0, os.path.join(common.VERIF, "harness", "c03"))
import faultgen  # noqa: E402
import faultsites  # noqa: E402

LEVEL = "proof"

CORPUS = os.path.join(common.VERIF, "corpus", "C03")
RUN_ENV = dict(os.environ, ASAN_OPTIONS="detect_leaks=0:abort_on_error=0:exitcode=99",
               UBSAN_OPTIONS="print_stacktrace=0:halt_on_error=1")
NOISE = re.compile(r"^(<stdin>|\S+\.nev):\d+: (warning|error):|^cannot open library|^cannot obtain address")


# ------------------------------------------------------------------ layout facts (B.2)

def layout_check(d, names):
    """Emitter layout facts the property needs, from the dumped module alone.
    -> list of (addr, what)"""
    bad = []
    code, exct, funcs = d["code"], d["exct"], d["funcs"]
    n = len(code)

    def op(a):
        return names[code[a][0]] if 0 <= a < n and code[a][0] < len(names) else "?"

    if not exct:
        return [(0, "empty exception table")]
    for i in range(len(exct) - 1):
        if not exct[i][0] < exct[i + 1][0]:
            bad.append((exct[i + 1][0], "exception table not strictly sorted at entry %d" % (i + 1)))
    for b, h in exct:
        if not (0 <= h < n):
            bad.append((b, "handler %d of block %d outside the code" % (h, b)))
    if bad:
        return bad
    b0, h0 = exct[0]
    if b0 != 0:
        bad.append((b0, "first block starts at %d, not 0" % b0))
    if not (op(h0) == "BYTECODE_LABEL" and op(h0 + 1) == "BYTECODE_UNHANDLED_EXCEPTION"):
        bad.append((h0, "block 0 does not lead to LABEL; UNHANDLED_EXCEPTION (%s; %s)" % (op(h0), op(h0 + 1))))
    starts = sorted(a for (a, _np, _nf, _ffi, _nm) in funcs)
    meta = {a: (np_, ffi) for (a, np_, _nf, ffi, _nm) in funcs}
    first_fn = starts[0] if starts else n
    ents = dict(exct)
    blocks = [b for b, _ in exct]
    for b in blocks[1:]:
        if b < first_fn:
            bad.append((b, "table block %d inside the top-level code" % b))
    for si, f in enumerate(starts):
        end = starts[si + 1] if si + 1 < len(starts) else n
        np_, ffi = meta[f]
        mine = [b for b in blocks if f <= b < end]
        if not mine or mine[0] != f:
            bad.append((f, "function %d has no body block starting at its entry" % f))
            continue
        if ffi and len(mine) != 1:
            # vm_execute_func_ffi raises with ip advanced past the descriptors: the lookup address is some
            # address of the FFI body, which must therefore be ONE block
            bad.append((f, "FFI function %d has %d table blocks, expected exactly one" % (f, len(mine))))
        for bi, b in enumerate(mine):
            h = ents[b]
            if not (b < h < end):
                bad.append((b, "handler %d of block %d does not lie after it inside function %d" % (h, b, f)))
                continue
            if op(h) != "BYTECODE_LABEL":
                bad.append((b, "handler %d of block %d is %s, not LABEL" % (h, b, op(h))))
                continue
            nxt = h + 1
            if bi > 0:
                # a clause block: CLEAR_STACK nparams first
                if not (op(b) == "BYTECODE_CLEAR_STACK" and code[b][1] == np_):
                    bad.append((b, "clause block %d starts with %s %d, not CLEAR_STACK %d" % (b, op(b), code[b][1], np_)))
                # `catch (name)`: INT no; PUSH_EXCEPT; OP_EQ_INT; JUMPZ -> the non-matching exit must continue
                # where this block's handler leads (the emitter jumps past the handler LABEL: h + 1)
                if (op(b + 1) == "BYTECODE_INT" and op(b + 2) == "BYTECODE_PUSH_EXCEPT"
                        and op(b + 3) == "BYTECODE_OP_EQ_INT" and op(b + 4) == "BYTECODE_JUMPZ"):
                    tgt = b + 4 + 1 + code[b + 4][1]
                    if tgt not in (h, h + 1):
                        bad.append((b, "clause at %d: non-matching exit jumps to %d, its handler is %d" % (b, tgt, h)))
            if bi + 1 < len(mine):
                if mine[bi + 1] != nxt:
                    bad.append((b, "handler %d of block %d is not followed by the next block (%d)" % (h, b, mine[bi + 1])))
                elif not (op(nxt) == "BYTECODE_CLEAR_STACK" and code[nxt][1] == np_):
                    bad.append((nxt, "handler target %d is followed by %s %d, not CLEAR_STACK %d" % (h, op(nxt), code[nxt][1], np_)))
            else:
                if op(nxt) != "BYTECODE_RETHROW":
                    bad.append((nxt, "last handler %d of function %d is followed by %s, not RETHROW" % (h, f, op(nxt))))
                elif nxt != end - 1:
                    bad.append((nxt, "RETHROW of function %d at %d is not its last instruction (%d)" % (f, nxt, end - 1)))
    return bad


def fault_steps(d, names):
    """addresses a at which the traced run faulted: the next ip is the table handler of a and not a
    normal successor.  -> list of (step index, a)"""
    code, trace = d["code"], d["trace"]
    blocks = d["exct"]

    def handler(a):
        r = None
        for b, h in blocks:
            if b <= a:
                r = h
            else:
                break
        return r
    out = []
    for i in range(len(trace) - 1):
        a, nip = trace[i][0], trace[i + 1][0]
        nm = names[code[a][0]]
        if nm in ("BYTECODE_JUMP", "BYTECODE_JUMPZ", "BYTECODE_RET", "BYTECODE_RETHROW", "BYTECODE_LABEL",
                  "BYTECODE_HALT", "BYTECODE_UNHANDLED_EXCEPTION"):
            continue
        if nip != a + 1 and nip == handler(a):
            out.append((i, a))
    return out


def splittable(d, names, fs):
    """first faulting address usable for the block-boundary test: FUNC_FFI raises with ip advanced past
    its descriptors (any address of its one-block body is looked up), so it is skipped"""
    for _i, a in fs:
        if names[d["code"][a][0]] != "BYTECODE_FUNC_FFI":
            return a
    return None


# ------------------------------------------------------------------ running programs

def run_batch(nevrun, items, tmpdir, workers=16, timeout=3):
    """items: list of (pid, source).  -> {pid: dict(out=[ints], outcome=(kind, detail), unhandled, status, text)}"""
    chunks = [items[i::workers] for i in range(workers)]

    def one(ci):
        ch = chunks[ci]
        if not ch:
            return ""
        path = os.path.join(tmpdir, "batch%d.txt" % ci)
        with open(path, "w") as f:
            for pid, src in ch:
                f.write("@@@ %s\n%s" % (pid, src if src.endswith("\n") else src + "\n"))
        try:
            p = subprocess.run([nevrun, "--timeout", str(timeout), "--batch", path], stdout=subprocess.PIPE,
                               stderr=subprocess.STDOUT, env=RUN_ENV, timeout=timeout * len(ch) + 60)
            return p.stdout.decode(errors="replace")
        except subprocess.TimeoutExpired as e:
            return (e.stdout or b"").decode(errors="replace")
    res = {}
    for txt in vmcheck.pmap(one, list(range(workers)), workers):
        for blk in re.split(r"^@@BEGIN ", txt, flags=re.M)[1:]:
            lines = blk.split("\n")
            pid = lines[0].strip()
            r = {"out": [], "outcome": None, "unhandled": None, "status": None, "text": "\n".join(lines[1:40])[:3000],
                 "sanitizer": False}
            for l in lines[1:]:
                ls = l.strip()
                if re.match(r"^-?\d+$", ls):
                    r["out"].append(int(ls))
                m = re.match(r"^@@OUTCOME \S+ (\S+) ?(.*)$", l)
                if m:
                    r["outcome"] = (m.group(1), m.group(2).strip())
                m = re.match(r"^unhandled (\S+) exception", l)
                if m:
                    r["unhandled"] = m.group(1)
                m = re.match(r"^@@END \S+ status=(.*)$", l)
                if m:
                    r["status"] = m.group(1).strip()
                if "AddressSanitizer" in l or "runtime error:" in l or "Assertion" in l:
                    r["sanitizer"] = True
            res[pid] = r
    return res


def classify(exp, got):
    """None when the observed behaviour is the expected one, else (class, text)"""
    if got is None:
        return ("no-output", "the runner produced no record for this program")
    if got["sanitizer"]:
        return ("crash", "sanitizer report / assertion failure while running")
    if got["status"] not in ("0",):
        return ("hang" if got["status"] == "timeout" else "crash", "run ended with status=%s" % got["status"])
    oc = got["outcome"]
    if oc is None:
        return ("crash", "no outcome reported (exit inside the VM)")
    if oc[0] in ("COMPILE_ERROR", "PREPARE_ERROR"):
        return ("not-compiled", "%s %s" % oc)
    if exp["kind"] == "result":
        if oc[0] == "EXEC_ERROR":
            return ("not-caught", "expected result %d, the run ended with unhandled %s exception" % (exp["value"], got["unhandled"]))
        if oc != ("RESULT", "int %d" % exp["value"]):
            if got["out"] == exp["out"]:
                return ("wrong-result", "markers as expected but the result is %s, expected int %d "
                                        "(clause value / parameters seen by the clause)" % (oc[1], exp["value"]))
            return ("wrong-clause", "result %s, expected int %d; markers differ" % (oc[1], exp["value"]))
        if got["out"] != exp["out"]:
            return ("wrong-path", "result as expected but the printed markers differ (something ran that should not, or did not)")
        return None
    # expected: unhandled
    if oc[0] == "RESULT":
        return ("caught-but-no-clause", "expected `unhandled %s exception`, the run produced %s" % (exp["value"], oc[1]))
    if oc[0] != "EXEC_ERROR" or oc[1] in ("0", ""):
        return ("no-error-status", "expected a non-zero status, got %s %s" % oc)
    if got["unhandled"] != exp["value"]:
        return ("wrong-report", "expected `unhandled %s exception`, reported: %s" % (exp["value"], got["unhandled"]))
    if got["out"] != exp["out"]:
        return ("wrong-path", "unhandled as expected but the printed markers differ")
    return None


def coords_key(coords):
    return re.sub(r"[^A-Za-z0-9:#_-]", "_", coords)


# ------------------------------------------------------------------ built-in status flags (1b)

def builtin_flags_part(ctx, lib):
    """harness/c03/bidrive.c calls the real libvm_execute_build_in with every subset of the five status flags
    preset; the rows (before, own, observed) are evaluated by coqc with BuiltinFlags.rows_ok."""
    drv = common.cc_driver("bidrive", ["c03/bidrive.c"], lib)
    try:
        p = subprocess.run([drv], stdout=subprocess.PIPE, stderr=subprocess.DEVNULL, env=RUN_ENV, timeout=120)
        out = p.stdout.decode(errors="replace")
    except subprocess.TimeoutExpired:
        out = ""
    rows = []
    for l in out.splitlines():
        f = l.split()
        if len(f) == 7 and f[0] == "ROW":
            rows.append((f[1], f[2], int(f[3]), int(f[4]), int(f[5]), f[6]))
    if "DONE" not in out or not rows:
        ctx.correspondence_broken("builtin-flags-driver", {"error": "bidrive did not finish", "output": out[-800:]})
        return

    def model(own):          # python copy of BuiltinFlags.classify, only used to LOCATE a differing row
        return 1 if own & 1 else 4 if own & 2 else 5 if own & 4 else 6 if own & 8 else 0
    vfile = os.path.join(ctx.outdir, "BuiltinRows.v")
    with open(vfile, "w") as f:
        f.write("From Coq Require Import List NArith.\nFrom NV Require Import Exc.BuiltinFlags.\nImport ListNotations.\n"
                "Local Open Scope N_scope.\nDefinition rows : list (N * N * N) := [\n")
        f.write(";\n".join("(%d, %d, %d)" % (r[2], r[3], max(r[4], 0) if r[4] >= 0 else 99) for r in rows))
        f.write("].\nExample rows_agree_with_model : rows_ok rows = true.\nProof. vm_compute. reflexivity. Qed.\n")
    rc, so, se = common.sh("coqc -Q %s NV -o %s %s" % (os.path.join(common.VERIF, "coq"), vfile + "o", vfile), timeout=300)
    differing = [r for r in rows if model(r[3]) != r[4]]
    wrong_value = [r for r in rows if r[4] == 0 and r[5] == "0"]
    ctx.obligation("BuiltinFlags.rows_ok on %d rows of libvm_execute_build_in (every flag subset x built-in x argument class)" % len(rows),
                   rc == 0, (so + se)[-600:])
    for ext in ("", "o", "ok", "os"):
        try:
            os.unlink(vfile + ext)
        except OSError:
            pass
    try:
        os.unlink(os.path.join(ctx.outdir, "BuiltinRows.glob"))
    except OSError:
        pass
    ctx.count(evaluations=len(rows), nontrivial=len({(r[0], r[1], r[3]) for r in rows if r[2] & ~r[3] & 15}))
    if rc != 0 or differing:
        r = (differing or rows)[0]
        ctx.correspondence_broken("builtin-flags-model-vs-libvm", {
            "builtin": r[0], "argument": r[1], "flags_before_mask": r[2], "own_flags_mask": r[3],
            "model_outcome": model(r[3]), "observed_except_no (0 = value)": r[4], "differing_rows": len(differing),
            "note": "mask bits: 1 divbyzero, 2 invalid, 4 overflow, 8 underflow, 16 inexact; the outcome must not depend on flags_before"})
    if wrong_value:
        r = wrong_value[0]
        ctx.correspondence_broken("builtin-value-differs-from-libm", {"builtin": r[0], "argument": r[1], "flags_before_mask": r[2]})
    ctx.coverage.setdefault("parts", {})["builtin_flags"] = {
        "rows": len(rows), "builtins": sorted({r[0] for r in rows}), "rows_with_stale_exception_flag_before": len([r for r in rows if r[2] & ~r[3] & 15]),
        "raising_rows": len([r for r in rows if r[4] > 0]), "coqc_rows_ok": rc == 0}


# ------------------------------------------------------------------ the check

def run(ctx):
    from gen import gen_opcodes
    t0 = time.time()
    g = gen_opcodes.main()
    ctx.proofs()
    ctx.obligation("Gen/Opcodes.v regenerated from back/bytecode.h; vm_execute_op[] pairing",
                   not g["problems"], g["problems"])
    tools = vmcheck.VmTools("asan")
    import atexit
    atexit.register(tools.close)          # the scratch directory goes away even if the check crashes
    lib = tools.lib
    # private copy of the extracted runner: other checks running at the same time may relink
    # build/ocaml/verifier/run under our feet
    import shutil
    for attempt in range(20):
        try:
            shutil.copy2(tools.vrun, os.path.join(tools.tmp, "vrun"))
            if subprocess.run([os.path.join(tools.tmp, "vrun"), "/dev/null"], stdout=subprocess.PIPE,
                              stderr=subprocess.PIPE).returncode == 0:
                tools.vrun = os.path.join(tools.tmp, "vrun")
                break
        except OSError:
            pass
        time.sleep(0.5)
    nevrun = common.cc_driver("nevrun", ["common/nevrun.c"], lib)
    bcsrc = open(os.path.join(common.VERIF, "harness", "vm", "bcdump.c"), "rb").read()
    import hashlib
    excdump = common.cc_driver("excdump", ["c03/excdump.c"], lib,
                               extra="-DBCDUMP_SRC_%s" % hashlib.sha256(bcsrc).hexdigest()[:12])
    never = os.path.join(lib, "never")
    # the callee library of the FFI-record programs (harness/c03/faultgen.py ffi_lib_source)
    ffic = os.path.join(tools.tmp, "c03ffi.c")
    ffilib = os.path.join(tools.tmp, "libc03ffi.so")
    open(ffic, "w").write(faultgen.ffi_lib_source())
    rc, so, se = common.sh("gcc -O0 -w -shared -fPIC -o %s %s" % (ffilib, ffic), timeout=120)
    have_ffi = rc == 0 and os.path.exists(ffilib)
    if not have_ffi:
        ctx.notes["ffi_library"] = "could not be built: " + (se or so)[-400:]

    def real(src):
        return src.replace(faultgen.FFILIB, ffilib)
    names = vmcheck.opcode_names()
    tmp = tools.tmp
    stats = collections.Counter()
    timing = {"setup_s": round(time.time() - t0, 1)}

    # ---- (1) exception table search: model vs back/exctab.c, and the property's oracle
    t1 = time.time()
    exctab_part.run_exctab(ctx, lib=lib)
    timing["exctab_s"] = round(time.time() - t1, 1)

    # ---- (1b) built-in exception decision: model (Exc/BuiltinFlags.v run_builtin) vs libvm_execute_build_in
    t1 = time.time()
    builtin_flags_part(ctx, lib)
    timing["builtin_flags_s"] = round(time.time() - t1, 1)

    # ---- (1c) every place of the VM that raises an exception (harness/c03/faultsites.py)
    t1 = time.time()
    sites = faultsites.sites(common.REPO)
    nraise = 0
    for fn in ("vmexec.c", "libvm.c", "vmffi.c"):
        try:
            txt = faultsites._strip_comments(open(os.path.join(common.REPO, "back", fn)).read())
            nraise += len(re.findall(r"machine->running\s*=\s*VM_EXCEPTION", txt))
        except OSError:
            pass
    # an assignment is accounted for as a site of its own or as the body of a raise helper (a function that stores its
    # parameter into machine->exception: its CALLS are the sites, x["via"] names the helper)
    helper_lines = set(faultsites.helper_assignments(common.REPO))
    located = {(x["file"], x["line"]) for x in sites if not x.get("via")} | helper_lines
    ctx.obligation("fault-site translator accounts for every `machine->running = VM_EXCEPTION` of back/vmexec.c, libvm.c, vmffi.c",
                   len(located) == nraise,
                   {"assignments_in_source": nraise, "sites_located": len(located), "inside_raise_helpers": sorted(helper_lines),
                    "sites_that_call_a_raise_helper": len([x for x in sites if x.get("via")])})
    for x in sites:
        if not x["exceptions"] and x["func"] not in faultsites.PRESERVING:
            src_lines = open(os.path.join(common.REPO, "back", x["file"]), errors="replace").read().split("\n")
            ctx.violation("site-raises-without-exception:%s" % x["id"],
                          "back/%s:%d (%s, reached by %s) sets VM_EXCEPTION without assigning machine->exception: the clause that takes "
                          "the fault is selected by whatever exception was raised before" % (x["file"], x["line"], x["func"],
                                                                                          ",".join(x["opcodes"]) or "?"),
                          {"kind": "site", "site": x, "source": "\n".join(src_lines[max(0, x["line"] - 8):x["line"] + 3])})
    timing["fault_sites_s"] = round(time.time() - t1, 1)

    # ---- programs: corpus first, then the generated family
    fam = []                                      # (pid, source, expected, coords)
    for f in sorted(glob.glob(os.path.join(CORPUS, "*.json"))):
        try:
            c = json.load(open(f))
            fam.append(("corpus/" + c["id"], c["source"], c["expected"], "corpus:" + c["id"]))
        except Exception as e:               # a broken corpus file must not hide the rest
            ctx.notes.setdefault("corpus_errors", []).append("%s: %s" % (f, e))
    ncorpus = len(fam)
    if getattr(ctx, "replay", None):
        c = json.load(open(ctx.replay))
        fam = [("replay", c.get("program") or c["case"]["program"], c["expected"], "replay")]
        progs = []
    else:
        progs = faultgen.family(ctx.seed, ctx.tier, ffilib=have_ffi)
        for p in progs:
            fam.append((p.pid, p.src(), faultgen.expected(p), p.coords))
    ids = {}
    items = []
    for i, (pid, src, exp, coords) in enumerate(fam):
        ids["P%d" % i] = i
        items.append(("P%d" % i, real(src)))

    # ---- (3) outcomes under the ASan build
    t1 = time.time()
    got = run_batch(nevrun, items, tmp)
    timing["family_run_s"] = round(time.time() - t1, 1)
    per_class = collections.Counter()
    kinds_seen = collections.Counter()
    bad_ids = set()
    for i, (pid, src, exp, coords) in enumerate(fam):
        r = got.get("P%d" % i)
        stats["family_programs"] += 1
        ctx.count(evaluations=1)
        if exp["kind"] == "unhandled" or exp.get("faults", 1) > 0:
            stats["family_with_fault"] += 1
        kinds_seen[coords.split(":")[0]] += 1
        c = classify(exp, r)
        if c is None:
            stats["family_ok"] += 1
            continue
        bad_ids.add(i)
        cls, text = c
        per_class[cls] += 1
        if cls == "not-compiled":
            ctx.correspondence_broken("fault-program-does-not-compile:%s" % coords_key(coords),
                                      {"program": src, "detail": text, "output": (r or {}).get("text", "")[:1500]})
            continue
        site_probe = coords.split(":")[1] if coords.startswith("site:") else None
        if site_probe or per_class[cls] <= 3:
            ctx.violation(("delivery:%s:site:%s" % (cls, site_probe)) if site_probe else "delivery:%s:%s" % (cls, coords_key(coords)),
                          "fault program %s: %s" % (pid, text),
                          {"kind": "program", "program": src, "case": {"id": pid, "coords": coords},
                           "expected": exp, "observed": {k: (r or {}).get(k) for k in ("outcome", "unhandled", "out", "status", "text")}})
    stats.update({"family_bad_" + k: v for k, v in per_class.items()})
    # operation history x built-in: distribution and verdict per (prefix, built-in/argument class)
    hb_prefix, hb_builtin, hb_place, hb_cells, hb_dep = (collections.Counter() for _ in range(5))
    for i, (pid, src, exp, coords) in enumerate(fam):
        parts = coords.split(":")
        if "hb" not in parts[:2]:
            continue
        o = parts.index("hb")
        b, cls, prefix, place = parts[o + 1:o + 5]
        run = ("fails:" + cls.split("/")[0]) if (exp.get("faults", 0) > 0 or exp["kind"] == "unhandled") else ("ok:" + cls.split("/")[1])
        hb_prefix[prefix] += 1
        hb_builtin["%s %s" % (b, run)] += 1
        hb_place[place if o == 0 else parts[0]] += 1
        hb_cells[(prefix, b, run)] += 1
        if i in bad_ids:
            hb_dep["%s after %s" % ("%s %s" % (b, run), prefix)] += 1
    if hb_cells:
        ctx.coverage["history_x_builtin"] = {
            "programs": sum(hb_cells.values()), "cells_prefix_x_builtin_class": len(hb_cells),
            "per_prefix": dict(sorted(hb_prefix.items())), "per_builtin_argument_class": dict(sorted(hb_builtin.items())),
            "per_placement": dict(hb_place),
            "outcome_differs_from_rule (built-in, argument class, prefix)": dict(sorted(hb_dep.items())[:40]),
            "rule": "expected outcome = table of the built-in's own argument class (faultgen.HB_MATH / HB_OTHER); it never "
                    "depends on the prefix; rows with prefix `none` confirm the table"}

    # ---- command-line tool: unhandled -> non-zero exit status and the report on stdout
    t1 = time.time()
    cli = [i for i, f in enumerate(fam) if f[2]["kind"] == "unhandled"][: (12 if ctx.tier == "quick" else 60)]
    cli += [i for i, f in enumerate(fam) if f[2]["kind"] == "unhandled" and f[3].startswith("toplevel")][: (12 if ctx.tier == "quick" else 60)]
    cli += [i for i, f in enumerate(fam) if f[2]["kind"] == "result"][: (4 if ctx.tier == "quick" else 20)]

    def one_cli(i):
        pid, src, exp, coords = fam[i]
        path = os.path.join(tmp, "cli%d.nev" % i)
        open(path, "w").write(real(src))
        try:
            p = subprocess.run([never, "-f", path], stdout=subprocess.PIPE, stderr=subprocess.STDOUT, env=RUN_ENV, timeout=20)
            return i, p.returncode, p.stdout.decode(errors="replace")
        except subprocess.TimeoutExpired:
            return i, -9, ""
    for i, rc, txt in vmcheck.pmap(one_cli, cli):
        pid, src, exp, coords = fam[i]
        stats["cli_runs"] += 1
        if i in bad_ids:
            continue
        if exp["kind"] == "unhandled":
            okc = rc not in (0, -9, 99) and rc > 0 and ("unhandled %s exception" % exp["value"]) in txt
            if not okc:
                ctx.violation("delivery:cli-status:%s" % coords_key(coords),
                              "`never -f` on %s: expected `unhandled %s exception` and a non-zero status, got status %d" % (pid, exp["value"], rc),
                              {"kind": "program", "program": src, "expected": exp, "observed": {"status": rc, "stdout": txt[:1500]}})
        else:
            if rc != (exp["value"] & 0xFF) or "unhandled" in txt:
                ctx.violation("delivery:cli-status:%s" % coords_key(coords),
                              "`never -f` on %s: expected exit status %d (result %d), got %d" % (pid, exp["value"] & 0xFF, exp["value"], rc),
                              {"kind": "program", "program": src, "expected": exp, "observed": {"status": rc, "stdout": txt[:1500]}})
    timing["cli_s"] = round(time.time() - t1, 1)

    # ---- (2) module level: verifier + layout + lock-step, on the family and on the fixed corpus
    t1 = time.time()
    steps = 60000 if ctx.tier == "quick" else 400000
    vsteps = 30000 if ctx.tier == "quick" else 150000
    work = []
    for i, (pid, src, exp, coords) in enumerate(fam):
        if ctx.tier == "quick" and "hb" in coords.split(":")[:2] and i % 4 and i not in bad_ids:
            # history x built-in programs share their call structure with the rest of the family: in the quick
            # tier one in four goes through the module-level pipeline as well (all of them were run above)
            stats["modules_skipped_quick"] += 1
            continue
        path = os.path.join(tmp, "fam%d.nev" % i)
        open(path, "w").write(real(src))
        work.append(("fam", i, "P%d" % i, path, tmp, True))
    if not getattr(ctx, "replay", None):
        for pid, path, cwd in vmcheck.corpus_programs():
            try:
                txt = open(path, errors="replace").read()
            except OSError:
                txt = ""
            work.append(("corpus", pid, pid, path, cwd, ("catch" in txt or "extern" in txt)))

    def one_mod(w):
        kind, key, pid, path, cwd, trace = w
        dump, rc, err = tools.dump(kind + "_" + str(pid), path, cwd, trace=trace, max_steps=steps)
        d = vmcheck.read_dump(dump)
        if d["compile"] != 0:
            return w, None, None, [], err
        v = tools.verify(dump, max_steps=vsteps)
        lay = layout_check(d, names)
        fs = fault_steps(d, names) if trace else []
        d2 = {"end": d["end"], "out": d["out"], "nfaults": len(fs), "first_fault": splittable(d, names, fs),
              "fault_ops": [names[d["code"][a][0]] for _i, a in fs],
              "ntrace": len(d["trace"]), "nexct": len(d["exct"]), "ncode": len(d["code"]),
              "clear": sum(1 for c in d["code"] if names[c[0]] == "BYTECODE_CLEAR_STACK")}
        try:
            os.unlink(dump)
        except OSError:
            pass
        return w, v, d2, lay, err

    split_cands = []
    shapes = set()
    first_samples = []
    probe_ops = collections.defaultdict(collections.Counter)     # probe -> opcode at which its fault was raised
    for w, v, d2, lay, err in vmcheck.pmap(one_mod, work):
        kind, key, pid, path, cwd, trace = w
        label = fam[key][0] if kind == "fam" else key
        if kind == "fam" and d2 is not None and fam[key][3].startswith("site:") and ":control:" not in fam[key][3] and d2["fault_ops"]:
            probe_ops[fam[key][3].split(":")[1]][d2["fault_ops"][-1]] += 1
        if v is None:
            if kind == "fam" and key not in bad_ids:
                ctx.correspondence_broken("dump-does-not-compile:%s" % label, {"program": label, "stderr": err[-600:]})
            stats["modules_not_compiled"] += 1
            continue
        stats["modules"] += 1
        ctx.count(evaluations=1)
        if d2["clear"] > 0:
            stats["modules_with_clauses"] += 1
        for a, what in lay[:1]:
            stats["layout_bad"] += 1
            src = fam[key][1] if kind == "fam" else None
            ctx.correspondence_broken("emitter-layout:%s" % re.sub(r"\d+", "N", what)[:80],
                                      {"program": label, "addr": a, "what": what, "source": src})
        ver, lock = v["verify"], v["lockstep"]
        if kind == "fam" and key in bad_ids and not ver:
            # the run of this program already failed the property's oracle (reported above, e.g. a crash of the VM):
            # the traced dump is incomplete, there is no module to verify
            stats["modules_of_failed_programs_skipped"] += 1
            continue
        if not ver.startswith("VERIFY ok"):
            stats["verify_fail"] += 1
            wit = v.get("witness", "")
            if wit.startswith("WITNESS crash=NoHandler"):
                # a concrete static path of this program's compiled code that ends with a fault at an address
                # covered by no block of the exception table (the VM gets NULL from exception_tab_search)
                stats["static_path_nohandler"] += 1
                if stats["static_path_nohandler"] <= 3:
                    ctx.violation("static-path-NoHandler:%s" % coords_key(fam[key][3] if kind == "fam" else label),
                                  "compiled code of %s: a fault can be raised at an address in no exception-table block: %s" % (label, wit[:300]),
                                  {"kind": "program", "program": fam[key][1] if kind == "fam" else label, "verify": ver,
                                   "witness_path": wit, "lockstep": lock,
                                   "how": "bcdump <program> | build/ocaml/verifier/run : the listed (ip:sp) path is a run of the shape "
                                          "machine over the real module ending in Crash NoHandler"})
            else:
                ctx.correspondence_broken("verify(%s)" % label, {"program": label, "verify": ver, "lockstep": lock, "witness": wit,
                                                                "note": "the proved validator rejects this module: the bytecode-level "
                                                                        "theorems of Properties_C03.v do not apply to it"})
        else:
            stats["verify_ok"] += 1
        if lock.startswith("LOCKSTEP crash"):
            stats["lockstep_crash"] += 1
            if stats["lockstep_crash"] <= 3:
                ctx.violation("lockstep-crash:%s" % coords_key(fam[key][3] if kind == "fam" else label),
                              "real run of %s leaves the frame discipline: %s" % (label, lock),
                              {"kind": "program", "program": fam[key][1] if kind == "fam" else label,
                               "lockstep": lock, "verify": ver})
        elif lock.startswith("LOCKSTEP mismatch") or lock.startswith("LOCKSTEP aritystuck") or lock == "timeout":
            stats["lockstep_mismatch"] += 1
            ctx.correspondence_broken("shape-machine-vs-vm:%s" % label,
                                      {"program": label, "lockstep": lock, "source": fam[key][1] if kind == "fam" else None})
        elif lock.startswith("LOCKSTEP ok"):
            stats["lockstep_ok"] += 1
            stats["lockstep_faults_observed"] += d2["nfaults"]
            if d2["nfaults"] > 0:
                stats["lockstep_runs_with_fault"] += 1
                shapes.add((d2["ncode"], d2["nexct"], d2["nfaults"], d2["first_fault"]))
                if kind == "fam" and key not in bad_ids and d2["first_fault"] is not None:
                    split_cands.append((key, d2["first_fault"], d2["end"], d2["out"]))
        if len(first_samples) < 3 and kind == "fam" and d2["nfaults"] > 0:
            first_samples.append({"program": label, "module": v["module"], "verify": ver, "lockstep": lock,
                                  "faults_in_trace": d2["nfaults"], "expected": fam[key][2]})
    timing["modules_s"] = round(time.time() - t1, 1)

    # ---- fault sites x probes
    if not getattr(ctx, "replay", None):
        pexc = {n: e for (n, e, _t) in faultgen.SITE_PROBES}
        table, uncovered = {}, []
        for x in sites:
            if x["func"] in faultsites.PRESERVING:
                continue
            hit = sorted(pn for pn, ops in probe_ops.items() if pexc.get(pn) in x["exceptions"] and any(o in x["opcodes"] for o in ops))
            ops_hit = sorted({o for pn in hit for o in probe_ops[pn] if o in x["opcodes"]})
            table[x["id"]] = {"at": "%s:%d" % (x["file"], x["line"]), "raises": x["exceptions"], "opcodes": x["opcodes"],
                              "opcodes_reached": ops_hit, "probes": hit}
            if not hit:
                uncovered.append("%s (%s:%d, %s)" % (x["id"], x["file"], x["line"], ",".join(x["exceptions"])))
        nprobed = len([1 for v_ in table.values() if v_["probes"]])
        ctx.coverage["fault_sites"] = {
            "sites": len(table), "sites_with_a_probe": nprobed, "probes": len(faultgen.SITE_PROBES),
            "probes_that_raised_at_a_listed_site": len([pn for pn in probe_ops if any(pn in v_["probes"] for v_ in table.values())]),
            "rule": "a probe reaches a site when the traced run of its unhandled / clause variants raises at an opcode dispatched to the "
                    "site's handler and the probe's stated exception is the one the site assigns; sites of one handler with the same "
                    "exception are not told apart by the measurement (their probes are listed under each)",
            "site_x_probe": table}
        ctx.notes["NOTE_uncovered_fault_sites"] = uncovered
        ctx.count(nontrivial=nprobed)

    # ---- (4) block boundary right after the faulting address
    t1 = time.time()
    nsplit = 48 if ctx.tier == "quick" else 400
    rng = ctx.rng
    rng.shuffle(split_cands)
    # one per fault kind first
    chosen, seenk = [], set()
    for c in split_cands:
        k = ":".join(fam[c[0]][3].split(":")[:2]) if fam[c[0]][3].split(":")[0] in ("loop", "closure", "recursion") \
            else fam[c[0]][3].split(":")[0]
        if k not in seenk:
            seenk.add(k)
            chosen.append(c)
    chosen += [c for c in split_cands if c not in chosen][: max(0, nsplit - len(chosen))]

    def one_split(c):
        key, a, end, out = c
        path = os.path.join(tmp, "fam%d.nev" % key)
        dumpf = os.path.join(tmp, "split%d.dump" % key)
        env = dict(vmcheck.ENV, C03_SPLIT=str(a + 1))
        try:
            with open(dumpf, "w") as o:
                subprocess.run([excdump, "--trace", "--max-steps", str(steps), path], stdout=o, stderr=subprocess.PIPE,
                               stdin=subprocess.DEVNULL, timeout=60, env=env, cwd=tmp)
        except subprocess.TimeoutExpired:
            return c, None, None
        d = vmcheck.read_dump(dumpf)
        v = tools.verify(dumpf, max_steps=vsteps)
        try:
            os.unlink(dumpf)
        except OSError:
            pass
        return c, d, v
    for c, d, v in vmcheck.pmap(one_split, chosen):
        key, a, end, out = c
        stats["split_runs"] += 1
        ctx.count(evaluations=1)
        if d is None or d["compile"] != 0:
            ctx.correspondence_broken("block-boundary:%s" % fam[key][0], {"error": "patched run did not finish"})
            continue
        split_ok = (a + 1) in [b for b, _h in d["exct"]]
        # the model reads the patched table too: the VM and the shape machine must agree along the whole
        # run, and the fault at a must still be delivered to the handler of a (not of a + 1)
        delivered = a in [x for _i, x in fault_steps(d, names)]
        lock = v["lockstep"]
        if split_ok:
            stats["split_effective"] += 1
        if not delivered or not lock.startswith("LOCKSTEP ok"):
            stats["split_bad"] += 1
            ctx.correspondence_broken(
                "block-boundary-lookup",
                {"program": fam[key][0], "source": fam[key][1], "fault_address": a, "block_split_at": a + 1,
                 "unpatched": {"end": end, "out": out}, "patched": {"end": d["end"], "out": d["out"]}, "lockstep": lock,
                 "fault_at_a_delivered_to_its_handler": delivered,
                 "note": "with a table block starting right after the faulting instruction the VM must still use the handler "
                         "of the faulting address (ip - 1); model: Shape.fault = handler (ip s)"})
    timing["split_s"] = round(time.time() - t1, 1)
    tools.close()

    # ---- evidence
    for s in first_samples:
        ctx.sample(s)
    for i, (pid, src, exp, coords) in enumerate(fam[ncorpus:ncorpus + 2]):
        ctx.sample({"program": pid, "expected": exp, "source_lines": len(src.splitlines())})
    ctx.coverage["distinct_nontrivial"] = stats["family_with_fault"] + len(shapes) + ctx.coverage.get("parts", {}).get("exctab", {}).get("found", 0)
    ctx.coverage["rule"] = (
        "exctab: sorted random tables searched at every block boundary (distinct found-cases counted); "
        "fault programs: templates kind(13 + FFI record arguments with nil string / nil nested-record fields in every position, "
        "callee with a side effect) + faults in module-level initialisers (direct / rethrown out of called functions); kind(13) x argument position k(0..2) x nesting depth d(0..3 frames under construction) x clause "
        "j(0..3) levels up x clause order(first,last,only,dup,catch-all,absent) + faulting clauses + loops + closures + recursion + "
        "controls + operation history (21 prefixes of non-faulting float/double arithmetic) x built-in argument class (33 "
        "failing/non-failing pairs of the 7 math built-ins + 18 never-failing calls) x placement, seeded; expected markers/result/unhandled report from the property's closed form; non-trivial = a fault is "
        "actually raised; modules: every corpus + generated module through the extracted checker and the layout check; lock-step "
        "of the shape machine on every traced run, distinct (code size, table size, #faults, first fault address) counted; "
        "block-boundary: table split right after the first faulting address")
    ctx.coverage["stats"] = dict(stats)
    ctx.coverage["fault_kinds"] = dict(kinds_seen)
    ctx.coverage["timing_s"] = timing
    ctx.coverage["exhaustive"] = False
    ctx.assumptions += [
        "tuple indices are compile-time constants in Never, so index_out_of_bounds on tuples cannot be raised at run time: not generated",
        "overflow and underflow are raised by math built-ins only (exp, pow, sin/tan of a subnormal); float/double arithmetic of the "
        "VM never raises them (it yields inf / 0 / nan silently) - generated as operation history in front of built-in calls",
        "operand kinds flowing through locals/parameters (C01/C02) and arity of dynamic callees (ArityStuck) are outside the shape machine",
        "the shape machine lets every operation fault at every address: theorems cover more faults than the VM can raise",
        "FUNC_FFI raises with ip advanced past its descriptors: the VM looks up some address of the FFI body, which the layout "
        "check requires to be one table block; the block-boundary test skips faults raised by FUNC_FFI",
        "block-boundary test runs the real VM on a module whose exception table was patched by the harness (not emitter output): "
        "a failure there is reported as a broken correspondence, not as a property violation",
    ]
