"""Compile tie (C02, compile correctness): the Coq model of the code generator (coq/Src/Compile.v,
`compile_func`) against the real emitter front/emit.c, and the value-level VM model
(coq/VM/ValueVM.v) against the real VM back/vmexec.c, on generated programs of the proved fragment.

    run_compiletie(ctx, n, seed, level=1)

Pipeline: `build/ocaml/compile/run gen <seed> <first> <k> <dir> <level>` (16 chunks in parallel)
generates programs of the fragment (harness/ocaml/compile/cgen.ml), pretty-prints them and writes,
per case, the instruction list of the extracted `compile_func`, the result of the extracted
ValueVM on that code and the result of the extracted reference evaluator (Src/Eval.v).
Every program is then compiled by the tree's real compiler (harness/vm/bcdump.c through
lib/vmcheck.VmTools) and run by the real VM with the same arguments.

Compared
  (1) code: the region of `main` in the real module, from its FUNC_DEF (the `F` line of the dump)
      to its RETHROW, with the model's instruction list, instruction by instruction: opcode and
      the operand words that the opcode uses (INT value; ID_LOCAL stack_level,index; JUMPZ/JUMP
      offset; SLIDE q,m; GLOBAL_VEC count; MARK return address, which is absolute in the real code
      and relative to the MARK in the model: real w0 - address is compared; ID_FUNC_ADDR: the
      model's operand must be the address of the `F` line of the stdlib function `print`).  The operand of LINE (a source line number, ignored by the modelled VM)
      and the stale words the emitter leaves in operand-less instructions are not compared.
         difference -> ctx.correspondence_broken("compile-model-vs-emit.c", first difference + program)
  (2) run: the real VM's result / exception / printed numbers with ValueVM's on the model code
         difference -> ctx.correspondence_broken("valuevm-vs-vmexec.c", …)
  (3) the extracted evaluator's outcome with ValueVM's (this is what the theorem
      compile_func_correct states; a difference would refute the proof's statement)
         difference -> ctx.correspondence_broken("valuevm-vs-evaluator", …)
  a generated program outside the fragment predicate or rejected by the real compiler
         -> ctx.correspondence_broken("compile-generator", …)
A real-vs-evaluator difference is the business of checks/parts/evaldiff.py (C02 violation); here it
shows up as (2) or (3).  level = 1: fragment F1 (straight-line), 2: F2 (+ && || loops print).
Env COMPILETIE_RUN overrides the runner binary (used to try a model before installing it).

LEVEL 3 (run_compiletie(ctx, n, seed, level=3), which dispatches to run_compiletie3; engine
build/ocaml/compile3 = coq/Src/Compile3.v + coq/VM/ValueVM3.v, the stage-3 model with frames, about which
compile_expr_correct_frames and compile_program_correct_F3 are proved (Properties_C02b.v); levels 1 and 2
stay on the stage-2 model coq/Src/Compile.v + coq/VM/ValueVM.v of the F1/F2 theorems):
Pipeline: `build/ocaml/compile3/run gen <seed> <first> <k> <dir> <level>` (16 chunks in parallel)
generates programs of the fragment (harness/ocaml/compile3/cgen.ml: level 3 = several top-level
functions, calls, recursion to depth 300, self tail calls, faults in callees, argument-order probes;
level 5 = level 3 + catch clauses: named clauses that match / do not match, catch-all clauses, clause
blocks that fault themselves), pretty-prints them and writes,
per case, the model's WHOLE module image (extracted `compile_program`: global prelude, entry stub,
stdlib bodies, every function of the program; linked, i.e. with absolute MARK / ID_FUNC_ADDR
operands), its exception table, the result of the extracted ValueVM (from the entry stub to HALT or
UNHANDLED_EXCEPTION, with the peak stack depth and the number of instructions executed) and the
result of the extracted reference evaluator (Src/Eval.v).  Every program is then compiled by the
tree's real compiler (harness/vm/bcdump.c through lib/vmcheck.VmTools) and run by the real VM with
the same arguments (stack 40000 slots, 400000 cells).

Compared
  (1) code: the real module's whole code array with the model's image, instruction by instruction:
      opcode and the operand words that the opcode uses (INT value; ID_LOCAL stack_level,index;
      JUMPZ/JUMP offset; SLIDE q,m; MARK return address; ID_FUNC_ADDR function address; GLOBAL_VEC
      count; ALLOC n; REWRITE j; BUILD_IN id).  The operand of LINE (a source line number, ignored
      by the modelled VM) and the stale words the emitter leaves in operand-less instructions are
      not compared.  Also: the exception table (all entries), the module's entry address, and the
      address of every function of the program (`F` lines of the dump, which name every function
      region: the image covers them all).
         difference -> ctx.correspondence_broken("compile-model-vs-emit.c", first difference + program)
  (2) run: the real VM's result / unhandled exception / printed numbers with ValueVM's; the real
      peak sp with the model's peak flat stack length - 1; the real number of executed instructions
      with the model's + the length of the global prelude (which the model does not execute)
         difference -> ctx.correspondence_broken("valuevm-vs-vmexec.c", …)
  (3) the extracted evaluator's outcome with ValueVM's (this is what the theorems
      compile_program_correct_F* state; a difference would refute the proof's statement)
         difference -> ctx.correspondence_broken("valuevm-vs-evaluator", …)
  a generated program outside the fragment predicate or rejected by the real compiler
         -> ctx.correspondence_broken("compile-generator", …)
A real-vs-evaluator difference is the business of checks/parts/evaldiff.py (C02 violation); here it
shows up as (2) or (3).  Env COMPILETIE_RUN3 overrides the level-3 runner binary.

LEVEL 4 (closures): the same pipeline and the same comparisons (whole code array, exception table, entry
and function addresses; result, prints, exception, peak sp, instruction count; evaluator) with the engine
build/ocaml/compile4 = coq/Src/Compile4.v + coq/VM/ValueVM4.v (Compile3.v + nested functions and
closures: free-variable lists of front/gencode.c, ALLOC / REWRITE runs, FUNC_OBJ … GLOBAL_VEC n;
ID_FUNC_ADDR closures, ID_GLOBAL / COPYGLOB, callee expressions, bodies of nested functions breadth-first
after the top-level ones; typed heap cells and the register gp in the VM).  The generator
(harness/ocaml/compile4/cgen.ml) makes programs with runs of sibling functions, function expressions,
captured parameters / let / var at any depth, function values stored, passed, returned and called after
the definer returned, counters shared between closures, recursive and mutually recursive nested
functions, catch clauses in nested functions.  Env COMPILETIE_RUN4 overrides the runner binary.
"""
import concurrent.futures
import os
import re
import shutil
import tempfile

from lib import common, vmcheck

RUN = os.environ.get("COMPILETIE_RUN") or os.path.join(common.BUILD, "ocaml", "compile", "run")
RUN3 = os.environ.get("COMPILETIE_RUN3") or os.path.join(common.BUILD, "ocaml", "compile3", "run")
RUN4 = os.environ.get("COMPILETIE_RUN4") or os.path.join(common.BUILD, "ocaml", "compile4", "run")
NPROC = 16

EXC_NAMES = {1: "division_by_zero", 2: "wrong_array_size", 3: "index_out_of_bounds", 4: "invalid_domain",
             5: "overflow", 6: "underflow", 7: "inexact", 8: "nil_pointer", 9: "ffi_fail"}


def meaningful(names):
    """opcode number -> number of operand words compared"""
    use = {}
    for i, n in enumerate(names):
        s = n.replace("BYTECODE_", "")
        if s == "INT":
            use[i] = 1
        elif s in ("ID_LOCAL", "SLIDE"):
            use[i] = 2
        elif s in ("JUMPZ", "JUMP", "MARK", "ID_GLOBAL", "GLOBAL_VEC", "ID_FUNC_ADDR", "BUILD_IN", "CLEAR_STACK"):
            use[i] = 1
        else:
            use[i] = 0
    return use


def parse_model(path):
    cases, cur = [], None
    for l in open(path):
        if l.startswith("@@CASE"):
            p = l.split()
            kv = dict(x.split("=", 1) for x in p[2:])
            cur = {"i": int(p[1]), "level": int(kv["level"]), "in_fragment": kv["in_fragment"] == "1",
                   "args": [a for a in kv["args"].split(",") if a != ""], "code": [], "V": None, "E": None}
        elif l.startswith("C ") and cur is not None:
            p = l.split()
            cur["code"].append((int(p[1]), int(p[2]), int(p[3])))
        elif l.startswith("V ") and cur is not None:
            cur["V"] = l[2:].strip()
        elif l.startswith("E ") and cur is not None:
            cur["E"] = l[2:].strip()
        elif l.startswith("@@END") and cur is not None:
            cases.append(cur)
            cur = None
    return cases


def real_outcome(d):
    """canonical 'ret z [p,…]' / 'exc name [p,…]' of a traced bcdump run"""
    out = bytes.fromhex(d["out"]).decode(errors="replace") if d["out"] else ""
    printed = [l.strip() for l in out.split("\n") if re.match(r"^-?\d+$", l.strip())]
    pr = "[" + ",".join(printed) + "]"
    e = d["end"] or ""
    m = re.match(r"END 0 int (-?\d+)", e)
    if m:
        return "ret %s %s" % (m.group(1), pr)
    m = re.match(r"END (-?\d+) exc (\d+)", e)
    if m:
        return "exc %s %s" % (EXC_NAMES.get(int(m.group(2)), m.group(2)), pr)
    return "other %s" % e


def run_compiletie(ctx, n, seed, level=1, keep=None):
    if level >= 3:
        return run_compiletie3(ctx, n, seed, level, keep)
    ok, log = common.ocaml_build("compile")
    if not ok or not os.path.exists(RUN):
        ctx.correspondence_broken("compile-engine-build", log[-2000:])
        return None
    tools = vmcheck.VmTools("plain")
    names = vmcheck.opcode_names()
    use = meaningful(names)
    rethrow = names.index("BYTECODE_RETHROW")
    line_op = names.index("BYTECODE_LINE")
    mark_op = names.index("BYTECODE_MARK")
    funcaddr_op = names.index("BYTECODE_ID_FUNC_ADDR")
    tmp = tempfile.mkdtemp(prefix="nvct.", dir="/var/tmp")
    res = {"programs": 0, "equal": 0, "instructions": 0, "run_equal": 0, "faults": 0, "opcodes": {},
           "code_diffs": [], "run_diffs": [], "eval_diffs": [], "gen_problems": [], "distinct": set()}
    try:
        chunk = max(1, (n + NPROC - 1) // NPROC)
        jobs = []
        for k in range(NPROC):
            first = k * chunk
            cnt = min(chunk, n - first)
            if cnt <= 0:
                break
            d = os.path.join(tmp, "j%d" % k)
            os.makedirs(d)
            jobs.append((first, cnt, d))

        def gen(job):
            first, cnt, d = job
            rc, so, se = common.sh([RUN, "gen", str(seed), str(first), str(cnt), d, str(level)], timeout=900)
            return rc, se, d

        def one(arg):
            d, c = arg
            path = os.path.join(d, "c%d.nev" % c["i"])
            extra = []
            for a in c["args"]:
                extra += ["--arg", a]
            dump, rc, err = tools.dump("ct%d" % c["i"], path, d, trace=True, max_steps=200000, extra=["--peak"] + extra)
            dd = vmcheck.read_dump(dump)
            try:
                os.unlink(dump)
            except OSError:
                pass
            return c, path, dd, err

        work = []
        with concurrent.futures.ThreadPoolExecutor(NPROC) as ex:
            for rc, se, d in ex.map(gen, jobs):
                if rc != 0:
                    res["gen_problems"].append({"what": "generator failed", "log": se[-1500:]})
                    continue
                for c in parse_model(os.path.join(d, "model.txt")):
                    work.append((d, c))
            for c, path, dd, err in ex.map(one, work):
                res["programs"] += 1
                src = open(path).read()
                case = {"case": c["i"], "seed": seed, "level": level, "args": c["args"], "source": src}
                if not c["in_fragment"]:
                    res["gen_problems"].append(dict(case, what="generated program outside the fragment predicate"))
                    continue
                if dd["compile"] != 0:
                    res["gen_problems"].append(dict(case, what="real compiler rejects the program", log=err[-800:]))
                    continue
                f = [x for x in dd["funcs"] if x[4] == "main"]
                if len(f) != 1:
                    res["gen_problems"].append(dict(case, what="no unique main in the dump"))
                    continue
                a = f[0][0]
                real = []
                while a < len(dd["code"]):
                    real.append(dd["code"][a])
                    if dd["code"][a][0] == rethrow:
                        break
                    a += 1
                model = c["code"]
                diff = None
                for k in range(max(len(real), len(model))):
                    if k >= len(real) or k >= len(model):
                        diff = (k, real[k] if k < len(real) else None, model[k] if k < len(model) else None)
                        break
                    r, m = real[k], model[k]
                    nw = use.get(r[0], 0)
                    if r[0] == mark_op:
                        r = (r[0], r[1] - (f[0][0] + k), r[2], r[3])       # relocate: absolute -> relative
                    if r[0] == funcaddr_op and r[0] == m[0]:
                        callee = [x for x in dd["funcs"] if x[0] == r[1]]
                        if not callee or callee[0][4] != "print":
                            diff = (k, r, m)
                            break
                    if r[0] != m[0] or tuple(r[1:1 + nw]) != tuple(m[1:1 + nw]):
                        diff = (k, r, m)
                        break
                if diff is not None:
                    k, r, m = diff
                    res["code_diffs"].append(dict(case, at=k,
                                                  real=(names[r[0]], r[1], r[2]) if r else None,
                                                  model=(names[m[0]], m[1], m[2]) if m else None))
                    continue
                res["equal"] += 1
                res["instructions"] += len(real)
                for r in real:
                    res["opcodes"][names[r[0]]] = res["opcodes"].get(names[r[0]], 0) + 1
                res["distinct"].add(tuple((r[0],) + tuple(r[1:1 + use.get(r[0], 0)]) for r in real))
                ro = real_outcome(dd)
                if ro != c["V"]:
                    res["run_diffs"].append(dict(case, real=ro, valuevm=c["V"], evaluator=c["E"]))
                else:
                    res["run_equal"] += 1
                    if ro.startswith("exc"):
                        res["faults"] += 1
                if c["V"] != c["E"]:
                    res["eval_diffs"].append(dict(case, valuevm=c["V"], evaluator=c["E"], real=ro))
    finally:
        tools.close()
        if keep:
            shutil.copytree(tmp, keep, dirs_exist_ok=True)
        shutil.rmtree(tmp, ignore_errors=True)

    if res["gen_problems"]:
        ctx.correspondence_broken("compile-generator", {"count": len(res["gen_problems"]), "first": res["gen_problems"][0]})
    if res["code_diffs"]:
        ctx.correspondence_broken("compile-model-vs-emit.c", {"count": len(res["code_diffs"]), "first": res["code_diffs"][0]})
    if res["run_diffs"]:
        ctx.correspondence_broken("valuevm-vs-vmexec.c", {"count": len(res["run_diffs"]), "first": res["run_diffs"][0]})
    if res["eval_diffs"]:
        ctx.correspondence_broken("valuevm-vs-evaluator", {"count": len(res["eval_diffs"]), "first": res["eval_diffs"][0]})
    ndist = len(res["distinct"])
    res["distinct"] = ndist
    ctx.count(evaluations=res["programs"], nontrivial=ndist)
    ctx.notes["compiletie_level%d" % level] = {
        "programs": res["programs"], "code_equal": res["equal"], "instructions_compared": res["instructions"],
        "distinct_code_regions": ndist, "run_equal": res["run_equal"], "runs_ending_in_exception": res["faults"],
        "opcodes": res["opcodes"]}
    return res


# ---- level 3: whole module image, frames ------------------------------------------------------
def meaningful3(names):
    """opcode number -> number of operand words compared"""
    use = {}
    for i, n in enumerate(names):
        s = n.replace("BYTECODE_", "")
        if s == "INT":
            use[i] = 1
        elif s in ("ID_LOCAL", "SLIDE", "VECREF_VEC_DEREF"):
            use[i] = 2
        elif s in ("JUMPZ", "JUMP", "MARK", "ID_GLOBAL", "GLOBAL_VEC", "ID_FUNC_ADDR", "BUILD_IN", "CLEAR_STACK", "RECORD",
                   "ALLOC", "REWRITE", "MK_INIT_ARRAY", "ARRAYREF_DEREF"):   # COPYGLOB, FUNC_OBJ, CALL … have no operand
            use[i] = 1
        else:
            use[i] = 0
    return use


def parse_model3(path):
    cases, cur = [], None
    for l in open(path):
        if l.startswith("@@CASE"):
            p = l.split()
            kv = dict(x.split("=", 1) for x in p[2:])
            cur = {"i": int(p[1]), "level": int(kv["level"]), "in_fragment": kv["in_fragment"] == "1",
                   "args": [a for a in kv["args"].split(",") if a != ""], "code": [], "V": None, "E": None,
                   "exct": [], "entry": None, "main": None, "peak": None, "steps": None,
                   # the fragment predicate of the level's THEOREM (engine compile4 prints it; for compile3 the
                   # tie's predicate prog_in_F 3 / 5 IS the predicate of compile_program_correct_F3 / F5)
                   "in_proved": (kv["in_proved"] == "1") if "in_proved" in kv else (kv["in_fragment"] == "1")}
        elif l.startswith("C ") and cur is not None:
            p = l.split()
            cur["code"].append((int(p[1]), int(p[2]), int(p[3])))
        elif l.startswith("X ") and cur is not None:
            p = l.split()
            cur["exct"].append((int(p[1]), int(p[2])))
        elif l.startswith("M ") and cur is not None:
            kv = dict(x.split("=", 1) for x in l.split()[1:])
            cur["entry"], cur["main"] = int(kv["entry"]), int(kv["main"])
        elif l.startswith("V ") and cur is not None:
            m = re.match(r"^(.*?)\s+peak=(\d+) steps=(\d+)$", l[2:].strip())
            cur["V"], cur["peak"], cur["steps"] = m.group(1), int(m.group(2)), int(m.group(3))
        elif l.startswith("E ") and cur is not None:
            cur["E"] = l[2:].strip()
        elif l.startswith("@@END") and cur is not None:
            cases.append(cur)
            cur = None
    return cases


def run_compiletie3(ctx, n, seed, level=3, keep=None):
    engine, runner = ("compile4", RUN4) if level in (4, 7, 8) else ("compile3", RUN3)    # level 7 = level 4 + int arrays, 8 = 7 + records
    if not (level in (4, 7, 8) and os.environ.get("COMPILETIE_RUN4")):
        ok, log = common.ocaml_build(engine)
        if not ok or not os.path.exists(runner):
            ctx.correspondence_broken("compile-engine-build", log[-2000:])
            return None
    tools = vmcheck.VmTools("plain")
    names = vmcheck.opcode_names()
    use = meaningful3(names)
    rethrow = names.index("BYTECODE_RETHROW")
    line_op = names.index("BYTECODE_LINE")
    mark_op = names.index("BYTECODE_MARK")
    funcaddr_op = names.index("BYTECODE_ID_FUNC_ADDR")
    tmp = tempfile.mkdtemp(prefix="nvct.", dir="/var/tmp")
    res = {"programs": 0, "equal": 0, "instructions": 0, "run_equal": 0, "faults": 0, "opcodes": {},
           "functions": 0, "max_depth": 0, "max_peak": 0, "proved": 0,
           "code_diffs": [], "run_diffs": [], "eval_diffs": [], "gen_problems": [], "distinct": set()}
    try:
        chunk = max(1, (n + NPROC - 1) // NPROC)
        jobs = []
        for k in range(NPROC):
            first = k * chunk
            cnt = min(chunk, n - first)
            if cnt <= 0:
                break
            d = os.path.join(tmp, "j%d" % k)
            os.makedirs(d)
            jobs.append((first, cnt, d))

        def gen(job):
            first, cnt, d = job
            cmd = "ulimit -s unlimited 2>/dev/null || ulimit -s 4000000 2>/dev/null; exec '%s' gen %d %d %d '%s' %d" % (
                runner, seed, first, cnt, d, level)
            rc, so, se = common.sh(["bash", "-c", cmd], timeout=900)
            return rc, se, d

        def one(arg):
            d, c = arg
            path = os.path.join(d, "c%d.nev" % c["i"])
            extra = []
            for a in c["args"]:
                extra += ["--arg", a]
            dump, rc, err = tools.dump("ct%d" % c["i"], path, d, trace=True, max_steps=2000000,
                                       extra=["--peak", "--stack", "40000", "--mem", "400000"] + extra)
            dd = vmcheck.read_dump(dump)
            dd["peak"] = None
            try:
                for l in open(dump, errors="replace"):
                    if l.startswith("PEAK "):
                        dd["peak"] = l.strip()
            except OSError:
                pass
            try:
                os.unlink(dump)
            except OSError:
                pass
            return c, path, dd, err

        work = []
        with concurrent.futures.ThreadPoolExecutor(NPROC) as ex:
            for rc, se, d in ex.map(gen, jobs):
                if rc != 0:
                    res["gen_problems"].append({"what": "generator failed", "log": se[-1500:]})
                    continue
                for c in parse_model3(os.path.join(d, "model.txt")):
                    work.append((d, c))
            for c, path, dd, err in ex.map(one, work):
                res["programs"] += 1
                src = open(path).read()
                case = {"case": c["i"], "seed": seed, "level": level, "args": c["args"], "source": src}
                if not c["in_fragment"]:
                    res["gen_problems"].append(dict(case, what="generated program outside the fragment predicate"))
                    continue
                if dd["compile"] != 0:
                    res["gen_problems"].append(dict(case, what="real compiler rejects the program", log=err[-800:]))
                    continue
                f = [x for x in dd["funcs"] if x[4] == "main"]
                if len(f) != 1:
                    res["gen_problems"].append(dict(case, what="no unique main in the dump"))
                    continue
                real = dd["code"]
                model = c["code"]
                user_first = min([x[0] for x in dd["funcs"][30:]] or [0])
                diff = None
                for k in range(max(len(real), len(model))):
                    if k >= len(real) or k >= len(model):
                        diff = (k, real[k] if k < len(real) else None, model[k] if k < len(model) else None)
                        break
                    r, m = real[k], model[k]
                    nw = use.get(r[0], 0)
                    if r[0] != m[0] or tuple(r[1:1 + nw]) != tuple(m[1:1 + nw]):
                        diff = (k, r, m)
                        break
                if diff is None and list(dd["exct"]) != list(c["exct"]):
                    bad = [k for k in range(max(len(dd["exct"]), len(c["exct"])))
                           if k >= len(dd["exct"]) or k >= len(c["exct"]) or dd["exct"][k] != c["exct"][k]][0]
                    res["code_diffs"].append(dict(case, at="exception table entry %d" % bad,
                                                  real=dd["exct"][bad] if bad < len(dd["exct"]) else None,
                                                  model=c["exct"][bad] if bad < len(c["exct"]) else None))
                    continue
                if diff is None and (dd["entry"] != c["entry"] or f[0][0] != c["main"]):
                    res["code_diffs"].append(dict(case, at="entry addresses", real=(dd["entry"], f[0][0]),
                                                  model=(c["entry"], c["main"])))
                    continue
                if diff is not None:
                    k, r, m = diff
                    res["code_diffs"].append(dict(case, at=k,
                                                  real=(names[r[0]], r[1], r[2]) if r else None,
                                                  model=(names[m[0]], m[1], m[2]) if m else None))
                    continue
                res["equal"] += 1
                res["instructions"] += len(real)
                res["functions"] += len(dd["funcs"]) - 30
                for r in real[user_first:]:
                    res["opcodes"][names[r[0]]] = res["opcodes"].get(names[r[0]], 0) + 1
                res["distinct"].add(tuple((r[0],) + tuple(r[1:1 + use.get(r[0], 0)]) for r in real[user_first:]))
                ro = real_outcome(dd)
                pk = re.search(r"PEAK sp=(-?\d+) maxdepth=(\d+) steps=(\d+)", dd.get("peak") or "")
                rpeak, rdepth, rsteps = (int(pk.group(1)), int(pk.group(2)), int(pk.group(3))) if pk else (None, None, None)
                res["max_depth"] = max(res["max_depth"], rdepth or 0)
                res["max_peak"] = max(res["max_peak"], rpeak or 0)
                if ro != c["V"]:
                    res["run_diffs"].append(dict(case, real=ro, valuevm=c["V"], evaluator=c["E"]))
                elif rpeak is None or rpeak != c["peak"] - 1 or rsteps != c["steps"] + c["entry"]:
                    res["run_diffs"].append(dict(case, what="peak sp / instruction count", real=(rpeak, rsteps),
                                                 valuevm=(c["peak"] - 1, c["steps"] + c["entry"])))
                else:
                    res["run_equal"] += 1
                    if c.get("in_proved"):
                        res["proved"] += 1
                    if ro.startswith("exc"):
                        res["faults"] += 1
                if c["V"] != c["E"]:
                    res["eval_diffs"].append(dict(case, valuevm=c["V"], evaluator=c["E"], real=ro))
    finally:
        tools.close()
        if keep:
            shutil.copytree(tmp, keep, dirs_exist_ok=True)
        shutil.rmtree(tmp, ignore_errors=True)

    if res["gen_problems"]:
        ctx.correspondence_broken("compile-generator", {"count": len(res["gen_problems"]), "first": res["gen_problems"][0]})
    if res["code_diffs"]:
        ctx.correspondence_broken("compile-model-vs-emit.c", {"count": len(res["code_diffs"]), "first": res["code_diffs"][0]})
    if res["run_diffs"]:
        ctx.correspondence_broken("valuevm-vs-vmexec.c", {"count": len(res["run_diffs"]), "first": res["run_diffs"][0]})
    if res["eval_diffs"]:
        ctx.correspondence_broken("valuevm-vs-evaluator", {"count": len(res["eval_diffs"]), "first": res["eval_diffs"][0]})
    ndist = len(res["distinct"])
    res["distinct"] = ndist
    ctx.count(evaluations=res["programs"], nontrivial=ndist)
    ctx.notes["compiletie_level%d" % level] = {
        "programs": res["programs"], "code_equal": res["equal"], "instructions_compared": res["instructions"],
        "program_functions_compared": res["functions"], "deepest_frame_chain": res["max_depth"],
        "largest_peak_sp": res["max_peak"],
        "distinct_code_regions": ndist, "run_equal": res["run_equal"], "runs_ending_in_exception": res["faults"],
        # of the programs tied (code and run equal): how many satisfy the fragment predicate of the level's theorem
        # (3: F3, 5: F5, 4: F4 = prog_in_P 5 || prog_in_P 6, 7: F7, 8: F8) and how many are tied only
        "tied_and_inside_theorem_fragment": res["proved"], "tied_only": res["run_equal"] - res["proved"],
        "opcodes": res["opcodes"]}
    return res
