"""C05 — the compiler is total (DESIGN.md §5 C05; partial by nature, §11).

Proof side   coq/Front/{MsgBuf,UseStack,Outcome}*.v, statements in Properties_C05.v; the
             constants and size expressions they talk about are regenerated from /repo's
             sources on every run (gen/gen_frontconsts.py -> coq/Gen/FrontConsts.v).
Tie          (a) print_msg: the extracted length arithmetic predicts for each observed
             (prefix, body) length whether the real print_msg overflows; ASan decides;
             (b) include stack: the extracted scanner walk predicts use_stack_ptr after every
             `use` token on generated module graphs; the real scanner (tokens mode) decides;
             (c) the extracted, verified classifier is the oracle of the search.
Search       harness/front/compiledrive.c (ASan+UBSan build, fork per input, alarm) over the
             sample corpus, token mutations, generated programs with injected faults, raw
             bytes, long tokens, deep nesting, `use` graphs; forms (every expression form around a lambda
             capturing an enclosing local / around an enum record, constructed and not: these carry the expected
             verdict accept|reject -> keys accepted-ill-formed:*, rejected-well-formed:*), extern declarations
             over records with every member kind, NEVER_PATH values with missing / non-directory / empty /
             unenterable components first, in the middle, last (time-out oracle -> hang:never-path).  NOT a proof: termination and
             memory safety of the C front end are only observed on the inputs run.
"""
LEVEL = "proof"

import base64
import glob
import hashlib
import json
import os
import random
import re
import resource
import shutil
import subprocess
import sys
import tempfile
import time

from lib import common

sys.path.insert(0, os.path.join(common.VERIF, "gen"))

NPROC = 16
SAMPLE_DIR = os.path.join(common.REPO, "sample")
SAMPLE_PATH = "%s:%s" % (os.path.join(SAMPLE_DIR, "lib"), SAMPLE_DIR)
ASAN_ENV = {
    "ASAN_OPTIONS": "detect_leaks=0:exitcode=97:allocator_may_return_null=1:handle_abort=1:"
                    "detect_stack_use_after_return=0:symbolize=1:max_malloc_fill_size=0",
    "UBSAN_OPTIONS": "print_stacktrace=1:halt_on_error=1",
}


# =============================================================================================
# running cases through a C driver, 16 processes
# =============================================================================================
class Case:
    __slots__ = ("id", "cls", "data", "mode", "path", "meta")

    def __init__(self, cid, cls, data, mode="str", path=None, meta=None):
        self.id, self.cls, self.data, self.mode, self.path, self.meta = cid, cls, data, mode, path, meta or {}


class Obs:
    __slots__ = ("id", "status", "res", "ret", "msgs", "diag", "use")

    def __init__(self, cid, status, res, diag):
        self.id, self.status, self.res, self.diag = cid, status, res, diag
        self.ret = self.msgs = self.use = None
        if res.startswith("RET_"):
            a = res.split("_")
            self.ret, self.msgs = int(a[1]), int(a[2])
        elif res.startswith("USE_"):
            a = res.split("_")
            self.use = ([int(x) for x in a[1].split(",") if x != ""], int(a[2]))


def write_batch(path, cases):
    with open(path, "wb") as f:
        for c in cases:
            hdr = "@@@ %s %d %s" % (c.id, len(c.data), c.mode)
            if c.path:
                hdr += " path=%s" % c.path
            f.write(hdr.encode() + b"\n" + c.data + b"\n")


def parse_driver_output(buf):
    out, i, n = [], 0, len(buf)
    while i < n:
        j = buf.find(b"\n", i)
        if j < 0:
            break
        hdr = buf[i:j].decode("latin-1")
        m = re.match(r"@@CASE (\S+) status=(\S+) res=(\S+) len=(\d+)$", hdr)
        if not m:
            i = j + 1
            continue
        L = int(m.group(4))
        diag = buf[j + 1:j + 1 + L]
        out.append(Obs(m.group(1), m.group(2), m.group(3), diag))
        i = j + 1 + L + 1
    return out


def limit_stack(nbytes):
    def f():
        try:
            resource.setrlimit(resource.RLIMIT_STACK, (nbytes, resource.getrlimit(resource.RLIMIT_STACK)[1]))
        except Exception:
            pass
        try:
            resource.setrlimit(resource.RLIMIT_CORE, (0, 0))
        except Exception:
            pass
    return f


def run_cases(drv, cases, workdir, timeout=10, nproc=NPROC, extra_env=None, tag="b"):
    """Run cases through compiledrive in nproc parallel processes; returns {id: Obs}."""
    if not cases:
        return {}
    order = sorted(cases, key=lambda c: -len(c.data))
    buckets = [[] for _ in range(min(nproc, len(order)))]
    for k, c in enumerate(order):
        buckets[k % len(buckets)].append(c)
    env = dict(os.environ)
    env.update(ASAN_ENV)
    env.pop("NEVER_PATH", None)
    if extra_env:
        env.update(extra_env)
    procs = []
    for k, b in enumerate(buckets):
        bp = os.path.join(workdir, "%s%d.in" % (tag, k))
        op = os.path.join(workdir, "%s%d.out" % (tag, k))
        write_batch(bp, b)
        fo = open(op, "wb")
        p = subprocess.Popen([drv, "--batch", bp, "--tmpdir", workdir, "--timeout", str(timeout)],
                             stdout=fo, stderr=subprocess.DEVNULL, env=env, cwd=workdir,
                             preexec_fn=limit_stack(8 << 20))
        procs.append((p, fo, op, bp, b))
    res = {}
    for p, fo, op, bp, b in procs:
        try:
            p.wait(timeout=timeout * len(b) + 120)
        except subprocess.TimeoutExpired:
            p.kill()
        fo.close()
        for o in parse_driver_output(open(op, "rb").read()):
            res[o.id] = o
        os.unlink(op)
        os.unlink(bp)
    return res


def build_driver(name, srcs, variant, extra=""):
    """Driver binary kept under build/drivers/<name>.<variant>.<treehash>: it links libnev.a statically,
    so it survives the pruning of /verif/.cache by concurrent builds of other trees."""
    ddir = os.path.join(common.BUILD, "drivers")
    os.makedirs(ddir, exist_ok=True)
    last = None
    for attempt in range(4):
        try:
            lib = common.repobuild(variant)
            h = os.path.basename(os.path.dirname(lib))
            out = os.path.join(ddir, "%s.%s.%s" % (name, variant, h))
            drv = common.cc_driver(name, srcs, lib, extra=extra, out=out)
            old = sorted(glob.glob(os.path.join(ddir, "%s.%s.*" % (name, variant))), key=os.path.getmtime)
            for o in [x for x in old if not x.endswith(".stamp") and x != out][:-3]:
                for f in (o, o + ".stamp"):
                    try:
                        os.unlink(f)
                    except OSError:
                        pass
            return drv
        except (common.BuildError, OSError) as e:
            last = e
            time.sleep(1 + attempt)
    raise common.BuildError(str(last))


OCAML_EXE = {}


def pin_ocaml(engine, workdir):
    """Private copy of build/ocaml/<engine>/run, taken under the build lock: concurrent
    bin/build-ocaml runs relink that file in place."""
    src = os.path.join(common.BUILD, "ocaml", engine, "run")
    dst = os.path.join(workdir, engine + "run")
    for attempt in range(5):
        try:
            with common.Lock("ocaml"):
                shutil.copy2(src, dst)
            os.chmod(dst, 0o755)
            OCAML_EXE[engine] = dst
            return dst
        except OSError:
            time.sleep(1 + attempt)
            common.ocaml_build()
    raise common.BuildError("cannot copy %s" % src)


def build_engine_privately(engine, workdir):
    """Fallback when bin/build-ocaml fails on some OTHER engine: extract and link only this one."""
    d = os.path.join(workdir, "ocaml_" + engine)
    os.makedirs(d, exist_ok=True)
    ex = os.path.join(common.COQ, "Extract", "Extract%s.v" % engine.capitalize())
    rc, so, se = common.sh("coqc -Q %s NV %s -o %s/Extract%s.vo" % (common.COQ, ex, d, engine.capitalize()), cwd=d, timeout=300)
    if rc != 0:
        return None, so + se
    for f in glob.glob(os.path.join(common.VERIF, "harness", "ocaml", engine, "*.ml")):
        shutil.copy(f, d)
    rc, so, se = common.sh("files=\"$(ocamlfind ocamldep -sort *.mli *.ml)\" && ocamlfind ocamlopt -O3 -w -a -package unix,str -linkpkg $files -o run 2>build.log"
                           " || ocamlfind ocamlopt -w -a -package unix,str -linkpkg $files -o run", cwd=d, timeout=300)
    if rc != 0:
        return None, so + se
    OCAML_EXE[engine] = os.path.join(d, "run")
    return OCAML_EXE[engine], ""


def get_ocaml(ctx, engine, workdir):
    ok, log = common.ocaml_build()
    if ok:
        try:
            return pin_ocaml(engine, workdir)
        except common.BuildError:
            pass
    exe, log2 = build_engine_privately(engine, workdir)
    if exe is None:
        ctx.correspondence_broken("ocaml-build", (log + log2)[-2000:])
    elif not ok:
        ctx.notes["ocaml_build_note"] = "bin/build-ocaml failed on another engine; %s was extracted and linked privately" % engine
    return exe


def private_copy(path, workdir):
    """the shared driver may be pruned or rebuilt by a concurrent check of another tree: work on a copy"""
    dst = os.path.join(workdir, os.path.basename(path))
    for attempt in range(3):
        try:
            shutil.copy2(path, dst)
            os.chmod(dst, 0o755)
            return dst
        except OSError:
            time.sleep(1)
    return path


def run_ocaml(mode, inp, engine="front"):
    exe = OCAML_EXE.get(engine) or os.path.join(common.BUILD, "ocaml", engine, "run")
    p = subprocess.run([exe] + ([mode] if mode else []), input=inp, stdout=subprocess.PIPE, stderr=subprocess.PIPE,
                       preexec_fn=limit_stack(1 << 30))
    return p.stdout.decode("latin-1")


def classify(observations):
    """The extracted, verified classifier decides every completed observation."""
    todo = [o for o in observations if o.ret is not None]
    if not todo:
        return {}
    buf = b"".join(b"C %s %d %d\n" % (o.id.encode(), o.ret, len(o.diag)) + o.diag + b"\n" for o in todo)
    out = run_ocaml("classify", buf)
    res = {}
    for line in out.splitlines():
        a = line.split(" ")
        if len(a) == 2:
            res[a[0]] = a[1]
    return res


# =============================================================================================
# turning an observation into a verdict with a stable key
# =============================================================================================
FRAME = re.compile(rb"#\d+ 0x[0-9a-f]+ in (\S+) ((?:/[^\s:]*/)?(front|back)/[^\s:]+):(\d+)")
KEY_ALIAS = {
    "print_msg:stack-buffer-overflow": "print_msg:overflow",
    "ret0-after-error:cannot-open-module": "use:missing-module-ret0",
    "ret0-after-error:module-uses-are": "use:nested-too-deep-ret0",
}


def slug(s, n=4):
    w = re.findall(r"[A-Za-z]+", s)
    return "-".join(w[:n]).lower() or "none"


def first_repo_frame(diag):
    for m in FRAME.finditer(diag):
        fn = m.group(1).decode()
        if fn.startswith("__interceptor") or fn.startswith("__asan") or fn.startswith("__ubsan"):
            continue
        src = m.group(2).decode()
        src = src[src.rfind("front/"):] if "front/" in src else src[src.rfind("back/"):]
        return fn, src, int(m.group(4))
    return None


def crash_key(diag, status):
    """(key, summary) for an observation that did not finish normally."""
    a = re.search(rb"([\w/.]{1,200}):(\d+): (\w+): Assertion `([^']*)' failed", diag) if b"Assertion `" in diag else None
    if a:
        return "%s:assert" % a.group(3).decode(), "assertion `%s' failed in %s (%s:%s): the process aborts" % (
            a.group(4).decode("latin-1"), a.group(3).decode(), a.group(1).decode(), a.group(2).decode())
    m = re.search(rb"ERROR: AddressSanitizer: (\S+)", diag)
    fr = first_repo_frame(diag[m.start():] if m else diag)
    fn = fr[0] if fr else "unknown"
    if m:
        kind = m.group(1).decode()
        if kind == "SEGV":
            z = re.search(rb"SEGV on unknown address (0x[0-9a-f]+)", diag)
            kind = "null-deref" if z and int(z.group(1), 16) < 4096 else "segv"
        elif kind == "FPE":
            kind = "sigfpe"
        elif kind == "stack-overflow":
            return "stack-overflow:%s" % fn, "stack overflow (recursion) in %s" % fn
        key = "%s:%s" % (fn, kind)
        return KEY_ALIAS.get(key, key), "AddressSanitizer %s in %s (%s:%d)" % (kind, fn, fr[1] if fr else "?", fr[2] if fr else 0)
    u = re.search(rb"^([\w/.]{1,200}):(\d+):\d+: runtime error: ([^\n]*)", diag, re.M) if b": runtime error: " in diag else None
    if u:
        msg = u.group(3).decode("latin-1")
        kind = "null-deref" if "null pointer" in msg else "ubsan-" + slug(msg, 3)
        src = u.group(1).decode()
        if fn == "unknown":
            fn = os.path.basename(src).replace(".c", "") + "_%s" % u.group(2).decode()
        if fn == "symtab_add_matchbind_from_matchbind_list" and kind == "null-deref" and b"struct enumerator" in u.group(3):
            return "tcmatch:null-enumerator", "NULL enumerator dereferenced in %s (%s:%s)" % (fn, src, u.group(2).decode())
        return "%s:%s" % (fn, kind), "UBSan: %s in %s (%s:%s)" % (msg, fn, src, u.group(2).decode())
    if status == "timeout":
        return None, "timeout"
    fl = re.search(rb"(input in flex scanner failed|flex scanner jammed|fatal flex scanner internal error[^\n]*|"
                   rb"out of dynamic memory in [a-z_()]+|bad buffer in [a-z_()]+|input buffer overflow[^\n]*)", diag)
    if fl and status == "exit_2":
        msg = fl.group(1).decode("latin-1")
        return "scanner:flex-fatal-exit:%s" % slug(msg, 4), \
            "the generated scanner called exit(2) from YY_FATAL_ERROR (\"%s\"): the compilation never returns to its caller" % msg
    return "%s:%s" % (fn, status), "child ended with %s" % status


def error_lines(diag):
    return [l for l in diag.split(b"\n") if b"error:" in l]


def judge(case, obs, verdicts):
    """-> (kind, key, what) ; kind in ok|diagnosed|violation|timeout|asan-stack"""
    if obs is None:
        return "violation", "driver:no-observation:%s" % case.cls, "driver produced no record for the case"
    if obs.status == "timeout":
        return "timeout", "hang:%s" % case.cls, "compilation did not finish within the time limit"
    if obs.ret is None and obs.use is None:
        key, what = crash_key(obs.diag, obs.status)
        if key and key.startswith("stack-overflow:"):
            return "asan-stack", key, what
        return "violation", key, what
    if obs.status != "exit_0":
        key, what = crash_key(obs.diag, obs.status)
        return "violation", key + ":teardown", what + " (after the compilation returned, in program_delete)"
    if obs.use is not None:
        return "ok", None, None
    v = verdicts.get(obs.id)
    if v is None:
        return "harness", "classifier:no-verdict", "the extracted classifier returned no verdict for this observation"
    if v == "ok":
        return "ok", None, None
    if v == "diagnosed":
        return "diagnosed", None, None
    if obs.ret == 0:
        el = error_lines(obs.diag)
        # the LAST error line names the construct that gave up (earlier ones are often the detailed
        # "expected param ..." lines of a helper, which vary with the types involved)
        msg = el[-1].split(b"error:", 1)[1].decode("latin-1") if el else ""
        key = "ret0-after-error:%s" % slug(msg, 3)
        return "violation", KEY_ALIAS.get(key, key), "an `error:` diagnostic was printed (%s) but compilation returned 0" % msg.strip()[:80]
    first = obs.diag.split(b"\n")[0].decode("latin-1") if obs.diag else ""
    return "violation", "ret-nonzero-without-located-error:%s" % slug(first, 3), \
        "compilation returned %d without any `file:line: error:` diagnostic (output: %r)" % (obs.ret, first[:80])


# =============================================================================================
# input generation
# =============================================================================================
TOKEN_RE = re.compile(
    rb"/\*.*?\*/|#[^\n]*|\"(?:\\.|[^\"\\\n])*\"|'(?:\\.|[^'\\\n])'|\d+\.\d+[fFdD]?|0[xX][0-9a-fA-F]+|\d+[lL]?|"
    rb"[A-Za-z_][A-Za-z0-9_]*|<<<|>>>|&&&|\|\|\||\^\^\^|~~~|->|==|!=|<=|>=|&&|\|\||::|\.\.|\s+|.", re.S)

KEYWORDS = [b"func", b"let", b"var", b"if", b"else", b"while", b"do", b"for", b"in", b"match", b"record",
            b"enum", b"int", b"long", b"float", b"double", b"string", b"char", b"bool", b"void", b"c_ptr",
            b"nil", b"true", b"false", b"throw", b"catch", b"use", b"module", b"extern", b"range", b"iflet",
            b"assert", b"print", b"prints", b"str", b"ord", b"chr", b"length", b"->", b"::", b"..", b"{", b"}",
            b"(", b")", b"[", b"]", b";", b",", b":", b"=", b"+", b"-", b"*", b"/", b"%", b"<", b">", b"!",
            b"<<<", b">>>", b"&&&", b"|||", b"^^^", b"~~~", b"?", b".", b"0", b"1", b"2147483647", b"1.5",
            b"\"s\"", b"'c'", b"1L", b"1.0d", b"0x7fffffff"]


def tokenize(src):
    return TOKEN_RE.findall(src)


def mutate_tokens(rng, src, pool):
    toks = tokenize(src)
    sig = [i for i, t in enumerate(toks) if not t.isspace()]
    if not sig:
        return src, "empty"
    op = rng.choice(["delete", "dup", "swap", "replace", "insert", "unbalance", "delrange", "splice", "keyword"])
    i = rng.choice(sig)
    if op == "delete":
        del toks[i]
    elif op == "dup":
        toks.insert(i, toks[i])
    elif op == "swap":
        j = rng.choice(sig)
        toks[i], toks[j] = toks[j], toks[i]
    elif op == "replace":
        toks[i] = rng.choice(pool) if pool and rng.random() < 0.5 else rng.choice(KEYWORDS)
    elif op == "insert":
        toks.insert(i, rng.choice(pool) if pool and rng.random() < 0.5 else rng.choice(KEYWORDS))
        toks.insert(i, b" ")
    elif op == "unbalance":
        br = [k for k in sig if toks[k] in (b"(", b")", b"{", b"}", b"[", b"]")]
        if br:
            k = rng.choice(br)
            if rng.random() < 0.5:
                del toks[k]
            else:
                toks[k] = rng.choice([b"(", b")", b"{", b"}", b"[", b"]"])
    elif op == "delrange":
        j = min(len(toks), i + rng.randint(2, 12))
        del toks[i:j]
    elif op == "splice":
        j = rng.choice(sig)
        a, b = min(i, j), max(i, j)
        k = rng.choice(sig)
        toks[k:k] = toks[a:b + 1]
    elif op == "keyword":
        toks[i] = rng.choice(KEYWORDS[:40])
    return b"".join(toks), op


# --- small program generator (grammar-aware), valid unless a fault is injected -----------------
class ProgGen:
    """Generates small Never programs.  Each construct comes with fault variants that keep the
    program lexically fine but break syntax, typing, name resolution or constant folding."""

    def __init__(self, rng):
        self.r = rng
        self.n = 0

    def fresh(self, p="v"):
        self.n += 1
        return "%s%d" % (p, self.n)

    def int_expr(self, d, vars_):
        r = self.r
        if d <= 0 or r.random() < 0.25:
            c = r.random()
            if vars_ and c < 0.5:
                return r.choice(vars_)
            return str(r.choice([0, 1, 2, 3, 7, 10, 100, 2147483647, 65536]))
        k = r.randint(0, 9)
        a, b = self.int_expr(d - 1, vars_), self.int_expr(d - 1, vars_)
        if k <= 3:
            return "(%s %s %s)" % (a, r.choice(["+", "-", "*", "/", "%"]), b)
        if k == 4:
            return "(%s %s %s ? %s : %s)" % (a, r.choice(["<", ">", "==", "!=", "<=", ">="]), b, a, b)
        if k == 5:
            return "(-%s)" % a
        if k == 6:
            return "if (%s < %s) { %s } else { %s }" % (a, b, a, b)
        if k == 7:
            return "(%s %s %s)" % (a, r.choice(["&&&", "|||", "^^^", "<<<", ">>>"]), b)
        if k == 8:
            return "twice(%s)" % a
        return "{ let %s = %s; %s }" % (self.fresh("t"), a, b)

    def func(self, name, vars_depth=2):
        r = self.r
        ps = [self.fresh("p") for _ in range(r.randint(0, 3))]
        body = []
        vs = list(ps)
        for _ in range(r.randint(0, 4)):
            v = self.fresh("x")
            k = r.randint(0, 7)
            if k == 0:
                body.append("let %s = %s;" % (v, self.int_expr(vars_depth, vs))); vs.append(v)
            elif k == 1:
                body.append("var %s = %s;" % (v, self.int_expr(vars_depth, vs))); vs.append(v)
                body.append("%s = %s;" % (v, self.int_expr(1, vs)))
            elif k == 2:
                body.append("let %s = [ %s ] : int;" % (v, ", ".join(self.int_expr(1, vs) for _ in range(r.randint(1, 4)))))
                body.append("let %s = %s[0];" % (self.fresh("e"), v))
            elif k == 3:
                body.append("var %s = 0; while (%s < 3) { %s = %s + 1 };" % (v, v, v, v)); vs.append(v)
            elif k == 4:
                body.append("let %s = P(%s, %s);" % (v, self.int_expr(1, vs), self.int_expr(1, vs)))
                body.append("let %s = %s.x + %s.y;" % (self.fresh("s"), v, v))
            elif k == 5:
                body.append("let %s = match (C::R) { C::R -> %s; C::G -> %s; C::B -> 3; };" % (
                    v, self.int_expr(1, vs), self.int_expr(1, vs))); vs.append(v)
            elif k == 6:
                body.append("let %s = let func (q : int) -> int { q + %s };" % (v, self.int_expr(1, vs)))
                body.append("let %s = %s(1);" % (self.fresh("c"), v))
            else:
                body.append("prints(\"%s = \" + %s + \"\\n\");" % (v, self.int_expr(1, vs)))
        body.append(self.int_expr(vars_depth, vs))
        return "func %s(%s) -> int\n{\n    %s\n}\n" % (
            name, ", ".join("%s : int" % p for p in ps), "\n    ".join(body)), len(ps)

    def program(self):
        self.n = 0
        parts = ["enum C { R, G, B }\n", "record P { x : int; y : int; }\n",
                 "func twice(a : int) -> int { 2 * a }\n"]
        fs = []
        for _ in range(self.r.randint(1, 3)):
            nm = self.fresh("f")
            txt, ar = self.func(nm)
            parts.append(txt); fs.append((nm, ar))
        calls = " + ".join("%s(%s)" % (nm, ", ".join("1" for _ in range(ar))) for nm, ar in fs)
        parts.append("func main() -> int\n{\n    %s\n}\n" % calls)
        return "".join(parts)


FAULTS = [
    # (name, regex to find a place, replacement function)
    ("undefined-id", rb"\b[xptv]\d+\b(?!\s*[:=(])", lambda r, m: b"undefined_" + m.group(0)),
    ("unknown-enum-item", rb"C::[RGB]", lambda r, m: b"C::Z"),
    ("unknown-enum", rb"C::([RGB])", lambda r, m: b"Q::" + m.group(1)),
    ("unknown-enum-in-guard", rb"C::([RGB]) ->", lambda r, m: b"Nope::" + m.group(1) + b" ->"),
    ("module-enum-in-guard", rb"C::([RGB]) ->", lambda r, m: b"nomod.C::" + m.group(1) + b" ->"),
    ("string-plus-int", rb"\b(\d+)\b", lambda r, m: b"\"s\""),
    ("div-by-zero-const", rb"\b(\d+)\b", lambda r, m: b"(1 / 0)"),
    ("mod-by-zero-const", rb"\b(\d+)\b", lambda r, m: b"(1 % 0)"),
    ("intmin-div-minus-one", rb"\b(\d+)\b", lambda r, m: b"((0-2147483647-1)/(0-1))"),
    ("intmin-mod-minus-one", rb"\b(\d+)\b", lambda r, m: b"((0-2147483647-1)%(0-1))"),
    ("longmin-div", rb"\b(\d+)\b", lambda r, m: b"((0L-9223372036854775807L-1L)/(0L-1L))"),
    ("float-for-int", rb"\b(\d+)\b", lambda r, m: b"1.5"),
    ("nil-for-int", rb"\b(\d+)\b", lambda r, m: b"nil"),
    ("wrong-arity", rb"twice\(", lambda r, m: b"twice(1, "),
    ("call-non-function", rb"twice\(", lambda r, m: b"C("),
    ("record-missing-field", rb"\.x\b", lambda r, m: b".zz"),
    ("record-wrong-arity", rb"P\(", lambda r, m: b"P(1, "),
    ("assign-to-const", rb"let (x\d+) = ([^;]*);", lambda r, m: b"let " + m.group(1) + b" = " + m.group(2) + b"; " + m.group(1) + b" = 1;"),
    ("duplicate-function", rb"func twice", lambda r, m: b"func twice(a : int) -> int { a }\nfunc twice"),
    ("duplicate-param", rb"\((p\d+) : int", lambda r, m: b"(" + m.group(1) + b" : int, " + m.group(1) + b" : int"),
    ("unknown-type", rb": int\b", lambda r, m: b": Unknown"),
    ("return-type-mismatch", rb"-> int", lambda r, m: b"-> string"),
    ("missing-semicolon", rb";", lambda r, m: b""),
    ("missing-brace", rb"\}", lambda r, m: b""),
    ("extra-brace", rb"\{", lambda r, m: b"{{"),
    ("missing-paren", rb"\)", lambda r, m: b""),
    ("stray-else", rb"let ", lambda r, m: b"else let "),
    ("keyword-as-id", rb"\b[xptv]\d+\b", lambda r, m: b"func"),
    ("match-missing-case", rb" C::B -> 3;", lambda r, m: b""),
    ("match-duplicate-case", rb" C::B -> 3;", lambda r, m: b" C::B -> 3; C::B -> 4;"),
    ("match-on-int", rb"match \(C::R\)", lambda r, m: b"match (1)"),
    ("index-non-array", rb"(x\d+)\[0\]", lambda r, m: b"twice[0]"),
    ("array-mixed", rb"\[ ([^\]]*) \] : int", lambda r, m: b"[ \"a\", " + m.group(1) + b" ] : int"),
    ("array-bad-type", rb"\] : int", lambda r, m: b"] : Unknown"),
    ("unterminated-string", rb"\"", lambda r, m: b"\"\n"),
    ("bad-escape", rb"\\n", lambda r, m: b"\\9"),
    ("octal-out-of-range", rb"\\n", lambda r, m: b"\\777"),
    ("unterminated-comment", rb"func main", lambda r, m: b"/* func main"),
    ("use-missing-module", rb"^", lambda r, m: b"use nosuchmodule\n"),
    ("use-in-middle", rb"func main", lambda r, m: b"use nosuchmodule\nfunc main"),
    ("module-call-unknown", rb"twice\(", lambda r, m: b"nomod.twice("),
    ("throw-int", rb"\b(\d+)\b", lambda r, m: b"throw 1"),
    ("self-reference-let", rb"let (x\d+) = ", lambda r, m: b"let " + m.group(1) + b" = " + m.group(1) + b" + "),
    ("main-with-params", rb"func main\(\)", lambda r, m: b"func main(a : Unknown)"),
    ("no-main", rb"func main", lambda r, m: b"func notmain"),
    ("enum-dup-item", rb"enum C \{ R,", lambda r, m: b"enum C { R, R,"),
    ("record-dup-field", rb"x : int;", lambda r, m: b"x : int; x : int;"),
    ("record-recursive-bad", rb"y : int;", lambda r, m: b"y : Nope;"),
    ("enum-record-guard", rb"enum C \{ R, G, B \}", lambda r, m: b"enum C { R, G, B { v : int; } }"),
    ("huge-int-literal", rb"\b(\d+)\b", lambda r, m: b"99999999999999999999999999"),
    ("huge-hex-literal", rb"\b(\d+)\b", lambda r, m: b"0xffffffffffffffffffff"),
    ("huge-float-literal", rb"\b(\d+)\b", lambda r, m: b"1" + b"0" * 400 + b".0"),
    ("char-in-arith", rb"\b(\d+)\b", lambda r, m: b"'a'"),
    ("empty-char", rb"\b(\d+)\b", lambda r, m: b"''"),
    ("range-for-int", rb"\b(\d+)\b", lambda r, m: b"[ 1 .. 2 ]"),
    ("listcomp-bad", rb"\b(\d+)\b", lambda r, m: b"[ q | q in 1 ] : int"),
    ("slice-non-array", rb"(x\d+)\[0\]", lambda r, m: m.group(1) + b"[0 .. \"a\"]"),
    ("nested-func-undefined", rb"q \+ ", lambda r, m: b"zz + "),
    # one self-contained ill-typed expression in place of an int literal: each typecheck error path alone
    ("ill-typed-operand", rb"\b(\d+)\b", lambda r, m: r.choice([
        b'(-"s")', b"(-nil)", b"(-true)", b"(!3)", b'(!"s")', b'("a" * 2)', b"(nil + 1)", b"(1 && 2)", b'("a" < 1)', b"(1 ? 2 : 3)",
        b"([ 1, 2 ] : int + 1)", b"(1)(2)", b"(1[0])", b'("s"[nil])', b'(1 .. "a")', b"(twice - 1)", b"(C::R * 2)", b"(P(1, 2) + 1)",
        b"(1.5 % 2)", b"(1 <<< 1.5)", b'(1 &&& "s")', b"(~~~1.5)", b"(true + true)", b"('a' * 'b')", b'("a" - "b")', b"(nil == 1)",
        b"(twice == 1)", b"(C::R < C::G)", b"(1 == 1.5)", b"(1L + 1.5)", b'(1 ? "a" : 2)', b"(nil ? 1 : 2)", b"(twice(1.5))",
        b'(twice("s"))', b"(twice(nil))", b"(length(1))", b'(ord("ab"))', b"(chr(1.5))", b'(str(nil))', b"(assert(1))",
        b"({ 1; \"s\" })", b"(if (1) { 1 } else { 2 })", b'(if (true) { 1 } else { "s" })', b'(while ("s") { 1 })', b"(for (i in nil) { i })",
        b"([ 1, \"s\" ] : int)[0]", b"([ [ 1 ], [ 1, 2 ] ] : int)[0, 0]", b"({[ 1.5 ]} : int)[0]", b"(P(1, 2).x.y)", b"(C::R.x)",
        b"(let func (a : int) -> int { a })", b"(let func () -> int { \"s\" }())", b"(match (1) { 1 -> 2; })",
        b"(match (C::R) { C::R -> 1; C::G -> \"s\"; C::B -> 3; })", b"(match (C::R) { else -> nil; })", b"(1 : string)", b"(nil : int)"])),
    ("iflet-bad", rb"\b(\d+)\b", lambda r, m: b"if let (C::Q(a) = C::R) { 1 } else { 2 }"),
    ("for-non-iterable", rb"while \((x\d+) < 3\)", lambda r, m: b"for (i in 1)"),
    ("catch-unknown", rb"\n\}\n$", lambda r, m: b"\n}\ncatch (nope) { 0 }\n"),
    ("extern-bad", rb"^", lambda r, m: b"extern \"nolib.so\" func zz(a : Unknown) -> int\n"),
]


def inject_fault(rng, src):
    order = list(FAULTS)
    rng.shuffle(order)
    for name, rx, fn in order:
        ms = list(re.finditer(rx, src, re.M))
        if ms:
            m = rng.choice(ms)
            return src[:m.start()] + fn(rng, m) + src[m.end():], name
    return src, "none"


# --- enum initialisers: constants, references to earlier / later / own enumerators, other enums, cycles ------
def enum_init_cases(rng, count):
    out = []
    wraps = ["%s", "(%s)", "-(%s)", "(%s) + 1", "1 + %s", "(%s) * 2", "((%s))", "%s + %s", "(%s) - (%s)", "~~~(%s)", "(%s) <<< 1",
             "(%s) / 0", "(%s) %% 0", "(0-2147483647-1) / ((%s) - (%s) - 1)"]
    for i in range(count):
        n = rng.randint(1, 5)
        names = ["ABCDEF"[k] for k in range(n)]
        other = rng.random() < 0.3
        items = []
        for k, nm in enumerate(names):
            c = rng.random()
            if c < 0.25:
                items.append(nm)
                continue
            refs = []
            for _ in range(2):
                d = rng.random()
                if d < 0.3:
                    refs.append(str(rng.choice([0, 1, 7, 2147483647])))
                elif d < 0.45 and other:
                    refs.append("F::" + rng.choice(["X", "Y"]))
                elif d < 0.5:
                    refs.append("E::Nope")
                else:   # earlier, later or own enumerator: later/own ones make cycles possible
                    refs.append("E::" + rng.choice(names))
            w = rng.choice(wraps)
            init = w % tuple(refs[:w.count("%s")])
            items.append("%s = %s" % (nm, init))
        src = "enum E { %s }\n" % ", ".join(items)
        if other:
            src += "enum F { X = %s, Y }\n" % rng.choice(["1", "(E::A)", "E::A + 1", "(F::Y)", "F::X"])
        tail = rng.choice(["func main() -> int { 0 }\n", "func main() -> int { E::A + 0 }\n", "",
                           "func main() -> int { match (E::A) { E::A -> 1; else -> 0; } }\n"])
        out.append(("enum-init%d" % i, (src + tail).encode()))
    # the plain cycles of every length, bare and parenthesised
    for L in range(1, 5):
        for fmt in ("E::%s", "(E::%s)", "(E::%s) + 1", "-(E::%s)"):
            names = ["ABCD"[k] for k in range(L)]
            items = ["%s = %s" % (names[k], fmt % names[(k + 1) % L]) for k in range(L)]
            out.append(("enum-cycle%d.%s" % (L, slug(fmt.replace("%s", "x"), 2)), ("enum E { %s, Z }\nfunc main() -> int { 0 }\n" % ", ".join(items)).encode()))
    return out


# --- constant / and % : every pair of operand kinds and literal values (zero, -1, minimum) --------------------
def const_division_cases():
    """(left kind, value) x (right kind, value) x {/, %} in a function body and in an enum initialiser: the reducer
    (front/constred.c, front/enumred.c) must fold, or diagnose `division by zero` / a type error -- never fault."""
    lits = {"int": ["0", "1", "7", "-1", "(0-2147483647-1)"],
            "long": ["0L", "1L", "7L", "-1L", "(0L-9223372036854775807L-1L)"],
            "enum": ["E::A", "E::B", "E::C"],
            "float": ["0.0", "1.5"], "double": ["0.0d", "2.5d"], "char": ["'a'"], "bool": ["false", "true"]}
    hosts = (("body", "func main() -> int { let z = %s %s %s; 0 }\n"), ("enum-init", "enum G { P = %s %s %s, Q }\nfunc main() -> int { 0 }\n"))
    out = []
    for ka, la in lits.items():
        for kb, lb in lits.items():
            for ia, a in enumerate(la):
                for ib, b in enumerate(lb):
                    for on, op in (("div", "/"), ("mod", "%")):
                        for hn, host in hosts:
                            if hn == "enum-init" and (ka in ("float", "double") or kb in ("float", "double")):
                                continue
                            src = "enum E { A, B, C }\n" + host % (a, op, b)
                            out.append(("%s.%s%d-%s%d.%s" % (on, ka, ia, kb, ib, hn), src.encode()))
    return out


# --- raw bytes ------------------------------------------------------------------------------------
def raw_bytes(rng, base):
    k = rng.randint(0, 7)
    if k == 0:
        return bytes(rng.getrandbits(8) for _ in range(rng.choice([1, 7, 64, 500, 4000]))), "random"
    if k == 1:
        return bytes(rng.choice([0, 0x80, 0xff, 0xfe, 0xc3, 0x28, 10, 13, 9, 34, 39, 92]) for _ in range(rng.choice([3, 50, 1000]))), "special-bytes"
    if k == 2:
        i = rng.randrange(len(base) + 1)
        junk = bytes(rng.getrandbits(8) for _ in range(rng.choice([1, 2, 8, 64])))
        return base[:i] + junk + base[i:], "splice-random"
    if k == 3:
        i = rng.randrange(len(base) + 1)
        return base[:i] + b"\x00" + base[i:], "splice-nul"
    if k == 4:
        b = bytearray(base)
        for _ in range(rng.randint(1, 8)):
            if b:
                b[rng.randrange(len(b))] = rng.choice([0x80, 0xff, 0x00, 0x7f, 0x1b, 0xe2])
        return bytes(b), "flip-high"
    if k == 5:
        return bytes([rng.choice([0x80, 0xa9, 0xff])]) * rng.choice([10, 1000, 70000]), "long-high-line"
    if k == 6:
        return base.replace(b"\n", b"\r\n").replace(b" ", rng.choice([b"\t", b"\x0b", b"\x0c", b"\xa0"])), "whitespace-variants"
    return b"\xef\xbb\xbf" + base, "bom"


# --- long tokens and deep nesting --------------------------------------------------------------------
def long_token_cases(sizes):
    out = []
    for n in sizes:
        a = b"a" * n
        out += [
            ("undefined-id", b"func main() -> int { " + a + b" }"),
            ("func-name", b"func " + a + b"() -> int { 0 }\nfunc main() -> int { " + a + b"() }"),
            ("func-name-undefined-call", b"func main() -> int { " + a + b"(1) }"),
            ("param-name", b"func f(" + a + b" : int) -> int { " + a + b" }\nfunc main() -> int { f(1) }"),
            ("let-name-dup", b"func main() -> int { let " + a + b" = 1; let " + a + b" = 2; " + a + b" }"),
            ("type-name", b"func main() -> int { let x = nil : " + a + b"; 0 }"),
            ("record-name", b"record " + a + b" { x : int; }\nfunc main() -> int { let r = " + a + b"(1); r.y }"),
            ("enum-item", b"enum E { " + a + b" }\nfunc main() -> int { match (E::" + a + b") { E::B -> 1; } }"),
            ("string-literal", b"func main() -> int { prints(\"" + a + b"\"); 0 }"),
            ("string-literal-in-error", b"func main() -> int { \"" + a + b"\" + nil }"),
            ("string-unterminated", b"func main() -> int { prints(\"" + a + b"\n"),
            ("comment-block", b"/* " + a + b" */ func main() -> int { 0 }"),
            ("comment-block-unterminated", b"func main() -> int { 0 } /* " + a),
            ("comment-line", b"# " + a + b"\nfunc main() -> int { 0 }"),
            ("int-literal", b"func main() -> int { " + b"9" * n + b" }"),
            ("float-literal", b"func main() -> int { " + b"9" * n + b".5; 0 }"),
            ("hex-literal", b"func main() -> int { 0x" + b"f" * n + b" }"),
            ("use-module-name", b"use " + a + b"\nfunc main() -> int { 0 }"),
            ("module-ref", b"func main() -> int { " + a + b".f() }"),
            ("attr-name", b"record R { x : int; }\nfunc main() -> int { let r = R(1); r." + a + b" }"),
            ("extern-lib-name", b"extern \"" + a + b"\" func f() -> int\nfunc main() -> int { 0 }"),
            ("long-line-ws", b"func main() -> int {" + b" " * n + b"0 }"),
            ("many-lines", b"\n" * n + b"func main() -> int { x }"),
            ("escape-run", b"func main() -> int { prints(\"" + b"\\n" * (n // 2) + b"\"); 0 }"),
        ]
    return out


def nesting_cases(depths):
    out = []
    for d in depths:
        out += [
            ("parens", b"func main() -> int { " + b"(" * d + b"1" + b")" * d + b" }"),
            ("parens-unclosed", b"func main() -> int { " + b"(" * d + b"1 }"),
            ("blocks", b"func main() -> int " + b"{ " * d + b"1" + b" }" * d),
            ("blocks-unclosed", b"func main() -> int " + b"{ " * d + b"1"),
            ("arrays", b"func main() -> int { let a = " + b"[ " * d + b"1" + b" ]" * d + b" : int; 0 }"),
            ("array-type-dims", b"func f(a" + b"[D]" * min(d, 2000) + b" : int) -> int { 0 }\nfunc main() -> int { 0 }"),
            ("calls", b"func f(a : int) -> int { a }\nfunc main() -> int { " + b"f(" * d + b"1" + b")" * d + b" }"),
            ("calls-undefined", b"func main() -> int { " + b"g(" * d + b"1" + b")" * d + b" }"),
            ("unary-minus", b"func main() -> int { " + b"- " * d + b"1 }"),
            ("unary-not", b"func main() -> int { if (" + b"! " * d + b"true) { 1 } else { 0 } }"),
            ("binop-left-chain", b"func main() -> int { 1" + b" + 1" * d + b" }"),
            ("binop-left-chain-bad", b"func main() -> int { x" + b" + 1" * d + b" }"),
            ("binop-right-chain", b"func main() -> int { " + b"1 + (" * d + b"1" + b")" * d + b" }"),
            ("cond-chain", b"func main() -> int { " + b"1 < 2 ? 1 : " * d + b"0 }"),
            ("if-else-chain", b"func main() -> int { " + b"if (1 < 2) { 1 } else " * d + b"{ 0 } }"),
            ("seq-long", b"func main() -> int { " + b"1; " * d + b"0 }"),
            ("index-chain", b"func main() -> int { let a = [ 1 ] : int; a" + b"[0]" * d + b" }"),
            ("attr-chain", b"record R { r : R; }\nfunc main() -> int { let r = R(nil); r" + b".r" * d + b"; 0 }"),
            ("nested-funcs", b"func main() -> int { " + b"func g() -> int { " * d + b"0" + b" } g()" * d + b" }"),
            ("nested-lambdas", b"func main() -> int { " + b"let func () -> int { " * d + b"0" + b" }()" * d + b" }"),
            ("func-type-nest", b"func f(g" + b"(" * 1 + b"h" * 1 + b" : int) -> int" + b") -> int { 0 }\nfunc main() -> int { 0 }"),
            ("many-params", b"func f(" + b", ".join(b"p%d : int" % i for i in range(d)) + b") -> int { 0 }\nfunc main() -> int { 0 }"),
            ("many-args", b"func f(a : int) -> int { a }\nfunc main() -> int { f(" + b", ".join([b"1"] * d) + b") }"),
            ("many-funcs", b"".join(b"func f%d() -> int { %d }\n" % (i, i) for i in range(d)) + b"func main() -> int { 0 }"),
            ("many-errors", b"func main() -> int { " + b"zz; " * d + b"0 }"),
            ("match-nest", b"enum E { A }\nfunc main() -> int { " + b"match (E::A) { E::A -> " * min(d, 3000) + b"0" + b"; }" * min(d, 3000) + b" }"),
            ("while-nest", b"func main() -> int { " + b"while (false) { " * d + b"0" + b" }" * d + b"; 0 }"),
            ("string-concat-chain", b"func main() -> int { prints(\"a\"" + b" + \"a\"" * d + b"); 0 }"),
            ("array-literal-wide", b"func main() -> int { let a = [ " + b", ".join([b"1"] * d) + b" ] : int; a[0] }"),
            ("range-dims", b"func main() -> int { let a = [ 1 ] : int; a[" + b", ".join([b"0"] * d) + b"] }"),
        ]
    return out


# --- grammar-driven syntax errors -------------------------------------------------------------------
# For every rule A -> X1 .. Xn of front/parser.y and every position i (0..n) a sentence is built that
# drives the parser into the state "X1 .. Xi of this rule are on the stack" (shortest left context of A +
# shortest expansion of X1 .. Xi) and then meets an illegal token: the error unwinds exactly through the
# %destructors of those symbols, or through the rule's own `error` recovery action.  Terminal texts come
# from the keyword rules of front/scanner.l; both files are read from the CURRENT tree, so a new rule,
# a new recovery rule or a new nonterminal brings its own inputs.
LITERAL_TOKENS = {"TOK_ID": "x", "TOK_NUM_INT": "1", "TOK_NUM_LONG": "1L", "TOK_NUM_FLOAT": "1.5", "TOK_NUM_DOUBLE": "1.5d",
                  "TOK_NUM_CHAR": "'c'", "TOK_NUM_STRING": "\"s\"", "TOK_MODULE_REF": "\n", "error": "@"}


def strip_c_actions(text):
    out, i, n, depth = [], 0, len(text), 0
    while i < n:
        c = text[i]
        if text.startswith("/*", i):
            j = text.find("*/", i + 2)
            i = n if j < 0 else j + 2
            continue
        if depth > 0 and c == '"':
            i += 1
            while i < n and text[i] != '"':
                i += 2 if text[i] == "\\" else 1
            i += 1
            continue
        if c == "'" and i + 2 < n and text[i + 2] == "'":
            if depth == 0:
                out.append(text[i:i + 3])
            i += 3
            continue
        if c == "{":
            depth += 1
        elif c == "}":
            depth -= 1
        elif depth == 0:
            out.append(c)
        i += 1
    return "".join(out)


def read_grammar(repo):
    y = open(os.path.join(repo, "front", "parser.y")).read()
    parts = y.split("\n%%")
    decls, body = parts[0], parts[1]
    # one action may serve several symbols: `%destructor { if ($$) free($$); } TOK_ID TOK_NUM_STRING`
    destructors = []
    for syms in re.findall(r"^%destructor\s*\{.*\}[ \t]*([^{}\n]*)$", decls, re.M):
        destructors += re.findall(r"<[^>]*>|'.'|[A-Za-z_][A-Za-z0-9_.]*", re.sub(r"/\*.*?\*/", " ", syms))
    m = re.search(r"^%start\s+(\w+)", decls, re.M)
    start = m.group(1) if m else None
    rules = []
    for chunk in strip_c_actions(body).split(";"):
        toks = re.findall(r"'.'|%prec|[A-Za-z_][A-Za-z0-9_]*|[:|]", chunk)
        if len(toks) < 2 or toks[1] != ":":
            continue
        lhs, rhs, alts = toks[0], [], []
        k = 2
        while k < len(toks):
            if toks[k] == "%prec":
                k += 2
                continue
            if toks[k] == "|":
                alts.append(rhs); rhs = []
            else:
                rhs.append(toks[k])
            k += 1
        alts.append(rhs)
        for a in alts:
            rules.append((lhs, a))
    if start is None and rules:
        start = rules[0][0]
    return start, rules, destructors


def read_token_texts(repo):
    l = open(os.path.join(repo, "front", "scanner.l")).read()
    texts = dict(LITERAL_TOKENS)
    for m in re.finditer(r"^(\S+)\s*\{\s*\n(.*?)^\}", l, re.S | re.M):
        pat, act = m.group(1), m.group(2)
        r = re.search(r"return\s+(TOK_\w+)\s*;", act)
        if not r or r.group(1) in texts or pat.startswith("<"):
            continue
        if re.match(r"^[a-z_]+$", pat):
            texts[r.group(1)] = pat
        elif re.match(r'^"[^"]+"$', pat):
            texts[r.group(1)] = pat[1:-1].replace("\\", "")
    return texts


def grammar_error_cases(repo, illegal=(")", "@", "func", "")):
    """-> (cases [(name, bytes)], info dict)"""
    start, rules, destructors = read_grammar(repo)
    texts = read_token_texts(repo)
    nts = set(l for l, _ in rules)

    def term_text(s):
        if s.startswith("'"):
            return s[1]
        return texts.get(s)

    INF = 10 ** 9
    best = {}                      # nonterminal -> shortest token list
    changed = True
    while changed:
        changed = False
        for lhs, rhs in rules:
            seq, ok = [], True
            for s in rhs:
                if s in nts:
                    if s not in best:
                        ok = False; break
                    seq += best[s]
                else:
                    tx = term_text(s)
                    if tx is None or s == "error":
                        ok = False; break
                    seq.append(tx)
            if ok and (lhs not in best or len(seq) < len(best[lhs])):
                best[lhs] = seq; changed = True

    def expand(syms):
        out = []
        for s in syms:
            if s in nts:
                if s not in best:
                    return None
                out += best[s]
            else:
                tx = term_text(s)
                if tx is None:
                    return None
                out.append(tx)
        return out

    # up to KCTX shortest DISTINCT left contexts per nonterminal (coming from different parent rules), so that a
    # construct is also tried inside its longer hosts (e.g. a parameter inside a NAMED function header)
    KCTX = 4
    prefix = {start: [[]]}
    changed = True
    rounds = 0
    while changed and rounds < 40:
        changed = False
        rounds += 1
        for lhs, rhs in rules:
            if lhs not in prefix:
                continue
            for i, s in enumerate(rhs):
                if s in nts:
                    e = expand(rhs[:i])
                    if e is None:
                        break
                    for pl in list(prefix[lhs]):
                        cand = pl + e
                        cur = prefix.setdefault(s, [])
                        if cand in cur:
                            continue
                        if len(cur) < KCTX or len(cand) < len(cur[-1]):
                            cur.append(cand)
                            cur.sort(key=len)
                            del cur[KCTX:]
                            changed = True
    cases, unreachable, seen = [], [], set()
    for ri, (lhs, rhs) in enumerate(rules):
        if lhs not in prefix:
            unreachable.append(lhs)
            continue
        for ci, ctx in enumerate(prefix[lhs]):
            for i in range(len(rhs) + 1):
                head = expand([s for s in rhs[:i] if s != "error"])
                if head is None:
                    continue
                tail = expand([s for s in rhs[i:] if s != "error"]) or []
                for bad in illegal:
                    for with_tail in (False, True):
                        toks = ctx + head + ([bad] if bad else []) + (tail if with_tail else [])
                        txt = " ".join(toks)
                        if txt in seen:
                            continue
                        seen.add(txt)
                        cases.append(("r%d.%s.c%d.p%d.%s%s" % (ri, lhs, ci, i, {")": "rparen", "@": "at", "func": "func", "": "eof"}.get(bad, "x"),
                                                                  ".t" if with_tail else ""), txt.encode()))
    info = {"rules": len(rules), "nonterminals": len(nts), "error_recovery_rules": [" ".join([l + ":"] + r) for l, r in rules if "error" in r],
            "nonterminals_with_destructor": len([d for d in destructors if d in nts]),
            "nonterminals_without_destructor": sorted(n for n in nts if n not in destructors),
            "unreachable_nonterminals": sorted(set(unreachable)), "terminals_without_text": sorted(
                set(s for _, r in rules for s in r if s not in nts and term_text(s) is None)), "sentences": len(cases)}
    return cases, info


# --- `use` graphs -------------------------------------------------------------------------------------
def modname(i):
    s = ""
    i += 1
    while i > 0:
        i, r = divmod(i - 1, 26)
        s = chr(97 + r) + s
    return "m" + s


def use_graph(rng, kind, n):
    """-> (graph {int: [int]}, missing set, main uses).  Module ids are ints; id -> file name by modname."""
    g, missing = {}, set()
    if kind == "chain":
        for i in range(n):
            g[i] = [i + 1] if i + 1 < n else []
        main = [0]
    elif kind == "chain-missing-end":
        for i in range(n):
            g[i] = [i + 1]
        missing.add(n)
        main = [0]
    elif kind == "cycle":
        for i in range(n):
            g[i] = [(i + 1) % n]
        main = [0]
    elif kind == "self":
        g[0] = [0]
        main = [0]
    elif kind == "diamond":
        g = {0: [1, 2], 1: [3], 2: [3], 3: []}
        main = [0, 3]
    elif kind == "wide":
        for i in range(n):
            g[i] = []
        main = list(range(n)) + list(range(n))
    elif kind == "tree":
        for i in range(n):
            g[i] = [c for c in (2 * i + 1, 2 * i + 2) if c < n]
        main = [0]
    else:  # random
        for i in range(n):
            g[i] = [rng.randrange(n + 2) for _ in range(rng.randint(0, 3))]
        for i in range(n, n + 2):
            if rng.random() < 0.5:
                missing.add(i)
            else:
                g[i] = []
        main = [rng.randrange(n + 2) for _ in range(rng.randint(1, 4))]
    for i in list(g):
        for j in g[i]:
            if j not in g:
                missing.add(j)
    return g, missing, main


def write_use_graph(root, g, main, with_code, broken=None):
    """Create module files for g under root; returns main source text."""
    os.makedirs(root, exist_ok=True)
    for i, us in g.items():
        nm = modname(i)
        lines = ["use %s" % modname(j) for j in us]
        if with_code:
            uses = "".join("    %s\n" % l for l in lines)
            txt = "module %s {\n%s    func f%s() -> int { %d }\n}\n" % (nm, uses, nm, i)
            if broken is not None and i == broken:
                txt = "module %s {\n%s    func f%s( -> int { zz }\n" % (nm, uses, nm)
        else:
            txt = "\n".join(lines) + "\n"
        with open(os.path.join(root, nm + ".nev"), "w") as f:
            f.write(txt)
    lines = ["use %s" % modname(j) for j in main]
    if with_code:
        calls = " + ".join("%s.f%s()" % (modname(j), modname(j)) for j in main if j in g) or "0"
        return ("\n".join(lines) + "\nfunc main() -> int { %s }\n" % calls).encode()
    return ("\n".join(lines) + "\n").encode()


# =============================================================================================
# shrinking (ddmin over tokens, then characters), driven by the same oracle
# =============================================================================================
def ddmin(data, test_batch, budget_rounds=14, max_cands=64):
    """Greedy chunk removal.  test_batch(list of bytes) -> list of bool (candidate still fails the same
    way); every round evaluates all candidates of one granularity in one parallel batch and keeps the
    smallest one that still fails.  Returns (smallest input found, number of candidates tried)."""
    cur = data
    units = tokenize(cur) if len(cur) < 200000 else [cur[i:i + 64] for i in range(0, len(cur), 64)]
    rounds, n, tested = 0, 2, 0
    chars = False
    while rounds < budget_rounds and len(units) >= 2:
        rounds += 1
        size = max(1, len(units) // n)
        cands = [units[:s] + units[s + size:] for s in range(0, len(units), size)][:max_cands]
        res = test_batch([b"".join(u) for u in cands])
        tested += len(cands)
        hit = None
        for k, okk in enumerate(res):
            if okk and (hit is None or sum(map(len, cands[k])) < sum(map(len, cands[hit]))):
                hit = k
        if hit is not None:
            units = cands[hit]
            n = max(n - 1, 2)
        elif size == 1:
            joined = b"".join(units)
            if not chars and any(len(u) > 8 for u in units) and len(joined) < 4000 and rounds < budget_rounds - 2:
                units = [joined[i:i + 1] for i in range(len(joined))]
                n, chars = 2, True
                continue
            break
        else:
            n = min(len(units), n * 2)
    return b"".join(units), tested


def shrink(drv, workdir, case, key, budget_rounds=14, timeout=10):
    def test(cands):
        cs = [Case("s%d" % k, case.cls, d, case.mode, case.path) for k, d in enumerate(cands)]
        obs = run_cases(drv, cs, workdir, timeout=timeout, tag="s")
        ver = classify(list(obs.values()))
        out = []
        for c in cs:
            kind, kk, _ = judge(c, obs.get(c.id), ver)
            out.append(kk == key and kind in ("violation", "asan-stack", "timeout"))
        return out
    return ddmin(case.data, test, budget_rounds)


def show_input(data, limit=600):
    """Readable rendering of an input for replay files: text if printable, else base64; long runs abbreviated."""
    try:
        s = data.decode("ascii")
        printable = all(32 <= ord(c) < 127 or c in "\n\t\r" for c in s)
    except UnicodeDecodeError:
        printable = False
    d = {"length": len(data), "sha256": hashlib.sha256(data).hexdigest()}
    if printable and len(data) <= limit:
        d["text"] = s
    elif printable:
        d["text_abbrev"] = re.sub(r"(.)\1{40,}", lambda m: "%s{x%d}" % (m.group(1), len(m.group(0))), s)[:limit]
        d["base64"] = base64.b64encode(data).decode() if len(data) <= 200000 else "(omitted: %d bytes)" % len(data)
    else:
        d["base64"] = base64.b64encode(data).decode() if len(data) <= 200000 else "(omitted: %d bytes)" % len(data)
    return d


# =============================================================================================
# the check
# =============================================================================================
PARTIAL_TEXT = (
    "PARTIAL BY NATURE. Proved in Coq (Properties_C05.v): (1) the length arithmetic of print_msg as "
    "regenerated from back/utils.c — a per-prefix safety criterion, a computed verdict for whatever "
    "size expressions the tree carries, msg_write_within_buffer for all prefix/body lengths on the current "
    "tree (the earlier arithmetic, vsnprintf given MAX_MSG_SIZE, is kept as msg_unbounded_body_limit_refuted); (2) "
    "use_depth_bounded for the include stack of scanner.l as a state machine over `use`/EOF events "
    "with the guard and array size regenerated from the source; (3) the outcome classifier is total, "
    "exclusive and equivalent to its declarative reading. NOT proved, only observed on the inputs "
    "listed under `classes`: that the flex/bison-generated scanner and parser, the typechecker, the "
    "reducer, the emitter and module loading terminate and stay memory-safe on every byte sequence. "
    "There is no formal semantics of that C code here; the sanitizer/time-out/classifier search is a "
    "search, not a proof, and says nothing about inputs it did not run.")


def sample_sources():
    return [(os.path.basename(p)[:-4], open(p, "rb").read()) for p in sorted(glob.glob(os.path.join(SAMPLE_DIR, "*.nev")))]


# --- every expression form around a lambda that captures an enclosing local / around an enum record ---------------------
CAP_DECLS = ("enum Shape { Dot, Circle { r : int; } }\nrecord Box { f(int) -> int; v : int; }\n"
             "func apply(x : int, f(int) -> int) -> int { f(x) }\nfunc apply2(x : int, z : int, f(int) -> int) -> int { f(x + z) }\n"
             "func area(scale : int, s : Shape) -> int { match s { Shape::Dot -> 0; Shape::Circle(r) -> 3 * r * scale; } }\n"
             "func area1(s : Shape) -> int { area(1, s) }\n"
             "func risky(d : int) -> int { 10 / d }\n")
LAM = "let func (a : int) -> int { a + y }"
# (position, expression of type int with @ = the planted expression, what @ must be: "lambda" (an (int)->int) or "shape" (a Shape))
CAP_FORMS = [
    ("pipe", "10 |> apply(@)", "lambda"), ("pipe-extra-argument", "10 |> apply2(2, @)", "lambda"), ("pipe-chain", "10 |> apply(@) |> apply(@)", "lambda"),
    ("call-argument", "apply(3, @)", "lambda"), ("call-of-call", "apply(apply(1, @), @)", "lambda"),
    ("record-literal", "{ let b = Box(@, 1); b.f(2) }", "lambda"), ("array-literal", "{ let fs = [ @, @ ] : (int) -> int; fs[1](4) }", "lambda"),
    ("match-arm", "match Shape::Dot { Shape::Dot -> apply(1, @); Shape::Circle(r) -> r; }", "lambda"),
    ("if-let", "if let (Shape::Circle(r) = Shape::Circle(2)) { apply(r, @) } else { 0 }", "lambda"),
    ("for-in", "{ var t = 0; for (i in [ 1, 2, 3 ] : int) { t = t + apply(i, @) }; t }", "lambda"),
    ("list-comprehension", "{ let a = [ apply(i, @) | i in [ 1, 2 ] : int ] : int; a[0] }", "lambda"),
    ("conditional", "y > 2 ? apply(1, @) : 0", "lambda"), ("if-else", "if (y > 2) { apply(1, @) } else { 0 }", "lambda"),
    ("while-body", "{ var i = 0; var t = 0; while (i < 2) { t = t + apply(i, @); i = i + 1 }; t }", "lambda"),
    ("let-binding", "{ let g = @; g(1) }", "lambda"), ("nested-lambda", "{ let g = let func (b : int) -> int { apply(b, @) }; g(1) }", "lambda"),
    ("immediately-called", "(@)(3)", "lambda"), ("binary-operand", "1 + apply(2, @) * 2", "lambda"),
    ("pipe", "2 |> area(@)", "shape"), ("pipe-single", "@ |> area1()", "shape"), ("call-argument", "area(2, @)", "shape"),
    ("let-binding", "{ let s = @; area(1, s) }", "shape"), ("match-scrutinee", "match @ { Shape::Dot -> 0; Shape::Circle(r) -> r; }", "shape"),
    ("array-literal", "{ let a = [ @, Shape::Dot ] : Shape; area(1, a[0]) }", "shape"), ("conditional", "area(1, y > 2 ? @ : Shape::Dot)", "shape"),
    ("if-let", "if let (Shape::Circle(r) = @) { r } else { 0 }", "shape"),
    ("for-in", "{ var t = 0; for (i in [ 1, 2 ] : int) { t = t + area(i, @) }; t }", "shape"),
    ("list-comprehension", "{ let a = [ area(i, @) | i in [ 1, 2 ] : int ] : int; a[0] }", "shape"),
    ("nested-lambda", "{ let g = let func (b : int) -> int { area(b, @) }; g(1) }", "shape"),
]
def cap_program(expr, planted, catch=False):
    body = expr.replace("@", planted)
    if catch:
        return CAP_DECLS + "func host(d : int) -> int { let y = 5; risky(d) } catch (division_by_zero) { let y = 6; %s }\nfunc main() -> int { host(0) }\n" % body
    return CAP_DECLS + "func host(d : int) -> int { let y = 5; %s }\nfunc main() -> int { host(1) }\n" % body


def capture_form_cases():
    """-> [(name, source, expectation)]: well-typed programs in which every expression form (pipe, call arguments, record and
    array literals, match arm, if-let, for-in, comprehension, conditional, loops, nested lambda; the same inside a catch
    clause) holds a function literal that captures the local `y` of the enclosing function — must compile — and the same
    positions holding an enum RECORD item: constructed (`Shape::Circle(2)`, must compile) and used without construction
    (`Shape::Circle`, ill-formed: must be rejected with a diagnostic)."""
    out = []
    for pos, expr, kind in CAP_FORMS:
        for catch in (False, True):
            tag = "%s.%s%s" % (kind, pos, ".in-catch" if catch else "")
            if kind == "lambda":
                out.append(("capture." + tag, cap_program(expr, LAM, catch), "accept"))
            else:
                out.append(("enum-record-constructed." + tag, cap_program(expr, "Shape::Circle(2)", catch), "accept"))
                out.append(("enum-record-not-constructed." + tag, cap_program(expr, "Shape::Circle", catch), "reject"))
    return out


# --- extern declarations over records with every member kind --------------------------------------------------------------
FFI_MEMBER_KINDS = [("int", "m : int"), ("long", "m : long"), ("float", "m : float"), ("double", "m : double"), ("char", "m : char"),
                    ("bool", "m : bool"), ("string", "m : string"), ("c_ptr", "m : c_ptr"), ("record", "m : Inner"),
                    ("array", "m[D] : int"), ("array-2d", "m[D, E] : int"), ("array-of-strings", "m[D] : string"), ("enum", "m : Colour"),
                    ("enum-record", "m : Opt"), ("function", "m(int) -> int"), ("slice", "m[..] : int"), ("range", "m[..]"),
                    ("record-with-array", "m : WithArr"), ("record-with-enum", "m : WithEnum"), ("record-with-function", "m : WithFun"),
                    ("self", "m : Outer")]
FFI_DECLS = ("record Inner { a : int; b : double; }\nenum Colour { RED, GREEN }\nenum Opt { None, Some { v : int; } }\n"
             "record WithArr { n : int; d[D] : int; }\nrecord WithEnum { c : Colour; }\nrecord WithFun { f(int) -> int; }\n")


def ffi_record_cases():
    """extern declarations whose record parameter / result has a member of every kind (supported or not, nested): a compile
    that fails must say why"""
    out = []
    for kind, member in FFI_MEMBER_KINDS:
        rec = "record Outer { x : int; %s; y : int; }\n" % member
        shapes = [("parameter", "extern \"libc.so.6\" func abs(v : Outer) -> int\n"),
                  ("result", "extern \"libc.so.6\" func abs(v : int) -> Outer\n"),
                  ("second-parameter", "extern \"libc.so.6\" func abs(a : int, v : Outer, s : string) -> int\n"),
                  ("parameter-and-called", "extern \"libc.so.6\" func abs(v : Outer) -> int\nfunc use_it(o : Outer) -> int { abs(o) }\n")]
        for sname, ext in shapes:
            out.append(("ffi-record.%s.%s" % (kind, sname), FFI_DECLS + rec + ext + "func main() -> int { 0 }\n"))
        out.append(("ffi-direct.%s" % kind, FFI_DECLS + "extern \"libc.so.6\" func abs(%s) -> int\nfunc main() -> int { 0 }\n" % member))
    return out


# --- NEVER_PATH with components that cannot be entered --------------------------------------------------------------------
def never_path_cases(root):
    """(name, NEVER_PATH value, source): module directories root/pa, root/pb (module mb only in pb), a plain file root/afile,
    a directory without search permission; missing / non-directory / empty / unreadable components first, in the middle, last"""
    pa, pb = os.path.join(root, "pa"), os.path.join(root, "pb")
    os.makedirs(pa, exist_ok=True)
    os.makedirs(pb, exist_ok=True)
    locked = os.path.join(root, "locked")
    os.makedirs(locked, exist_ok=True)
    with open(os.path.join(pa, "ma.nev"), "w") as f:
        f.write("module ma { func one() -> int { 1 } }\n")
    with open(os.path.join(pb, "mb.nev"), "w") as f:
        f.write("use ma\nmodule mb { func two() -> int { ma.one() + 1 } }\n")
    with open(os.path.join(pb, "ma.nev"), "w") as f:
        f.write("module ma { func one() -> int { 10 } }\n")
    with open(os.path.join(root, "afile"), "w") as f:
        f.write("not a directory\n")
    try:
        os.chmod(locked, 0)
    except OSError:
        pass
    missing = os.path.join(root, "no", "such", "dir")
    bad = {"missing": missing, "file": os.path.join(root, "afile"), "empty": "", "unenterable": locked, "relative-missing": "nodir"}
    srcs = {"use-found": "use mb\nfunc main() -> int { mb.two() }\n", "use-two": "use ma\nuse mb\nfunc main() -> int { ma.one() + mb.two() }\n",
            "use-not-found": "use mzz\nfunc main() -> int { 0 }\n", "no-use": "func main() -> int { 0 }\n"}
    out = []
    for bname, b in bad.items():
        paths = {"first": [b, pa, pb], "middle": [pa, b, pb], "last": [pa, pb, b], "only": [b], "twice-first": [b, b, pb, pa],
                 "all-but-last": [b, b, pb]}
        for pname, comps in paths.items():
            for sname, src in srcs.items():
                if sname == "no-use" and pname not in ("first", "only"):
                    continue
                out.append(("never-path.%s.%s.%s" % (bname, pname, sname), ":".join(comps), src))
    return out


def build_search_cases(ctx, rng, workdir, scale):
    """All input streams of the search; every random choice comes from rng (ctx.seed)."""
    cases = []
    samples = sample_sources()
    neg = set(os.path.basename(p)[:-8] for p in glob.glob(os.path.join(SAMPLE_DIR, "*.nev.err")))
    # (0) minimised failures kept from earlier runs: always first
    cdir = os.path.join(common.VERIF, "corpus", "C05")
    for p in sorted(glob.glob(os.path.join(cdir, "*.nev"))):      # <name>.file.nev is compiled through nev_compile_file
        cases.append(Case("K." + os.path.basename(p)[:-4], "kept-corpus", open(p, "rb").read(),
                          "file" if p.endswith(".file.nev") else "str", None))
    for d in sorted(glob.glob(os.path.join(cdir, "*/"))):
        mp = os.path.join(d, "main.nev")
        if os.path.exists(mp):
            cases.append(Case("K." + os.path.basename(d.rstrip("/")), "kept-corpus", open(mp, "rb").read(), "str", d.rstrip("/")))
    # (1) the sample corpus, as string and as file, with and without the module path
    for name, src in samples:
        cls = "corpus-negative" if name in neg else "corpus"
        cases.append(Case(name + ".s", cls, src, "str", SAMPLE_PATH))
        cases.append(Case(name + ".f", cls, src, "file", SAMPLE_PATH))
        cases.append(Case(name + ".n", cls + "-nopath", src, "str", None))
    srcs = [s for _, s in samples if s.strip()]
    pool = []
    for s in rng.sample(srcs, min(200, len(srcs))):
        pool += [t for t in tokenize(s) if not t.isspace()]
    # (2) token-level mutation and truncation of samples
    for i in range(int(12000 * scale)):
        s = rng.choice(srcs)
        ops = []
        for _ in range(rng.choice([1, 1, 1, 2, 3, 5])):
            s, op = mutate_tokens(rng, s, pool)
            ops.append(op)
        cases.append(Case("m%d" % i, "mutate", s, "str" if rng.random() < 0.8 else "file",
                          SAMPLE_PATH if rng.random() < 0.7 else None, {"ops": ops}))
    for i in range(int(3000 * scale)):
        s = rng.choice(srcs)
        if len(s) > 2:
            k = rng.randrange(1, len(s))
            cases.append(Case("t%d" % i, "truncate", s[:k], "str", SAMPLE_PATH))
    step_src = rng.sample(srcs, min(int(6 * scale) + 1, len(srcs)))
    for j, s in enumerate(step_src):                      # every k-th byte of a few samples
        k = max(1, len(s) // 120)
        for cut in range(1, len(s), k):
            cases.append(Case("tk%d.%d" % (j, cut), "truncate-every-k", s[:cut], "str", SAMPLE_PATH))
    # (3) grammar-aware generation with injected faults
    g = ProgGen(rng)
    for i in range(int(4000 * scale)):
        p = g.program().encode()
        if rng.random() < 0.12:
            cases.append(Case("g%d" % i, "generated-valid", p))
            continue
        names = []
        for _ in range(rng.choice([1, 1, 1, 2, 3])):
            p, nm = inject_fault(rng, p)
            names.append(nm)
        cases.append(Case("g%d" % i, "generated-fault", p, "str", None, {"faults": names}))
    for nm, d in enum_init_cases(rng, int(600 * scale)):
        cases.append(Case("E." + nm, "enum-initialisers", d))
    for nm, d in const_division_cases():
        cases.append(Case("CD." + nm, "constant-division", d))
    # (3b) grammar-driven syntax errors: every rule of parser.y x every position x illegal token
    try:
        gcases, ginfo = grammar_error_cases(common.REPO)
    except Exception as e:          # parser.y / scanner.l no longer readable by the tiny reader
        gcases, ginfo = [], {"error": str(e)[:300]}
    ctx.coverage["grammar_driven_syntax_errors"] = ginfo
    for nm, d in gcases:
        cases.append(Case("Y." + nm, "grammar-error", d))
    # (4) raw bytes
    for i in range(int(3000 * scale)):
        d, k = raw_bytes(rng, rng.choice(srcs))
        cases.append(Case("r%d" % i, "raw:" + k, d, "file" if (b"\x00" in d or rng.random() < 0.5) else "str", SAMPLE_PATH))
    # (5) long tokens and deep nesting
    sizes = [10, 100, 255, 256, 1000, 1023, 1024, 1100, 5000, 20000, 100000]
    if scale > 1:
        sizes += [rng.randint(900, 1200) for _ in range(6)] + [50000, 300000]
    for n in sizes:
        for nm, d in long_token_cases([n]):
            cases.append(Case("L.%s.%d" % (nm, n), "long:" + nm, d, "str", None, {"n": n}))
    depths = [10, 100, 1000, 3000, 9990, 10000, 10010]
    if scale > 1:
        depths += [rng.randint(2000, 12000) for _ in range(4)] + [30000]
    for n in depths:
        for nm, d in nesting_cases([n]):
            cases.append(Case("N.%s.%d" % (nm, n), "nest:" + nm, d, "str", None, {"n": n}))
    # (6) `use` graphs compiled for real: chains, cycles, diamonds, missing and broken modules
    kinds = ["chain", "chain-missing-end", "cycle", "self", "diamond", "wide", "tree", "random"]
    mods = os.path.join(workdir, "mods")
    i = 0
    for kind in kinds:
        for n in ([1, 2, 3, 14, 15, 16, 17, 18, 25, 40] if kind in ("chain", "chain-missing-end", "cycle") else [3, 8, 20]):
            for broken in (None, 0, n - 1):
                gph, missing, main = use_graph(rng, kind, n)
                root = os.path.join(mods, "u%d" % i)
                src = write_use_graph(root, gph, main, True, broken)
                cases.append(Case("U%d.%s.%d" % (i, kind, n), "use:" + kind + ("" if broken is None else "+broken-module"),
                                  src, "str" if i % 2 else "file", root, {"graph": {modname(a): [modname(b) for b in bs] for a, bs in gph.items()}}))
                i += 1
    for r in range(int(40 * scale)):
        gph, missing, main = use_graph(rng, "random", rng.randint(2, 24))
        root = os.path.join(mods, "u%d" % i)
        src = write_use_graph(root, gph, main, True, rng.choice([None, None, 0, 1]))
        cases.append(Case("U%d.random" % i, "use:random", src, "str", root))
        i += 1
    # a module whose NAME is longer than the message buffer: the file name is cut to
    # MAX_FILE_NAME_LEN-1 characters, the module name is not
    root = os.path.join(mods, "longname")
    os.makedirs(root, exist_ok=True)
    for L in (300, 1100):
        with open(os.path.join(root, "a" * 255), "w") as f:
            f.write("module x { func f() -> int { zz } }\n")
        cases.append(Case("U.longname.%d" % L, "use:long-module-name", b"use " + b"a" * L + b"\nfunc main() -> int { 0 }\n", "str", root))
    for nm, txt in (("emptymod", ""), ("nomodule", "func f() -> int { 1 }\n"), ("binary", "\x00\xff\x80"), ("onlyuse", "use onlyuse\n")):
        with open(os.path.join(root, nm + ".nev"), "wb") as f:
            f.write(txt.encode("latin-1"))
        cases.append(Case("U.odd.%s" % nm, "use:odd-module-file", ("use %s\nfunc main() -> int { 0 }\n" % nm).encode(), "str", root))
    # (7) forms around a capturing lambda / an enum record; extern over records with every member kind; NEVER_PATH components
    expect = {}
    for nm, src, exp in capture_form_cases():
        cases.append(Case("C." + nm, "forms:" + nm.split(".")[0], src.encode(), "str", None, {"expect": exp}))
    for nm, src in ffi_record_cases():
        cases.append(Case("X." + nm, "extern-record-members", src.encode(), "str", None))
    for nm, pathval, src in never_path_cases(os.path.join(mods, "neverpath")):
        cases.append(Case("P." + nm, "never-path", src.encode(), "str" if len(cases) % 2 else "file", pathval, {"NEVER_PATH": pathval}))
    os.makedirs(os.path.join(root, "adir.nev"), exist_ok=True)
    cases.append(Case("U.odd.directory", "use:odd-module-file", b"use adir\nfunc main() -> int { 0 }\n", "str", root))
    cases.append(Case("U.odd.slashes", "use:odd-module-file", b"use ../longname/emptymod\nuse ./nomodule\nuse /etc/passwd\nfunc main() -> int { 0 }\n", "str", root))
    return cases


def msgbuf_correspondence(ctx, drv, workdir):
    """(a) the extracted print_msg arithmetic against ASan's verdict on the real print_msg.
    Every case makes the compiler print one diagnostic quoting a long token; the observed stderr
    line gives the prefix length p and the body length b exactly; the model predicts whether
    print_msg's copy into msg_buf stays inside the buffer; ASan's interceptor of vsnprintf
    decides what really happened."""
    cases = []
    lens = list(range(960, 1012)) + [10, 500, 900, 1023, 1024, 1100, 2000, 5000]
    for L in lens:
        cases.append(Case("mb.s.%d" % L, "msgbuf", b"func main() -> int { " + b"a" * L + b" }", "str"))
    for L in list(range(930, 1000, 3)) + [10, 1100]:
        cases.append(Case("mb.f.%d" % L, "msgbuf", b"func main() -> int { " + b"b" * L + b" }", "file"))
    for L in list(range(975, 1006, 2)) + [10, 1100]:
        cases.append(Case("mb.l.%d" % L, "msgbuf", b"\n" * 12345 + b"func main() -> int { " + b"c" * L + b" }", "str"))
    # prefixes around and beyond the buffer size: the file name of a diagnostic inside a module is the
    # module name as written after `use` (unbounded), the file opened is its first 255 characters
    root = os.path.join(workdir, "mbmods")
    os.makedirs(root, exist_ok=True)
    with open(os.path.join(root, "m" * 255), "w") as f:
        f.write("module x { func f( -> int { zz } }\n")     # a SYNTAX error: reported under the name given to `use`
    for L in [300, 900, 1000, 1005, 1010, 1012, 1013, 1014, 1020, 1023, 1024, 1025, 1100, 3000]:
        cases.append(Case("mb.p.%d" % L, "msgbuf", b"use " + b"m" * L + b"\nfunc main() -> int { 0 }\n", "str", root))
    obs = run_cases(drv, cases, workdir, tag="mb")
    q, info = [], {}
    for c in cases:
        o = obs.get(c.id)
        if o is None:
            continue
        # the diagnostic with the longest prefix is the one that stresses the arithmetic
        best = None
        for ln in o.diag.split(b"\n")[:40]:
            m = re.match(rb"^(.*?:\d+: error: )(.*)$", ln, re.S)
            if m and (best is None or len(m.group(1)) > len(best.group(1))):
                best = m
        if best is None:
            continue
        p, b = len(best.group(1)), len(best.group(2))
        over = b"AddressSanitizer: stack-buffer-overflow" in o.diag and b"in print_msg" in o.diag
        other = (o.ret is None) and not over
        info[c.id] = (p, b, over, other, c)
        q.append("%s %d %d" % (c.id, p, b))
    out = run_ocaml("msg", ("\n".join(q) + "\n").encode())
    lines = out.splitlines()
    verdict = lines[0] if lines else "VERDICT ?"
    m = re.search(r"bufsize=(\d+)", verdict)
    bufsize = int(m.group(1)) if m else 1024
    n = agree = n_over = n_within = n_trunc = n_longprefix = 0
    first_bad = None
    boundary = {}
    for l in lines[1:]:
        a = l.split(" ")
        if len(a) != 2 or a[0] not in info:
            continue
        p, b, over, other, c = info[a[0]]
        if other:
            continue
        n += 1
        model_over = a[1] == "overflow"
        n_over += over
        n_within += (not over)
        n_trunc += (p + b >= bufsize)
        n_longprefix += (p >= bufsize)
        if model_over == over:
            agree += 1
        elif first_bad is None:
            first_bad = {"case": c.id, "prefix_len": p, "body_len": b, "model": a[1], "asan_overflow": over}
        if over:
            boundary[p] = min(boundary.get(p, 1 << 30), b)
        if c.id == "mb.s.1100":
            ctx.coverage.setdefault("msgbuf_tie", {})["replay_1100_character_identifier"] = {
                "input": "func main() -> int { a{x1100} }", "prefix_len": p, "body_len": b, "model": a[1],
                "asan_stack_buffer_overflow_in_print_msg": over}
    ctx.count(evaluations=n, nontrivial=min(n_trunc, n - n_trunc) * 2)
    ctx.coverage.setdefault("msgbuf_tie", {}).update({
        "cases": n, "agree": agree, "overflow_observed": n_over, "within_observed": n_within,
        "cases_where_the_diagnostic_does_not_fit_the_buffer": n_trunc, "cases_with_prefix_longer_than_buffer": n_longprefix,
        "model_verdict": verdict, "smallest_overflowing_body_by_prefix": {str(k): v for k, v in sorted(boundary.items())}})
    if first_bad is not None:
        ctx.correspondence_broken("msgbuf-arithmetic-vs-asan", first_bad)
    return verdict


def usestack_correspondence(ctx, drv, workdir, rng, scale):
    """(b) the extracted scanner walk against the real scanner (tokens mode) on module graphs."""
    mods = os.path.join(workdir, "umods")
    cases, q, graphs = [], [], {}
    kinds = ["chain", "chain-missing-end", "cycle", "self", "diamond", "wide", "tree"]
    i = 0
    specs = []
    for kind in kinds:
        for n in ([1, 2, 5, 14, 15, 16, 17, 18, 19, 30] if kind in ("chain", "chain-missing-end", "cycle") else [4, 9, 33]):
            specs.append((kind, n))
    for _ in range(int(150 * scale)):
        specs.append(("random", rng.randint(1, 30)))
    for kind, n in specs:
        gph, missing, main = use_graph(rng, kind, n)
        root = os.path.join(mods, "g%d" % i)
        src = write_use_graph(root, gph, main, False)
        cid = "ug%d" % i
        cases.append(Case(cid, "usestack:" + kind, src, "tokens", root))
        q.append("G %s" % cid)
        for a, bs in gph.items():
            q.append("M %d %s" % (a, " ".join(str(b) for b in bs)))
        q.append("MAIN %s" % " ".join(str(b) for b in main))
        q.append("END")
        graphs[cid] = (kind, n, gph, main)
        i += 1
    obs = run_cases(drv, cases, workdir, tag="ug")
    out = run_ocaml("use", ("\n".join(q) + "\n").encode())
    model = {}
    for l in out.splitlines():
        m = re.match(r"(\S+) ptrs=(\S*) final=(-?\d+) term=(\d) errors=(\d+) opened=(\S*)$", l)
        if m:
            model[m.group(1)] = ([int(x) for x in m.group(2).split(",") if x], int(m.group(3)), int(m.group(5)))
    n = agree = deep = 0
    first_bad = None
    maxptr = 0
    for c in cases:
        o = obs.get(c.id)
        if o is None or o.use is None:
            # the scanner itself crashed: that is a property violation, reported by the caller
            k, key, what = judge(c, o, {})
            if k in ("violation", "timeout", "asan-stack"):
                kind, nn, gph, main = graphs[c.id]
                ctx.violation(key or "use:scanner-crash", "scanning a `use` graph (%s, %d modules): %s" % (kind, nn, what),
                              {"case": {"main": c.data.decode(), "modules": {modname(a): ["use " + modname(b) for b in bs] for a, bs in gph.items()}},
                               "expected": "tokens until EOF", "observed": (o.diag[-1500:].decode("latin-1") if o else None)})
            continue
        n += 1
        mp = model.get(c.id)
        real = (o.use[0], o.use[1])
        nerr = len([l for l in o.diag.split(b"\n") if b"error:" in l])
        maxptr = max([maxptr] + real[0])
        if mp and mp[0] == real[0] and mp[1] == real[1] and mp[2] == nerr:
            agree += 1
            if real[0] and max(real[0]) >= 15:
                deep += 1
        elif first_bad is None:
            kind, nn, gph, main = graphs[c.id]
            first_bad = {"case": c.id, "kind": kind, "modules": nn, "model": mp, "scanner": [real[0], real[1], nerr]}
    ctx.count(evaluations=n, nontrivial=deep)
    ctx.coverage["usestack_tie"] = {"graphs": n, "agree": agree, "graphs_reaching_depth_15_or_more": deep,
                                    "largest_use_stack_ptr_seen": maxptr,
                                    "compared": "use_stack_ptr after every module-name token, its final value, number of <USE> diagnostics"}
    if first_bad is not None:
        ctx.correspondence_broken("usestack-walk-vs-scanner", first_bad)


def confirm_on_plain(plain_drv, workdir, cases, timeout=30):
    """Re-run inputs on the non-sanitized build with the default 8 MiB stack."""
    obs = run_cases(plain_drv, cases, workdir, timeout=timeout, tag="pl", extra_env={"ASAN_OPTIONS": ""})
    died = {}
    for c in cases:
        o = obs.get(c.id)
        if o is not None and o.status.startswith("signal_"):
            died[c.id] = o.status
    return died, obs


def bisect_depth(plain_drv, workdir, nm, lo, hi, timeout=30):
    """Smallest depth (to ~3%) at which construct nm kills the plain build; lo survives, hi dies."""
    while hi - lo > max(1, hi // 32):
        mids = sorted(set(lo + (hi - lo) * k // 8 for k in range(1, 8)))
        cs = []
        for m in mids:
            d = dict(nesting_cases([m]))[nm]
            cs.append(Case("bd.%d" % m, "nest:" + nm, d))
        died, _ = confirm_on_plain(plain_drv, workdir, cs, timeout)
        dead = [m for m in mids if "bd.%d" % m in died]
        alive = [m for m in mids if "bd.%d" % m not in died]
        nhi = min(dead) if dead else hi
        nlo = max([m for m in alive if m < nhi] + [lo])
        if (nlo, nhi) == (lo, hi):
            break
        lo, hi = nlo, nhi
    return hi


def replay_case(ctx, drv, workdir, pdrv=None):
    r = json.load(open(ctx.replay))
    cs = r.get("case") or {}
    if isinstance(cs, dict) and "construct" in cs and pdrv is not None:
        # a generated deep chain: rebuild it and run it on the non-sanitized build
        nm, n = cs["construct"], int(cs["elements"])
        c = Case("replay", "nest:" + nm, dict(nesting_cases([n]))[nm])
        died, pobs = confirm_on_plain(pdrv, workdir, [c], timeout=60)
        ctx.coverage["replay"] = {"file": ctx.replay, "construct": nm, "elements": n, "died": died.get("replay")}
        ctx.count(evaluations=1, nontrivial=1)
        if "replay" in died:
            ctx.violation(r.get("key", "stack-overflow:chain:%s" % nm), r.get("what", "stack overflow"), {"case": cs, "observed": died["replay"]})
        return
    inp = r.get("input", {})
    data = base64.b64decode(inp["base64"]) if "base64" in inp and not inp["base64"].startswith("(") else inp.get("text", "").encode("latin-1")
    path = r.get("never_path")
    if r.get("modules"):
        path = os.path.join(workdir, "replaymods")
        os.makedirs(path, exist_ok=True)
        for nm, txt in r["modules"].items():
            with open(os.path.join(path, nm), "wb") as f:
                f.write(txt.encode("latin-1"))
        for nm in r.get("module_directories", []):
            os.makedirs(os.path.join(path, nm), exist_ok=True)
    c = Case("replay", r.get("class", "replay"), data, r.get("mode", "str"), path)
    obs = run_cases(drv, [c], workdir, timeout=30)
    ver = classify(list(obs.values()))
    k, key, what = judge(c, obs.get("replay"), ver)
    ctx.coverage["replay"] = {"file": ctx.replay, "verdict": k, "key": key, "what": what}
    ctx.count(evaluations=1, nontrivial=1)
    if k in ("violation", "timeout"):
        ctx.violation(key, what, {"case": r.get("case"), "input": inp, "mode": c.mode, "observed": obs["replay"].diag[-1500:].decode("latin-1")})


def run(ctx):
    import gen_frontconsts
    t0 = time.time()
    if not getattr(ctx, "replay", None):
        for old in glob.glob(os.path.join(ctx.outdir, "replay_*.json")):
            os.unlink(old)
    g = gen_frontconsts.generate()
    ctx.coverage["regenerated"] = {"file": "coq/Gen/FrontConsts.v", "values": g["values"], "changed_this_run": g["changed"]}
    if g["problems"]:
        ctx.correspondence_broken("gen_frontconsts", g["problems"])
    ctx.proofs()
    ctx.coverage["partial"] = PARTIAL_TEXT
    t1 = time.time()
    drv = build_driver("compiledrive", ["front/compiledrive.c"], "asan")
    pdrv = build_driver("compiledrive", ["front/compiledrive.c"], "plain")
    workdir = tempfile.mkdtemp(prefix="nvc05.", dir="/var/tmp")
    if get_ocaml(ctx, "front", workdir) is None:
        shutil.rmtree(workdir, ignore_errors=True)
        return
    drv, pdrv = private_copy(drv, workdir), private_copy(pdrv, workdir)
    ctx.coverage["timing_s"] = {"gen+coq": round(t1 - t0, 1), "builds": round(time.time() - t1, 1)}
    try:
        if getattr(ctx, "replay", None):
            replay_case(ctx, drv, workdir, pdrv)
            return
        _run(ctx, drv, pdrv, workdir, t0)
    finally:
        shutil.rmtree(workdir, ignore_errors=True)


def dbg(msg):
    if os.environ.get("VERIF_DEBUG"):
        sys.stderr.write("[c05 %.1f] %s\n" % (time.time() % 10000, msg))
        sys.stderr.flush()


def _run(ctx, drv, pdrv, workdir, t0):
    rng = random.Random(ctx.seed * 1000003 + 5)
    thorough = ctx.tier == "thorough"
    t0s = time.time()
    scale = 20.0 if thorough else 1.0
    broken_before = len(ctx.broken)
    verdict = msgbuf_correspondence(ctx, drv, workdir)
    usestack_correspondence(ctx, drv, workdir, rng, scale)
    t_ties = time.time()
    if len(ctx.broken) > broken_before:
        scale *= 2          # §4.4 step 3: a tie or an obligation broke -> search with a larger budget
    cases = build_search_cases(ctx, rng, workdir, scale)
    t_gen = time.time()
    dbg("running %d cases" % len(cases))
    obs = run_cases(drv, cases, workdir, timeout=10 if not thorough else 20)
    dbg("classifying")
    verdicts = classify(list(obs.values()))
    dbg("judging")
    t_run = time.time()
    by_class, by_verdict = {}, {}
    findings = {}          # key -> list of (case, obs, what)
    asan_stack = []
    harness = []
    sampled = set()
    seen_inputs = set()
    nontrivial = 0
    memexh = 0
    for c in cases:
        o = obs.get(c.id)
        k, key, what = judge(c, o, verdicts)
        cls = c.cls.split(":")[0]
        by_class.setdefault(cls, {}).setdefault(k, 0)
        by_class[cls][k] += 1
        by_verdict[k] = by_verdict.get(k, 0) + 1
        h = hashlib.sha1(c.data + c.mode.encode() + (c.path or "").encode()).digest()
        if h not in seen_inputs:
            seen_inputs.add(h)
            if k != "ok":
                nontrivial += 1
        if o is not None and b"memory exhausted" in o.diag:
            memexh += 1
        exp = c.meta.get("expect") if isinstance(c.meta, dict) else None
        if exp and k in ("ok", "diagnosed") and o is not None and o.ret is not None:
            # families that know what the compiler has to say: a well-formed program must compile, an ill-formed one must not
            if exp == "reject" and o.ret == 0:
                k, key, what = "violation", "accepted-ill-formed:%s" % c.cls.split(":", 1)[-1], \
                    "an ill-formed program (%s) compiled with return code 0 and no diagnostic" % c.id
            elif exp == "accept" and o.ret != 0:
                k, key, what = "violation", "rejected-well-formed:%s" % c.cls.split(":", 1)[-1], \
                    "a well-formed program (%s) was rejected: %s" % (c.id, (error_lines(o.diag) or [b""])[0].decode("latin-1")[:100])
        if k == "asan-stack":
            asan_stack.append((c, o, key, what))
        elif k in ("violation", "timeout"):
            findings.setdefault(key, []).append((c, o, what))
        elif k == "harness":
            harness.append(c.id)
        if k in ("ok", "diagnosed") and len(c.data) < 200 and c.cls.startswith(("generated", "mutate", "raw", "truncate", "use")) \
                and (cls, k) not in sampled and len(sampled) < 6:
            sampled.add((cls, k))
            ctx.sample({"class": c.cls, "input": show_input(c.data, 200), "ret": o.ret, "classifier": k,
                        "diagnostics_first_line": o.diag.split(b"\n")[0].decode("latin-1")[:120]})
    ctx.count(evaluations=len(cases), nontrivial=nontrivial)
    # a time-out under 16-fold parallel load is not yet a hang: re-run those inputs a few at a time
    # with a six times larger limit and keep only the ones that still do not finish
    slow = [k for k in findings if k and k.startswith("hang:")]
    if slow:
        # a defect that hangs a whole family would cost (cases x 60 s): the six smallest inputs of each key represent it
        again = [c for k in slow for c, _, _ in sorted(findings[k], key=lambda t: len(t[0].data))[:6]]
        obs2 = run_cases(drv, again, workdir, timeout=60 if not thorough else 120, nproc=4, tag="h")
        ver2 = classify(list(obs2.values()))
        n_slow = len(again)
        for k in slow:
            del findings[k]
        for c in again:
            k2, key2, what2 = judge(c, obs2.get(c.id), ver2)
            if k2 in ("violation", "timeout"):
                findings.setdefault(key2, []).append((c, obs2.get(c.id), what2))
        ctx.coverage["timeouts_rechecked"] = {"timed_out_under_load": n_slow,
                                              "still_not_finishing_with_6x_limit": sum(len(v) for k, v in findings.items() if k and k.startswith("hang:"))}
    if harness:
        ctx.correspondence_broken("classifier-run", {"observations_without_verdict": len(harness), "first": harness[:5]})
    # stack overflows seen under ASan only count if the plain build (8 MiB stack) dies too
    confirmed, asan_only = [], 0
    if asan_stack:
        died, _ = confirm_on_plain(pdrv, workdir, [c for c, _, _, _ in asan_stack])
        for c, o, key, what in asan_stack:
            if c.id in died:
                confirmed.append((c, o, key, what))
            else:
                asan_only += 1
    # left-recursive constructs are not bounded by the parser stack: try them at 10^5.. on the plain build
    chain = ["binop-left-chain", "binop-left-chain-bad", "index-chain", "attr-chain", "string-concat-chain", "seq-long",
             "many-errors", "array-literal-wide", "many-args", "many-funcs"]
    big = [100000] + ([300000, 1000000] if thorough else [])
    ccs = []
    for n in big:
        d = dict(nesting_cases([n]))
        for nm in chain:
            ccs.append(Case("P.%s.%d" % (nm, n), "nest:" + nm, d[nm], "str", None, {"n": n}))
    # right-nested constructs are bounded by the parser's stack limit (bison YYMAXDEPTH: 'memory exhausted' at
    # depth 10000); far beyond that limit they must still be diagnosed, not crash the recursive passes
    nested = ["parens", "blocks", "arrays", "calls", "unary-minus", "unary-not", "binop-right-chain", "cond-chain",
              "if-else-chain", "nested-funcs", "nested-lambdas", "while-nest"]
    for n in [100000, 250000] + ([1000000] if thorough else []):
        d = dict(nesting_cases([n]))
        for nm in nested:
            ccs.append(Case("P.%s.%d" % (nm, n), "nest:" + nm, d[nm], "str", None, {"n": n}))
    died, pobs = confirm_on_plain(pdrv, workdir, ccs, timeout=60)
    pver = classify([o for o in pobs.values()])
    chain_dead = {}
    for c in ccs:
        cls = "nest-plain"
        o = pobs.get(c.id)
        if c.id in died:
            k = "violation"
            nm = c.cls.split(":")[1].replace("-bad", "")
            chain_dead[nm] = min(chain_dead.get(nm, 1 << 60), c.meta["n"])
        else:
            k, key, what = judge(c, o, pver)
            if k in ("violation", "timeout"):
                findings.setdefault(key, []).append((c, o, what))
        by_class.setdefault(cls, {}).setdefault(k, 0)
        by_class[cls][k] += 1
    ctx.count(evaluations=len(ccs), nontrivial=len(ccs))
    for nm, n in sorted(chain_dead.items()):
        depth = bisect_depth(pdrv, workdir, nm, 10000, n) if n == 100000 else n
        src = dict(nesting_cases([3]))[nm].decode()
        ctx.violation("stack-overflow:chain:%s" % nm,
                      "the compiler dies with SIGSEGV (stack exhausted by recursion over the expression tree, non-sanitized build, "
                      "8 MiB stack) on a `%s` of about %d elements" % (nm, depth),
                      {"case": {"construct": nm, "elements": depth, "shape_with_3_elements": src,
                                "generator": "checks/c05.py nesting_cases([%d])['%s']" % (depth, nm)},
                       "expected": "ok or diagnosed", "observed": "signal 11 (plain build); ASan build: stack-overflow report",
                       "class": "nest:" + nm, "mode": "str"})
    for c, o, key, what in confirmed:
        findings.setdefault(key, []).append((c, o, what + " (also dies on the non-sanitized build)"))
    # report every distinct mechanism once, with a shrunk input
    known = set(k.get("key") for k in ctx.known if k.get("status", "known") == "known")
    shrink_budget = 40 if thorough else 12
    for key in sorted(findings, key=lambda k: (k is None, str(k))):
        lst = findings[key]
        c, o, what = min(lst, key=lambda t: len(t[0].data))
        data, tested = c.data, 0
        dbg("finding %s: %d cases, smallest %d bytes (%s)" % (key, len(lst), len(c.data), c.id))
        kept = [x for x in lst if x[0].cls == "kept-corpus"]
        if kept:                      # an already minimised input from corpus/C05 reproduces it: use that one
            c, o, what = min(kept, key=lambda t: len(t[0].data))
            data = c.data
        elif key not in known and shrink_budget > 0 and key is not None and len(c.data) > 12 and not c.cls.startswith("use:"):
            shrink_budget -= 1
            data, tested = shrink(drv, workdir, c, key, budget_rounds=16 if thorough else 10)
        replay = {"case": {"id": c.id, "class": c.cls, "meta": c.meta, "found_in_cases": len(lst), "shrink_runs": tested,
                           "original_length": len(c.data)},
                  "input": show_input(data), "mode": c.mode, "class": c.cls,
                  "never_path": (c.path if c.path and c.path.startswith(common.REPO) else None),
                  "expected": "ret=0 without `error:` line, or ret!=0 with a `file:line: error:` line; no signal, sanitizer report or time-out",
                  "observed": {"status": o.status if o else None, "ret": o.ret if o else None,
                               "diagnostics_tail": (o.diag[-1800:].decode("latin-1") if o else None)}}
        if c.path and not c.path.startswith(common.REPO) and os.path.isdir(c.path):
            mods, dirs = {}, []
            for fn in sorted(os.listdir(c.path))[:60]:
                fp = os.path.join(c.path, fn)
                if os.path.isfile(fp):
                    mods[fn] = open(fp, "rb").read().decode("latin-1")
                else:
                    dirs.append(fn)
            replay["modules"] = mods
            replay["module_directories"] = dirs
        ctx.violation(key or ("hang:%s" % c.cls), what, replay)
    ctx.coverage["rule"] = (
        "every input is compiled by the tree's libnev.a (ASan+UBSan build, -DNEVER_VERIF) in a forked child with a time limit; "
        "the oracle is the property itself: no signal/abort/sanitizer report/time-out, and the extracted verified classifier "
        "says ok (ret=0, no `error:` line) or diagnosed (ret!=0, >=1 `file:line: error:` line). distinct_nontrivial = distinct "
        "inputs that left the success path (a diagnostic was produced or the oracle failed) + tie cases on both sides of a boundary. "
        "Stack overflows reported by ASan count only if the non-sanitized build dies too.")
    ctx.coverage["classes"] = by_class
    ctx.coverage["verdicts"] = by_verdict
    ctx.coverage["parser_memory_exhausted_diagnosed"] = memexh
    ctx.coverage["asan_only_stack_overflows_not_counted"] = asan_only
    ctx.coverage["distinct_failure_mechanisms"] = sorted(str(k) for k in findings) + ["stack-overflow:chain:%s" % n for n in sorted(chain_dead)]
    ctx.coverage["timing_s"].update({"ties": round(t_ties - t0s, 1), "generate": round(t_gen - t_ties, 1), "run+classify": round(t_run - t_gen, 1),
                                     "confirm+shrink+report": round(time.time() - t_run, 1), "total": round(time.time() - t0, 1)})
