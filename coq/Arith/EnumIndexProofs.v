(* Arith/EnumIndexProofs.v — properties of the enumerator index assignment (Arith/EnumIndex.v).

   no_fuel_needed            the evaluation terminates: with |E|+1 units of fuel (index_of) the
                             result is never XFuel — cyclic systems included
   resolve_stable            an index, once computed, does not depend on the fuel nor on which
                             enumerators were being reduced when it was asked for
   index_fixpoint            the computed indices satisfy the defining equations
   index_unique              ... and ANY assignment satisfying the equations agrees with them:
                             the index of an enumerator is determined by the equations alone,
                             not by the order in which enumred.c happens to visit them
   index_order_independent   permuting the declarations (forward references become backward
                             references and vice versa) changes no result
   cyclic_reported_sound     XCyclic is only reported when a dependency cycle is reachable
   cyclic_never_ok           an enumerator on or above a dependency cycle never gets an index
   acyclic_not_cyclic        no dependency cycle below k  ->  the result is not XCyclic *)
From Coq Require Import ZArith Bool List Arith Lia Permutation Relations.
From NV Require Import Arith.NumTy Arith.Promote Arith.Constred Arith.Enumred Arith.EnumIndex.
Import ListNotations.

(* ---- keys ------------------------------------------------------------------------------ *)

Lemma key_eqb_eq : forall a b, key_eqb a b = true <-> a = b.
Proof.
  intros [a1 a2] [b1 b2]; unfold key_eqb; cbn. rewrite andb_true_iff, !Nat.eqb_eq.
  split; [intros [-> ->]; reflexivity | intros H; inversion H; auto].
Qed.

Lemma key_eqb_refl : forall a, key_eqb a a = true.
Proof. intros; apply key_eqb_eq; reflexivity. Qed.

Lemma memk_In : forall k l, memk k l = true <-> In k l.
Proof.
  induction l as [|h t IH]; cbn; [split; [discriminate | tauto]|].
  rewrite orb_true_iff, IH, key_eqb_eq. split; intros [H|H]; auto.
Qed.

Lemma memk_false : forall k l, memk k l = false <-> ~ In k l.
Proof.
  intros k l. rewrite <- memk_In. destruct (memk k l); split; intros; congruence.
Qed.

Lemma lookup_In : forall E k b, lookup E k = Some b -> In k (map fst E).
Proof.
  induction E as [|[k' b'] t IH]; cbn; intros k b H; [discriminate|].
  destruct (key_eqb k k') eqn:Q; [left; symmetry; apply key_eqb_eq; exact Q | right; eauto].
Qed.

(* ---- the evaluation of a body only looks at the references of the body ------------------- *)

Lemma inst_ext : forall e r1 r2,
  (forall k, In k (refs e) -> r1 k = r2 k) -> inst r1 e = inst r2 e.
Proof.
  induction e; cbn; intros r1 r2 H.
  - rewrite (H k); auto.
  - reflexivity.
  - f_equal; auto.
  - f_equal; [apply IHe1 | apply IHe2]; intros k Hk; apply H; rewrite in_app_iff; auto.
  - f_equal; auto.
  - f_equal; [apply IHe1 | apply IHe2 | apply IHe3]; intros k Hk; apply H; rewrite !in_app_iff; auto.
Qed.

Lemma first_err_none : forall r ks,
  first_err r ks = None <-> (forall k, In k ks -> exists z, r k = XOk z).
Proof.
  induction ks as [|h t IH]; cbn.
  - split; [intros _ k [] | reflexivity].
  - destruct (r h) eqn:Q; rewrite ?IH;
      try (split; [discriminate | intros H; destruct (H h (or_introl eq_refl)) as [z Hz]; congruence]).
    split; [intros H k [<-|Hk]; eauto | intros H k Hk; apply H; auto].
Qed.

Lemma first_err_some : forall r ks e,
  first_err r ks = Some e -> exists k, In k ks /\ r k = e /\ (forall z, e <> XOk z).
Proof.
  induction ks as [|h t IH]; cbn; intros e H; [discriminate|].
  destruct (r h) eqn:Q;
    try (inversion H; subst; exists h; repeat split; auto; intros; discriminate).
  destruct (IH _ H) as [k [Hk [Hr Hn]]]. exists k; auto.
Qed.

Lemma eval_closed_not_fuel : forall s, eval_closed s <> XFuel.
Proof.
  intros s; unfold eval_closed.
  destruct (elab s) as [[e t]|]; [|discriminate].
  destruct t; try discriminate;
    (destruct (efold e) as [e'| |]; try discriminate;
     destruct e' as [l| | | | |]; try discriminate; destruct l; discriminate).
Qed.

Lemma eval_closed_not_cyclic : forall s, eval_closed s <> XCyclic.
Proof.
  intros s; unfold eval_closed.
  destruct (elab s) as [[e t]|]; [|discriminate].
  destruct t; try discriminate;
    (destruct (efold e) as [e'| |]; try discriminate;
     destruct e' as [l| | | | |]; try discriminate; destruct l; discriminate).
Qed.

(* r2 knows at least the indices r1 knows *)
Definition extends (r1 r2 : key -> xres) : Prop := forall k z, r1 k = XOk z -> r2 k = XOk z.

Lemma eval_body_mono : forall r1 r2 body z,
  extends r1 r2 -> eval_body r1 body = XOk z -> eval_body r2 body = XOk z.
Proof.
  unfold eval_body; intros r1 r2 body z Hx H.
  destruct (first_err r1 (refs body)) eqn:F1.
  - subst x. apply first_err_some in F1. destruct F1 as [k [_ [_ Hn]]]. exfalso; eapply Hn; eauto.
  - assert (A : forall k, In k (refs body) -> exists z, r1 k = XOk z) by (apply first_err_none; exact F1).
    assert (F2 : first_err r2 (refs body) = None).
    { apply first_err_none. intros k Hk. destruct (A k Hk) as [z' Hz]. exists z'. apply Hx; exact Hz. }
    rewrite F2. rewrite <- H. f_equal. apply inst_ext.
    intros k Hk. destruct (A k Hk) as [z' Hz]. unfold val_of. rewrite Hz, (Hx _ _ Hz). reflexivity.
Qed.

Lemma eval_body_ext : forall r1 r2 body,
  (forall k, r1 k = r2 k) -> eval_body r1 body = eval_body r2 body.
Proof.
  unfold eval_body; intros r1 r2 body H.
  assert (F : forall ks, first_err r1 ks = first_err r2 ks).
  { induction ks as [|h t IH]; cbn; [reflexivity|]. rewrite H, IH. reflexivity. }
  rewrite F. destruct (first_err r2 (refs body)); [reflexivity|].
  f_equal. apply inst_ext. intros k _. unfold val_of. rewrite H. reflexivity.
Qed.

(* ---- termination ------------------------------------------------------------------------- *)

Lemma resolve_no_fuel : forall fuel E stack k,
  NoDup stack -> incl stack (map fst E) -> (length E < fuel + length stack)%nat ->
  resolve fuel E stack k <> XFuel.
Proof.
  induction fuel as [|f IH]; intros E stack k ND Inc Len.
  - exfalso. pose proof (NoDup_incl_length ND Inc) as L. rewrite map_length in L. cbn in Len. lia.
  - cbn. destruct (memk k stack) eqn:M; [discriminate|].
    destruct (lookup E k) as [body|] eqn:L; [|discriminate].
    assert (R : forall k', resolve f E (k :: stack) k' <> XFuel).
    { intros k'. apply IH.
      - constructor; [apply memk_false; exact M | exact ND].
      - intros x [<-|Hx]; [eapply lookup_In; eauto | apply Inc; exact Hx].
      - cbn [length]. lia. }
    unfold eval_body. destruct (first_err _ (refs body)) eqn:F.
    + apply first_err_some in F. destruct F as [k' [_ [Hr _]]]. rewrite <- Hr. apply R.
    + apply eval_closed_not_fuel.
Qed.

Theorem no_fuel_needed : forall E k, index_of E k <> XFuel.
Proof.
  intros E k. unfold index_of. apply resolve_no_fuel.
  - constructor.
  - intros x [].
  - cbn. lia.
Qed.

(* ---- stability: fuel and stack do not influence a computed index -------------------------- *)

Lemma resolve_stable : forall f E st k z,
  resolve f E st k = XOk z ->
  forall f' st', (f <= f')%nat -> incl st' st -> resolve f' E st' k = XOk z.
Proof.
  induction f as [|f IH]; intros E st k z H f' st' Hf Hs; [discriminate|].
  destruct f' as [|f']; [lia|]. cbn in *.
  destruct (memk k st) eqn:M; [discriminate|].
  assert (M' : memk k st' = false).
  { apply memk_false. intros Hin. apply (proj1 (memk_false k st) M). apply Hs; exact Hin. }
  rewrite M'. destruct (lookup E k) as [body|]; [|discriminate].
  eapply eval_body_mono; [|exact H].
  intros k' z' Hk'. eapply IH; [exact Hk' | lia|].
  intros x [<-|Hx]; [left; reflexivity | right; apply Hs; exact Hx].
Qed.

Theorem index_fixpoint : forall E k z,
  index_of E k = XOk z ->
  exists body, lookup E k = Some body /\ eval_body (index_of E) body = XOk z.
Proof.
  unfold index_of; intros E k z H. cbn in H.
  destruct (lookup E k) as [body|] eqn:L; [|discriminate].
  exists body; split; [reflexivity|].
  eapply eval_body_mono; [|exact H].
  intros k' z' Hk'. eapply resolve_stable; [exact Hk' | lia | intros x []].
Qed.

(* ---- uniqueness ----------------------------------------------------------------------------- *)

(* rho satisfies the equation of every enumerator *)
Definition solution (E : eqs) (rho : key -> Z) : Prop :=
  forall k body, lookup E k = Some body -> eval_closed (inst rho body) = XOk (rho k).

Lemma resolve_unique : forall E rho, solution E rho ->
  forall f st k z, resolve f E st k = XOk z -> rho k = z.
Proof.
  intros E rho Sol. induction f as [|f IH]; intros st k z H; [discriminate|].
  cbn in H. destruct (memk k st); [discriminate|].
  destruct (lookup E k) as [body|] eqn:L; [|discriminate].
  unfold eval_body in H. destruct (first_err _ (refs body)) eqn:F.
  - subst x. apply first_err_some in F. destruct F as [k' [_ [_ Hn]]]. exfalso; eapply Hn; eauto.
  - pose proof (proj1 (first_err_none _ _) F) as A.
    assert (I : inst (val_of (resolve f E (k :: st))) body = inst rho body).
    { apply inst_ext. intros k' Hk'. destruct (A k' Hk') as [z' Hz]. unfold val_of. rewrite Hz.
      symmetry. eapply IH; exact Hz. }
    rewrite I, (Sol _ _ L) in H. inversion H; reflexivity.
Qed.

Theorem index_unique : forall E rho k z,
  solution E rho -> index_of E k = XOk z -> rho k = z.
Proof. intros E rho k z Sol H. eapply resolve_unique; eauto. Qed.

(* ---- declaration order ------------------------------------------------------------------------ *)

Lemma resolve_ext : forall E E', (forall k, lookup E k = lookup E' k) ->
  forall f st k, resolve f E st k = resolve f E' st k.
Proof.
  intros E E' HL. induction f as [|f IH]; intros st k; cbn; [reflexivity|].
  destruct (memk k st); [reflexivity|]. rewrite <- HL.
  destruct (lookup E k); [|reflexivity]. apply eval_body_ext. intros k'; apply IH.
Qed.

Lemma lookup_not_in : forall E k, ~ In k (map fst E) -> lookup E k = None.
Proof.
  intros E k H. destruct (lookup E k) eqn:L; [|reflexivity]. exfalso; apply H; eapply lookup_In; eauto.
Qed.

Lemma lookup_perm : forall E E', Permutation E E' -> NoDup (map fst E) ->
  forall k, lookup E k = lookup E' k.
Proof.
  induction 1; intros ND k.
  - reflexivity.
  - destruct x as [k' b]; cbn in *. inversion ND; subst.
    destruct (key_eqb k k'); [reflexivity | auto].
  - destruct x as [k1 b1], y as [k2 b2]; cbn in *.
    destruct (key_eqb k k2) eqn:Q2, (key_eqb k k1) eqn:Q1; try reflexivity.
    apply key_eqb_eq in Q1, Q2; subst. inversion ND; subst. exfalso; apply H1; left; reflexivity.
  - rewrite IHPermutation1 by assumption. apply IHPermutation2.
    eapply Permutation_NoDup; [apply Permutation_map; eassumption | assumption].
Qed.

Theorem index_order_independent : forall E E' k,
  Permutation E E' -> NoDup (map fst E) -> index_of E k = index_of E' k.
Proof.
  intros E E' k P ND. unfold index_of. rewrite (Permutation_length P).
  apply resolve_ext. apply lookup_perm; assumption.
Qed.

(* ---- cycles ---------------------------------------------------------------------------------------- *)

(* k mentions k' in its body *)
Definition dep (E : eqs) (k k' : key) : Prop :=
  exists body, lookup E k = Some body /\ In k' (refs body).

Definition on_cycle (E : eqs) (k : key) : Prop := clos_trans key (dep E) k k.
Definition reaches (E : eqs) (k k' : key) : Prop := clos_refl_trans key (dep E) k k'.

Lemma step_rt_t : forall E x y z, dep E x y -> reaches E y z -> clos_trans key (dep E) x z.
Proof.
  intros E x y z D R. apply clos_rt_rt1n in R. revert x D.
  induction R as [y | y a z Hya _ IH]; intros x D.
  - apply t_step; exact D.
  - eapply t_trans; [apply t_step; exact D | apply IH; exact Hya].
Qed.

Lemma resolve_cyclic_sound : forall E f st k,
  resolve f E st k = XCyclic ->
  (exists k1, reaches E k k1 /\ In k1 st) \/ (exists k1, reaches E k k1 /\ on_cycle E k1).
Proof.
  intros E. induction f as [|f IH]; intros st k H; [discriminate|]. cbn in H.
  destruct (memk k st) eqn:M.
  - left. exists k; split; [apply rt_refl | apply memk_In; exact M].
  - destruct (lookup E k) as [body|] eqn:L; [|discriminate].
    unfold eval_body in H. destruct (first_err _ (refs body)) eqn:F.
    + subst x. apply first_err_some in F. destruct F as [k' [Hin [Hr _]]].
      assert (D : dep E k k') by (exists body; auto).
      destruct (IH _ _ Hr) as [[k1 [R [Hk1|Hk1]]]|[k1 [R C]]].
      * subst k1. right. exists k; split; [apply rt_refl|].
        unfold on_cycle. eapply step_rt_t; eauto.
      * left. exists k1; split; [|exact Hk1]. eapply rt_trans; [apply rt_step; exact D | exact R].
      * right. exists k1; split; [|exact C]. eapply rt_trans; [apply rt_step; exact D | exact R].
    + exfalso; eapply eval_closed_not_cyclic; eauto.
Qed.

Theorem cyclic_reported_sound : forall E k,
  index_of E k = XCyclic -> exists k1, reaches E k k1 /\ on_cycle E k1.
Proof.
  intros E k H. destruct (resolve_cyclic_sound _ _ _ _ H) as [[k1 [_ []]]|R]; exact R.
Qed.

Corollary acyclic_not_cyclic : forall E k,
  (forall k1, reaches E k k1 -> ~ on_cycle E k1) -> index_of E k <> XCyclic.
Proof.
  intros E k A H. destruct (cyclic_reported_sound _ _ H) as [k1 [R C]]. exact (A k1 R C).
Qed.

(* an index at k needs an index, obtained with less fuel, at everything k depends on *)
Lemma ok_step : forall E f k z k',
  resolve f E [] k = XOk z -> dep E k k' ->
  exists f' z', (f' < f)%nat /\ resolve f' E [] k' = XOk z'.
Proof.
  intros E f k z k' H [body [L Hin]]. destruct f as [|f]; [discriminate|]. cbn in H. rewrite L in H.
  unfold eval_body in H. destruct (first_err _ (refs body)) eqn:F.
  - subst x. apply first_err_some in F. destruct F as [k2 [_ [_ Hn]]]. exfalso; eapply Hn; eauto.
  - destruct (proj1 (first_err_none _ _) F k' Hin) as [z' Hz].
    exists f, z'; split; [lia|]. eapply resolve_stable; [exact Hz | lia | intros x []].
Qed.

Lemma ok_trans : forall E k k', clos_trans key (dep E) k k' ->
  forall f z, resolve f E [] k = XOk z ->
  exists f' z', (f' < f)%nat /\ resolve f' E [] k' = XOk z'.
Proof.
  intros E k k' T. apply clos_trans_t1n in T.
  induction T as [k k' D | k m k' D _ IH]; intros f z H.
  - eapply ok_step; eauto.
  - destruct (ok_step _ _ _ _ _ H D) as [f1 [z1 [L1 H1]]].
    destruct (IH _ _ H1) as [f2 [z2 [L2 H2]]]. exists f2, z2; split; [lia | exact H2].
Qed.

Lemma on_cycle_no_index : forall E k, on_cycle E k -> forall f z, resolve f E [] k <> XOk z.
Proof.
  intros E k C f. induction f as [f IH] using lt_wf_ind. intros z H.
  destruct (ok_trans _ _ _ C _ _ H) as [f' [z' [L H']]]. exact (IH f' L z' H').
Qed.

Theorem cyclic_never_ok : forall E k k1 z,
  reaches E k k1 -> on_cycle E k1 -> index_of E k <> XOk z.
Proof.
  intros E k k1 z R C H. unfold index_of in H.
  apply clos_rt_rtn1 in R. 
  assert (G : exists f z1, resolve f E [] k1 = XOk z1).
  { clear C. induction R as [| m k1 D _ IH].
    - eauto.
    - destruct IH as [f [z1 Hm]]. destruct (ok_step _ _ _ _ _ Hm D) as [f' [z' [_ H']]]. eauto. }
  destruct G as [f [z1 G]]. exact (on_cycle_no_index _ _ C _ _ G).
Qed.

(* ---- examples: the model is runnable and gives the expected numbering ----------------------- *)

(* enum Shape { Scale = Shape::Circle * 10, Point = 7, Circle { r : int; }, Next = Shape::Circle + 1 } *)
Example forward_record_reference :
  decl_indices [[ItValue (XBin Mul (XRef (0, 2)) (XLit (LInt 10)));
                 ItValue (XLit (LInt 7)); ItRecord;
                 ItValue (XBin Add (XRef (0, 2)) (XLit (LInt 1)))]%nat]
  = DOk [[80; 7; 8; 9]%Z].
Proof. vm_compute. reflexivity. Qed.

(* enum A { X = B::Q + 1, Y, Z { a : int; } }  enum B { P = 5, Q { x : int; }, R = A::Z <<< 2 } *)
Example across_enums :
  decl_indices [[ItValue (XBin Add (XRef (1, 1)) (XLit (LInt 1))); ItPlain; ItRecord];
                [ItValue (XLit (LInt 5)); ItRecord; ItValue (XBin Shl (XRef (0, 2)) (XLit (LInt 2)))]]%nat
  = DOk [[7; 8; 9]; [5; 6; 36]]%Z.
Proof. vm_compute. reflexivity. Qed.

Example cyclic_is_reported :
  decl_indices [[ItValue (XBin Add (XRef (0, 1)) (XLit (LInt 1)));
                 ItValue (XBin Add (XRef (0, 0)) (XLit (LInt 1)))]]%nat
  = DBad (0, 0)%nat XCyclic.
Proof. vm_compute. reflexivity. Qed.

Example duplicate_is_reported :
  decl_indices [[ItPlain; ItValue (XLit (LInt 0))]] = DDup (0, 1)%nat 0%Z.
Proof. vm_compute. reflexivity. Qed.
