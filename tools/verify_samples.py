"""dev tool: run the extracted verifier + shape-machine lock-step over all /repo/sample programs"""
import sys, os, glob, subprocess, collections
from concurrent.futures import ThreadPoolExecutor
sys.path.insert(0,'/verif')
from lib import common
d=common.cc_driver('bcdump',['vm/bcdump.c'],common.repobuild('plain'))
env=dict(os.environ, NEVER_PATH='/repo/sample/lib:/repo/sample')
import tempfile, shutil, atexit
DUMPS=tempfile.mkdtemp(prefix='nvdumps.',dir='/var/tmp')
atexit.register(lambda: shutil.rmtree(DUMPS,ignore_errors=True))
def run(f):
    b=os.path.basename(f)
    out=DUMPS+'/'+b+'.dump'
    try:
        with open(out,'w') as o:
            subprocess.run([d,'--trace','--max-steps','100000',f],stdout=o,stderr=subprocess.DEVNULL,stdin=subprocess.DEVNULL,timeout=60,env=env,cwd='/repo/sample')
        p=subprocess.run(['/verif/build/ocaml/verifier/run',out,'--max-steps','30000'],stdout=subprocess.PIPE,stderr=subprocess.PIPE,timeout=300)
        return b,[l for l in p.stdout.decode().splitlines() if not l.startswith('MAXDEPTH')], p.stderr.decode()[-300:]
    except subprocess.TimeoutExpired:
        return b,['TIMEOUT'],''
files=sorted(glob.glob('/repo/sample/*.nev'))
c=collections.Counter()
with ThreadPoolExecutor(16) as ex:
    for b,lines,err in ex.map(run,files):
        key=' | '.join(l.split(' step=')[0] if l.startswith('LOCKSTEP ok') else l for l in lines[1:]) if len(lines)>1 else ' '.join(lines)
        if 'VERIFY ok' in key and ('LOCKSTEP ok' in key or 'LOCKSTEP none' in key): c['ok']+=1
        elif 'not-compiled' in key: c['nocompile']+=1
        else:
            c['bad']+=1; print(b,key,err)
print(c)
