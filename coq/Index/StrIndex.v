(* Model of string indexing and string slices (definitions only, executable).

   Mirrors back/vmexec.c vm_execute_string_deref (STRING_DEREF) and vm_execute_slice_string
   (SLICE_STRING).  A string is the list of its character codes (no NUL inside); its length is
   strlen.  A read at offset k means the handler evaluates str[k]; when k is outside
   [0, len] that is a read of memory that does not belong to the string. *)
From Coq Require Import ZArith List Bool.
From NV Require Import Index.W32 Index.ArrIndex.
Import ListNotations.
Local Open Scope Z_scope.

Definition str := list Z.
Definition strlen (s : str) : Z := Z.of_nat (length s).

(* vm_execute_string_deref:
     if (str_ptr == nil) NIL_POINTER
     if (index < 0 || index >= (int)strlen(str)) INDEX_OOB          (fix a6ffef6 added index < 0)
     c = str[index]
   Ok k : the character at offset k is read and pushed. *)
Definition string_deref (s : option str) (index : Z) : result Z :=
  match s with
  | None => Exc NilPointer
  | Some s =>
      if (index <? 0) || (s32 (strlen s) <=? index) then Exc (IndexOob (-1)) else Ok index
  end.

(* the character produced when the offset lies inside the string *)
Definition string_char (s : str) (k : Z) : option Z :=
  if (0 <=? k) && (k <? strlen s) then nth_error s (Z.to_nat k) else None.

(* vm_execute_slice_string (no nil checks in the pinned tree: modelled for non-nil operands):
     if (from < 0 || to < 0 || from >= len || to >= len) INDEX_OOB
     if (from < to) strndup(str + from, to - from + 1)
     else { strndup(str + to, from - to + 1); reverse in place by swapping i <-> sl-i-1 } *)
Definition substr (s : str) (off n : Z) : str := firstn (Z.to_nat n) (skipn (Z.to_nat off) s).

(* the in-place reversal loop: for (i = 0; i < sl / 2; i++) swap(res[i], res[sl - i - 1]) *)
Fixpoint set_nat (l : str) (k : nat) (v : Z) : str :=
  match l, k with
  | [], _ => []
  | _ :: t, O => v :: t
  | x :: t, S k' => x :: set_nat t k' v
  end.
Definition set_nth (l : str) (k : Z) (v : Z) : str := set_nat l (Z.to_nat k) v.

Fixpoint swap_loop (fuel : nat) (i sl : Z) (l : str) : str :=
  match fuel with
  | O => l
  | S f =>
      if i <? sl / 2 then
        let x := nth (Z.to_nat i) l 0 in
        let y := nth (Z.to_nat (sl - i - 1)) l 0 in
        swap_loop f (i + 1) sl (set_nth (set_nth l i y) (sl - i - 1) x)
      else l
  end.

Definition slice_string (s : str) (from to : Z) : result str :=
  let len := s32 (strlen s) in
  if (from <? 0) || (to <? 0) || (len <=? from) || (len <=? to) then Exc (IndexOob (-1))
  else if from <? to then Ok (substr s from (u32 (to - from + 1)))
  else
    let sl := u32 (from - to + 1) in
    Ok (swap_loop (Z.to_nat sl) 0 sl (substr s to sl)).
