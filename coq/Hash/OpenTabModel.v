(* Model of the open-addressing hash tables of /repo (definitions only, executable).

   back/dlcache.c, back/functab.c, back/dltab.c, front/symtab.c, front/moduletab.c ("blind" add)
   and back/strtab.c ("dedup" add) share one shape:

     entries : array of `size` slots, a slot is free iff its key pointer is NULL;
     <t>_entry_add   : index = hash_string(key) % size;
                       while (entries[index].key != NULL) {            (strtab: return the stored
                           index = (index + 1) % size;                  value if strcmp == 0)
                           if (times++ > size) { assert(0); return; }
                       }
                       entries[index] = (key, payload);
     <t>_entry_lookup: same probe sequence, returns the first slot whose key strcmp-equals,
                       NULL at the first free slot, NULL ("give up") if times++ > size;
     <t>_entry_resize: for (i = 0; i < size; i++) if (entries[i].key != NULL)
                           <t>_entry_add(entries_new, size_new, entries[i]...);

   The array is a list of slots; indices, sizes, `times` are nat (C: unsigned int; the model does
   not wrap at 2^32: it coincides with the C arithmetic while size * 3 < 2^32, i.e. below
   1431655765 slots = 21 GiB of dlcache entries).  `hash` is a Section variable with values in N
   (hash_string returns unsigned int; DlCacheModel.hash_string is the model of front/hash.c used by
   the extracted driver).  Keys are compared by `name_eqb` (strcmp(a, b) == 0).  `% size` with
   size = 0 is a division by zero in C (SIGFPE): the model answers DivZero. *)
From Coq Require Import List Arith NArith Bool.
Import ListNotations.

Section OpenTab.
  Variable name : Type.
  Variable name_eqb : name -> name -> bool.
  Variable hash : name -> N.
  Variable V : Type.

  Definition slot := option (name * V).
  Definition entries := list slot.

  Definition slot_at (es : entries) (i : nat) : slot := nth i es None.

  Fixpoint upd (es : entries) (i : nat) (s : slot) : entries :=
    match es, i with
    | [], _ => []
    | _ :: t, O => s :: t
    | x :: t, S j => x :: upd t j s
    end.

  (* the occupied slots in index order (the abstract contents), and their number *)
  Fixpoint contents (es : entries) : list (name * V) :=
    match es with
    | [] => []
    | None :: t => contents t
    | Some p :: t => p :: contents t
    end.

  Definition nocc (es : entries) : nat := length (contents es).

  (* hash_string(key) % size *)
  Definition start (size : nat) (n : name) : nat := N.to_nat (N.modulo (hash n) (N.of_nat size)).

  (* <t>_entry_new(size): malloc + memset 0 *)
  Definition entry_new (size : nat) : entries := repeat None size.

  Inductive probe :=
  | Slot (i : nat)          (* loop left at the free slot i *)
  | Existing (i : nat)      (* dedup add only: slot i holds an equal key *)
  | GiveUp                  (* times++ > size *)
  | OutOfFuel.              (* model artefact, excluded by OpenTabProofs.add_loop_run *)

  (* the probing loop of <t>_entry_add; `dedup` = the strcmp test of strtab_entry_add_string *)
  Fixpoint add_loop (dedup : bool) (fuel : nat) (es : entries) (size index times : nat) (n : name)
    : probe :=
    match fuel with
    | O => OutOfFuel
    | S f =>
        match slot_at es index with
        | None => Slot index
        | Some (m, _) =>
            if dedup && name_eqb m n then Existing index
            else if size <? times then GiveUp
            else add_loop dedup f es size ((index + 1) mod size) (S times) n
        end
    end.

  Inductive add_res :=
  | AddOk (es : entries)
  | AddExisting (i : nat)   (* dedup add: nothing written, entry i already holds the key *)
  | AddAbort                (* assert(0) (NDEBUG: silent return, entry dropped) *)
  | AddDivZero              (* size = 0: hash % 0 *)
  | AddOutOfFuel.

  Definition entry_add (dedup : bool) (es : entries) (size : nat) (n : name) (v : V) : add_res :=
    if size =? 0 then AddDivZero else
    match add_loop dedup (size + 3) es size (start size n) 0 n with
    | Slot i => AddOk (upd es i (Some (n, v)))
    | Existing i => AddExisting i
    | GiveUp => AddAbort
    | OutOfFuel => AddOutOfFuel
    end.

  Inductive lres :=
  | Hit (i : nat)           (* &entries[i] *)
  | Miss                    (* NULL: free slot reached *)
  | MissGiveUp              (* NULL: times++ > size *)
  | LDivZero
  | LOutOfFuel.

  Fixpoint lookup_loop (fuel : nat) (es : entries) (size index times : nat) (n : name) : lres :=
    match fuel with
    | O => LOutOfFuel
    | S f =>
        match slot_at es index with
        | None => Miss
        | Some (m, _) =>
            if name_eqb m n then Hit index
            else if size <? times then MissGiveUp
            else lookup_loop f es size ((index + 1) mod size) (S times) n
        end
    end.

  Definition entry_lookup (es : entries) (size : nat) (n : name) : lres :=
    if size =? 0 then LDivZero else lookup_loop (size + 3) es size (start size n) 0 n.

  (* payload of the entry a lookup returns (None = NULL pointer returned) *)
  Definition lookup_val (es : entries) (size : nat) (n : name) : option V :=
    match entry_lookup es size n with
    | Hit i => match slot_at es i with Some (_, v) => Some v | None => None end
    | _ => None
    end.

  (* <t>_entry_resize(entries, size, entries_new, size_new): re-insert in index order.  With the
     dedup add an equal key already present in entries_new is skipped (AddExisting). *)
  Fixpoint entry_resize (dedup : bool) (old : entries) (es_new : entries) (size_new : nat) : add_res :=
    match old with
    | [] => AddOk es_new
    | None :: t => entry_resize dedup t es_new size_new
    | Some (n, v) :: t =>
        match entry_add dedup es_new size_new n v with
        | AddOk e => entry_resize dedup t e size_new
        | AddExisting _ => entry_resize dedup t es_new size_new
        | r => r
        end
    end.

  (* ---- the table object: size, count, entries ------------------------------------------- *)
  Record tab := mk_tab { t_size : nat; t_count : nat; t_entries : entries }.

  Inductive res (A : Type) :=
  | Ok (a : A)
  | Abort                   (* assert(0) in the add loop *)
  | DivZero
  | Fuel.
  Arguments Ok {A} a.
  Arguments Abort {A}.
  Arguments DivZero {A}.
  Arguments Fuel {A}.

  (* <t>_resize: if (count > size * 3 / 4) { size_new = size * 2; rehash } *)
  Definition tab_resize (dedup : bool) (t : tab) : res tab :=
    if t_size t * 3 / 4 <? t_count t then
      let size_new := t_size t * 2 in
      match entry_resize dedup (t_entries t) (entry_new size_new) size_new with
      | AddOk e => Ok (mk_tab size_new (t_count t) e)
      | AddExisting _ => Fuel         (* entry_resize never returns it *)
      | AddAbort => Abort
      | AddDivZero => DivZero
      | AddOutOfFuel => Fuel
      end
    else Ok t.

  (* blind tables: <t>_add = entry_add; count++; resize  (dlcache_add_dl, functab_add_func, ...) *)
  Definition tab_add (t : tab) (n : name) (v : V) : res tab :=
    match entry_add false (t_entries t) (t_size t) n v with
    | AddOk e => tab_resize false (mk_tab (t_size t) (S (t_count t)) e)
    | AddExisting _ => Fuel           (* not returned by the blind add *)
    | AddAbort => Abort
    | AddDivZero => DivZero
    | AddOutOfFuel => Fuel
    end.

  Definition tab_lookup (t : tab) (n : name) : lres := entry_lookup (t_entries t) (t_size t) n.
  Definition tab_lookup_val (t : tab) (n : name) : option V := lookup_val (t_entries t) (t_size t) n.

End OpenTab.

Arguments Ok {A} a.
Arguments Abort {A}.
Arguments DivZero {A}.
Arguments Fuel {A}.
Arguments AddOk {name V} es.
Arguments AddExisting {name V} i.
Arguments AddAbort {name V}.
Arguments AddDivZero {name V}.
Arguments AddOutOfFuel {name V}.
Arguments mk_tab {name V}.
Arguments t_size {name V}.
Arguments t_count {name V}.
Arguments t_entries {name V}.
