(* sexp — s-expression serialisation of Src.Syntax programs, so that a failing case can be kept in
   a replay file and re-evaluated (`run eval <file>`), shrunk (`run shrink <file>`) or printed
   (`run pp <file>`).

     program ::= (program (recs (rec R (ty..))..) (funcs fdef..) (main N))
     fdef    ::= (fdef N ((N var|let ty)..) ty (items..) ((catch EXN (items..))..) (all items..) | (noall))
     ty      ::= int | bool | (fun (ty..) ty) | (arr ty) | (rec R)
     item    ::= (let N e) | (var N e) | (func fdef) | (expr e)
     e       ::= (int Z) | true | false | (v N) | (neg e) | (not e) | (bnot e) | (bin OP e e)
               | (cond e e e) | (if e e) | (assign e e) | (call e (e..)) | (block item..)
               | (while e e) | (dowhile e e) | (for e e e e) | (lambda fdef) | (arrlit ty (e..))
               | (index e e) | (new R (e..)) | (nil R) | (field e R POS) | (print e) *)
open Evalmodel
open Conv

type t = A of string | L of t list

let rec to_buf b = function
  | A s -> Buffer.add_string b s
  | L l -> Buffer.add_char b '(';
    List.iteri (fun i x -> if i > 0 then Buffer.add_char b ' '; to_buf b x) l;
    Buffer.add_char b ')'

let to_string s = let b = Buffer.create 1024 in to_buf b s; Buffer.contents b

let parse (s : string) : t =
  let n = String.length s in
  let pos = ref 0 in
  let rec skip () = if !pos < n && (s.[!pos] = ' ' || s.[!pos] = '\n' || s.[!pos] = '\t' || s.[!pos] = '\r') then (incr pos; skip ()) in
  let rec one () =
    skip ();
    if !pos >= n then failwith "sexp: eof";
    if s.[!pos] = '(' then begin
      incr pos;
      let acc = ref [] in
      let rec loop () =
        skip ();
        if !pos >= n then failwith "sexp: eof in list";
        if s.[!pos] = ')' then incr pos else (acc := one () :: !acc; loop ()) in
      loop (); L (List.rev !acc)
    end else begin
      let st = !pos in
      while !pos < n && not (List.mem s.[!pos] [' '; '\n'; '\t'; '\r'; '('; ')']) do incr pos done;
      A (String.sub s st (!pos - st))
    end in
  one ()

let binop_names = [Add, "add"; Sub, "sub"; Mul, "mul"; Div, "div"; Mod, "mod"; Lt0, "lt"; Le, "le"; Gt0, "gt";
                   Ge, "ge"; Eq0, "eq"; Ne, "ne"; And, "and"; Or, "or"; BAnd, "band"; BOr, "bor"; BXor, "bxor";
                   Shl, "shl"; Shr, "shr"]
let binop_name op = List.assoc op binop_names
let binop_of_name s = fst (List.find (fun (_, n) -> n = s) binop_names)

let ai k = A (string_of_int k)
let an x = ai (int_of_n x)

let rec of_ty = function
  | TInt -> A "int" | TBool -> A "bool"
  | TFun (a, r) -> L [A "fun"; L (List.map of_ty a); of_ty r]
  | TArr t -> L [A "arr"; of_ty t]
  | TRec r -> L [A "rec"; an r]

let rec of_expr = function
  | EInt z -> L [A "int"; ai (int_of_z z)]
  | EBool b -> A (if b then "true" else "false")
  | EVar x -> L [A "v"; an x]
  | ENeg a -> L [A "neg"; of_expr a]
  | ENot a -> L [A "not"; of_expr a]
  | EBNot a -> L [A "bnot"; of_expr a]
  | EBin (op, a, b) -> L [A "bin"; A (binop_name op); of_expr a; of_expr b]
  | ECond (c, a, b) -> L [A "cond"; of_expr c; of_expr a; of_expr b]
  | EIf (c, a) -> L [A "if"; of_expr c; of_expr a]
  | EAssign (a, b) -> L [A "assign"; of_expr a; of_expr b]
  | ECall (f, args) -> L [A "call"; of_expr f; L (List.map of_expr args)]
  | EBlock items -> L (A "block" :: List.map of_item items)
  | EWhile (c, b) -> L [A "while"; of_expr c; of_expr b]
  | EDoWhile (b, c) -> L [A "dowhile"; of_expr b; of_expr c]
  | EFor (i, c, s, b) -> L [A "for"; of_expr i; of_expr c; of_expr s; of_expr b]
  | EForInRange (x, a, b, body) -> L [A "forrange"; an x; of_expr a; of_expr b; of_expr body]
  | EForInArr (x, a, body) -> L [A "forarr"; an x; of_expr a; of_expr body]
  | ELambda fd -> L [A "lambda"; of_fdef fd]
  | EArrLit (es, t) -> L [A "arrlit"; of_ty t; L (List.map of_expr es)]
  | EIndex (a, i) -> L [A "index"; of_expr a; of_expr i]
  | ERecNew (r, args) -> L [A "new"; an r; L (List.map of_expr args)]
  | ERecNil r -> L [A "nil"; an r]
  | EField (a, r, pos) -> L [A "field"; of_expr a; an r; ai (int_of_nat pos)]
  | EPrint a -> L [A "print"; of_expr a]
and of_item = function
  | ILet (x, e) -> L [A "let"; an x; of_expr e]
  | IVar (x, e) -> L [A "var"; an x; of_expr e]
  | IFunc fd -> L [A "func"; of_fdef fd]
  | IExpr e -> L [A "expr"; of_expr e]
and of_fdef (FDef (name, params, ret, body, catches, call)) =
  L [A "fdef"; an name;
     L (List.map (fun ((x, v), t) -> L [an x; A (if v then "var" else "let"); of_ty t]) params);
     of_ty ret;
     L (List.map of_item body);
     L (List.map (fun (ex, h) -> L [A "catch"; A (exn_name ex); L (List.map of_item h)]) catches);
     (match call with Some h -> L (A "all" :: List.map of_item h) | None -> L [A "noall"])]

let of_program (p : program) =
  L [A "program";
     L (A "recs" :: List.map (fun (r, tys) -> L [A "rec"; an r; L (List.map of_ty tys)]) p.p_recs);
     L (A "funcs" :: List.map of_fdef p.p_funcs);
     L [A "main"; an p.p_main]]

let bad what s = failwith ("sexp: bad " ^ what ^ ": " ^ to_string s)
let to_int = function A s -> int_of_string s | s -> bad "int" s
let to_n s = n_of_int (to_int s)

let rec to_ty = function
  | A "int" -> TInt | A "bool" -> TBool
  | L [A "fun"; L a; r] -> TFun (List.map to_ty a, to_ty r)
  | L [A "arr"; t] -> TArr (to_ty t)
  | L [A "rec"; r] -> TRec (to_n r)
  | s -> bad "ty" s

let rec to_expr = function
  | L [A "int"; k] -> EInt (z_of_int (to_int k))
  | A "true" -> EBool true | A "false" -> EBool false
  | L [A "v"; x] -> EVar (to_n x)
  | L [A "neg"; a] -> ENeg (to_expr a)
  | L [A "not"; a] -> ENot (to_expr a)
  | L [A "bnot"; a] -> EBNot (to_expr a)
  | L [A "bin"; A op; a; b] -> EBin (binop_of_name op, to_expr a, to_expr b)
  | L [A "cond"; c; a; b] -> ECond (to_expr c, to_expr a, to_expr b)
  | L [A "if"; c; a] -> EIf (to_expr c, to_expr a)
  | L [A "assign"; a; b] -> EAssign (to_expr a, to_expr b)
  | L [A "call"; f; L args] -> ECall (to_expr f, List.map to_expr args)
  | L (A "block" :: items) -> EBlock (List.map to_item items)
  | L [A "while"; c; b] -> EWhile (to_expr c, to_expr b)
  | L [A "dowhile"; b; c] -> EDoWhile (to_expr b, to_expr c)
  | L [A "for"; i; c; s; b] -> EFor (to_expr i, to_expr c, to_expr s, to_expr b)
  | L [A "forrange"; x; a; b; body] -> EForInRange (to_n x, to_expr a, to_expr b, to_expr body)
  | L [A "forarr"; x; a; body] -> EForInArr (to_n x, to_expr a, to_expr body)
  | L [A "lambda"; fd] -> ELambda (to_fdef fd)
  | L [A "arrlit"; t; L es] -> EArrLit (List.map to_expr es, to_ty t)
  | L [A "index"; a; i] -> EIndex (to_expr a, to_expr i)
  | L [A "new"; r; L args] -> ERecNew (to_n r, List.map to_expr args)
  | L [A "nil"; r] -> ERecNil (to_n r)
  | L [A "field"; a; r; pos] -> EField (to_expr a, to_n r, nat_of_int (to_int pos))
  | L [A "print"; a] -> EPrint (to_expr a)
  | s -> bad "expr" s
and to_item = function
  | L [A "let"; x; e] -> ILet (to_n x, to_expr e)
  | L [A "var"; x; e] -> IVar (to_n x, to_expr e)
  | L [A "func"; fd] -> IFunc (to_fdef fd)
  | L [A "expr"; e] -> IExpr (to_expr e)
  | s -> bad "item" s
and to_fdef = function
  | L [A "fdef"; name; L params; ret; L body; L catches; call] ->
    FDef (to_n name,
          List.map (function L [x; A v; t] -> ((to_n x, v = "var"), to_ty t) | s -> bad "param" s) params,
          to_ty ret,
          List.map to_item body,
          List.map (function L [A "catch"; A ex; L h] -> (exn_of_name ex, List.map to_item h) | s -> bad "catch" s) catches,
          (match call with L (A "all" :: h) -> Some (List.map to_item h) | _ -> None))
  | s -> bad "fdef" s

let to_program = function
  | L [A "program"; L (A "recs" :: recs); L (A "funcs" :: funcs); L [A "main"; m]] ->
    { p_recs = List.map (function L [A "rec"; r; L tys] -> (to_n r, List.map to_ty tys) | s -> bad "rec" s) recs;
      p_funcs = List.map to_fdef funcs;
      p_main = to_n m }
  | s -> bad "program" s

let program_to_string p = to_string (of_program p)
let program_of_string s = to_program (parse s)
