(* frontrun — driver around the extracted front-end slices (C05).  Unverified glue: number
   conversion, reading framed records, printing.

   frontrun classify      stdin: records  "C <id> <ret> <len>\n<len bytes>\n"
                          stdout: "<id> ok|diagnosed|inconsistent" per record
   frontrun msg           stdin: lines "<id> <p> <b>"; stdout: "<id> within|overflow";
                          first output line: "VERDICT safe|unsafe [<p> <b>] bufsize=<n>"
   frontrun use           stdin: cases
                              G <id>
                              M <name> <use>*        (an existing module and the names it uses)
                              MAIN <use>*
                              END
                          stdout: "<id> ptrs=<p1,p2,..> final=<ptr> term=<0|1> errors=<n> opened=<n1,n2,..>"
   Names are non-negative integers. *)
open Frontmodel

let rec pos_of_int i = if i = 1 then XH else if i land 1 = 1 then XI (pos_of_int (i lsr 1)) else XO (pos_of_int (i lsr 1))
let n_of_int i = if i = 0 then N0 else Npos (pos_of_int i)
let z_of_int i = if i = 0 then Z0 else if i > 0 then Zpos (pos_of_int i) else Zneg (pos_of_int (- i))
let rec int_of_pos = function XH -> 1 | XO p -> 2 * int_of_pos p | XI p -> 2 * int_of_pos p + 1
let int_of_n = function N0 -> 0 | Npos p -> int_of_pos p
let int_of_z = function Z0 -> 0 | Zpos p -> int_of_pos p | Zneg p -> - (int_of_pos p)
let rec nat_of_int i = if i <= 0 then O else S (nat_of_int (i - 1))
let rec int_of_nat = function O -> 0 | S k -> 1 + int_of_nat k

let byte_tab = Array.init 256 n_of_int

let bytes_to_list (s : string) : n list =
  let r = ref [] in
  for i = String.length s - 1 downto 0 do r := byte_tab.(Char.code s.[i]) :: !r done; !r

let verdict_name = function VOk -> "ok" | VDiagnosed -> "diagnosed" | VInconsistent -> "inconsistent"

let classify_mode () =
  (try
    while true do
      let hdr = input_line stdin in
      match String.split_on_char ' ' hdr with
      | ["C"; id; ret; len] ->
        let len = int_of_string len in
        let buf = really_input_string stdin len in
        let _ = input_char stdin in
        let v = classify_bytes (z_of_int (int_of_string ret)) (bytes_to_list buf) in
        Printf.printf "%s %s\n" id (verdict_name v)
      | _ -> if hdr <> "" then (Printf.printf "?? bad header %s\n" hdr)
    done
  with End_of_file -> ())

let msg_mode () =
  (match msg_overflow_witness with
   | None -> Printf.printf "VERDICT safe bufsize=%d\n" (int_of_z mSG_BUF_SIZE)
   | Some (p, b) -> Printf.printf "VERDICT unsafe %d %d bufsize=%d\n" (int_of_z p) (int_of_z b) (int_of_z mSG_BUF_SIZE));
  (try
    while true do
      let l = input_line stdin in
      match String.split_on_char ' ' (String.trim l) with
      | [id; p; b] ->
        let w = within_buffer (z_of_int (int_of_string p)) (z_of_int (int_of_string b)) in
        Printf.printf "%s %s\n" id (if w then "within" else "overflow")
      | _ -> ()
    done
  with End_of_file -> ())

let use_mode () =
  let id = ref "" and g = ref [] and main = ref [] in
  let ints l = List.map (fun x -> n_of_int (int_of_string x)) (List.filter (fun x -> x <> "") l) in
  (try
    while true do
      let l = String.trim (input_line stdin) in
      match String.split_on_char ' ' l with
      | "G" :: i :: _ -> id := i; g := []; main := []
      | "M" :: name :: uses -> g := (n_of_int (int_of_string name), ints uses) :: !g
      | "MAIN" :: uses -> main := ints uses
      | "END" :: _ ->
        let total = List.fold_left (fun a (_, u) -> a + List.length u + 1) (List.length !main + 1) !g in
        (* every use token and every end of buffer costs one unit of fuel; a module is opened once *)
        let fuel = nat_of_int (2 * total + 8) in
        let (s, ptrs) = walk_main fuel (List.rev !g) !main in
        Printf.printf "%s ptrs=%s final=%d term=%d errors=%d opened=%s\n" !id
          (String.concat "," (List.map (fun z -> string_of_int (int_of_z z)) ptrs))
          (int_of_z s.u_ptr) (if s.u_term then 1 else 0) (int_of_nat s.u_errors)
          (String.concat "," (List.map (fun n -> string_of_int (int_of_n n)) s.u_opened))
      | _ -> ()
    done
  with End_of_file -> ())

let () =
  match Array.to_list Sys.argv with
  | _ :: "classify" :: _ -> classify_mode ()
  | _ :: "msg" :: _ -> msg_mode ()
  | _ :: "use" :: _ -> use_mode ()
  | _ -> prerr_endline "usage: frontrun classify|msg|use"; exit 2
