"""C01 — accepted programs run safely: exactly one of {result, unhandled exception, failed
assert, reported limit}; never a host crash or an invalid memory access.

Decided by (see Properties_C01.v): the frame-discipline theorem for all paths of verified code
(C07), the collector theorems (reachable objects are never reclaimed or altered, C09/C04), the
stack/heap limit theorems (C14) and type safety of the reference evaluator for the modelled
core; the byte-level behaviour of the C handlers is outside this family of technique and is
*observed*: every accepted program of the corpus and of the generators runs on the tree's VM
built with asserts + ASan/UBSan under several heap/stack sizes; any signal, abort, failed C
assert, sanitizer report, or exit without one of the four reports is a violation with the
program and configuration as replay.
"""
import collections
import glob
import hashlib
import os

from lib import common, nevrun, vmcheck

LEVEL = "proof"

CONFIGS_QUICK = [(None, None), (400, 200), (5000, 70), (64, 200)]
CONFIGS_THOROUGH = CONFIGS_QUICK + [(150, 120), (1000, 45), (20000, 1000), (33, 40), (5000, 37)]


def load_programs():
    progs = []
    for pid, path, cwd in vmcheck.corpus_programs():
        try:
            src = open(path, errors="replace").read()
        except OSError:
            continue
        progs.append((pid, src))
    # regression/witness programs kept by the other engines
    for path in sorted(glob.glob(os.path.join(common.VERIF, "corpus", "C*", "**", "*.nev"), recursive=True)):
        if "/C05/" in path or "/C06/" in path or "/C16/" in path:
            continue            # malformed / ill-typed inputs belong to C05, C06
        try:
            progs.append(("corpus/" + os.path.relpath(path, os.path.join(common.VERIF, "corpus")), open(path, errors="replace").read()))
        except OSError:
            pass
    return progs


PRELUDE = """record A { x : int; } record B { s : string; } enum E { one, two }
func fi(a : int) -> int { a } func fs(a : string) -> int { 1 }
"""
LOCALS = """  let ai = [1,2,3] : int; let ast = ["a","b","c"] : string; let af = [1.5, 2.5] : float;
  let m = [[1,2],[3,4]] : int;
"""
# type shapes: name -> (value expression, statement that uses a variable `v` of that type)
SHAPES = {
    "int": ("7", "print(v + 1)"),
    "string": ('"str"', 'prints(v + "\\n")'),
    "char": ("'c'", "printc(v)"),
    "bool": ("true", "print(v ? 1 : 0)"),
    "arr_int": ("ai", "print(v[0] + 1)"),
    "arr_string": ("ast", 'prints(v[0] + "\\n")'),
    "arr_float": ("af", "printf(v[0])"),
    "arr2_int": ("m", "print(v[1,1])"),
    "slice_int": ("ai[0..1]", "print(v[0] + 1)"),
    "slice_string": ("ast[0..1]", 'prints(v[0] + "\\n")'),
    "slice_float": ("af[0..1]", "printf(v[0])"),
    "range": ("[0..3]", "print(v[1])"),
    "rec_A": ("A(1)", "print(v.x + 1)"),
    "rec_B": ('B("q")', 'prints(v.s + "\\n")'),
    "enum": ("E::one", "print(v == E::one ? 1 : 0)"),
    "fun_int": ("fi", "print(v(1))"),
    "fun_string": ("fs", 'print(v("a"))'),
}
PARAM_DECL = {
    "int": "p : int", "string": "p : string", "char": "p : char", "bool": "p : bool",
    "arr_int": "p[D] : int", "arr_string": "p[D] : string", "arr_float": "p[D] : float", "arr2_int": "p[D1, D2] : int",
    "rec_A": "p : A", "rec_B": "p : B", "enum": "p : E", "fun_int": "p(int) -> int", "fun_string": "p(string) -> int",
}


def illtyped_matrix():
    """ordered pairs of distinct type shapes: `var v = <T1 value>; v = <T2 value>; use v as T1` and
    `take(p : T1) … take(<T2 value>)`.  Every one is ill-typed: if the compiler accepts it, it is
    run, and a crash is a C01 violation (tag confusion)."""
    cases = []
    names = sorted(SHAPES)
    for t1 in names:
        for t2 in names:
            if t1 == t2 or (t1, t2) == ("int", "enum"):     # enum -> int is an admitted conversion
                continue
            v1, use1 = SHAPES[t1]
            v2, _ = SHAPES[t2]
            src = PRELUDE + "func main() -> int {\n" + LOCALS + "  var v = %s;\n  v = %s;\n  %s;\n  0\n}\n" % (v1, v2, use1)
            cases.append({"id": "illtyped|assign|%s<-%s" % (t1, t2), "src": src, "pid": "illtyped:assign:%s<-%s" % (t1, t2)})
            if t1 in PARAM_DECL:
                src = (PRELUDE + "func take(%s) -> int { %s; 0 }\n" % (PARAM_DECL[t1], use1.replace("v", "p").replace("prints(p", "prints(p").replace("print(p", "print(p"))
                       + "func main() -> int {\n" + LOCALS + "  take(%s)\n}\n" % v2)
                cases.append({"id": "illtyped|arg|%s<-%s" % (t1, t2), "src": src, "pid": "illtyped:arg:%s<-%s" % (t1, t2)})
    return cases


def chunks(l, n):
    for i in range(0, len(l), n):
        yield l[i:i + n]


def key_of(pid, cls):
    # stable key: mechanism (first frame of the sanitizer report / assert text) + program
    return "%s@%s" % (cls.replace(" ", "_")[:90], pid)


def run(ctx):
    ctx.proofs()
    drv = nevrun.build("asan")
    progs = load_programs()
    configs = CONFIGS_QUICK if ctx.tier == "quick" else CONFIGS_THOROUGH
    rng = ctx.rng
    cases = []
    for pid, src in progs:
        for (mem, stack) in configs:
            c = {"id": "%s|m%s|s%s" % (pid, mem, stack), "src": src, "pid": pid}
            if mem:
                c["mem"] = mem
            if stack:
                c["stack"] = stack
            cases.append(c)
        # one seeded random configuration per program
        c = {"id": "%s|rnd" % pid, "src": src, "pid": pid, "mem": rng.choice([2, 5, 17, 90, 700, 3000]),
             "stack": rng.choice([31, 36, 50, 90, 150, 400])}
        c["id"] = "%s|m%d|s%d" % (pid, c["mem"], c["stack"])
        cases.append(c)
    # fresh well-typed programs from the E5 generator, all profiles, at two small configurations
    import tempfile, shutil
    gdir = tempfile.mkdtemp(prefix="nvc01.", dir="/var/tmp")
    try:
        for gid, gpath, _ in vmcheck.generated_programs(gdir, ctx.seed + 17, 12 if ctx.tier == "quick" else 150):
            gsrc = open(gpath, errors="replace").read()
            for (mem, stack) in ((20000, 3000), (600, 3000), (20000, 120)):
                cases.append({"id": "%s|m%d|s%d" % (gid, mem, stack), "src": gsrc, "pid": gid, "mem": mem, "stack": stack})
    finally:
        shutil.rmtree(gdir, ignore_errors=True)
    matrix = illtyped_matrix()
    cases += matrix
    # the indexing / slicing probe programs of the C12 engine (every guard path of the deref
    # and slice handlers): here only the crash oracle is applied to them
    try:
        from checks import c12 as _c12
        for pr in _c12.gen_programs(ctx):
            cases.append({"id": "c12probe|%s" % pr.pid, "src": pr.source(), "pid": "c12probe:%s" % pr.pid})
    except Exception as ex:      # the C12 engine is optional for this check
        ctx.notes["c12_probes_unavailable"] = repr(ex)[:200]
    batches = list(chunks(cases, 60))
    results = vmcheck.pmap(lambda b: nevrun.run_batch(drv, b, timeout_per=8), batches)
    hist = collections.Counter()
    classes_per_prog = collections.defaultdict(set)
    byid = {c["id"]: c for c in cases}
    nontrivial = set()
    for res in results:
        for cid, r in res.items():
            c = byid.get(cid)
            if c is None:
                continue
            cls = nevrun.classify(r)
            hist[cls.split(":")[0] if not cls.startswith("CRASH") else "CRASH"] += 1
            ctx.count(evaluations=1)
            classes_per_prog[c["pid"]].add(cls.split(":")[0])
            if c["pid"].startswith("illtyped:"):
                hist["illtyped_" + ("rejected" if cls == "compile_error" else "ACCEPTED")] += 1
                if cls != "compile_error" and not cls.startswith("CRASH"):
                    ctx.coverage.setdefault("illtyped_accepted_without_crash", []).append(c["pid"])
            if cls.startswith("CRASH"):
                ctx.violation(key_of(c["pid"], cls), "%s on accepted program %s (mem=%s stack=%s)" % (
                    cls, c["pid"], c.get("mem"), c.get("stack")),
                    {"program": c["pid"], "source": c["src"], "mem": c.get("mem"), "stack": c.get("stack"),
                     "class": cls, "output_tail": r["text"][-1500:]})
            elif cls in ("result",) or cls.startswith("unhandled") or cls == "assert" or cls.startswith("limit"):
                nontrivial.add((hashlib.md5(c["src"].encode()).hexdigest(), cls.split(":")[0]))
    ctx.coverage["distinct_nontrivial"] = len(nontrivial)
    ctx.coverage["rule"] = ("every program of the fixed corpus (/repo/sample + /verif/corpus/programs) that the tree's compiler "
                            "accepts is run under the ASan+UBSan, asserts-on build with %d heap/stack configurations + one seeded "
                            "random one; distinct_nontrivial = distinct (program, outcome class) pairs that reached a run-time "
                            "outcome (result / unhandled exception / failed assert / reported limit)" % len(configs))
    ctx.coverage["outcome_histogram"] = dict(hist)
    ctx.coverage["programs"] = len(progs)
    ctx.coverage["configs"] = [list(c) for c in configs]
    ctx.coverage["partial"] = ("memory safety of the C handlers at the byte level is observed by sanitizers on the cases run, "
                               "not proved (no C semantics in this sandbox); proved: frame discipline on all paths (C07), "
                               "collector safety (C09/C04), evaluator-level rules")
    multi = [p for p, s in classes_per_prog.items() if len(s - {"compile_error", "timeout"}) >= 2]
    for p in multi[:3]:
        ctx.sample({"program": p, "outcome_classes_over_configs": sorted(classes_per_prog[p])})
    ctx.coverage["exhaustive"] = False
