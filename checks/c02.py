"""C02 — compiled programs compute what the evaluation rules say.

Proof side: coq/Properties/Properties_C02.v (ctx.proofs()); the model is coq/Src/Syntax.v + Src/Eval.v
(reference evaluator written from the language rules: names bound to shared cells, binary operands
left to right, call / constructor / array-literal arguments right to left, && and || short-circuit,
32-bit wrap-around, faults unwinding to catch clauses).

Tie + search (checks/parts/evaldiff.py): the evaluator is extracted to OCaml
(coq/Extract/ExtractEval.v -> build/ocaml/eval/run) together with a type-directed generator of
well-typed, terminating programs (harness/ocaml/eval/gen.ml, idioms.ml; profiles arith, order, alias,
closure, shadow, loops, records, arrays, catch, tailrec, pipe, mix).  Every generated program is compiled
and run by the tree's real compiler + VM (ASan/UBSan build, harness/common/nevrun.c); result value,
printed numbers and unhandled exception must equal the evaluator's.  Every program additionally runs
with one small VM heap (150, 220 or 400 cells instead of 20000, rotating by case) so that collections
happen while frames are suspended; a run that reaches the heap limit is skipped for that
configuration, any other difference from the evaluator / crash is a violation (replay carries the heap).
  real != evaluator on an accepted program   -> ctx.violation   (shrunk; key = node-kind signature)
  crash / sanitizer report / time-out          -> ctx.violation   (C01 material, key crash:...)
  compiler rejects a generated program         -> ctx.correspondence_broken("generator-program-rejected")
The evaluator is a validated model for the part of the language beyond the proved stages of
compile_correct: evidence says `partial`.
corpus/C02/*.json (minimised programs that once disagreed) run first.
"""
LEVEL = "proof"

import os
import shutil
import tempfile

from lib import common
from checks.parts import evaldiff

CORPUS = os.path.join(common.VERIF, "corpus", "C02")

HEAPS = (150, 220, 400)

NOT_MODELLED = [
    "generator restriction: a nested function never takes a name that an ADJACENT EARLIER nested function uses for an outer "
    "binding of another type (adjacent nested functions are mutually visible, in Never and in Src/Eval.v func_env: the earlier "
    "body would be ill-typed); forward references, mutual recursion between siblings and a later sibling replacing an outer "
    "function of the same type are generated",
    "generator restriction: a closure capturing x is never followed, later in the same block, by a binding of x (known finding "
    "late-shadow-after-closure, reported by C08 from corpus/C08)",
    "generator restriction: blocks end with an expression item; no compile-time constant zero divisors; shift counts 0..31; "
    "nil only as argument / assigned value; functions with var parameters are not used as first-class values (rules of the real "
    "type checker, stricter than the evaluator); == / != with nil on records, arrays and function values is generated, but a nil "
    "array or a nil function value cannot be written in Never (nil is rejected as array / function argument and assigned value), "
    "so those comparisons always see a non-nil reference",
    "tail-recursive loops run 150..450 iterations (30..250 outside the tailrec profile): the extracted evaluator keeps cells in a list "
    "and is quadratic in the number of cells",
    "not modelled: Src/Eval.v has no tail-call elimination: for a self tail call inside a function with catch clauses whose clause "
    "itself faults, the evaluator offers the exception to the replaced activations; the implementation (and property C13's loop "
    "reading) does not; the generator gives no catch clauses to template functions whose recursive call is in tail position",
    "`|>` and tuples are not in Src/Syntax.v: the pretty-printer spells f(a, b, c) as (a, b) : (T, T) |> f(c) (profile pipe); "
    "the evaluator sees the plain call (equivalence incl. evaluation order confirmed on the unchanged tree)",
]


def report_corpus(ctx, nevrun, tmp, corpus_dir, prop):
    n = 0
    for c in evaldiff.run_corpus(nevrun, tmp, corpus_dir):
        n += 1
        if not c["ok"]:
            ctx.violation(c["key"], "corpus program %s (%s): real outcome %s, evaluator %s" % (
                c["case"], c.get("note", ""), {k: c["real"][k] for k in ("kind", "value")}, {k: c["expected"][k] for k in ("kind", "value")}),
                {"case": c["case"], "source": c["source"], "ast": c["ast"], "expected": c["expected"],
                 "observed": c["real"], "log": c["log"]})
    return n


def report_common(ctx, r, prefix):
    """problems that are reported the same way by c02 and c08"""
    for e in r["errors"][:3]:
        ctx.correspondence_broken("generator-failed", e)
    for h in r["harness"][:3]:
        ctx.correspondence_broken("harness:" + h["what"], h)
    if r["rejected"]:
        c = r["rejected"][0]
        ctx.correspondence_broken("generator-program-rejected",
                                  {"count": len(r["rejected"]), "case": c["case"], "error": c.get("error"),
                                   "log": c.get("log"), "source": c["source"], "ast": c["ast"]})
    for c in sorted(r["crashes"], key=lambda c: 0 if "minimised" in c else 1)[:8]:
        ctx.violation(evaldiff.case_key("crash", c),
                      "the real compiler/VM crashed on a generated well-typed program (%s, %s%s)" % (
                          c["case"], c.get("crash"), ", with a VM heap of %d cells; no crash with 20000" % c["mem"] if c.get("mem") else ""),
                      evaldiff.replay_of(c))


def evidence(ctx, r, rule):
    ctx.count(evaluations=r["evaluations"], nontrivial=r["distinct_nontrivial"])
    for s in r["samples"][:4]:
        ctx.sample(s)
    ctx.coverage["rule"] = rule
    ctx.coverage["distribution"] = r["distribution"]
    ctx.coverage["throughput_programs_per_s"] = r["throughput_programs_per_s"]
    ctx.coverage["generator_cpu_s"] = r["generator_cpu_s"]
    by = {}
    for kind in ("c02", "c08", "crashes", "rejected"):
        for c in r[kind]:
            by.setdefault(c.get("profile", "?"), {}).setdefault(kind, 0)
            by[c.get("profile", "?")][kind] += 1
    for p, d in r["distribution"].items():
        by.setdefault(p, {})["cases"] = d["programs"]
    ctx.coverage["cases_by_profile"] = by
    ctx.coverage["cases"] = r["cases"]
    ctx.coverage["agreeing_cases"] = r["agree"]
    ctx.coverage["heap_configurations"] = {"cells": r.get("heaps", []), "mode": r.get("heap_mode"), "default_cells": 20000,
                                           "small_heap_runs": r.get("heap_runs", 0),
                                           "small_heap_runs_agreeing_with_evaluator": r.get("heap_agree", 0),
                                           "small_heap_runs_skipped_heap_limit": r.get("heap_limits", 0)}
    ctx.coverage["skipped"] = {"vm stack/heap limit reached": r["limits"],
                               "not run: batch time budget exhausted (only when many programs time out)": r["notrun"],
                               "dropped by the generator (evaluator time limit / fuel)": sum(
                                   v for d in r["distribution"].values() for k, v in d["outcomes"].items() if k.startswith("dropped."))}
    ctx.coverage["partial"] = ("the evaluator is a theorem-backed oracle only for the proved stages of compile_correct; "
                               "for the rest of the modelled core it is a model validated against the code by this run")


def run(ctx):
    ctx.proofs()
    lib = common.repobuild("asan")
    nevrun = common.cc_driver("nevrun", ["common/nevrun.c"], lib)
    ok, log = evaldiff.build_eval()
    if not ok:
        ctx.correspondence_broken("ocaml-build", log[-3000:])
        return
    tmp = tempfile.mkdtemp(prefix="corpus_", dir=ctx.outdir)
    ncorpus = report_corpus(ctx, nevrun, tmp, CORPUS, "C02")
    shutil.rmtree(tmp, ignore_errors=True)
    n = 3400 if ctx.tier == "quick" else 54000
    r = evaldiff.run_evaldiff(ctx, evaldiff.ALL_PROFILES, n, ctx.tier, variants=("o",), nevrun=nevrun,
                              shrink_max=2 if ctx.tier == "quick" else 5,
                              shrink_budget_s=45 if ctx.tier == "quick" else 90, heaps=HEAPS, heap_mode="rotate")
    report_common(ctx, r, "evaldiff")
    seen = set()
    for c in sorted(r["c02"], key=lambda c: (0 if "minimised" in c else 1, c["nodes"])):
        key = evaldiff.case_key("evaldiff", c)
        if key in seen or len(seen) >= 8:
            continue
        seen.add(key)
        m = c.get("minimised")
        what = "real result/prints/exception differ from the reference evaluator on %s" % c["case"]
        if c.get("mem"):
            what += " with a VM heap of %d cells (agrees with 20000)" % c["mem"]
        if m:
            what += " (minimised to %d nodes: evaluator %s, real %s)" % (m["nodes"], m["expected"], m["real"])
        ctx.violation(key, what, evaldiff.replay_of(c))
    # ---- the compiler-correctness fragment (Properties_C02b.v): Src/Compile.v must equal the real
    # emitter's code instruction by instruction, VM/ValueVM.v must run like the real VM, and (theorem)
    # ValueVM on compiled code equals the evaluator
    try:
        from checks.parts import compiletie
        ct = compiletie.run_compiletie(ctx, 1600 if ctx.tier == "quick" else 12000, ctx.seed, level=2)
        if ct:
            for d in ct["run_diffs"][:3]:
                if d.get("valuevm") == d.get("evaluator"):
                    ctx.violation("compiletie:real-differs-from-evaluator:case%s" % d.get("case"),
                                  "fragment program: the real VM gives %s, the evaluator (and the value-level VM model) %s" % (
                                      d.get("real"), d.get("evaluator")), d)
    except Exception as ex:        # the fragment tie is additional to the differential above
        ctx.correspondence_broken("compiletie-crashed", repr(ex)[:500])
    # level 3 (stage-3 model with frames, coq/Src/Compile3.v + coq/VM/ValueVM3.v): several top-level functions,
    # calls, recursion, self tail calls; the model's WHOLE module image and exception table against the real
    # module, ValueVM3 against the real VM (result, prints, exception, peak sp, instruction count) and the evaluator
    try:
        from checks.parts import compiletie
        ct3 = compiletie.run_compiletie(ctx, 500 if ctx.tier == "quick" else 6000, ctx.seed, level=3)
        if ct3:
            for d in ct3["run_diffs"][:3]:
                if d.get("valuevm") is not None and d.get("valuevm") == d.get("evaluator"):
                    ctx.violation("compiletie3:real-differs-from-evaluator:case%s" % d.get("case"),
                                  "F3 program: the real VM gives %s, the evaluator (and the value-level VM model) %s" % (
                                      d.get("real"), d.get("evaluator")), d)
    except Exception as ex:
        ctx.correspondence_broken("compiletie3-crashed", repr(ex)[:500])
    # level 5 (same engine): F3 + catch clauses — clause segments, CLEAR_STACK / PUSH_EXCEPT chains, one exception
    # table entry per segment, faults in bodies, in arguments of pending calls, in callees and inside clauses
    try:
        from checks.parts import compiletie
        ct5 = compiletie.run_compiletie(ctx, 500 if ctx.tier == "quick" else 5000, ctx.seed, level=5)
        if ct5:
            for d in ct5["run_diffs"][:3]:
                if d.get("valuevm") is not None and d.get("valuevm") == d.get("evaluator"):
                    ctx.violation("compiletie5:real-differs-from-evaluator:case%s" % d.get("case"),
                                  "F5 program: the real VM gives %s, the evaluator (and the value-level VM model) %s" % (
                                      d.get("real"), d.get("evaluator")), d)
    except Exception as ex:
        ctx.correspondence_broken("compiletie5-crashed", repr(ex)[:500])
    # level 4 (engine compile4 = Src/Compile4.v + VM/ValueVM4.v): F5 + nested functions and closures — sibling
    # runs (ALLOC / REWRITE), function expressions, captured parameters / let / var at any depth (ID_GLOBAL),
    # function values stored / passed / returned / called after the definer returned, shared counters,
    # recursive nested functions (COPYGLOB), the breadth-first order of nested bodies
    try:
        from checks.parts import compiletie
        ct4 = compiletie.run_compiletie(ctx, 500 if ctx.tier == "quick" else 5000, ctx.seed, level=4)
        if ct4:
            for d in ct4["run_diffs"][:3]:
                if d.get("valuevm") is not None and d.get("valuevm") == d.get("evaluator"):
                    ctx.violation("compiletie4:real-differs-from-evaluator:case%s" % d.get("case"),
                                  "F4 program: the real VM gives %s, the evaluator (and the value-level VM model) %s" % (
                                      d.get("real"), d.get("evaluator")), d)
    except Exception as ex:
        ctx.correspondence_broken("compiletie4-crashed", repr(ex)[:500])
    # level 7 (engine compile4 again): level 4 + one-dimensional int arrays — array literals bound by let / var
    # (the elements last to first; INT n; MK_INIT_ARRAY 1), index reads in and out of bounds (ARRAYREF_DEREF 1,
    # index_out_of_bounds through the exception table, also inside closures and catch clauses), element assignment
    try:
        from checks.parts import compiletie
        ct7 = compiletie.run_compiletie(ctx, 400 if ctx.tier == "quick" else 4000, ctx.seed, level=7)
        if ct7:
            for d in ct7["run_diffs"][:3]:
                if d.get("valuevm") is not None and d.get("valuevm") == d.get("evaluator"):
                    ctx.violation("compiletie7:real-differs-from-evaluator:case%s" % d.get("case"),
                                  "F7 program: the real VM gives %s, the evaluator (and the value-level VM model) %s" % (
                                      d.get("real"), d.get("evaluator")), d)
    except Exception as ex:
        ctx.correspondence_broken("compiletie7-crashed", repr(ex)[:500])
    # level 8 (engine compile4): level 7 + records with int fields — construction (the fields last to first; RECORD n),
    # the nil record (NIL_RECORD_REF), field reads (VECREF_VEC_DEREF 0 f; SLIDE 1 1; nil_pointer through the exception
    # table, also inside closures and catch clauses), field assignment
    try:
        from checks.parts import compiletie
        ct8 = compiletie.run_compiletie(ctx, 400 if ctx.tier == "quick" else 4000, ctx.seed, level=8)
        if ct8:
            for d in ct8["run_diffs"][:3]:
                if d.get("valuevm") is not None and d.get("valuevm") == d.get("evaluator"):
                    ctx.violation("compiletie8:real-differs-from-evaluator:case%s" % d.get("case"),
                                  "F8 program: the real VM gives %s, the evaluator (and the value-level VM model) %s" % (
                                      d.get("real"), d.get("evaluator")), d)
    except Exception as ex:
        ctx.correspondence_broken("compiletie8-crashed", repr(ex)[:500])
    ctx.assumptions.extend(NOT_MODELLED)
    ctx.coverage["disagreeing_cases"] = len(r["c02"])
    ctx.coverage["corpus_programs"] = ncorpus
    evidence(ctx, r, "type-directed random programs (seed %d), one per (profile, derived seed, index); a program counts as "
                     "non-trivial when its trace exercises the mechanism of its profile (arith: >= 8 arithmetic operators; order: "
                     "an evaluation-order probe with >= 3 prints; alias: an aliasing probe followed by an assignment and a print; "
                     "closure: a closure called after its definer returned; shadow: >= 2 shadowing binders; loops: a loop; "
                     "records/arrays: construction + access; catch: a catch clause actually ran (its marker was printed); "
                     "tailrec: a self tail call loop of 150..450 iterations was run) and real and evaluator outcome agree; "
                     "distinct = distinct source texts; evaluations = programs run with the default heap + runs with a small heap"
                     % ctx.seed)
